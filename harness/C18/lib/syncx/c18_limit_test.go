package syncx_test

import (
	"fmt"
	"math"
	"sync"
	"sync/atomic"
	"testing"
	"time"

	"github.com/anishathalye/porcupine"
	"github.com/gotid/god/lib/syncx"
	"pgregory.net/rapid"
	"verif.local/kit"
)

// ---------------------------------------------------------------------------
// Limit and TimeoutLimit
//
// ops: "borrow"  Borrow (Limit) / Borrow(A ms) (TimeoutLimit); on success hold H, then Return
//      "try"     TryBorrow; on success hold H, then Return
//      "ret"     Return without a borrow of this goroutine
// Every successful borrow is returned by its goroutine, so a blocked Borrow
// always gets its turn and no case can deadlock.
//
// A limit of 0 ("a limit of n" with n = 0: NewLimit / NewTimeoutLimit accept
// it, a disabled gate) is inside the statement: no borrow may ever succeed and
// every Return is a Return without a borrow. TimeoutLimit(0): every timed
// borrow waits out its timeout, with unmatched Returns arriving while it is
// parked. Limit(0): Borrow() must block for ever, so such a borrow is issued
// from a goroutine of its own (c18Parked) and the script goes on; what is
// still parked at the end of the case is the expected outcome, not a leak.
// ---------------------------------------------------------------------------

// c18Parked is a blocking Borrow() on a plain Limit of 0.
type c18Parked struct {
	ev   c18Ev
	done atomic.Bool // Borrow returned during the scripted part of the case
}

// c18Timeout of a timed borrow: A milliseconds, or (E != 0) one of the extreme
// but legal values: "wait for ever" idioms and values next to the overflow
// boundaries of int64 nanosecond arithmetic. Inside the bubble they do not
// expire within the case unless every goroutine is blocked for good.
func c18Timeout(op c18Op) time.Duration {
	switch op.E {
	case 1:
		return time.Duration(math.MaxInt64)
	case 2:
		return time.Duration(math.MaxInt64) - time.Millisecond
	case 3:
		return time.Duration(math.MaxInt64 / 2)
	case 4:
		return time.Duration(1<<62 + 1)
	case 5:
		return time.Duration(1<<62 - 1)
	case 6:
		return 100 * 365 * 24 * time.Hour
	case 7:
		return time.Duration(math.MaxInt64) - time.Duration(rand18(op))
	case 8:
		return -time.Nanosecond
	case 9:
		return -time.Millisecond
	case 10:
		return time.Duration(math.MinInt64)
	case 11:
		return time.Nanosecond
	case 12:
		return time.Hour
	}
	return time.Duration(op.A) * c18ms
}

// rand18: a small slack derived from the op itself (pure function of the case)
func rand18(op c18Op) int64 { return int64(op.A*1000 + op.H + 1) }

// c18EndOfTime: virtual instant (since the start of a case, 2000-01-01) at which
// the runtime's timers saturate (int64 nanoseconds since 1970). A case whose
// clock got there (an extreme borrow whose wake-up was lost waited "for ever")
// is not judged: durations can no longer be measured.
const c18EndOfTime = time.Duration(math.MaxInt64-946684800*1000000000) - time.Hour

type c18Limiter interface {
	TryBorrow() bool
	Return() error
}

func c18LimitInterp(t *testing.T, c c18Case, timed bool) kit.Verdict {
	v := c18NewV()
	c18CaseClasses(v, c)
	v.class(fmt.Sprintf("n=%d", c.N))
	size := func(m int) int { n, _ := c18Settings(c, m); return n }
	if c.D && c.N2 != c.N {
		v.class("two-instances-with-different-sizes")
	}
	full, res := c18PlayRounds(t, c, !timed, func(clk *c18Clock, log *c18Log) (func(g, i int, op c18Op), func()) {
		// two limits of the same size live side by side; op.M picks one
		lims := make([]c18Limiter, c18Inst)
		plains := make([]syncx.Limit, c18Inst)
		tls := make([]syncx.TimeoutLimit, c18Inst)
		for m := 0; m < c18Inst; m++ {
			if timed {
				tls[m] = syncx.NewTimeoutLimit(size(m))
				lims[m] = tls[m]
			} else {
				plains[m] = syncx.NewLimit(size(m))
				lims[m] = plains[m]
			}
		}
		ret := func(g, i int, op c18Op, sub string) {
			ev := c18Ev{G: g, I: i, Op: op, Sub: sub}
			ev.Inv = clk.now()
			err := lims[op.M].Return()
			ev.Ret = clk.now()
			ev.OK = err == nil
			if err != nil && err != syncx.ErrLimitReturn {
				ev.Err = -1
			}
			log.ev(ev)
		}
		// the holder's critical section: Return is deferred, so a holder that
		// panics (Key=1; recovered one frame up, like recover middleware) still
		// gives its slot back
		hold := func(g, i int, op c18Op) {
			c18Try(func() {
				defer ret(g, i, op, "return")
				c18Sleep(op.H)
				if op.Key == 1 {
					panic(c18Panic{"limit holder"})
				}
			})
		}
		// Limit(0).Borrow(): parked on a goroutine of its own
		var parkedMu sync.Mutex
		var parked []*c18Parked
		var closing atomic.Bool
		park := func(g, i int, op c18Op) {
			p := &c18Parked{ev: c18Ev{G: g, I: i, Op: op, Sub: "borrow"}}
			p.ev.Inv = clk.now()
			parkedMu.Lock()
			parked = append(parked, p)
			parkedMu.Unlock()
			go func() {
				plains[op.M].Borrow()
				if closing.Load() {
					return // let go by the epilogue's clean-up, not part of the history
				}
				ev := p.ev
				ev.Ret = clk.now()
				ev.OK = true
				p.done.Store(true)
				log.ev(ev)
				hold(g, i, op)
			}()
		}
		// Rescue: a timed borrow with an extreme timeout whose wake-up was lost
		// (tolerated same-instant race) would wait until the end of representable
		// time. After every scripted activity must be over, a helper goroutine
		// borrows and returns a slot a few times on each instance - ordinary,
		// recorded operations - which signals such a waiter.
		var helperDone chan struct{}
		if timed {
			horizon, extremes := 10, 0
			for _, g := range c.Gs {
				for _, o := range g {
					horizon += o.G + o.H
					if o.K == "borrow" && o.E == 0 {
						horizon += o.A
					}
					if o.K == "borrow" && o.E != 0 {
						extremes++
						horizon += 3700 * 1000 // E=12 is one hour
					}
				}
			}
			if extremes > 0 {
				helperDone = make(chan struct{})
				go func() {
					defer close(helperDone)
					time.Sleep(time.Duration(horizon) * c18ms)
					for k := 0; k <= extremes; k++ {
						for m := 0; m < c18Inst; m++ {
							op := c18Op{K: "try", M: m}
							ev := c18Ev{G: -1, I: k*c18Inst + m, Op: op, Sub: "try"}
							ev.Inv = clk.now()
							ev.OK = lims[m].TryBorrow()
							ev.Ret = clk.now()
							log.ev(ev)
							if ev.OK {
								ret(-1, k*c18Inst+m, op, "return")
							}
						}
						time.Sleep(c18ms)
					}
				}()
			}
		}
		return func(g, i int, op c18Op) {
			switch op.K {
			case "borrow":
				ev := c18Ev{G: g, I: i, Op: op, Sub: "borrow"}
				ev.Inv = clk.now()
				if timed {
					err := tls[op.M].Borrow(c18Timeout(op))
					ev.OK = err == nil
					if err != nil && err != syncx.ErrTimeout {
						ev.Err = -1
					}
				} else if size(op.M) == 0 {
					park(g, i, op)
					return
				} else {
					plains[op.M].Borrow()
					ev.OK = true
				}
				ev.Ret = clk.now()
				log.ev(ev)
				if ev.OK {
					hold(g, i, op)
				}
			case "try":
				ev := c18Ev{G: g, I: i, Op: op, Sub: "try"}
				ev.Inv = clk.now()
				ev.OK = lims[op.M].TryBorrow()
				ev.Ret = clk.now()
				log.ev(ev)
				if ev.OK {
					hold(g, i, op)
				}
			case "ret":
				ret(g, i, op, "unmatched-return")
			}
		}, func() {
			if helperDone != nil {
				<-helperDone
			}
			parkedMu.Lock()
			ps := parked
			parkedMu.Unlock()
			if len(ps) == 0 {
				return
			}
			// every borrower that got through (it holds <= 5 ms and its deferred
			// Return may let the next one through) is over after this
			time.Sleep(time.Duration(len(ps)+2) * 10 * c18ms)
			kit.Wait()
			closing.Store(true)
			for _, p := range ps {
				if !p.done.Load() {
					ev := p.ev
					ev.Sub, ev.Ret = "borrow-pending", clk.now()
					log.ev(ev)
				}
			}
			// clean-up, not recorded: where a Return can let a parked Borrow go,
			// let them all go; where it cannot they stay (expected residue)
			for m := 0; m < c18Inst; m++ {
				for k := 0; k <= len(ps); k++ {
					if plains[m].Return() != nil {
						break
					}
				}
			}
			kit.Wait()
		}
	})
	pendingParked := 0
	for _, ev := range full.evs {
		if ev.Sub == "borrow-pending" {
			pendingParked++
		}
	}
	if pendingParked > 0 && res.Leak {
		// Borrow() on a limit of 0 blocks for ever: that IS the specified result
		res = kit.BubbleResult{}
	}

	for _, ev := range full.evs {
		if ev.Ret.T >= c18EndOfTime {
			out := v.done(kit.BubbleResult{})
			out.Excluded, out.Fail, out.NonTrivial = true, "", false
			out.Classes = append(out.Classes, "clock-reached-end-of-time(excluded)")
			return out
		}
	}
	// every instance is judged on its own history against its own limit
	for inst := 0; inst < c18Inst; inst++ {
	log := full.inst(inst)
	if len(log.evs) == 0 {
		continue
	}
	c := c
	c.N = size(inst)
	what := "limit"
	if timed {
		what = "timeout-limit"
	}
	if inst > 0 {
		what += fmt.Sprintf("[instance %d]", inst)
	}
	if c.N == 0 {
		v.class("limit-of-zero")
		for _, ev := range log.evs {
			switch ev.Sub {
			case "unmatched-return":
				for _, w := range log.evs {
					if (w.Sub == "borrow" || w.Sub == "borrow-pending") && w.Inv.S < ev.Inv.S && w.Ret.S > ev.Ret.S {
						v.class("limit-of-zero:unmatched-return-while-a-borrower-is-parked")
						if !timed {
							// the situation of the fixed finding limit-zero-rendezvous
							v.class("limit-zero-rendezvous(situation-of-the-fixed-finding)")
						}
						v.nt = true
					}
				}
			case "borrow-pending":
				v.class("limit-of-zero:Borrow()-parked-until-the-end")
			}
		}
		// the statement, read for n = 0: no borrow is ever outstanding
		for _, ev := range log.evs {
			if (ev.Sub == "borrow" || ev.Sub == "try") && ev.OK {
				v.failf("%s(0) g%d#%d %s succeeded: 1 outstanding borrow on a limit of 0", what, ev.G, ev.I, ev.Sub)
			}
		}
	}
	// lower bound on outstanding borrows: acquired for sure once the borrow has
	// returned, possibly released as soon as a successful Return was invoked.
	// upper bound: possibly acquired once a (finally successful) borrow was
	// invoked, released for sure once a successful Return has returned.
	var lb, ub c18Bound
	for _, ev := range log.evs {
		switch ev.Sub {
		case "borrow", "try":
			if ev.OK {
				lb = append(lb, c18Delta{ev.Ret.S, +1})
				ub = append(ub, c18Delta{ev.Inv.S, +1})
			}
		default:
			if ev.OK {
				lb = append(lb, c18Delta{ev.Inv.S, -1})
				ub = append(ub, c18Delta{ev.Ret.S, -1})
			}
		}
	}
	lb, ub = lb.sorted(), ub.sorted()
	if m, at := lb.max(); m > c.N {
		v.failf("%s(%d): %d borrows were outstanding at stamp %d (borrows already returned to their callers minus Returns already invoked)", what, c.N, m, at)
	}
	var pops []porcupine.Operation
	for _, ev := range log.evs {
		name := fmt.Sprintf("%s(%d) g%d#%d %s", what, c.N, ev.G, ev.I, ev.Sub)
		if ev.Err == -1 {
			v.failf("%s returned an unexpected error value", name)
		}
		switch ev.Sub {
		case "return", "unmatched-return":
			mn, _ := lb.rangeOver(ev.Inv.S, ev.Ret.S)
			if !ev.OK {
				v.class("return-error")
				if mn > 0 {
					v.failf("%s reported ErrLimitReturn although at least %d borrows were outstanding during the whole call", name, mn)
				}
			} else if ev.Sub == "unmatched-return" {
				v.class("unmatched-return-took-a-slot")
			}
			// a successful Return needs a borrow that could have been acquired
			// (this Return's own -1 sits at Ret.S, the last stamp of the range, so
			// the maximum over the range is the bound without it)
			if _, mx := ub.rangeOver(ev.Inv.S, ev.Ret.S); ev.OK && mx <= 0 {
				v.failf("%s succeeded although no borrow can have been outstanding", name)
			}
			pops = append(pops, porcupine.Operation{ClientId: ev.G, Input: c18PIn{K: "return"}, Output: c18POut{OK: ev.OK}, Call: ev.Inv.S, Return: ev.Ret.S})
		case "try":
			if !ev.OK {
				v.class("try-refused")
				if _, mx := ub.rangeOver(ev.Inv.S, ev.Ret.S); mx < c.N {
					v.failf("%s refused although at most %d of %d borrows can have been outstanding during the call", name, mx, c.N)
				}
			}
			pops = append(pops, porcupine.Operation{ClientId: ev.G, Input: c18PIn{K: "try"}, Output: c18POut{OK: ev.OK}, Call: ev.Inv.S, Return: ev.Ret.S})
		case "borrow":
			if ev.OK && ev.Op.Key == 1 {
				v.class("holder-panicked-before-deferred-return")
			}
			waited := ev.Ret.T - ev.Inv.T
			if waited > 0 {
				v.class("borrow-blocked")
				v.nt = true
			}
			if timed {
				to := c18Timeout(ev.Op)
				if ev.Op.E >= 8 && ev.Op.E <= 10 {
					v.class("negative-timeout")
				} else if ev.Op.E != 0 {
					v.class("extreme-timeout")
					if waited > 0 && ev.OK {
						v.class("extreme-timeout-borrow-blocked-then-woken")
					}
				}
				if !ev.OK {
					v.class("timeout")
					if waited < to {
						v.failf("%s(timeout %v) reported ErrTimeout after only %v of virtual time", name, to, waited)
					}
				} else if waited > 0 {
					v.class("timed-borrow-woken")
				}
			}
			if ev.OK {
				pops = append(pops, porcupine.Operation{ClientId: ev.G, Input: c18PIn{K: "borrow"}, Output: c18POut{OK: true}, Call: ev.Inv.S, Return: ev.Ret.S})
			} else {
				// a timed-out borrow is a sequence of refused attempts: no effect
				pops = append(pops, porcupine.Operation{ClientId: ev.G, Input: c18PIn{K: "noop"}, Output: c18POut{}, Call: ev.Inv.S, Return: ev.Ret.S})
			}
		}
	}
	if timed {
		c18JudgeWakeup(v, log, c)
	}
	n := c.N
	c18Linearizable(v, what, porcupine.Model{
		Init: func() interface{} { return 0 },
		Step: func(state, in, out interface{}) (bool, interface{}) {
			cnt, i, o := state.(int), in.(c18PIn), out.(c18POut)
			switch i.K {
			case "borrow":
				return cnt < n, cnt + 1
			case "try":
				if o.OK {
					return cnt < n, cnt + 1
				}
				return cnt >= n, cnt
			case "return":
				if o.OK {
					return cnt > 0, cnt - 1
				}
				return cnt == 0, cnt
			}
			return true, cnt
		},
	}, pops)
	}
	return v.done(res)
}

// c18JudgeWakeup: a waiting timed borrow is woken by a Return. The statement
// itself only bounds when ErrTimeout may be reported; this rule is the sharing
// half of TimeoutLimit's contract (DESIGN: "a borrow that could succeed before
// its timeout does") restricted to the situations where the implementation's
// signalling has no same-instant race, so that it is sound:
// a borrow W that timed out is wrong if at some virtual instant t strictly
// inside its wait (i) no Borrow/TryBorrow at all was invoked at t (no newcomer
// can take the slot or miss a signal) and (ii) the Returns that succeeded at t
// are at least as many as the timed borrows waiting at t (W included): every
// Signal then meets a waiter and every woken waiter finds a free slot.
func c18JudgeWakeup(v *c18V, log *c18Log, c c18Case) {
	for _, w := range log.evs {
		if w.Sub != "borrow" || w.OK {
			continue
		}
		instants := map[time.Duration]bool{}
		for _, r := range log.evs {
			if (r.Sub == "return" || r.Sub == "unmatched-return") && r.OK && r.Inv.T > w.Inv.T && r.Inv.T < w.Ret.T {
				instants[r.Inv.T] = true
			}
		}
		for t := range instants {
			returns, waiting, newcomers := 0, 0, 0
			for _, e := range log.evs {
				switch e.Sub {
				case "return", "unmatched-return":
					if e.OK && e.Inv.T == t {
						returns++
					}
				case "borrow":
					if e.Inv.T == t {
						newcomers++
					} else if e.Inv.T < t && e.Ret.T >= t && e.Ret.T > e.Inv.T {
						waiting++
					}
				case "try":
					if e.Inv.T == t {
						newcomers++
					}
				}
			}
			if newcomers != 0 && returns >= waiting {
				// the unchanged code can lose the signal here (a Return racing a
				// borrower that is between its refused TryBorrow and its wait, or
				// a newcomer taking the slot): statement silent, tolerated
				v.class("timeout-despite-return-at-racy-instant(tolerated)")
			}
			if newcomers == 0 {
				v.class("wakeup-decidable-instant")
				if returns >= waiting {
					v.failf("timeout-limit(%d): Borrow g%d#%d(timeout %v) waited from t=%v and timed out at t=%v although at t=%v %d Return(s) succeeded with only %d timed borrow(s) waiting and no other borrower arriving", c.N, w.G, w.I, c18Timeout(w.Op), w.Inv.T, w.Ret.T, t, returns, waiting)
				}
			}
		}
	}
}

func c18LimitGen(timed bool) func(rt *rapid.T) c18Case {
	return func(rt *rapid.T) c18Case {
		c := c18Case{N: rapid.SampledFrom([]int{1, 1, 2, 0, 2, 3, 1, 2}).Draw(rt, "n")}
		c.Gs = c18GenGs(rt, 4, func(rt *rapid.T, burst bool) c18Op {
			op := c18Op{K: rapid.SampledFrom([]string{"borrow", "borrow", "borrow", "try", "try", "ret"}).Draw(rt, "k")}
			if op.K != "ret" {
				op.H = c18Hold(rt)
				if rapid.IntRange(0, 5).Draw(rt, "holderPanics") == 0 {
					op.Key = 1
				}
			}
			if timed && op.K == "borrow" {
				op.A = rapid.SampledFrom([]int{0, 1, 2, 2, 3, 4, 5, 8}).Draw(rt, "timeout")
				if rapid.IntRange(0, 5).Draw(rt, "extreme") == 0 {
					op.E = rapid.IntRange(1, 12).Draw(rt, "extremeKind")
				}
			}
			return op
		})
		c18DrawInstances(rt, c.Gs)
		if rapid.IntRange(0, 1).Draw(rt, "differentSizes") == 0 {
			c.D, c.N2 = true, rapid.IntRange(0, 3).Draw(rt, "n2")
		}
		// on a limit of 0 nothing ever wakes a timed borrow: the "wait for ever"
		// timeouts become the other scale-free ones (negative, 1 ns, 1 h), so that
		// every borrow of a case ends within representable time
		for g := range c.Gs {
			for i := range c.Gs[g] {
				o := &c.Gs[g][i]
				if n, _ := c18Settings(c, o.M); n == 0 && o.E >= 1 && o.E <= 7 {
					o.E = 8 + (o.E-1)%5
				}
			}
		}
		return c
	}
}

func TestVerif_C18_limit(t *testing.T) {
	kit.Run(t, c18ID, "limit", kit.Opts{Quick: 6000, Thorough: 200000}, c18LimitGen(false),
		func(c c18Case) kit.Verdict { return c18LimitInterp(t, c, false) })
}

func TestVerif_C18_timeoutlimit(t *testing.T) {
	kit.Run(t, c18ID, "timeoutlimit", kit.Opts{Quick: 6000, Thorough: 200000}, c18LimitGen(true),
		func(c c18Case) kit.Verdict { return c18LimitInterp(t, c, true) })
}
