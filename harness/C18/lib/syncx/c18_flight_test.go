package syncx_test

import (
	"fmt"
	"io"
	"strings"
	"sync"
	"sync/atomic"
	"testing"

	"github.com/gotid/god/lib/syncx"
	"pgregory.net/rapid"
	"verif.local/kit"
)

// ---------------------------------------------------------------------------
// SingleFlight
// ---------------------------------------------------------------------------

func c18KeyName(k int) string { return fmt.Sprintf("k%d", k) }

// c18FlightFn builds the callback of one call: it registers an execution,
// sleeps the hold time and returns (execution id, tagged error or nil).
func c18FlightFn(clk *c18Clock, log *c18Log, nexec *atomic.Int64, inside []atomic.Int32, overlap *atomic.Int32, g, i int, op c18Op, ev *c18Ev, nest func()) func() (interface{}, error) {
	return func() (interface{}, error) {
		id := int(nexec.Add(1))
		ev.NExec++
		ev.Exec = id
		if inside != nil {
			if inside[op.Key].Add(1) != 1 {
				overlap.Add(1)
			}
		}
		st := clk.now()
		if nest != nil {
			nest() // re-entrant call into the same object, on the next key up
		}
		c18Sleep(op.H)
		en := clk.now()
		if inside != nil {
			inside[op.Key].Add(-1)
		}
		// the result is built before the execution is logged, so that the log
		// holds exactly what was returned
		var val interface{}
		var err error
		noID := false
		if op.A == 1 {
			kind := op.E
			if kind < c18ErrKindsCount {
				kind = c18FailKind(kind)
			}
			err, noID = c18MakeErr(kind, id), c18ErrNoID(kind)
		}
		vk := op.V
		if (vk == 6 || vk == 7) && (op.A != 1 || noID) {
			vk = 0 // a pair that carries no id at all could not be attributed
		}
		val = c18MakeVal(vk, id)
		log.exec(c18Exec{ID: id, Key: op.Key, G: g, I: i, Start: st, End: en, Fail: op.A == 1, Pan: op.A == 2, NoID: noID, Sig: c18Sig(val, err)})
		if op.A == 2 {
			panic(c18PanicValue(op, "flight callback"))
		}
		return val, err
	}
}

// c18ErrKindName labels the error half of a signature (type|message) without
// its id.
func c18ErrKindName(errSig string) string {
	typ := strings.SplitN(errSig, "|", 2)[0]
	switch {
	case strings.Contains(errSig, "typed nil"):
		return "typed-nil"
	case strings.Contains(errSig, "dial: context deadline exceeded"):
		return "double-wrapped-context.DeadlineExceeded"
	case strings.Contains(errSig, "gave up: context canceled"):
		return "wrapped-context.Canceled"
	case strings.Contains(errSig, "gave up: context deadline exceeded"):
		return "wrapped-context.DeadlineExceeded"
	case strings.HasSuffix(errSig, "|context canceled"):
		return "context.Canceled"
	case strings.HasSuffix(errSig, "|context deadline exceeded"):
		return "context.DeadlineExceeded"
	case strings.HasSuffix(errSig, "|EOF"):
		return "io.EOF"
	}
	return typ
}

func c18NotePanic(ev *c18Ev, panicked bool, foreign interface{}) {
	ev.Pan = panicked
	if foreign != nil {
		ev.Foreign = fmt.Sprint(foreign)
	}
}

// c18FailKind: the shared sentinel carries no execution id, so a failing
// create / fn never uses it.
func c18FailKind(k int) int {
	if k == c18ErrNil || k == c18ErrSentinel {
		return c18ErrStruct
	}
	return k
}

// c18ValTag: the execution a returned pair belongs to, read from the value
// or, for the value kinds that carry nothing (nil, typed nil pointer), from
// the error; -1 if neither tells. Whether the pair is intact is decided by
// comparing signatures (c18Sig), not tags.
func c18ValTag(val interface{}, err error) int {
	if id := c18ValID(val); id != -1 {
		return id
	}
	if p, ok := val.(*c18ValStruct); val == nil || (ok && p == nil) {
		if id := c18ErrTag(err); id > 0 {
			return id
		}
	}
	return -1
}

func c18FlightInterp(t *testing.T, c c18Case) kit.Verdict {
	v := c18NewV()
	c18CaseClasses(v, c)
	var overlap atomic.Int32
	log, res := c18PlayRounds(t, c, true, func(clk *c18Clock, log *c18Log) (func(g, i int, op c18Op), func()) {
		sfs := []syncx.SingleFlight{syncx.NewSingleFlight(), syncx.NewSingleFlight()}
		var nexec atomic.Int64
		inside := make([]atomic.Int32, 3*c18Inst)
		names := c18KeyNames(c.KA)
		var do func(g, i int, op c18Op)
		do = func(g, i int, op c18Op) {
			sf, name := sfs[op.M], names[op.Key] // both groups use the same key strings
			var nest func()
			if op.R == 1 && op.Key < 2 {
				inner := c18Op{K: "do", Key: op.Key + 1, M: op.M}
				nest = func() { do(g, i+100, inner) }
			}
			op.Key = c18EffKey(op) // the oracle's key is (instance, key)
			ev := c18Ev{G: g, I: i, Op: op}
			fn := c18FlightFn(clk, log, &nexec, inside, &overlap, g, i, op, &ev, nest)
			var val interface{}
			var err error
			ev.Inv = clk.now()
			pan, foreign := c18Try(func() {
				if op.K == "doex" {
					val, ev.Fresh, err = sf.DoEx(name, fn)
				} else {
					val, err = sf.Do(name, fn)
				}
			})
			ev.Ret = clk.now()
			c18NotePanic(&ev, pan, foreign)
			ev.Val, ev.Err = c18ValTag(val, err), c18ErrTag(err)
			if !pan {
				ev.Sig = c18Sig(val, err)
			}
			log.ev(ev)
		}
		return do, nil
	})
	for _, e := range log.execs {
		if i := strings.Index(e.Sig, " || "); i >= 0 && !e.Pan {
			v.class("result-value:" + strings.SplitN(e.Sig[:i], "|", 2)[0])
			if e.Fail {
				v.class("result-error:" + c18ErrKindName(e.Sig[i+4:]))
			}
		}
	}
	if overlap.Load() != 0 {
		v.failf("single-flight: two executions of one key were inside their callbacks at the same time (overlap counter)")
	}
	c18JudgeFlight(v, log, "single-flight", true)
	return v.done(res)
}

// c18JudgeFlight is the history oracle shared by SingleFlight and the creator
// executions of ResourceManager.
//
//	(a) integrity: every call returns the (value, error) pair of exactly one
//	    execution E of its own key; a call that ran its callback returns its own
//	    execution's pair, ran it once, and DoEx reports fresh exactly then.
//	(b) a call that did not execute shares an execution whose executing call
//	    overlaps it in real-time order, and returns only after E's callback ended
//	    ("a later call always executes afresh": no stale result).
//	(c) executions of one key never overlap.
//	(d) must-share: a call invoked after E's callback started (logical order) and
//	    at a virtual instant strictly before E's callback ends finds E in flight
//	    (the entry is registered before the callback starts and removed after it
//	    returns; virtual time cannot advance while the caller is runnable), so it
//	    must not execute and must return E's pair.
func c18JudgeFlight(v *c18V, log *c18Log, what string, checkFresh bool) {
	execByID := map[int]c18Exec{}
	for _, e := range log.execs {
		execByID[e.ID] = e
	}
	callOf := map[int]c18Ev{} // executing call by exec id
	for _, ev := range log.evs {
		if ev.Exec != 0 {
			callOf[ev.Exec] = ev
		}
	}
	keys := map[int]bool{}
	for _, ev := range log.evs {
		keys[ev.Op.Key] = true
		name := fmt.Sprintf("%s call g%d#%d %s(group %d key %d)", what, ev.G, ev.I, ev.Op.K, ev.Op.Key/3, ev.Op.Key%3)
		if ev.NExec > 1 {
			v.failf("%s ran its callback %d times", name, ev.NExec)
		}
		if ev.Foreign != "" {
			v.failf("%s panicked with a value no callback raised: %s", name, ev.Foreign)
			continue
		}
		if ev.Pan {
			// the executing call of a panicking callback: the panic reaches the
			// caller; nothing else is specified for this call
			if ev.Exec == 0 || !execByID[ev.Exec].Pan {
				v.failf("%s panicked although its own callback did not", name)
			}
			v.class("callback-panicked")
			continue
		}
		if ev.Exec != 0 && execByID[ev.Exec].Pan {
			v.class("callback-panic-swallowed(unspecified)")
			continue
		}
		if ev.Exec != 0 {
			wantErr := 0
			if ev.Op.A == 1 {
				wantErr = ev.Exec
				if execByID[ev.Exec].NoID {
					wantErr = -1
				}
			}
			if ev.Val != ev.Exec || ev.Err != wantErr {
				v.failf("%s executed its callback (execution %d) but returned value tag %d / error tag %d", name, ev.Exec, ev.Val, ev.Err)
			}
			if ev.Sig != execByID[ev.Exec].Sig {
				v.failf("%s executed its callback (execution %d), which returned [%s], but the call returned [%s]", name, ev.Exec, execByID[ev.Exec].Sig, ev.Sig)
			}
			if checkFresh && ev.Op.K == "doex" && !ev.Fresh {
				v.failf("%s executed its callback but DoEx reported fresh=false", name)
			}
			continue
		}
		v.class("shared-result")
		if checkFresh && ev.Op.K == "doex" && ev.Fresh {
			v.failf("%s did not execute but DoEx reported fresh=true", name)
		}
		if ev.Val == -1 && ev.Err == 0 {
			// (nil, nil): what the waiters of a panicked execution get (the
			// execution has no result; their outcome is unspecified). Legitimate
			// only for a call that overlaps the panicking call.
			overlapsPanicked, afterPanicked := false, 0
			for _, e := range log.execs {
				if !e.Pan || e.Key != ev.Op.Key {
					continue
				}
				ec := callOf[e.ID]
				if ev.Inv.S < ec.Ret.S && e.Start.S < ev.Ret.S && ev.Ret.S > e.End.S {
					overlapsPanicked = true
				} else if ev.Inv.S > ec.Ret.S {
					afterPanicked = e.ID
				}
			}
			if overlapsPanicked {
				v.class("waiter-of-panicked-execution(result unspecified)")
				continue
			}
			if afterPanicked != 0 {
				v.failf("%s returned (nil, nil) without executing, after execution %d of its key had panicked and the panicking call had returned: a later call must execute afresh (the finished flight is still registered)", name, afterPanicked)
				continue
			}
		}
		e, ok := execByID[ev.Val]
		if !ok {
			v.failf("%s did not execute and returned value tag %d which no execution produced", name, ev.Val)
			continue
		}
		if e.Key != ev.Op.Key {
			v.failf("%s returned the result of execution %d of another key %d", name, e.ID, e.Key)
		}
		wantErr := 0
		if e.Fail {
			wantErr = e.ID
			if e.NoID {
				wantErr = -1
			}
			v.class("shared-error")
		}
		if ev.Err != wantErr {
			v.failf("%s shares execution %d but got error tag %d, execution returned %d (value/error pair torn)", name, e.ID, ev.Err, wantErr)
		}
		if ev.Sig != e.Sig {
			v.failf("%s shares execution %d, which returned [%s], but received [%s]: all calls served by one execution receive its result", name, e.ID, e.Sig, ev.Sig)
		}
		if ev.Ret.S < e.End.S {
			v.failf("%s returned the result of execution %d before that execution's callback ended", name, e.ID)
		}
		ec := callOf[e.ID]
		if ev.Inv.S > ec.Ret.S {
			v.failf("%s was invoked after the call that ran execution %d had returned, yet received its (stale) result instead of executing afresh", name, e.ID)
		}
		if ev.Inv.T == e.End.T {
			v.class("arrival-at-end-instant")
		}
	}
	if len(keys) > 1 {
		v.class("multi-key")
	}
	for i := 0; i < len(log.execs); i++ {
		for j := i + 1; j < len(log.execs); j++ {
			a, b := log.execs[i], log.execs[j]
			if a.Key != b.Key {
				continue
			}
			v.class("re-execution-of-key")
			if !(a.End.S < b.Start.S || b.End.S < a.Start.S) {
				v.failf("%s: executions %d and %d of key %d overlap (stamps %d..%d and %d..%d)", what, a.ID, b.ID, a.Key, a.Start.S, a.End.S, b.Start.S, b.End.S)
			}
		}
	}
	for _, e := range log.execs {
		for _, ev := range log.evs {
			if ev.Op.Key != e.Key || ev.Exec == e.ID {
				continue
			}
			if e.Pan {
				if ec := callOf[e.ID]; ev.Inv.S > ec.Ret.S && ec.Ret.S != 0 {
					v.class("call-after-panicked-execution")
				}
				if ev.Inv.S > e.Start.S && ev.Inv.T < e.End.T {
					v.nt = true
					v.class("arrival-during-held-panicking-execution")
				}
				continue // what overlapping callers of a panicking execution get is unspecified
			}
			if ev.Inv.S > e.Start.S && ev.Inv.T < e.End.T {
				v.nt = true
				v.class("arrival-during-held-execution")
				if ev.Inv.T == e.Start.T {
					v.class("arrival-at-start-instant")
				}
				if ev.Exec != 0 || ev.Val != e.ID {
					v.failf("%s: call g%d#%d(key %d) arrived (stamp %d, t=%v) while execution %d was in flight (t=%v..%v) but executed=%v and returned value tag %d: overlapping calls must be served by the one execution",
						what, ev.G, ev.I, ev.Op.Key, ev.Inv.S, ev.Inv.T, e.ID, e.Start.T, e.End.T, ev.Exec != 0, ev.Val)
				}
			}
		}
	}
}

func c18FlightGen(rt *rapid.T) c18Case {
	c := c18Case{Gs: c18GenGs(rt, 4, func(rt *rapid.T, burst bool) c18Op {
		op := c18Op{K: rapid.SampledFrom([]string{"do", "do", "doex"}).Draw(rt, "k"), Key: c18Key(rt), H: c18Hold(rt)}
		op.A = rapid.SampledFrom([]int{0, 0, 0, 0, 0, 1, 1, 1, 1, 2}).Draw(rt, "outcome")
		if op.A == 1 {
			op.E = c18FlightErrKind(rt)
		}
		if rapid.Bool().Draw(rt, "otherValueKind") {
			op.V = rapid.IntRange(1, c18ValKinds-1).Draw(rt, "valueKind")
		}
		if rapid.IntRange(0, 5).Draw(rt, "reentrant") == 0 {
			op.R = 1
		}
		return op
	})}
	c18DrawInstances(rt, c.Gs)
	c.KA = c18DrawKeyFamily(rt)
	return c
}

func TestVerif_C18_singleflight(t *testing.T) {
	kit.Run(t, c18ID, "singleflight", kit.Opts{Quick: 6000, Thorough: 200000}, c18FlightGen,
		func(c c18Case) kit.Verdict { return c18FlightInterp(t, c) })
}

// ---------------------------------------------------------------------------
// LockedCalls
// ---------------------------------------------------------------------------

func c18LockedInterp(t *testing.T, c c18Case) kit.Verdict {
	v := c18NewV()
	c18CaseClasses(v, c)
	var overlap atomic.Int32
	log, res := c18PlayRounds(t, c, true, func(clk *c18Clock, log *c18Log) (func(g, i int, op c18Op), func()) {
		lcs := []syncx.LockedCalls{syncx.NewLockedCalls(), syncx.NewLockedCalls()}
		var nexec atomic.Int64
		inside := make([]atomic.Int32, 3*c18Inst)
		names := c18KeyNames(c.KA)
		var do func(g, i int, op c18Op)
		do = func(g, i int, op c18Op) {
			lc, name := lcs[op.M], names[op.Key]
			var nest func()
			if op.R == 1 && op.Key < 2 {
				inner := c18Op{K: "do", Key: op.Key + 1, M: op.M}
				nest = func() { do(g, i+100, inner) }
			}
			op.Key = c18EffKey(op)
			ev := c18Ev{G: g, I: i, Op: op}
			fn := c18FlightFn(clk, log, &nexec, inside, &overlap, g, i, op, &ev, nest)
			var val interface{}
			var err error
			ev.Inv = clk.now()
			pan, foreign := c18Try(func() { val, err = lc.Do(name, fn) })
			ev.Ret = clk.now()
			c18NotePanic(&ev, pan, foreign)
			ev.Val, ev.Err = c18ValTag(val, err), c18ErrTag(err)
			log.ev(ev)
		}
		return do, nil
	})
	if overlap.Load() != 0 {
		v.failf("locked-calls: two executions of one key were inside their callbacks at the same time (overlap counter)")
	}
	// every call executes exactly once and receives its own result
	for _, ev := range log.evs {
		name := fmt.Sprintf("locked-calls call g%d#%d(key %d)", ev.G, ev.I, ev.Op.Key)
		if ev.Foreign != "" {
			v.failf("%s panicked with a value no callback raised: %s", name, ev.Foreign)
			continue
		}
		if ev.NExec != 1 {
			v.failf("%s ran its callback %d times, want exactly once", name, ev.NExec)
			continue
		}
		if ev.Op.A == 2 {
			// panicking callback: the panic reaches the caller (or is swallowed:
			// unspecified); the call has executed, nothing more is specified
			v.class("callback-panicked")
			if ev.Pan {
				v.class("panic-reached-caller")
			}
			continue
		}
		if ev.Pan {
			v.failf("%s panicked although its own callback did not", name)
			continue
		}
		wantErr := 0
		if ev.Op.A == 1 {
			wantErr = ev.Exec
		}
		if ev.Val != ev.Exec || ev.Err != wantErr {
			v.failf("%s executed as execution %d but returned value tag %d / error tag %d", name, ev.Exec, ev.Val, ev.Err)
		}
	}
	// a call that no other call of its own group and key overlaps finds nothing
	// in flight and starts executing at once (groups do not wait for each other)
	for _, ev := range log.evs {
		alone := ev.NExec == 1
		for _, o := range log.evs {
			if (o.G != ev.G || o.I != ev.I) && o.Op.Key == ev.Op.Key && o.Inv.S < ev.Ret.S && ev.Inv.S < o.Ret.S {
				alone = false
			}
		}
		if b, ok := c18ExecOf(log, ev.Exec); alone && ok {
			for _, o := range log.execs {
				if o.Key != ev.Op.Key && o.Key%3 == ev.Op.Key%3 && o.Start.S < b.Start.S && o.End.T > ev.Inv.T && o.End.T > o.Start.T {
					v.class("same-key-held-in-the-other-group-meanwhile")
				}
			}
			if b.Start.T != ev.Inv.T {
				v.failf("locked-calls: call g%d#%d(group %d key %d) was invoked at t=%v with no other call of its group and key in flight, but its execution started only at t=%v", ev.G, ev.I, ev.Op.Key/3, ev.Op.Key%3, ev.Inv.T, b.Start.T)
			}
		}
	}
	waiters := map[int]int{}
	for i := 0; i < len(log.execs); i++ {
		a := log.execs[i]
		for j := i + 1; j < len(log.execs); j++ {
			b := log.execs[j]
			if a.Key == b.Key && !(a.End.S < b.Start.S || b.End.S < a.Start.S) {
				v.failf("locked-calls: executions %d and %d of key %d overlap (stamps %d..%d and %d..%d)", a.ID, b.ID, a.Key, a.Start.S, a.End.S, b.Start.S, b.End.S)
			}
			if a.Key != b.Key && !(a.End.S < b.Start.S || b.End.S < a.Start.S) && (a.End.T > a.Start.T) {
				v.class("different-keys-run-concurrently")
			}
		}
		for _, ev := range log.evs {
			if a.Pan && ev.Op.Key == a.Key && ev.Inv.S > a.End.S {
				v.class("call-after-panicked-execution")
			}
			if ev.Op.Key == a.Key && ev.Exec != a.ID && ev.Inv.S > a.Start.S && ev.Inv.T < a.End.T {
				v.nt = true
				v.class("arrival-during-held-execution")
				waiters[a.ID]++
				// the arriving call must start its own execution only after a ended
				if b, ok := c18ExecOf(log, ev.Exec); ok && b.Start.T < a.End.T {
					v.failf("locked-calls: call g%d#%d(key %d) arrived while execution %d was in flight (t=%v..%v) and started executing at t=%v", ev.G, ev.I, ev.Op.Key, a.ID, a.Start.T, a.End.T, b.Start.T)
				}
			}
		}
	}
	for _, n := range waiters {
		if n >= 2 {
			v.class("two-or-more-waiters-on-one-execution")
		}
	}
	return v.done(res)
}

func c18ExecOf(log *c18Log, id int) (c18Exec, bool) {
	for _, e := range log.execs {
		if e.ID == id {
			return e, true
		}
	}
	return c18Exec{}, false
}

func c18LockedGen(rt *rapid.T) c18Case {
	c := c18Case{Gs: c18GenGs(rt, 4, func(rt *rapid.T, burst bool) c18Op {
		op := c18Op{K: "do", Key: c18Key(rt), H: c18Hold(rt)}
		op.A = c18Outcome(rt)
		if op.A == 1 {
			op.E = c18ErrKind(rt, false)
		}
		if rapid.IntRange(0, 5).Draw(rt, "reentrant") == 0 {
			op.R = 1
		}
		return op
	})}
	c18DrawInstances(rt, c.Gs)
	c.KA = c18DrawKeyFamily(rt)
	return c
}

func TestVerif_C18_lockedcalls(t *testing.T) {
	kit.Run(t, c18ID, "lockedcalls", kit.Opts{Quick: 6000, Thorough: 200000}, c18LockedGen,
		func(c c18Case) kit.Verdict { return c18LockedInterp(t, c) })
}

// ---------------------------------------------------------------------------
// ResourceManager
// ---------------------------------------------------------------------------

type c18Closer struct {
	id     int
	key    int
	ek     int // kind of error value its Close returns (0: nil)
	preset bool // registered with Set, not created by a Get
	closed atomic.Int32
}

func (c *c18Closer) Close() error {
	c.closed.Add(1)
	return c18MakeErr(c.ek, c.id)
}

// Gets only; the root calls Close once after every script has ended (the
// documentation forbids any use of the manager after Close, so Get racing
// Close is outside the contract and not generated).
func c18ManagerInterp(t *testing.T, c c18Case) kit.Verdict {
	v := c18NewV()
	c18CaseClasses(v, c)
	var mu sync.Mutex
	var closers []*c18Closer
	closeErrs := make([]error, c18Inst)
	closePanic := make([]string, c18Inst)
	closedAfterFirst := map[int]int32{}
	log, res := c18PlayRounds(t, c, true, func(clk *c18Clock, log *c18Log) (func(g, i int, op c18Op), func()) {
		ms := []*syncx.ResourceManager{syncx.NewResourceManager(), syncx.NewResourceManager()}
		var nexec atomic.Int64
		names := c18KeyNames(c.KA)
		// Set: resources registered up front for the (manager, key) pairs in the
		// bit mask P; Gets of such a key never create, Close closes them too
		for ek := 0; ek < 3*c18Inst; ek++ {
			if c.P&(1<<uint(ek)) != 0 {
				cl := &c18Closer{id: 1000 + ek, key: ek, ek: (ek * 3) % c18ErrKindsCount, preset: true}
				closers = append(closers, cl)
				at := clk.now()
				log.exec(c18Exec{ID: cl.id, Key: ek, G: -1, Start: at, End: at})
				ms[ek/3].Set(names[ek%3], cl)
			}
		}
		var do func(g, i int, op c18Op)
		do = func(g, i int, op c18Op) {
				m, name := ms[op.M], names[op.Key] // both managers use the same key strings
				var nest func()
				if op.R == 1 && op.Key < 2 {
					inner := c18Op{K: "get", Key: op.Key + 1, M: op.M}
					nest = func() { do(g, i+100, inner) }
				}
				op.Key = c18EffKey(op) // the oracle's key is (manager, key)
				ev := c18Ev{G: g, I: i, Op: op}
				create := func() (io.Closer, error) {
					id := int(nexec.Add(1))
					ev.NExec++
					ev.Exec = id
					st := clk.now()
					if nest != nil {
						nest() // the creator asks the same manager for the next key up
					}
					c18Sleep(op.H)
					en := clk.now()
					log.exec(c18Exec{ID: id, Key: op.Key, G: g, I: i, Start: st, End: en, Fail: op.A == 1, Pan: op.A == 2})
					if op.A == 2 {
						panic(c18PanicValue(op, "resource creator"))
					}
					if op.A == 1 {
						if op.E >= c18ErrKindsCount {
							return nil, c18MakeErr(op.E, id)
						}
						return nil, c18MakeErr(c18FailKind(op.E), id)
					}
					cl := &c18Closer{id: id, key: op.Key, ek: op.E}
					mu.Lock()
					closers = append(closers, cl)
					mu.Unlock()
					return cl, nil
				}
				var r io.Closer
				var err error
				ev.Inv = clk.now()
				pan, foreign := c18Try(func() { r, err = m.Get(name, create) })
				ev.Ret = clk.now()
				ev.Pan = pan
				if foreign != nil {
					ev.Foreign = fmt.Sprint(foreign)
				}
				ev.Err = c18ErrTag(err)
				ev.Val = -1
				if cl, ok := r.(*c18Closer); ok && cl != nil {
					ev.Val = cl.id
				} else if r == nil {
					ev.Val = 0
				}
				log.ev(ev)
			}
		return do, func() {
				// each manager closes its own resources, all of them, and only them
				for m := 0; m < c18Inst; m++ {
					m := m
					pan, val := c18Try(func() { closeErrs[m] = ms[m].Close() })
					if pan {
						closePanic[m] = fmt.Sprint("panic: ", val)
					}
					if m == 0 {
						mu.Lock()
						for _, cl := range closers {
							closedAfterFirst[cl.id] = cl.closed.Load()
						}
						mu.Unlock()
					}
				}
			}
	})
	// Close: no panic whatever the closers return, and a non-nil error exactly
	// when one of the manager's own closers failed
	if res.OK() {
		for m := 0; m < c18Inst; m++ {
			failing, kinds := 0, map[int]int{}
			for _, cl := range closers {
				if cl.key/3 == m && cl.ek != c18ErrNil {
					failing++
					kinds[cl.ek]++
				}
			}
			for k, n := range kinds {
				if n >= 2 {
					v.class(fmt.Sprintf("close: %d closers return error kind %d", 2, k))
				}
			}
			if failing >= 2 {
				v.class("close-several-failing-closers")
			}
			if closePanic[m] != "" {
				v.failf("resource-manager %d: Close panicked with %d failing closers (%s)", m, failing, closePanic[m])
			} else if (closeErrs[m] != nil) != (failing > 0) {
				v.failf("resource-manager %d: Close returned %v although %d of its closers failed", m, closeErrs[m], failing)
			}
		}
	}
	// keys registered with Set: every Get returns that resource and never creates
	for _, cl := range closers {
		if !cl.preset {
			continue
		}
		v.class("resource-registered-with-Set")
		for _, ev := range log.evs {
			if ev.Op.Key == cl.key && (ev.Exec != 0 || ev.Val != cl.id || ev.Err != 0 || ev.Pan) {
				v.failf("resource-manager: manager %d key %d was registered with Set (resource %d) but Get g%d#%d ran its creator=%v, returned resource %d, error tag %d, panicked=%v", cl.key/3, cl.key%3, cl.id, ev.G, ev.I, ev.Exec != 0, ev.Val, ev.Err, ev.Pan)
			}
		}
	}
	// at most one successful create per key; its resource is what every Get returns
	resOfKey := map[int]c18Exec{}
	for _, e := range log.execs {
		if e.Pan {
			v.class("panicked-create")
			continue
		}
		if e.Fail {
			v.class("failed-create")
			continue
		}
		if prev, ok := resOfKey[e.Key]; ok {
			v.failf("resource-manager: key %d was created successfully twice (executions %d and %d)", e.Key, prev.ID, e.ID)
		}
		resOfKey[e.Key] = e
	}
	for i := 0; i < len(log.execs); i++ {
		for j := i + 1; j < len(log.execs); j++ {
			a, b := log.execs[i], log.execs[j]
			if a.Key == b.Key && !(a.End.S < b.Start.S || b.End.S < a.Start.S) {
				v.failf("resource-manager: creators %d and %d of key %d overlap", a.ID, b.ID, a.Key)
			}
		}
	}
	execByID := map[int]c18Exec{}
	callOf := map[int]c18Ev{}
	for _, e := range log.execs {
		execByID[e.ID] = e
	}
	for _, ev := range log.evs {
		if ev.Exec != 0 {
			callOf[ev.Exec] = ev
		}
	}
	for _, ev := range log.evs {
		name := fmt.Sprintf("resource-manager Get g%d#%d(manager %d key %d)", ev.G, ev.I, ev.Op.Key/3, ev.Op.Key%3)
		if ev.NExec > 1 {
			v.failf("%s ran its creator %d times", name, ev.NExec)
		}
		if ev.Pan {
			// The creator's panic reaches its caller. Callers that shared the
			// panicked flight get (nil, nil) from the group, which Get then
			// type-asserts: on the unchanged tree they panic too ("interface
			// conversion: interface is nil"). The statement is silent on what the
			// overlapping callers of a panicking creator get: tolerated, but
			// only for calls that overlap the panicking call.
			if ev.Exec != 0 && execByID[ev.Exec].Pan {
				v.class("creator-panic-reached-caller")
				continue
			}
			ok := false
			for _, e := range log.execs {
				if ec := callOf[e.ID]; e.Pan && e.Key == ev.Op.Key && ev.Exec == 0 && ev.Inv.S < ec.Ret.S && e.Start.S < ev.Ret.S {
					ok = true
				}
			}
			if ok {
				v.class("waiter-of-panicked-creator-panics-too(unspecified,tolerated)")
			} else {
				v.failf("%s panicked (%s) although neither its own creator nor an overlapping creator of the key did: a later Get must create afresh", name, ev.Foreign)
			}
			continue
		}
		if ev.Exec != 0 && execByID[ev.Exec].Pan {
			v.class("creator-panic-swallowed(unspecified)")
			continue
		}
		if ev.Val == -1 {
			v.failf("%s returned a foreign resource", name)
			continue
		}
		if ev.Val != 0 {
			// success: must be the key's one resource, no error
			e := execByID[ev.Val]
			if ev.Err != 0 || e.Key != ev.Op.Key || e.Fail {
				v.failf("%s returned resource %d (key %d) with error tag %d", name, ev.Val, e.Key, ev.Err)
			}
			if ev.Ret.S < e.End.S {
				v.failf("%s returned resource %d before its creator finished", name, ev.Val)
			}
			if ev.Exec == 0 {
				v.class("get-served-without-create")
			}
			continue
		}
		// failure: the error of a failed creator of this key, own or shared from an overlapping call
		e, ok := execByID[ev.Err]
		if !ok || !e.Fail || e.Key != ev.Op.Key {
			v.failf("%s returned nil with error tag %d which no failed creator of the key produced", name, ev.Err)
			continue
		}
		if ev.Exec != 0 && ev.Exec != e.ID {
			v.failf("%s ran creator %d but returned the error of creator %d", name, ev.Exec, e.ID)
		}
		if ev.Exec == 0 {
			v.class("shared-error")
			if ec := callOf[e.ID]; ev.Inv.S > ec.Ret.S || ev.Ret.S < e.End.S {
				v.failf("%s shares the failure of creator %d whose call does not overlap it", name, e.ID)
			}
		}
	}
	// once a key's creator has succeeded, later Gets are served without creating
	for k, e := range resOfKey {
		for _, ev := range log.evs {
			if ev.Op.Key == k && ev.Inv.S > e.End.S && ev.Inv.T > e.End.T {
				v.class("get-after-created")
				if ev.Exec != 0 || ev.Val != e.ID || ev.Err != 0 {
					v.failf("resource-manager: Get g%d#%d(key %d) invoked after resource %d was created: ran creator=%v, returned resource %d, error tag %d", ev.G, ev.I, k, e.ID, ev.Exec != 0, ev.Val, ev.Err)
				}
			}
		}
	}
	// overlapping Gets of a key are served by the one creator in flight
	for _, e := range log.execs {
		for _, ev := range log.evs {
			if e.Pan {
				if ec := callOf[e.ID]; ev.Op.Key == e.Key && ev.Inv.S > ec.Ret.S && ec.Ret.S != 0 {
					v.class("get-after-panicked-create")
				}
				continue
			}
			if ev.Op.Key == e.Key && ev.Exec != e.ID && ev.Inv.S > e.Start.S && ev.Inv.T < e.End.T {
				v.nt = true
				v.class("arrival-during-held-create")
				if ev.Exec != 0 {
					v.failf("resource-manager: Get g%d#%d(key %d) arrived while creator %d was in flight (t=%v..%v) and ran its own creator %d", ev.G, ev.I, e.Key, e.ID, e.Start.T, e.End.T, ev.Exec)
				}
				want, wantErr := e.ID, 0
				if e.Fail {
					want, wantErr = 0, e.ID
				}
				if ev.Val != want || ev.Err != wantErr {
					v.failf("resource-manager: Get g%d#%d(key %d) overlapped creator %d but returned resource %d / error tag %d, want %d / %d", ev.G, ev.I, e.Key, e.ID, ev.Val, ev.Err, want, wantErr)
				}
			}
		}
	}
	// Close closes every created resource exactly once
	if res.OK() {
		for _, cl := range closers {
			if n := cl.closed.Load(); n != 1 {
				v.failf("resource-manager: resource %d of manager %d key %d was closed %d times after both managers were closed, want exactly once", cl.id, cl.key/3, cl.key%3, n)
			}
			if want := int32(1 - cl.key/3); closedAfterFirst[cl.id] != want {
				v.failf("resource-manager: after closing manager 0 only, resource %d of manager %d key %d had been closed %d times, want %d (a manager closes all of its own resources and no others)", cl.id, cl.key/3, cl.key%3, closedAfterFirst[cl.id], want)
			}
		}
		if len(closers) > 1 {
			v.class("close-several-resources")
		}
	}
	return v.done(res)
}

func c18ManagerGen(rt *rapid.T) c18Case {
	// one kind of error value dominates a case, so that several closers of one
	// manager often return the same kind (or the very same value)
	dominant := c18ErrKind(rt, true)
	c := c18Case{Gs: c18GenGs(rt, 4, func(rt *rapid.T, burst bool) c18Op {
		op := c18Op{K: "get", Key: c18Key(rt), H: c18Hold(rt)}
		op.A = rapid.SampledFrom([]int{0, 0, 0, 1, 1, 2}).Draw(rt, "outcome")
		// E: the error value of a failing create, or (successful create) of the
		// resource's Close; about half of the closers fail
		if op.A == 1 || (op.A == 0 && rapid.Bool().Draw(rt, "closerFails")) {
			op.E = dominant
			if rapid.IntRange(0, 2).Draw(rt, "otherKind") == 0 {
				op.E = c18ErrKind(rt, true)
			}
		}
		if op.A == 1 && rapid.IntRange(0, 2).Draw(rt, "fetchError") == 0 {
			// a creator that gave up on its own context, or failed with a custom
			// type (all of these carry the execution id)
			op.E = rapid.SampledFrom([]int{c18ErrWrapCanceled, c18ErrWrapDeadline, c18ErrPtr, c18ErrIsCanceled, c18ErrNetTimeout, c18ErrDoubleWrap}).Draw(rt, "fetchErrKind")
		}
		if rapid.IntRange(0, 5).Draw(rt, "reentrant") == 0 {
			op.R = 1
		}
		return op
	})}
	c18DrawInstances(rt, c.Gs)
	c.KA = c18DrawKeyFamily(rt)
	if rapid.IntRange(0, 2).Draw(rt, "presetWithSet") == 0 {
		c.P = rapid.IntRange(1, 1<<(3*c18Inst)-1).Draw(rt, "presetMask")
	}
	return c
}

func TestVerif_C18_resourcemanager(t *testing.T) {
	kit.Run(t, c18ID, "resourcemanager", kit.Opts{Quick: 5000, Thorough: 140000}, c18ManagerGen,
		func(c c18Case) kit.Verdict { return c18ManagerInterp(t, c) })
}
