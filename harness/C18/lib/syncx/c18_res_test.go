package syncx_test

import (
	"fmt"
	"runtime"
	"sync"
	"sync/atomic"
	"testing"
	"time"

	"github.com/anishathalye/porcupine"
	"github.com/gotid/god/lib/syncx"
	"pgregory.net/rapid"
	"verif.local/kit"
)

// ---------------------------------------------------------------------------
// RefResource
//
// ops: "use"  Use; on success hold H, then Clean. With A=1 Clean is called even
//             when Use was refused (a no-op by the specification: the resource
//             is already cleaned).
// Cleans never outnumber successful Uses before the resource is cleaned, so
// the reference count never goes negative (that region is unspecified).
// ---------------------------------------------------------------------------

func c18RefInterp(t *testing.T, c c18Case) kit.Verdict {
	v := c18NewV()
	c18CaseClasses(v, c)
	var cleanMu sync.Mutex
	var cleansOf [c18Inst][]c18Stamp
	var handshakes atomic.Int32
	// rounds (spin barrier before every i-th operation of a burst) only in half
	// of the cases: without it the goroutines of a burst run freely, so that a
	// call of one can arrive while the clean function of another is still inside
	full, res := c18PlayRounds(t, c, c.X == 0, func(clk *c18Clock, log *c18Log) (func(g, i int, op c18Op), func()) {
		var rrs [c18Inst]*syncx.RefResource
		var arrivals [c18Inst]atomic.Int32
		for m := 0; m < c18Inst; m++ {
			m := m
			rrs[m] = syncx.NewRefResource(func() {
				st := clk.now()
				cleanMu.Lock()
				cleansOf[m] = append(cleansOf[m], st)
				cleanMu.Unlock()
				// A slow clean function. It runs under the resource's mutex, so it
				// cannot sleep in virtual time (a waiter on a sync.Mutex is not
				// durably blocked: the bubble would wedge); it is slow in REAL terms:
				// it stays inside (bounded spin, c.P iterations) until another
				// goroutine is about to call Use / Clean on this resource, and then a
				// little longer, so that this call really arrives during the clean
				// function. Nothing depends on whether the meeting happens.
				a0 := arrivals[m].Load()
				for s := 0; s < c.P; s++ {
					if arrivals[m].Load() != a0 {
						handshakes.Add(1)
						for y := 0; y < 30; y++ {
							runtime.Gosched()
						}
						break
					}
					if s > 20 {
						runtime.Gosched()
					}
				}
				if c.N == 1 {
					// Clean holds the resource's mutex with a deferred Unlock and has
					// marked the resource cleaned before it calls the function
					panic(c18Panic{"ref-resource clean"})
				}
			})
		}
		return func(g, i int, op c18Op) {
			rr := rrs[op.M]
			ev := c18Ev{G: g, I: i, Op: op, Sub: "use"}
			ev.Inv = clk.now()
			arrivals[op.M].Add(1)
			err := rr.Use()
			ev.Ret = clk.now()
			ev.OK = err == nil
			if err != nil && err != syncx.ErrUseOfCleaned {
				ev.Err = -1
			}
			log.ev(ev)
			if ev.OK {
				c18Sleep(op.H)
			}
			if ev.OK || op.A == 1 {
				ce := c18Ev{G: g, I: i, Op: op, Sub: "clean", OK: ev.OK}
				ce.Inv = clk.now()
				arrivals[op.M].Add(1)
				pan, foreign := c18Try(func() { rr.Clean() })
				ce.Ret = clk.now()
				ce.Pan = pan
				if foreign != nil {
					ce.Foreign = fmt.Sprint(foreign)
				}
				log.ev(ce)
			}
		}, nil
	})
	if c.P > 0 {
		v.class("slow-clean-function(real-time)")
	}
	if handshakes.Load() > 0 {
		v.class("a-call-arrived-while-the-clean-function-was-inside")
		v.nt = true
	}
	// every instance is judged on its own history (a RefResource has no state
	// outside itself: what one instance does must not show in the other)
	for inst := 0; inst < c18Inst; inst++ {
		log := full.inst(inst)
		if len(log.evs) == 0 {
			if len(cleansOf[inst]) != 0 {
				v.failf("ref-resource[instance %d]: clean function ran without any call on this instance", inst)
			}
			continue
		}
		c18RefJudge(v, c, log, cleansOf[inst], res, inst)
	}
	return v.done(res)
}

func c18RefJudge(v *c18V, c c18Case, log *c18Log, cleans []c18Stamp, res kit.BubbleResult, inst int) {
	what := "ref-resource"
	if inst > 0 {
		what += fmt.Sprintf("[instance %d]", inst)
	}
	uses := 0
	var lb c18Bound // uses certainly outstanding
	var pops []porcupine.Operation
	for _, ev := range log.evs {
		if ev.Err == -1 {
			v.failf(what+": Use g%d#%d returned an unexpected error value", ev.G, ev.I)
		}
		switch ev.Sub {
		case "use":
			if ev.OK {
				uses++
				lb = append(lb, c18Delta{ev.Ret.S, +1})
			} else {
				v.class("use-refused")
			}
			pops = append(pops, porcupine.Operation{ClientId: ev.G, Input: c18PIn{K: "use"}, Output: c18POut{OK: ev.OK}, Call: ev.Inv.S, Return: ev.Ret.S})
		case "clean":
			if ev.Foreign != "" || (ev.Pan && c.N != 1) {
				v.failf(what+": Clean g%d#%d panicked although the clean function does not: %s", ev.G, ev.I, ev.Foreign)
			}
			if ev.Pan {
				v.class("clean-function-panicked")
			}
			if ev.OK { // Clean matching a successful Use
				lb = append(lb, c18Delta{ev.Inv.S, -1})
			} else {
				v.class("clean-after-refused-use")
			}
			pops = append(pops, porcupine.Operation{ClientId: ev.G, Input: c18PIn{K: "clean"}, Output: c18POut{}, Call: ev.Inv.S, Return: ev.Ret.S})
		}
	}
	lb = lb.sorted()
	if len(cleans) > 1 {
		v.failf(what+": the clean function ran %d times (stamps %v)", len(cleans), cleans)
	}
	if res.OK() {
		// every successful Use was matched by a Clean, so the count ended at zero
		if uses > 0 && len(cleans) == 0 {
			v.failf(what+": %d uses were all released but the clean function never ran", uses)
		}
		if uses == 0 && len(cleans) != 0 {
			v.failf(what+": clean function ran without any use")
		}
	}
	if len(cleans) > 0 {
		at := cleans[0]
		if mn, _ := lb.rangeOver(at.S, at.S); mn > 0 {
			v.failf(what+": the clean function ran (stamp %d, t=%v) while at least %d uses were still outstanding", at.S, at.T, mn)
		}
		for _, ev := range log.evs {
			if ev.Sub == "use" && ev.OK && ev.Inv.S > at.S {
				v.failf(what+": Use g%d#%d invoked after the resource was cleaned (stamp %d > %d) succeeded", ev.G, ev.I, ev.Inv.S, at.S)
			}
			if ev.Sub == "use" && !ev.OK {
				if ev.Ret.S < at.S {
					v.failf(what+": Use g%d#%d was refused before the resource was cleaned", ev.G, ev.I)
				}
			}
		}
	} else {
		for _, ev := range log.evs {
			if ev.Sub == "use" && !ev.OK {
				v.failf(what+": Use g%d#%d was refused although the resource was never cleaned", ev.G, ev.I)
			}
		}
	}
	// overlapping holders
	type span struct {
		g        int
		from, to time.Duration
	}
	var holds []span
	for _, a := range log.evs {
		if a.Sub == "use" && a.OK && a.Op.H > 0 {
			holds = append(holds, span{a.G, a.Ret.T, a.Ret.T + time.Duration(a.Op.H)*c18ms})
		}
	}
	for i := 0; i < len(holds); i++ {
		for j := i + 1; j < len(holds); j++ {
			if holds[i].g != holds[j].g && holds[i].from < holds[j].to && holds[j].from < holds[i].to {
				v.nt = true
				v.class("two-users-at-once")
			}
		}
	}
	type st struct {
		ref     int
		cleaned bool
	}
	c18Linearizable(v, what, porcupine.Model{
		Init: func() interface{} { return st{} },
		Step: func(state, in, out interface{}) (bool, interface{}) {
			s, i, o := state.(st), in.(c18PIn), out.(c18POut)
			switch i.K {
			case "use":
				if s.cleaned {
					return !o.OK, s
				}
				return o.OK, st{s.ref + 1, false}
			case "clean":
				if s.cleaned {
					return true, s
				}
				s.ref--
				if s.ref == 0 {
					s.cleaned = true
				}
				return true, s
			}
			return false, s
		},
	}, pops)
}

func c18RefGen(rt *rapid.T) c18Case {
	c := c18Case{Gs: c18GenGs(rt, 4, func(rt *rapid.T, burst bool) c18Op {
		return c18Op{K: "use", H: c18Hold(rt), A: rapid.SampledFrom([]int{0, 0, 1}).Draw(rt, "cleanAnyway")}
	})}
	if rapid.IntRange(0, 3).Draw(rt, "cleanPanics") == 0 {
		c.N = 1 // the clean function panics (recovered by the caller of Clean)
	}
	c18DrawInstances(rt, c.Gs)
	// real-time hold of the clean function (spin bound); long only in bursts,
	// where another goroutine can arrive at the same virtual instant
	burst := true
	for _, g := range c.Gs {
		for _, o := range g {
			if o.G != 0 || o.H != 0 {
				burst = false
			}
		}
	}
	if burst {
		c.P = rapid.SampledFrom([]int{0, 300, 3000, 3000}).Draw(rt, "cleanSpins")
		c.X = rapid.IntRange(0, 1).Draw(rt, "freeRunning")
	} else {
		c.P = rapid.SampledFrom([]int{0, 0, 100, 300}).Draw(rt, "cleanSpins")
	}
	return c
}

func TestVerif_C18_refresource(t *testing.T) {
	kit.Run(t, c18ID, "refresource", kit.Opts{Quick: 6000, Thorough: 200000}, c18RefGen,
		func(c c18Case) kit.Verdict { return c18RefInterp(t, c) })
}

// ---------------------------------------------------------------------------
// ManagedResource
//
// ops: "take"    Take
//      "broken"  MarkBroken(the resource this goroutine took last; A=1: the one before)
// generate runs under the resource's mutex and never sleeps.
// Sequential specification: state (current, generated); Take returns current,
// generating resource #generated+1 when there is none; MarkBroken(x) clears
// current iff it is x.
// ---------------------------------------------------------------------------

func c18ManagedInterp(t *testing.T, c c18Case) kit.Verdict {
	v := c18NewV()
	c18CaseClasses(v, c)
	var genOverlap atomic.Int32
	var generated atomic.Int64
	log, res := c18PlayRounds(t, c, true, func(clk *c18Clock, log *c18Log) (func(g, i int, op c18Op), func()) {
		var inside atomic.Int32
		var genCalls atomic.Int64
		mr := syncx.NewManagedResource(func() interface{} {
			if inside.Add(1) != 1 {
				genOverlap.Add(1)
			}
			if len(c.F) > 0 && c.F[int(genCalls.Add(1)-1)%len(c.F)].A == 2 {
				// Take holds the write lock with a deferred Unlock
				inside.Add(-1)
				panic(c18Panic{"managed-resource generate"})
			}
			id := int(generated.Add(1))
			inside.Add(-1)
			return id
		}, func(a, b interface{}) bool { return a == b })
		last := make([][2]int, len(c.Gs))
		return func(g, i int, op c18Op) {
			ev := c18Ev{G: g, I: i, Op: op, Sub: op.K}
			switch op.K {
			case "take":
				var x interface{}
				ev.Inv = clk.now()
				pan, foreign := c18Try(func() { x = mr.Take() })
				ev.Ret = clk.now()
				if pan {
					ev.Pan = true
					if foreign != nil {
						ev.Foreign = fmt.Sprint(foreign)
					}
					log.ev(ev)
					return
				}
				id, ok := x.(int)
				if !ok {
					id = -1
				}
				ev.Val = id
				if last[g][0] != id {
					last[g][1] = last[g][0]
					last[g][0] = id
				}
			case "broken":
				x := last[g][0]
				if op.A == 1 {
					x = last[g][1]
				}
				if x <= 0 {
					return
				}
				ev.Val = x
				ev.Inv = clk.now()
				mr.MarkBroken(x)
				ev.Ret = clk.now()
			}
			log.ev(ev)
		}, nil
	})
	if genOverlap.Load() != 0 {
		v.failf("managed-resource: two generate calls overlapped")
	}
	brokenIDs := map[int]bool{}
	var pops []porcupine.Operation
	for _, ev := range log.evs {
		switch ev.Sub {
		case "take":
			if ev.Foreign != "" {
				v.failf("managed-resource: Take g%d#%d panicked with a value generate did not raise: %s", ev.G, ev.I, ev.Foreign)
				continue
			}
			if ev.Pan {
				// generate panicked: no resource, nothing stored; legal only while
				// there is no current resource (checked by the model)
				v.class("generate-panicked")
				pops = append(pops, porcupine.Operation{ClientId: ev.G, Input: c18PIn{K: "take-panic"}, Output: c18POut{}, Call: ev.Inv.S, Return: ev.Ret.S})
				continue
			}
			if ev.Val <= 0 {
				v.failf("managed-resource: Take g%d#%d returned nil or a foreign value", ev.G, ev.I)
			}
			pops = append(pops, porcupine.Operation{ClientId: ev.G, Input: c18PIn{K: "take"}, Output: c18POut{Val: ev.Val}, Call: ev.Inv.S, Return: ev.Ret.S})
		case "broken":
			brokenIDs[ev.Val] = true
			v.class("mark-broken")
			if ev.Op.A == 1 {
				v.class("mark-broken-stale")
			}
			pops = append(pops, porcupine.Operation{ClientId: ev.G, Input: c18PIn{K: "broken", A: ev.Val}, Output: c18POut{}, Call: ev.Inv.S, Return: ev.Ret.S})
		}
	}
	if n := int(generated.Load()); n > 1+len(brokenIDs) {
		v.failf("managed-resource: %d resources generated although only %d distinct resources were ever marked broken", n, len(brokenIDs))
	}
	if generated.Load() > 1 {
		v.class("regenerated")
	}
	for _, b := range log.evs {
		if b.Sub != "broken" {
			continue
		}
		for _, tk := range log.evs {
			if tk.Sub == "take" && tk.Inv.S > b.Ret.S && tk.Val == b.Val {
				v.failf("managed-resource: Take g%d#%d returned resource %d after MarkBroken(%d) had completed", tk.G, tk.I, tk.Val, b.Val)
			}
		}
	}
	// same-instant operations of different goroutines
	for i := 0; i < len(log.evs); i++ {
		for j := i + 1; j < len(log.evs); j++ {
			if log.evs[i].G != log.evs[j].G && log.evs[i].Inv.T == log.evs[j].Inv.T {
				v.nt = true
			}
		}
	}
	type st struct{ cur, n int }
	c18Linearizable(v, "managed-resource", porcupine.Model{
		Init: func() interface{} { return st{} },
		Step: func(state, in, out interface{}) (bool, interface{}) {
			s, i, o := state.(st), in.(c18PIn), out.(c18POut)
			switch i.K {
			case "take":
				if s.cur == 0 {
					s.n++
					s.cur = s.n
				}
				return o.Val == s.cur, s
			case "broken":
				if s.cur == i.A {
					s.cur = 0
				}
				return true, s
			case "take-panic":
				return s.cur == 0, s
			}
			return false, s
		},
	}, pops)
	return v.done(res)
}

func c18ManagedGen(rt *rapid.T) c18Case {
	c := c18Case{Gs: c18GenGs(rt, 6, func(rt *rapid.T, burst bool) c18Op {
		k := rapid.SampledFrom([]string{"take", "take", "take", "broken", "broken"}).Draw(rt, "k")
		op := c18Op{K: k}
		if k == "broken" && rapid.IntRange(0, 3).Draw(rt, "stale") == 0 {
			op.A = 1
		}
		return op
	})}
	// plan for the n-th generate call: A=2 panics
	if rapid.IntRange(0, 2).Draw(rt, "generatePanics") == 0 {
		nf := rapid.IntRange(1, 4).Draw(rt, "nf")
		for i := 0; i < nf; i++ {
			c.F = append(c.F, c18Op{A: rapid.SampledFrom([]int{0, 0, 2}).Draw(rt, "outcome")})
		}
	}
	return c
}

func TestVerif_C18_managedresource(t *testing.T) {
	kit.Run(t, c18ID, "managedresource", kit.Opts{Quick: 5000, Thorough: 140000}, c18ManagedGen,
		func(c c18Case) kit.Verdict { return c18ManagedInterp(t, c) })
}

// ---------------------------------------------------------------------------
// ImmutableResource (not named by the statement text; the oracle is the weakest
// reading of the type's documented contract, see verif.json)
//
// ops: "get"  Get
// P = refresh interval on failure in ms. The n-th fetch invocation of a case
// holds F[n].H ms and fails when F[n].A == 1 (fetch takes no argument, so its
// behaviour is planned per invocation, not per caller).
// ---------------------------------------------------------------------------

type c18ImmCase struct {
	P  int       `json:"p"`
	X  int       `json:"x,omitempty"` // scale-free interval code (c18Dur)
	F  []c18Op   `json:"f"`
	Gs [][]c18Op `json:"gs"`
}

func c18ImmutableInterp(t *testing.T, ic c18ImmCase) kit.Verdict {
	v := c18NewV()
	c := c18Case{P: ic.P, Gs: ic.Gs}
	c18CaseClasses(v, c)
	interval := c18Dur(ic.P, ic.X)
	if ic.X != 0 {
		v.class(fmt.Sprintf("interval=%v", interval))
	}
	log, res := c18Play(t, c, func(clk *c18Clock, log *c18Log) (func(g, i int, op c18Op), func()) {
		var nexec atomic.Int64
		var ir *syncx.ImmutableResource
		ir = syncx.NewImmutableResource(func() (interface{}, error) {
			id := int(nexec.Add(1))
			plan := c18Op{}
			if len(ic.F) > 0 {
				plan = ic.F[(id-1)%len(ic.F)]
			}
			st := clk.now()
			if plan.R == 1 && !c18StampOverflows(st.T, interval) { // (with the known overflow the nested Get would fetch again, without end)
				// re-entrant: fetch asks the same resource (no lock is held during
				// fetch; the refresh stamp is already set, so this cannot recurse)
				nev := c18Ev{G: -1, I: id, Op: c18Op{K: "get"}, Sub: "nested-get"}
				nev.Inv = clk.now()
				_, _ = ir.Get()
				nev.Ret = clk.now()
				log.ev(nev)
			}
			c18Sleep(plan.H)
			en := clk.now()
			log.exec(c18Exec{ID: id, Start: st, End: en, Fail: plan.A != 0, Pan: plan.A == 2})
			if plan.A == 2 {
				panic(c18Panic{"immutable-resource fetch"})
			}
			if plan.A == 1 {
				return nil, c18MakeErr(c18FailKind(plan.E), id)
			}
			return id, nil
		}, syncx.WithRefreshIntervalOnFailure(interval))
		return func(g, i int, op c18Op) {
			ev := c18Ev{G: g, I: i, Op: op, Sub: "get"}
			var x interface{}
			var err error
			ev.Inv = clk.now()
			pan, foreign := c18Try(func() { x, err = ir.Get() })
			ev.Ret = clk.now()
			ev.Pan = pan
			if foreign != nil {
				ev.Foreign = fmt.Sprint(foreign)
			}
			ev.Err = c18ErrTag(err)
			ev.Val = -1
			if x == nil {
				ev.Val = 0
			} else if id, ok := x.(int); ok {
				ev.Val = id
			}
			log.ev(ev)
		}, nil
	})
	execByID := map[int]c18Exec{}
	for _, e := range log.execs {
		execByID[e.ID] = e
		if e.Fail {
			v.class("fetch-failed")
		}
	}
	// F1: a fetch is not started again before the interval has passed since the
	// previous start (starts at one and the same instant race and are tolerated)
	for _, a := range log.execs {
		for _, b := range log.execs {
			if a.Start.T < b.Start.T {
				if b.Start.T-a.Start.T < interval {
					v.failf("immutable-resource(interval %v): fetch %d started at t=%v, only %v after fetch %d started (t=%v)", interval, b.ID, b.Start.T, b.Start.T-a.Start.T, a.ID, a.Start.T)
				}
				v.class("refetch")
			}
		}
	}
	for _, ev := range log.evs {
		name := fmt.Sprintf("immutable-resource(interval %v) Get g%d#%d", interval, ev.G, ev.I)
		if ev.Sub == "nested-get" {
			v.class("re-entrant-fetch")
		}
		if ev.Foreign != "" {
			v.failf("%s panicked with a value fetch did not raise: %s", name, ev.Foreign)
			continue
		}
		if ev.Pan {
			v.class("fetch-panic-reached-caller")
		} else if ev.Val == -1 {
			v.failf("%s returned a foreign value", name)
			continue
		}
		if !ev.Pan && ev.Err != 0 {
			// the error handed on is the value some failed fetch returned, whatever its kind
			if e, ok := execByID[ev.Err]; !ok || !e.Fail || e.Pan || e.End.S > ev.Ret.S {
				v.failf("%s returned error tag %d which no finished failing fetch produced", name, ev.Err)
			}
			v.class("get-returned-fetch-error")
		}
		if !ev.Pan && ev.Val > 0 {
			// F3: the value of a successful fetch that had ended
			e, ok := execByID[ev.Val]
			if !ok || e.Fail || e.End.S > ev.Ret.S {
				v.failf("%s returned resource %d which no finished successful fetch produced", name, ev.Val)
			}
			// F2: never fetched again once a Get has delivered the resource
			for _, e := range log.execs {
				if e.Start.T > ev.Ret.T {
					v.failf("%s delivered resource %d at t=%v, yet fetch %d started later at t=%v", name, ev.Val, ev.Ret.T, e.ID, e.Start.T)
				}
			}
			v.class("get-delivered-resource")
		}
		// F4: a Get that finds no resource and no recent fetch must fetch
		must, candidate := true, false
		for _, e := range log.execs {
			switch {
			case !e.Fail && e.End.T <= ev.Inv.T:
				must = false // the resource may already be there
			case e.Start.T > ev.Inv.T:
			case e.Start.T == ev.Inv.T:
				if e.Start.S > ev.Inv.S && e.Start.S < ev.Ret.S {
					candidate = true
				} else {
					must = false // another caller's fetch at the very same instant
				}
			case ev.Inv.T-e.Start.T <= interval:
				must = false
				v.class("get-within-interval")
			}
		}
		if must {
			v.class("get-must-fetch")
			if !candidate {
				v.failf("%s found neither a resource nor a fetch started within the last %v, but did not fetch", name, interval)
			}
		}
	}
	for _, e := range log.execs {
		for _, ev := range log.evs {
			if ev.Inv.S > e.Start.S && ev.Inv.T < e.End.T {
				v.nt = true
				v.class("get-during-held-fetch")
			}
		}
	}
	return v.done(res)
}

func c18ImmutableGen(rt *rapid.T) c18ImmCase {
	c := c18ImmCase{P: rapid.SampledFrom([]int{0, 1, 2, 3, 5}).Draw(rt, "interval")}
	// Intervals stay small on purpose: ImmutableResource is not named by the
	// statement, so this rule is not widened to scale-free intervals (with
	// intervals next to MaxInt64 lastTime+interval overflows in maybeRefresh;
	// recorded as an observation in FINDINGS.md, not asserted).
	nf := rapid.IntRange(1, 4).Draw(rt, "nf")
	for i := 0; i < nf; i++ {
		f := c18Op{H: c18Hold(rt), A: rapid.SampledFrom([]int{0, 0, 1, 1, 1, 2}).Draw(rt, "outcome")}
		if f.A == 1 {
			f.E = c18ErrKind(rt, false)
		}
		if rapid.IntRange(0, 4).Draw(rt, "reentrant") == 0 {
			f.R = 1
		}
		c.F = append(c.F, f)
	}
	c.Gs = c18GenGs(rt, 5, func(rt *rapid.T, burst bool) c18Op { return c18Op{K: "get"} })
	return c
}

func TestVerif_C18_immutableresource(t *testing.T) {
	kit.Run(t, c18ID, "immutableresource", kit.Opts{Quick: 5000, Thorough: 140000}, c18ImmutableGen,
		func(c c18ImmCase) kit.Verdict { return c18ImmutableInterp(t, c) })
}
