package syncx_test

// C18 — lib/syncx primitives keep their exclusion and sharing contracts.
// Harness injected by /verif (overlay, external test package); see
// /verif/DESIGN.md "C18".
//
// NOTE: this file is compiled as part of module github.com/gotid/god whose
// go.mod says go 1.19: loop variables are per-loop, no min/max builtins, no
// range-over-int.
//
// A case is a list of goroutines, each a list of operations. Every operation
// carries the virtual gap slept before it (G, ms) and, where the primitive takes
// a callback or has an acquire/release pair, the virtual hold time (H, ms).
// All goroutines of a case run inside one synctest bubble; every invocation and
// response is stamped with (a) a process-wide logical sequence number taken
// from one atomic counter, which is consistent with real-time order, and (b)
// the virtual instant. Oracles are invariants over that history.

import (
	"context"
	"errors"
	"fmt"
	"hash/crc32"
	"hash/fnv"
	"io"
	"math"
	"os"
	"runtime"
	"sort"
	"strconv"
	"strings"
	"sync"
	"sync/atomic"
	"testing"
	"time"

	"github.com/anishathalye/porcupine"
	"github.com/gotid/god/lib/errorx"
	"github.com/gotid/god/lib/hash"
	"pgregory.net/rapid"
	"verif.local/kit"
)

const (
	c18ID = "C18"
	c18ms = time.Millisecond
)

type c18Op struct {
	G   int    `json:"g,omitempty"`   // virtual ms slept before the operation
	K   string `json:"k"`             // operation kind (per rule)
	Key int    `json:"key,omitempty"` // key index
	H   int    `json:"h,omitempty"`   // virtual ms held (inside callback / between acquire and release)
	A   int    `json:"a,omitempty"`   // extra argument (fail flag, timeout ms, ...)
	M   int    `json:"m,omitempty"`   // instance of the primitive the call goes to (0 or 1)
	E   int    `json:"e,omitempty"`   // kind of error VALUE a failing callback / closer returns (c18MakeErr)
	R   int    `json:"r,omitempty"`   // 1: the callback calls back into the same object (next key up; keys are ordered, so no cycle)
	V   int    `json:"v,omitempty"`   // kind of VALUE a single-flight callback returns (c18MakeVal)
}

// c18Inst: several instances of one primitive live in one process (and one
// bubble) and are used concurrently with the same keys. Every instance is
// judged by its own specification: for the keyed primitives the oracle's key
// is (instance, key), so a result, execution or resource that crosses
// instances is reported as belonging to another key; counts are per instance.
const c18Inst = 2

func c18EffKey(op c18Op) int { return op.M*3 + op.Key }

// c18DrawInstances sends the operations of about one case in three to two
// instances of the primitive.
func c18DrawInstances(rt *rapid.T, gs [][]c18Op) {
	if rapid.IntRange(0, 2).Draw(rt, "twoInstances") != 0 {
		return
	}
	for g := range gs {
		for i := range gs[g] {
			gs[g][i].M = rapid.IntRange(0, c18Inst-1).Draw(rt, "inst")
		}
	}
}

func c18InstanceClasses(v *c18V, c c18Case) {
	seen := map[int]bool{}
	for _, g := range c.Gs {
		for _, o := range g {
			seen[o.M] = true
		}
	}
	if len(seen) > 1 {
		v.class("two-instances")
	}
}

type c18Case struct {
	N  int       `json:"n,omitempty"` // size parameter (limit, pool size)
	P  int       `json:"p,omitempty"` // time parameter in ms (maxAge, refresh interval)
	KA int       `json:"ka,omitempty"` // key alphabet family (c18KeyNames)
	X  int       `json:"x,omitempty"`  // code of a scale-free duration replacing P (c18Dur)
	D  bool      `json:"d,omitempty"`  // instance 1 has its own settings N2 / P2 / X2
	N2 int       `json:"n2,omitempty"`
	P2 int       `json:"p2,omitempty"`
	X2 int       `json:"x2,omitempty"`
	F  []c18Op   `json:"f,omitempty"` // plan for callbacks without a caller (n-th invocation): A=2 panics
	Gs [][]c18Op `json:"gs"`
}

// c18Dur: a duration parameter is ms milliseconds or, with a code, one of the
// scale-free magnitudes a caller can legally configure (virtual time makes them
// free): 1 ns .. 100 years, "never" idioms and values next to the int64
// overflow boundaries.
func c18Dur(ms, code int) time.Duration {
	switch code {
	case 1:
		return time.Nanosecond
	case 2:
		return time.Second
	case 3:
		return time.Minute
	case 4:
		return time.Hour
	case 5:
		return 30 * 24 * time.Hour
	case 6:
		return 100 * 365 * 24 * time.Hour
	case 7:
		return time.Duration(math.MaxInt64)
	case 8:
		return time.Duration(math.MaxInt64) - time.Millisecond
	case 9:
		return time.Duration(1 << 62)
	case 10:
		return time.Millisecond - time.Nanosecond
	case 11:
		return time.Millisecond + time.Nanosecond
	}
	if code >= 12 && code < 12+len(c18Headroom) {
		// "never" minus a headroom d, d over a scale-free family: every one of
		// them is far beyond any idle time a case can reach
		return time.Duration(math.MaxInt64) - c18Headroom[code-12]
	}
	return time.Duration(ms) * c18ms
}

const c18Day = 24 * time.Hour

var c18Headroom = []time.Duration{
	time.Nanosecond, time.Microsecond, time.Second, time.Hour, c18Day, 30 * c18Day, 364 * c18Day, 365 * c18Day,
	365*c18Day + time.Nanosecond, 366 * c18Day, 380 * c18Day, 395 * c18Day, 396 * c18Day, 397 * c18Day, 400 * c18Day,
	2 * 365 * c18Day, 10 * 365 * c18Day, 100 * 365 * c18Day,
}

// c18DurCodes: codes 1..11 are fixed magnitudes, 12.. are MaxInt64 - c18Headroom[i]
var c18DurCodes = 11 + len(c18Headroom)

// c18DrawDurCode: half of the coded durations come from the headroom family.
func c18DrawDurCode(rt *rapid.T, label string) int {
	if rapid.Bool().Draw(rt, label+"NearNever") {
		// uniform over the family (rapid's ranges favour small numbers)
		n := 0
		for b := 0; b < 8; b++ {
			n <<= 1
			if rapid.Bool().Draw(rt, label+"HeadroomBit") {
				n |= 1
			}
		}
		return 12 + n%len(c18Headroom)
	}
	return rapid.IntRange(1, 11).Draw(rt, label)
}

// c18Settings of instance m: (size, duration parameter).
func c18Settings(c c18Case, m int) (int, time.Duration) {
	if m == 1 && c.D {
		return c.N2, c18Dur(c.P2, c.X2)
	}
	return c.N, c18Dur(c.P, c.X)
}

// c18Panic is the value every generated callback panic carries; callbacks
// also panic with an error value and with a plain string (c18PanicValue).
type c18Panic struct{ what string }

type c18PanicErr struct{ what string }

func (e c18PanicErr) Error() string { return "c18 panic: " + e.what }

func c18PanicValue(op c18Op, what string) interface{} {
	switch (op.H + op.Key + op.G) % 3 {
	case 1:
		return c18PanicErr{what}
	case 2:
		return "c18 panic: " + what
	}
	return c18Panic{what}
}

func c18OwnPanic(r interface{}) bool {
	switch x := r.(type) {
	case c18Panic, c18PanicErr:
		return true
	case string:
		return strings.HasPrefix(x, "c18 panic: ")
	}
	return false
}

// c18KeyNames: the three key strings of a case. Keys are opaque strings to the
// keyed primitives: distinct strings are distinct keys, whatever they contain.
// Long keys are built here, never stored in the case.
var c18KeyCache sync.Map

func c18KeyNames(family int) []string {
	if v, ok := c18KeyCache.Load(family); ok {
		return v.([]string)
	}
	names := c18BuildKeyNames(family)
	c18KeyCache.Store(family, names)
	return names
}

func c18BuildKeyNames(family int) []string {
	long := func(n int, tail string) string { return strings.Repeat("x", n) + tail }
	switch family {
	case 1:
		return []string{"", " ", "\x00"}
	case 2:
		return []string{"key", "KEY", "key "}
	case 3:
		return []string{"%d", "%s", "%!(EXTRA)"}
	case 4:
		return []string{"\xff\xfe", "\xff", "\u00e9"}
	case 5:
		return []string{"a/b", "a/../a/b", "a//b"}
	case 6:
		return []string{"k*", "k?", "k[0]"}
	case 7:
		return []string{long(65536, "a"), long(65536, "b"), long(65536, "")}
	case 8:
		return []string{"a" + long(1<<20, ""), "b" + long(1<<20, ""), long(1<<20, "") + "a"}
	case 9:
		return []string{"k\x000", "k\x001", "k"}
	case 10, 11, 12, 13, 14, 15:
		// keys 0 and 1 collide under one of the repository's own hash functions
		// (or a narrow index derived from it); they are still different keys
		p := c18Collisions[family-10]
		return []string{p[0], p[1], "k2"}
	}
	return []string{"k0", "k1", "k2"}
}

const c18KeyFamilies = 16

// c18Collisions: pairs of DIFFERENT keys with equal hashes.
//
//	0, 1  murmur3-64 = lib/hash.Hash, the full 64 bits (constants, verified in init)
//	2     crc32.ChecksumIEEE
//	3     fnv-1a 32
//	4     low 32 bits of lib/hash.Hash
//	5     low 16 bits of lib/hash.Hash
//
// 2..5 are found once per process by a birthday search over short keys.
var c18Collisions = [6][2]string{
	{"cache:user:100016mfbq5izke6w4b75", "cache:user:20002w1C9SrxFsBNdGuxU"},
	{"app-b1c01c1ebbabfeae", "app-635f1dbb22d2ef8d"},
}

func init() {
	for i := 0; i < 2; i++ {
		a, b := c18Collisions[i][0], c18Collisions[i][1]
		if a == b || hash.Hash([]byte(a)) != hash.Hash([]byte(b)) {
			panic(fmt.Sprintf("c18: the murmur3-64 pair %q / %q does not collide under lib/hash.Hash any more (%x vs %x): the key-collision family is void", a, b, hash.Hash([]byte(a)), hash.Hash([]byte(b))))
		}
	}
	fns := []func(string) uint64{
		func(s string) uint64 { return uint64(crc32.ChecksumIEEE([]byte(s))) },
		func(s string) uint64 { h := fnv.New32a(); _, _ = h.Write([]byte(s)); return uint64(h.Sum32()) },
		func(s string) uint64 { return hash.Hash([]byte(s)) & 0xffffffff },
		func(s string) uint64 { return hash.Hash([]byte(s)) & 0xffff },
	}
	for fi, f := range fns {
		seen := make(map[uint64]string, 1<<18)
		found := false
		for n := 0; n < 4000000 && !found; n++ {
			// short, random-looking keys (CRC is linear: keys that differ in a few
			// digits only cannot collide)
			z := uint64(n+1) * 0x9e3779b97f4a7c15
			z = (z ^ (z >> 30)) * 0xbf58476d1ce4e5b9
			z = (z ^ (z >> 27)) * 0x94d049bb133111eb
			k := "user:" + strconv.FormatUint(z^(z>>31), 36)
			h := f(k)
			if prev, ok := seen[h]; ok && prev != k {
				c18Collisions[2+fi] = [2]string{prev, k}
				found = true
			}
			seen[h] = k
		}
		if !found {
			panic(fmt.Sprintf("c18: no colliding key pair found for hash function %d", fi))
		}
	}
}

func c18DrawKeyFamily(rt *rapid.T) int {
	switch rapid.IntRange(0, 5).Draw(rt, "keyClass") {
	case 0:
		return rapid.IntRange(1, 9).Draw(rt, "keyFamily")
	case 1:
		return rapid.IntRange(10, c18KeyFamilies-1).Draw(rt, "collidingFamily")
	}
	return 0
}

// c18Try runs f and reports whether it panicked; the panic is recovered here,
// on the caller's goroutine, the way recover middleware does upstream of the
// primitives. A panic that is not a generated one is returned for reporting.
func c18Try(f func()) (panicked bool, foreign interface{}) {
	defer func() {
		if r := recover(); r != nil {
			panicked = true
			if !c18OwnPanic(r) {
				foreign = r
			}
		}
	}()
	f()
	return
}

// c18Stamp: S is the logical sequence number, T the virtual time since the
// start of the case.
type c18Stamp struct {
	S int64
	T time.Duration
}

type c18Clock struct {
	seq atomic.Int64
	t0  time.Time
}

func (c *c18Clock) now() c18Stamp {
	t := time.Since(c.t0)
	return c18Stamp{S: c.seq.Add(1), T: t}
}

// c18Ev is one invocation/response pair of a public method.
type c18Ev struct {
	G, I     int
	Op       c18Op
	Sub      string // method name where one op issues several calls
	Inv, Ret c18Stamp
	OK       bool
	Val      int // result tag (execution id, resource id); -1: nil / foreign value
	Err      int // 0: nil error; >0: error tagged with that execution id; -1: other error
	Exec     int // id of the callback execution performed by this very call (0: none)
	NExec    int // number of times the callback was invoked by this call
	Fresh    bool
	Res      int
	Pan      bool   // the call panicked (recovered by the harness)
	Sig      string // c18Sig of the (value, error) pair the call returned
	Foreign  string // a panic value that no generated callback raised
}

// c18Exec is one execution of a user callback (fn / create / fetch).
type c18Exec struct {
	ID         int
	Key        int
	G, I       int
	Start, End c18Stamp
	Fail       bool
	Pan        bool // the callback panicked
	NoID       bool   // the error it returned is a value that cannot carry the execution id (context.Canceled, io.EOF, typed nil ...)
	Sig        string // c18Sig of the (value, error) pair it returned
}

// Error VALUES are a generated dimension: primitives that hand on, aggregate
// or compare callback errors must cope with every kind of error value,
// including several callbacks returning the very same value and dynamic types
// that are not comparable (== on two of them panics at run time). Every value
// carries its execution id after a trailing '#', so that the oracle can
// recognise it without comparing errors itself.
type c18TagErr struct{ id int } // comparable struct

func (e c18TagErr) Error() string { return fmt.Sprintf("c18 error of execution #%d", e.id) }

type c18SliceErr struct { // NOT comparable
	id    int
	trail []int
}

func (e c18SliceErr) Error() string { return fmt.Sprintf("c18 slice error %v #%d", e.trail, e.id) }

type c18MapErr struct { // NOT comparable
	id   int
	info map[string]int
}

func (e c18MapErr) Error() string { return fmt.Sprintf("c18 map error (%d fields) #%d", len(e.info), e.id) }

var c18Sentinel = errors.New("c18 sentinel shared by several callbacks #0")

const (
	c18ErrNil        = 0
	c18ErrNew        = 1 // errors.New, a fresh pointer
	c18ErrSentinel   = 2 // one package-level value returned by several callbacks
	c18ErrWrapped    = 3 // fmt.Errorf("%w") around the sentinel
	c18ErrStruct     = 4 // comparable struct
	c18ErrSlice      = 5 // struct with a slice: not comparable
	c18ErrComposite  = 6 // errorx.BatchError.Err() holding two errors: errorx's own slice type, not comparable
	c18ErrMap        = 7 // struct with a map: not comparable
	c18ErrKindsCount = 8
	// results of a fetch / call that callers meet in practice (single-flight
	// results only: kinds >= 8 are never drawn for closers)
	c18ErrCtxCanceled    = 8  // context.Canceled itself (no id)
	c18ErrCtxDeadline    = 9  // context.DeadlineExceeded itself (no id)
	c18ErrWrapCanceled   = 10 // fmt.Errorf("...%w", ctx.Err()) of a really cancelled context
	c18ErrWrapDeadline   = 11 // fmt.Errorf("...%w", context.DeadlineExceeded)
	c18ErrEOF            = 12 // io.EOF (no id)
	c18ErrPtr            = 13 // custom pointer type
	c18ErrTypedNil       = 14 // (*c18PtrErr)(nil): a non-nil error interface holding a nil pointer (no id)
	c18ErrIsCanceled     = 15 // custom type whose Is method matches context.Canceled
	c18ErrNetTimeout     = 16 // custom type with Timeout() / Temporary(), errors.Is os.ErrDeadlineExceeded
	c18ErrDoubleWrap     = 17 // %w around %w around context.DeadlineExceeded
	c18FlightErrKindsEnd = 18
)

type c18PtrErr struct{ id int }

func (e *c18PtrErr) Error() string {
	if e == nil {
		return "c18 typed nil error"
	}
	return fmt.Sprintf("c18 pointer error #%d", e.id)
}

type c18IsErr struct{ id int }

func (e c18IsErr) Error() string        { return fmt.Sprintf("c18 rpc status CANCELLED #%d", e.id) }
func (e c18IsErr) Is(target error) bool { return target == context.Canceled }

type c18NetErr struct{ id int }

func (e c18NetErr) Error() string        { return fmt.Sprintf("c18 i/o timeout #%d", e.id) }
func (e c18NetErr) Timeout() bool        { return true }
func (e c18NetErr) Temporary() bool      { return true }
func (e c18NetErr) Is(target error) bool { return target == os.ErrDeadlineExceeded }

// c18ErrCarriesID: kinds whose value cannot carry the execution id
func c18ErrNoID(kind int) bool {
	switch kind {
	case c18ErrSentinel, c18ErrCtxCanceled, c18ErrCtxDeadline, c18ErrEOF, c18ErrTypedNil:
		return true
	}
	return false
}

func c18MakeErr(kind, id int) error {
	switch kind {
	case c18ErrNil:
		return nil
	case c18ErrNew:
		return errors.New(fmt.Sprintf("c18 plain error #%d", id))
	case c18ErrSentinel:
		return c18Sentinel
	case c18ErrWrapped:
		return fmt.Errorf("c18 wrapped (%w) #%d", c18Sentinel, id)
	case c18ErrSlice:
		return c18SliceErr{id: id, trail: []int{id, id}}
	case c18ErrComposite:
		var be errorx.BatchError
		be.Add(errors.New("c18 first of two"), c18TagErr{id})
		return be.Err()
	case c18ErrMap:
		return c18MapErr{id: id, info: map[string]int{"id": id}}
	case c18ErrCtxCanceled:
		return context.Canceled
	case c18ErrCtxDeadline:
		return context.DeadlineExceeded
	case c18ErrWrapCanceled:
		ctx, cancel := context.WithCancel(context.Background())
		cancel()
		return fmt.Errorf("c18 fetch gave up: %w #%d", ctx.Err(), id)
	case c18ErrWrapDeadline:
		return fmt.Errorf("c18 fetch gave up: %w #%d", context.DeadlineExceeded, id)
	case c18ErrEOF:
		return io.EOF
	case c18ErrPtr:
		return &c18PtrErr{id}
	case c18ErrTypedNil:
		var e *c18PtrErr
		return e
	case c18ErrIsCanceled:
		return c18IsErr{id}
	case c18ErrNetTimeout:
		return c18NetErr{id}
	case c18ErrDoubleWrap:
		return fmt.Errorf("c18 query: %w #%d", fmt.Errorf("dial: %w", context.DeadlineExceeded), id)
	}
	return c18TagErr{id}
}

// c18ErrKind draws the kind of a failing callback's error value; withShared
// allows the shared sentinel (which cannot carry an execution id).
func c18ErrKind(rt *rapid.T, withShared bool) int {
	kinds := []int{c18ErrNew, c18ErrWrapped, c18ErrStruct, c18ErrSlice, c18ErrSlice, c18ErrComposite, c18ErrComposite, c18ErrMap}
	if withShared {
		kinds = append(kinds, c18ErrSentinel, c18ErrSentinel)
	}
	return rapid.SampledFrom(kinds).Draw(rt, "errkind")
}

// c18FlightErrKind draws the error of a failing single-flight callback from
// the whole family: half of the time one of the kinds a fetch under a request
// context ends with.
func c18FlightErrKind(rt *rapid.T) int {
	if rapid.Bool().Draw(rt, "fetchError") {
		return rapid.SampledFrom([]int{c18ErrWrapCanceled, c18ErrCtxCanceled, c18ErrCtxDeadline, c18ErrWrapDeadline, c18ErrEOF, c18ErrPtr, c18ErrTypedNil, c18ErrIsCanceled, c18ErrNetTimeout, c18ErrDoubleWrap, c18ErrCtxCanceled, c18ErrWrapDeadline}).Draw(rt, "fetchErrKind")
	}
	return c18ErrKind(rt, false)
}

// VALUES a single-flight callback returns (op.V). Kinds 6 and 7 cannot carry
// the execution id; they are only used together with an error that does.
type c18ValStruct struct{ ID int }

const c18ValKinds = 8

func c18MakeVal(kind, id int) interface{} {
	switch kind {
	case 1:
		return fmt.Sprintf("value #%d", id)
	case 2:
		return c18ValStruct{id}
	case 3:
		return &c18ValStruct{id}
	case 4:
		return []int{id}
	case 5:
		return map[string]int{"id": id}
	case 6:
		return nil
	case 7:
		var p *c18ValStruct
		return p
	}
	return id
}

// c18ValID: the execution id a value carries, -1 if none.
func c18ValID(val interface{}) int {
	switch x := val.(type) {
	case int:
		return x
	case string:
		return c18ErrTag(errors.New(x))
	case c18ValStruct:
		return x.ID
	case *c18ValStruct:
		if x != nil {
			return x.ID
		}
	case []int:
		if len(x) == 1 {
			return x[0]
		}
	case map[string]int:
		if id, ok := x["id"]; ok && len(x) == 1 {
			return id
		}
	}
	return -1
}

// c18Sig: dynamic types and contents of a (value, error) pair. Two calls
// served by one execution must show the very same signature as that execution.
func c18Sig(val interface{}, err error) string {
	s := fmt.Sprintf("%T|%v", val, val)
	if p, ok := val.(*c18ValStruct); ok && p != nil {
		s = fmt.Sprintf("%T|%p", val, p) // the same pointer, not a copy
	}
	if err == nil {
		return s + " || <nil>"
	}
	if p, ok := err.(*c18PtrErr); ok {
		return s + fmt.Sprintf(" || %T|%p|%s", err, p, err.Error())
	}
	return s + fmt.Sprintf(" || %T|%s", err, err.Error())
}

// c18ErrTag: 0 for nil, the id after the last '#' of the message, -1 otherwise.
func c18ErrTag(err error) int {
	if err == nil {
		return 0
	}
	msg := err.Error()
	i := strings.LastIndexByte(msg, '#')
	if i < 0 {
		return -1
	}
	n, convErr := strconv.Atoi(msg[i+1:])
	if convErr != nil {
		return -1
	}
	return n
}

func c18Sleep(msec int) {
	// Never sleep once a bubble's clock is near the end of representable time:
	// go1.26.8 crashes there ("fatal error: bad g->status in ready": a timer set
	// to the saturated maximum runs at once, on the still running goroutine).
	if msec > 0 && time.Now().Year() < 2200 {
		time.Sleep(time.Duration(msec) * c18ms)
	}
}

type c18Log struct {
	mu    sync.Mutex
	evs   []c18Ev
	execs []c18Exec
}

func (l *c18Log) ev(e c18Ev) {
	l.mu.Lock()
	l.evs = append(l.evs, e)
	l.mu.Unlock()
}

func (l *c18Log) exec(e c18Exec) {
	l.mu.Lock()
	l.execs = append(l.execs, e)
	l.mu.Unlock()
}

// inst returns the history of the calls made on instance m.
func (l *c18Log) inst(m int) *c18Log {
	out := &c18Log{}
	for _, ev := range l.evs {
		if ev.Op.M == m {
			out.evs = append(out.evs, ev)
		}
	}
	return out
}

// c18Play runs the goroutines of a case inside a fresh bubble. setup builds the
// primitive under test and returns the per-operation interpreter and an
// optional epilogue run by the root goroutine after every script has ended.
func c18Play(t *testing.T, c c18Case, setup func(clk *c18Clock, log *c18Log) (do func(g, i int, op c18Op), finish func())) (*c18Log, kit.BubbleResult) {
	return c18PlayRounds(t, c, false, setup)
}

// c18PlayRounds: with rounds=true and a burst case (every gap and hold zero)
// the goroutines additionally meet at a spin barrier before their i-th
// operation, so that every round is a real-parallel collision. Only used for
// primitives whose operations never need virtual time to pass in order to
// return (a goroutine spinning at the barrier is not durably blocked, so
// virtual time stands still meanwhile); the spin is bounded in any case.
func c18PlayRounds(t *testing.T, c c18Case, rounds bool, setup func(clk *c18Clock, log *c18Log) (do func(g, i int, op c18Op), finish func())) (*c18Log, kit.BubbleResult) {
	log := &c18Log{}
	res := kit.Bubble(t, func() {
		clk := &c18Clock{t0: time.Now()}
		do, finish := setup(clk, log)
		var wg sync.WaitGroup
		// start line: all goroutines are released together and then meet at a
		// short spin barrier, so that operations scheduled for one virtual
		// instant really contend in parallel (the windows inside the primitives
		// that have no blocking point are only reachable this way).
		maxOps := 0
		for _, ops := range c.Gs {
			if len(ops) > maxOps {
				maxOps = len(ops)
			}
			for _, o := range ops {
				if o.G != 0 || o.H != 0 {
					rounds = false
				}
			}
		}
		roundArr := make([]atomic.Int32, maxOps+1)
		roundNeed := make([]int32, maxOps+1)
		for _, ops := range c.Gs {
			for i := range ops {
				roundNeed[i]++
			}
		}
		gate := make(chan struct{})
		var arrived atomic.Int32
		n := int32(len(c.Gs))
		for g := range c.Gs {
			wg.Add(1)
			go func(g int, ops []c18Op) {
				defer wg.Done()
				<-gate
				arrived.Add(1)
				for spins := 0; arrived.Load() < n; spins++ {
					if spins > 2000 {
						runtime.Gosched()
					}
				}
				for i := 0; i < len(ops); i++ {
					if rounds && i > 0 {
						roundArr[i].Add(1)
						for spins := 0; roundArr[i].Load() < roundNeed[i] && spins < 30000; spins++ {
							if spins > 2000 {
								runtime.Gosched()
							}
						}
					}
					c18Sleep(ops[i].G)
					do(g, i, ops[i])
				}
			}(g, c.Gs[g])
		}
		close(gate)
		wg.Wait()
		if finish != nil {
			finish()
		}
	})
	sort.SliceStable(log.evs, func(a, b int) bool { return log.evs[a].Inv.S < log.evs[b].Inv.S })
	sort.SliceStable(log.execs, func(a, b int) bool { return log.execs[a].Start.S < log.execs[b].Start.S })
	return log, res
}

// c18Verdict assembles a verdict; the first failure wins.
type c18V struct {
	fail      string
	knownFail string // a failure characterised by a known-finding predicate
	known     string // its predicate id
	classes   map[string]bool
	nt        bool
}

// failKnown records a failure that matches the narrow predicate of a known
// finding. Any other failure of the same case takes precedence (failf), so a
// known finding never masks a different defect.
func (v *c18V) failKnown(id, format string, args ...interface{}) {
	if v.knownFail == "" {
		v.knownFail, v.known = fmt.Sprintf(format, args...), id
	}
	v.class("known:" + id)
}

// c18TimexBase is timex.Now() at the start of every bubble (2000-01-01) under
// the /verif clock hook: initTime = 2000-01-01 minus (1y 1m 1d).
var c18TimexBase = func() time.Duration {
	t := time.Date(2000, 1, 1, 0, 0, 0, 0, time.UTC)
	return t.Sub(t.AddDate(-1, -1, -1))
}()

// c18StampOverflows: stamp + d exceeds int64, where stamp is the timex stamp
// taken at virtual instant at (since the start of the case).
func c18StampOverflows(at, d time.Duration) bool {
	return d > 0 && int64(d) > math.MaxInt64-int64(c18TimexBase+at)
}

func c18NewV() *c18V { return &c18V{classes: map[string]bool{}} }

func (v *c18V) failf(format string, args ...interface{}) {
	if v.fail == "" {
		v.fail = fmt.Sprintf(format, args...)
	}
}

func (v *c18V) class(c string) { v.classes[c] = true }

func (v *c18V) done(res kit.BubbleResult) kit.Verdict {
	out := kit.Verdict{NonTrivial: v.nt, Fail: v.fail}
	if v.fail == "" && v.knownFail != "" && res.OK() {
		out.Fail, out.Known = v.knownFail, v.known
	}
	if !res.OK() && out.Fail == "" {
		out.Fail = "bubble: " + res.String()
	}
	if !res.OK() && out.Fail != "" && v.fail != "" {
		out.Fail += " [bubble: " + res.String() + "]"
	}
	for k := range v.classes {
		out.Classes = append(out.Classes, k)
	}
	sort.Strings(out.Classes)
	return out
}

func c18CaseClasses(v *c18V, c c18Case) {
	n, zero := 0, true
	for _, g := range c.Gs {
		n += len(g)
		for _, o := range g {
			if o.G != 0 || o.H != 0 {
				zero = false
			}
		}
	}
	v.class(fmt.Sprintf("goroutines=%d", len(c.Gs)))
	c18InstanceClasses(v, c)
	if c.KA >= 10 {
		v.class(fmt.Sprintf("keys-colliding-under-%s", []string{"murmur3-64(a)", "murmur3-64(b)", "crc32", "fnv1a-32", "murmur3-low32", "murmur3-low16"}[c.KA-10]))
	} else if c.KA != 0 {
		v.class(fmt.Sprintf("key-alphabet-family=%d", c.KA))
	}
	for _, g := range c.Gs {
		for _, o := range g {
			if o.R == 1 && o.Key < 2 {
				v.class("re-entrant-callback")
			}
			if o.A == 2 && (o.K == "do" || o.K == "doex") {
				v.class([]string{"panic-value=struct", "panic-value=error", "panic-value=string"}[(o.H+o.Key+o.G)%3])
			}
		}
	}
	if zero && len(c.Gs) > 1 {
		v.class("burst(all-zero-delays)")
	}
}

// ---- generators -----------------------------------------------------------

// c18GenGs draws 2..8 goroutines (skewed to few) with 1..maxOps operations.
// Roughly one case in six is a burst: every gap and hold zero, so that all
// calls contend at one virtual instant in real parallel.
func c18GenGs(rt *rapid.T, maxOps int, drawOp func(rt *rapid.T, burst bool) c18Op) [][]c18Op {
	burst := rapid.IntRange(0, 5).Draw(rt, "burst") == 0
	ng := rapid.SampledFrom([]int{2, 2, 2, 3, 3, 3, 4, 4, 5, 6, 8}).Draw(rt, "ng")
	gs := make([][]c18Op, ng)
	for g := 0; g < ng; g++ {
		n := rapid.IntRange(1, maxOps).Draw(rt, "nops")
		for i := 0; i < n; i++ {
			op := drawOp(rt, burst)
			if burst {
				op.G, op.H = 0, 0
			} else {
				op.G = c18Gap(rt)
			}
			gs[g] = append(gs[g], op)
		}
	}
	return gs
}

func c18Gap(rt *rapid.T) int {
	return rapid.SampledFrom([]int{0, 0, 0, 1, 1, 2, 2, 3, 4, 6}).Draw(rt, "gap")
}

func c18Hold(rt *rapid.T) int {
	return rapid.SampledFrom([]int{0, 1, 1, 2, 2, 3, 4, 5}).Draw(rt, "hold")
}

// c18Outcome of a callback: 0 returns a value, 1 returns an error, 2 panics
// (the panic is recovered by the harness on the caller's goroutine).
func c18Outcome(rt *rapid.T) int {
	return rapid.SampledFrom([]int{0, 0, 0, 0, 0, 0, 0, 1, 1, 2}).Draw(rt, "outcome")
}

func c18Key(rt *rapid.T) int {
	return rapid.SampledFrom([]int{0, 0, 0, 0, 1, 1, 2}).Draw(rt, "key")
}

// ---- counting bounds shared by Limit / TimeoutLimit / RefResource ----------

type c18Delta struct {
	S int64
	D int
}

// c18Bound is a step function over logical stamps: value(s) = sum of deltas
// with stamp <= s.
type c18Bound []c18Delta

func (b c18Bound) sorted() c18Bound {
	sort.Slice(b, func(i, j int) bool { return b[i].S < b[j].S })
	return b
}

// max returns the maximum of the running sum and the stamp where it is reached.
func (b c18Bound) max() (int, int64) {
	sum, best, at := 0, 0, int64(0)
	for _, d := range b {
		sum += d.D
		if sum > best {
			best, at = sum, d.S
		}
	}
	return best, at
}

// rangeOver returns min and max of the running sum over stamps in [lo, hi].
func (b c18Bound) rangeOver(lo, hi int64) (mn, mx int) {
	sum := 0
	i := 0
	for ; i < len(b) && b[i].S <= lo; i++ {
		sum += b[i].D
	}
	mn, mx = sum, sum
	for ; i < len(b) && b[i].S <= hi; i++ {
		sum += b[i].D
		if sum < mn {
			mn = sum
		}
		if sum > mx {
			mx = sum
		}
	}
	return
}

// ---- porcupine ------------------------------------------------------------

type c18PIn struct {
	K string
	A int
}

type c18POut struct {
	OK  bool
	Val int
}

// c18Linearizable checks the history against a sequential model. Histories are
// small (<= ~100 operations, state spaces of a few values); a generous real
// timeout guards against blow-up and an Unknown answer is never a failure.
func c18Linearizable(v *c18V, what string, m porcupine.Model, ops []porcupine.Operation) {
	if len(ops) == 0 {
		return
	}
	switch porcupine.CheckOperationsTimeout(m, ops, 5*time.Second) {
	case porcupine.Illegal:
		v.failf("%s: history is not linearizable w.r.t. the sequential specification: %s", what, c18DescribeOps(m, ops))
	case porcupine.Unknown:
		v.class("porcupine-unknown")
	default:
		v.class("porcupine-ok")
	}
}

func c18DescribeOps(m porcupine.Model, ops []porcupine.Operation) string {
	s := ""
	for i, o := range ops {
		if i >= 40 {
			s += " ..."
			break
		}
		s += fmt.Sprintf(" [g%d %v->%v @%d..%d]", o.ClientId, o.Input, o.Output, o.Call, o.Return)
	}
	return s
}
