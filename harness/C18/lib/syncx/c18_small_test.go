package syncx_test

import (
	"fmt"
	"runtime"
	"sync/atomic"
	"testing"
	"time"

	"github.com/anishathalye/porcupine"
	"github.com/gotid/god/lib/syncx"
	"pgregory.net/rapid"
	"verif.local/kit"
)

// ---------------------------------------------------------------------------
// Barrier, SpinLock, OnceGuard, DoneChan — one instance of each per case.
//
// ops: "guard"    Barrier.Guard(section)          A = runtime.Gosched calls inside the section
//      "lock"     SpinLock.Lock; section; Unlock
//      "trylock"  SpinLock.TryLock; on success section; Unlock
//      "take" / "taken"                           OnceGuard
//      "close" / "wait" / "poll"                  DoneChan (wait = <-Done(), poll = non-blocking receive)
//      "cwait" / "ctimed" / "csignal"             Cond.Wait / WaitWithTimeout(A ms) / Signal: Cond on its own is not
//                                                 named by the statement, so these run for panics and hangs only
//                                                 (the helper keeps signalling until every Wait has returned)
// Sections never sleep: a SpinLock waiter spins (it is not durably blocked) and
// a Barrier waiter sits on a sync.Mutex, so a virtual sleep inside a section
// would wedge the bubble. Gaps are slept outside the sections only. A helper
// goroutine closes the DoneChan after the last scripted instant so that every
// "wait" ends.
// ---------------------------------------------------------------------------

// c18ChanLock is a sync.Locker whose waiters block on a channel, i.e. durably
// in synctest's sense: a lock that syncx.Guard fails to release (for instance
// after a panicking section) shows up as a synctest deadlock instead of
// wedging the bubble the way a leaked sync.Mutex would.
type c18ChanLock chan struct{}

func (l c18ChanLock) Lock()   { l <- struct{}{} }
func (l c18ChanLock) Unlock() { <-l }

func c18SmallInterp(t *testing.T, c c18Case) kit.Verdict {
	v := c18NewV()
	c18CaseClasses(v, c)
	horizon := 0
	for _, g := range c.Gs {
		sum := 0
		for _, o := range g {
			sum += o.G
		}
		if sum > horizon {
			horizon = sum
		}
	}
	horizon += 2
	condWaits := int32(0)
	for _, g := range c.Gs {
		for _, o := range g {
			if o.K == "cwait" {
				condWaits++
			}
		}
	}
	var overlapB, overlapS, overlapG atomic.Int32
	plainB, plainS, plainG := 0, 0, 0 // deliberately unsynchronised: protected by the primitive under test
	sectionsB, sectionsS, sectionsG := 0, 0, 0
	var chanChanged atomic.Int32
	log, res := c18Play(t, c, func(clk *c18Clock, log *c18Log) (func(g, i int, op c18Op), func()) {
		var bar syncx.Barrier
		var spin syncx.SpinLock
		var og syncx.OnceGuard
		dc := syncx.NewDoneChan()
		ch0 := dc.Done()
		cond := syncx.NewCond()
		var condLeft atomic.Int32
		condLeft.Store(condWaits)
		var inB, inS, inG atomic.Int32
		chanLock := make(c18ChanLock, 1)
		helperDone := make(chan struct{})
		go func() {
			c18Sleep(horizon)
			ev := c18Ev{G: -1, Op: c18Op{K: "close"}, Sub: "close"}
			ev.Inv = clk.now()
			dc.Close()
			ev.Ret = clk.now()
			log.ev(ev)
			// every Cond.Wait ends: signal until none is left (a Signal that meets
			// no waiter is dropped by design); a Wait that no Signal can release
			// ends the bound and shows as a synctest deadlock
			for k := 0; condLeft.Load() > 0 && k < 5000; k++ {
				cond.Signal()
				time.Sleep(c18ms)
			}
			close(helperDone)
		}()
		section := func(in *atomic.Int32, overlap *atomic.Int32, plain *int, yields int) (c18Stamp, c18Stamp) {
			if in.Add(1) != 1 {
				overlap.Add(1)
			}
			st := clk.now()
			x := *plain
			for y := 0; y < yields; y++ {
				runtime.Gosched()
			}
			*plain = x + 1
			en := clk.now()
			in.Add(-1)
			return st, en
		}
		return func(g, i int, op c18Op) {
				ev := c18Ev{G: g, I: i, Op: op, Sub: op.K}
				switch op.K {
				case "guard":
					var st, en c18Stamp
					ev.Inv = clk.now()
					// Guard unlocks in a defer: a section that panics (Key=1,
					// recovered here by the caller) must not keep the barrier shut
					pan, foreign := c18Try(func() {
						bar.Guard(func() {
							st, en = section(&inB, &overlapB, &plainB, op.A)
							log.exec(c18Exec{Key: 0, G: g, I: i, Start: st, End: en, Pan: op.Key == 1})
							if op.Key == 1 {
								panic(c18Panic{"barrier section"})
							}
						})
					})
					ev.Ret = clk.now()
					ev.Pan = pan
					if foreign != nil || pan != (op.Key == 1) {
						ev.Foreign = fmt.Sprint("unexpected panic state: ", pan, " ", foreign)
					}
				case "guardfn":
					// the package-level Guard (which Barrier.Guard delegates to) with
					// a channel-based Locker
					var st, en c18Stamp
					ev.Inv = clk.now()
					pan, foreign := c18Try(func() {
						syncx.Guard(chanLock, func() {
							st, en = section(&inG, &overlapG, &plainG, op.A)
							log.exec(c18Exec{Key: 2, G: g, I: i, Start: st, End: en, Pan: op.Key == 1})
							if op.Key == 1 {
								panic(c18Panic{"guarded section"})
							}
						})
					})
					ev.Ret = clk.now()
					ev.Pan = pan
					if foreign != nil || pan != (op.Key == 1) {
						ev.Foreign = fmt.Sprint("unexpected panic state: ", pan, " ", foreign)
					}
				case "lock":
					ev.Inv = clk.now()
					spin.Lock()
					ev.Ret = clk.now()
					ev.OK = true
					log.ev(ev)
					st, en := section(&inS, &overlapS, &plainS, op.A)
					log.exec(c18Exec{Key: 1, G: g, I: i, Start: st, End: en})
					ev = c18Ev{G: g, I: i, Op: op, Sub: "unlock"}
					ev.Inv = clk.now()
					spin.Unlock()
					ev.Ret = clk.now()
				case "trylock":
					ev.Inv = clk.now()
					ev.OK = spin.TryLock()
					ev.Ret = clk.now()
					if ev.OK {
						log.ev(ev)
						st, en := section(&inS, &overlapS, &plainS, op.A)
						log.exec(c18Exec{Key: 1, G: g, I: i, Start: st, End: en})
						ev = c18Ev{G: g, I: i, Op: op, Sub: "unlock"}
						ev.Inv = clk.now()
						spin.Unlock()
						ev.Ret = clk.now()
					}
				case "take":
					ev.Inv = clk.now()
					ev.OK = og.Take()
					ev.Ret = clk.now()
					if ev.OK && op.Key == 1 {
						// the once-guarded section of the winner panics (recovered by
						// its caller): the guard stays taken, nobody else may enter
						ev.Pan = true
						c18Try(func() { panic(c18Panic{"once-guarded section"}) })
					}
				case "taken":
					ev.Inv = clk.now()
					ev.OK = og.Taken()
					ev.Ret = clk.now()
				case "close":
					ev.Inv = clk.now()
					dc.Close()
					ev.Ret = clk.now()
				case "wait":
					ev.Inv = clk.now()
					<-dc.Done()
					ev.Ret = clk.now()
				case "cwait":
					ev.Inv = clk.now()
					cond.Wait()
					condLeft.Add(-1)
					ev.Ret = clk.now()
				case "ctimed":
					ev.Inv = clk.now()
					_, ev.OK = cond.WaitWithTimeout(time.Duration(op.A) * c18ms)
					ev.Ret = clk.now()
				case "csignal":
					ev.Inv = clk.now()
					cond.Signal()
					ev.Ret = clk.now()
				case "poll":
					ev.Inv = clk.now()
					select {
					case <-dc.Done():
						ev.OK = true
					default:
					}
					ev.Ret = clk.now()
				}
				if dc.Done() != ch0 {
					chanChanged.Add(1)
				}
				log.ev(ev)
			}, func() {
				<-helperDone
			}
	})

	for _, ev := range log.evs {
		if ev.Foreign != "" {
			v.failf("%s g%d#%d: %s", ev.Sub, ev.G, ev.I, ev.Foreign)
		}
		if ev.Pan && (ev.Sub == "guard" || ev.Sub == "guardfn") {
			v.class("guarded-section-panicked")
		}
		if ev.Pan && ev.Sub == "take" {
			v.class("once-guarded-section-panicked")
		}
		if ev.Sub == "cwait" {
			v.class("cond-wait(unspecified:panics-and-hangs-only)")
		}
	}
	// ---- mutual exclusion (Barrier key 0, SpinLock key 1)
	if overlapB.Load() != 0 {
		v.failf("barrier: two guarded sections were inside at the same time (overlap counter)")
	}
	if overlapG.Load() != 0 {
		v.failf("guard: two sections guarded by one Locker were inside at the same time (overlap counter)")
	}
	if overlapS.Load() != 0 {
		v.failf("spin-lock: two locked sections were inside at the same time (overlap counter)")
	}
	for i := 0; i < len(log.execs); i++ {
		a := log.execs[i]
		switch a.Key {
		case 0:
			sectionsB++
		case 1:
			sectionsS++
		default:
			sectionsG++
		}
		for j := i + 1; j < len(log.execs); j++ {
			b := log.execs[j]
			if a.Key != b.Key {
				continue
			}
			if !(a.End.S < b.Start.S || b.End.S < a.Start.S) {
				v.failf("%s: sections of g%d#%d and g%d#%d overlap (stamps %d..%d, %d..%d)", []string{"barrier", "spin-lock", "guard"}[a.Key], a.G, a.I, b.G, b.I, a.Start.S, a.End.S, b.Start.S, b.End.S)
			}
			if a.G != b.G && a.Start.T == b.Start.T {
				v.nt = true
				v.class([]string{"barrier", "spin-lock", "guard"}[a.Key] + "-contended-instant")
			}
		}
	}
	if res.OK() {
		if plainB != sectionsB {
			v.failf("barrier: %d guarded increments of a plain counter produced %d (lost update)", sectionsB, plainB)
		}
		if plainG != sectionsG {
			v.failf("guard: %d guarded increments of a plain counter produced %d (lost update)", sectionsG, plainG)
		}
		if plainS != sectionsS {
			v.failf("spin-lock: %d locked increments of a plain counter produced %d (lost update)", sectionsS, plainS)
		}
	}

	// ---- SpinLock TryLock / OnceGuard / DoneChan histories
	var spinOps, onceOps []porcupine.Operation
	var closes, takesTrue []c18Ev
	for _, ev := range log.evs {
		switch ev.Sub {
		case "lock", "trylock", "unlock":
			spinOps = append(spinOps, porcupine.Operation{ClientId: ev.G + 1, Input: c18PIn{K: ev.Sub}, Output: c18POut{OK: ev.OK}, Call: ev.Inv.S, Return: ev.Ret.S})
			if ev.Sub == "trylock" && !ev.OK {
				v.class("trylock-refused")
			}
		case "take", "taken":
			onceOps = append(onceOps, porcupine.Operation{ClientId: ev.G + 1, Input: c18PIn{K: ev.Sub}, Output: c18POut{OK: ev.OK}, Call: ev.Inv.S, Return: ev.Ret.S})
			if ev.Sub == "take" && ev.OK {
				takesTrue = append(takesTrue, ev)
			}
		case "close":
			closes = append(closes, ev)
		}
	}
	// TryLock refused needs a possible holder; granted needs a possibly free lock
	for _, ev := range log.evs {
		if ev.Sub != "trylock" {
			continue
		}
		possible, certain := false, false
		for _, l := range log.evs {
			if (l.Sub != "lock" && l.Sub != "trylock") || !l.OK || (l.G == ev.G && l.I == ev.I) {
				continue
			}
			for _, u := range log.evs {
				if u.Sub == "unlock" && u.G == l.G && u.I == l.I {
					if l.Inv.S < ev.Ret.S && ev.Inv.S < u.Ret.S {
						possible = true
					}
					if l.Ret.S < ev.Inv.S && ev.Ret.S < u.Inv.S {
						certain = true
					}
				}
			}
		}
		if !ev.OK && !possible {
			v.failf("spin-lock: TryLock g%d#%d was refused although no other goroutine can have held the lock during the call", ev.G, ev.I)
		}
		if ev.OK && certain {
			v.failf("spin-lock: TryLock g%d#%d succeeded while another goroutine certainly held the lock", ev.G, ev.I)
		}
	}
	c18Linearizable(v, "spin-lock", porcupine.Model{
		Init: func() interface{} { return false },
		Step: func(state, in, out interface{}) (bool, interface{}) {
			held, i, o := state.(bool), in.(c18PIn), out.(c18POut)
			switch i.K {
			case "lock":
				return !held, true
			case "trylock":
				if o.OK {
					return !held, true
				}
				return held, held
			case "unlock":
				return held, false
			}
			return false, held
		},
	}, spinOps)

	// OnceGuard
	nTake := 0
	for _, ev := range log.evs {
		if ev.Sub == "take" {
			nTake++
		}
	}
	if nTake > 0 && len(takesTrue) != 1 {
		v.failf("once-guard: %d of %d Take calls succeeded, want exactly one", len(takesTrue), nTake)
	}
	if len(takesTrue) == 1 {
		w := takesTrue[0]
		for _, ev := range log.evs {
			switch {
			case ev.Sub == "taken" && ev.OK && ev.Ret.S < w.Inv.S:
				v.failf("once-guard: Taken g%d#%d reported true before the winning Take was invoked", ev.G, ev.I)
			case ev.Sub == "taken" && !ev.OK && ev.Inv.S > w.Ret.S:
				v.failf("once-guard: Taken g%d#%d reported false after the winning Take had returned", ev.G, ev.I)
			case ev.Sub == "take" && !ev.OK && ev.Ret.S < w.Inv.S:
				v.failf("once-guard: Take g%d#%d lost before the winning Take was invoked", ev.G, ev.I)
			}
			if ev.Sub == "take" && ev.G != w.G && ev.Inv.T == w.Inv.T {
				v.nt = true
				v.class("once-guard-contended-instant")
			}
		}
	} else if nTake == 0 {
		for _, ev := range log.evs {
			if ev.Sub == "taken" && ev.OK {
				v.failf("once-guard: Taken g%d#%d reported true although Take was never called", ev.G, ev.I)
			}
		}
	}
	c18Linearizable(v, "once-guard", porcupine.Model{
		Init: func() interface{} { return false },
		Step: func(state, in, out interface{}) (bool, interface{}) {
			done, i, o := state.(bool), in.(c18PIn), out.(c18POut)
			if i.K == "take" {
				return o.OK == !done, true
			}
			return o.OK == done, done
		},
	}, onceOps)

	// DoneChan
	if chanChanged.Load() != 0 {
		v.failf("done-chan: Done() returned a different channel")
	}
	if len(closes) > 1 {
		v.class("done-chan-closed-repeatedly")
	}
	if len(closes) > 0 {
		firstInv, firstRet, firstT := closes[0].Inv.S, closes[0].Ret.S, closes[0].Inv.T
		for _, cl := range closes {
			if cl.Inv.S < firstInv {
				firstInv = cl.Inv.S
			}
			if cl.Ret.S < firstRet {
				firstRet = cl.Ret.S
			}
			if cl.Inv.T < firstT {
				firstT = cl.Inv.T
			}
		}
		for _, ev := range log.evs {
			switch ev.Sub {
			case "wait":
				if ev.Ret.S < firstInv {
					v.failf("done-chan: wait g%d#%d was released before any Close was invoked", ev.G, ev.I)
				}
				want := ev.Inv.T
				if firstT > want {
					want = firstT
					v.class("done-chan-wait-blocked")
					v.nt = true
				}
				if ev.Ret.T != want {
					v.failf("done-chan: wait g%d#%d (from t=%v) was released at t=%v, the channel was closed at t=%v", ev.G, ev.I, ev.Inv.T, ev.Ret.T, firstT)
				}
			case "poll":
				if ev.OK && ev.Ret.S < firstInv {
					v.failf("done-chan: poll g%d#%d saw the channel closed before any Close was invoked", ev.G, ev.I)
				}
				if !ev.OK && ev.Inv.S > firstRet {
					v.failf("done-chan: poll g%d#%d saw the channel open after a Close had returned", ev.G, ev.I)
				}
			}
		}
	}
	_ = time.Duration(0)
	return v.done(res)
}

func c18SmallGen(rt *rapid.T) c18Case {
	// each case concentrates on one or two primitives so that contention is dense
	groups := [][]string{
		{"guard", "guardfn"},
		{"lock", "lock", "trylock"},
		{"take", "take", "taken"},
		{"close", "wait", "wait", "poll", "poll"},
		{"cwait", "cwait", "ctimed", "csignal", "csignal"},
	}
	a := rapid.IntRange(0, len(groups)-1).Draw(rt, "group")
	kinds := append([]string(nil), groups[a]...)
	if rapid.IntRange(0, 2).Draw(rt, "mix") == 0 {
		b := rapid.IntRange(0, len(groups)-1).Draw(rt, "group2")
		kinds = append(kinds, groups[b]...)
	}
	return c18Case{Gs: c18GenGs(rt, 5, func(rt *rapid.T, burst bool) c18Op {
		op := c18Op{K: rapid.SampledFrom(kinds).Draw(rt, "k")}
		if op.K == "guard" || op.K == "guardfn" || op.K == "lock" || op.K == "trylock" {
			op.A = rapid.IntRange(0, 3).Draw(rt, "yields")
		}
		if op.K == "ctimed" {
			op.A = rapid.IntRange(0, 5).Draw(rt, "condTimeout")
		}
		if (op.K == "guard" || op.K == "guardfn" || op.K == "take") && rapid.IntRange(0, 3).Draw(rt, "sectionPanics") == 0 {
			op.Key = 1
		}
		return op
	})}
}

func TestVerif_C18_small(t *testing.T) {
	kit.Run(t, c18ID, "small-primitives", kit.Opts{Quick: 6000, Thorough: 200000}, c18SmallGen,
		func(c c18Case) kit.Verdict { return c18SmallInterp(t, c) })
}

var _ = fmt.Sprintf
