package syncx_test

// C18 — race unit (driver unit lib/syncx@race: same package, own binary built
// with -race). Self-contained: it shares no code with the main unit.
//
// Zero delays: G goroutines leave a spin barrier together and run R operations
// each against one primitive, inside a synctest bubble (so that TimeoutLimit's
// timers are virtual). Every primitive guards PLAIN (unsynchronised) memory
// whose only protection is the exclusion/sharing contract under test, so the
// race detector reports a broken contract even when the counters happen to add
// up; the counters are checked as well.
//
// go 1.19 language semantics apply to this file (see the main unit).

import (
	"fmt"
	"io"
	"runtime"
	"sync"
	"sync/atomic"
	"testing"
	"time"

	"github.com/gotid/god/lib/syncx"
	"pgregory.net/rapid"
	"verif.local/kit"
)

type c18RaceCase struct {
	K string `json:"k"` // primitive
	G int    `json:"g"` // goroutines
	R int    `json:"r"` // operations per goroutine
	N int    `json:"n"` // size parameter (limit, pool size, keys)
	Y int    `json:"y"` // runtime.Gosched calls inside callbacks / critical sections
	P int    `json:"p"` // >0: the callback / guarded section of every call with (g+r)%P == 0 panics (recovered by the caller)
}

type c18RacePanic struct{}

func c18RaceTry(f func()) (panicked bool) {
	defer func() {
		if r := recover(); r != nil {
			if _, ok := r.(c18RacePanic); !ok {
				panic(r)
			}
			panicked = true
		}
	}()
	f()
	return
}

type c18RaceCloser struct {
	closed int // plain: Close runs once, under the manager's lock
}

func (c *c18RaceCloser) Close() error { c.closed++; return nil }

func c18Yield(n int) {
	for i := 0; i < n; i++ {
		runtime.Gosched()
	}
}

func c18RaceInterp(t *testing.T, c c18RaceCase) kit.Verdict {
	v := kit.Verdict{NonTrivial: c.G >= 2, Classes: []string{c.K, fmt.Sprintf("goroutines=%d", c.G)}}
	if c.P > 0 && (c.K == "singleflight" || c.K == "lockedcalls" || c.K == "barrier") {
		v.Classes = append(v.Classes, "callback-panics")
	}
	var failMu sync.Mutex
	fail := ""
	failf := func(format string, args ...interface{}) {
		failMu.Lock()
		if fail == "" {
			fail = fmt.Sprintf(format, args...)
		}
		failMu.Unlock()
	}
	res := kit.Bubble(t, func() {
		var wg sync.WaitGroup
		var arrived atomic.Int32
		run := func(body func(g, r int)) {
			for g := 0; g < c.G; g++ {
				wg.Add(1)
				go func(g int) {
					defer wg.Done()
					arrived.Add(1)
					for spins := 0; arrived.Load() < int32(c.G) && spins < 300000; spins++ {
						if spins > 2000 {
							runtime.Gosched()
						}
					}
					for r := 0; r < c.R; r++ {
						body(g, r)
					}
				}(g)
			}
			wg.Wait()
		}
		keys := c.N
		if keys < 1 {
			keys = 1
		}
		switch c.K {
		case "singleflight":
			sf := syncx.NewSingleFlight()
			plain := make([]int, keys) // executions of one key never overlap
			var execs atomic.Int64
			run(func(g, r int) {
				k := (g + r) % keys
				var val interface{}
				var err error
				boom := c.P > 0 && (g+r)%c.P == 0
				if c18RaceTry(func() {
					val, err = sf.Do(fmt.Sprintf("k%d", k), func() (interface{}, error) {
						x := plain[k]
						c18Yield(c.Y)
						plain[k] = x + 1
						id := int(execs.Add(1))
						if boom {
							panic(c18RacePanic{})
						}
						return id, nil
					})
				}) {
					return
				}
				id, ok := val.(int)
				if c.P > 0 && val == nil && err == nil {
					return // waiter of a panicked execution: outcome unspecified
				}
				if err != nil || !ok || id < 1 || int64(id) > execs.Load() {
					failf("single-flight: call returned (%v, %v), not the result of an execution", val, err)
				}
			})
			// a later call always executes afresh, also after panicking executions
			for k := 0; k < keys; k++ {
				ran := false
				_, _ = sf.Do(fmt.Sprintf("k%d", k), func() (interface{}, error) { ran = true; plain[k]++; execs.Add(1); return 0, nil })
				if !ran {
					failf("single-flight: a call made after every other call had returned did not execute (key %d)", k)
				}
			}
			sum := 0
			for _, p := range plain {
				sum += p
			}
			if int64(sum) != execs.Load() {
				failf("single-flight: %d executions but the per-key plain counters add up to %d (overlapping executions of one key)", execs.Load(), sum)
			}
		case "lockedcalls":
			lc := syncx.NewLockedCalls()
			plain := make([]int, keys)
			run(func(g, r int) {
				k := (g + r) % keys
				var val interface{}
				var err error
				boom := c.P > 0 && (g+r)%c.P == 0
				if c18RaceTry(func() {
					val, err = lc.Do(fmt.Sprintf("k%d", k), func() (interface{}, error) {
						x := plain[k]
						c18Yield(c.Y)
						plain[k] = x + 1
						if boom {
							panic(c18RacePanic{})
						}
						return g*1000 + r, nil
					})
				}) {
					return
				}
				if err != nil || val != g*1000+r {
					failf("locked-calls: call g%d#%d returned (%v, %v), not its own result", g, r, val, err)
				}
			})
			sum := 0
			for _, p := range plain {
				sum += p
			}
			if sum != c.G*c.R {
				failf("locked-calls: %d calls but the plain counters add up to %d (lost update: executions of one key overlapped, or a call did not execute)", c.G*c.R, sum)
			}
		case "limit", "timeoutlimit":
			n := keys
			var out atomic.Int32
			slots := make([]int, c.G)
			if c.K == "limit" {
				l := syncx.NewLimit(n)
				run(func(g, r int) {
					if r%3 == 2 {
						if !l.TryBorrow() {
							return
						}
					} else {
						l.Borrow()
					}
					if x := out.Add(1); int(x) > n {
						failf("limit(%d): %d borrows outstanding", n, x)
					}
					slots[g]++
					c18Yield(c.Y)
					out.Add(-1)
					if err := l.Return(); err != nil {
						failf("limit(%d): Return after a borrow failed: %v", n, err)
					}
				})
				if err := l.Return(); err != syncx.ErrLimitReturn {
					failf("limit(%d): Return with nothing borrowed returned %v", n, err)
				}
			} else {
				l := syncx.NewTimeoutLimit(n)
				run(func(g, r int) {
					// never 0: under -race go1.26.8 crashes (SIGSEGV in
					// runtime.(*timer).maybeRunChan) when a select inside a bubble
					// meets an already expired timer on a P without a timer race
					// context; zero timeouts are covered by the main unit.
					to := time.Duration(r%4+1) * time.Millisecond
					begin := time.Now()
					if err := l.Borrow(to); err != nil {
						if err != syncx.ErrTimeout {
							failf("timeout-limit: Borrow returned %v", err)
						} else if time.Since(begin) < to {
							failf("timeout-limit(%d): ErrTimeout after %v, timeout %v", n, time.Since(begin), to)
						}
						return
					}
					if x := out.Add(1); int(x) > n {
						failf("timeout-limit(%d): %d borrows outstanding", n, x)
					}
					c18Yield(c.Y)
					out.Add(-1)
					if err := l.Return(); err != nil {
						failf("timeout-limit(%d): Return after a borrow failed: %v", n, err)
					}
				})
				if err := l.Return(); err != syncx.ErrLimitReturn {
					failf("timeout-limit(%d): Return with nothing borrowed returned %v", n, err)
				}
			}
		case "pool":
			type res struct{ owner, uses int } // plain: one holder at a time
			var live atomic.Int32
			p := syncx.NewPool(keys, func() interface{} {
				if x := live.Add(1); int(x) > keys {
					failf("pool(limit %d): %d live resources", keys, x)
				}
				return &res{}
			}, func(x interface{}) { live.Add(-1) })
			run(func(g, r int) {
				x := p.Get().(*res)
				x.owner = g
				x.uses++
				c18Yield(c.Y)
				if x.owner != g {
					failf("pool: resource handed to two holders (owner changed from g%d to g%d while held)", g, x.owner)
				}
				p.Put(x)
			})
		case "refresource":
			alive := true // plain: written by clean, read by users holding a reference
			cleans := 0   // plain: clean runs under the resource's lock, once
			rr := syncx.NewRefResource(func() { alive = false; cleans++ })
			if err := rr.Use(); err != nil { // the owner's reference keeps it alive during the run
				failf("ref-resource: first Use failed: %v", err)
			}
			run(func(g, r int) {
				if err := rr.Use(); err != nil {
					failf("ref-resource: Use refused while the owner's reference is held")
					return
				}
				if !alive {
					failf("ref-resource: resource cleaned while in use")
				}
				c18Yield(c.Y)
				rr.Clean()
			})
			if cleans != 0 {
				failf("ref-resource: cleaned %d times although the owner still holds a reference", cleans)
			}
			rr.Clean()
			if cleans != 1 || alive {
				failf("ref-resource: after the last Clean the clean function ran %d times", cleans)
			}
			if err := rr.Use(); err != syncx.ErrUseOfCleaned {
				failf("ref-resource: Use after clean returned %v", err)
			}
		case "resourcemanager":
			m := syncx.NewResourceManager()
			created := make([]int, keys) // plain: creators of one key never overlap
			var all []*c18RaceCloser
			var amu sync.Mutex
			first := make([]atomic.Pointer[c18RaceCloser], keys)
			run(func(g, r int) {
				k := (g + r) % keys
				x, err := m.Get(fmt.Sprintf("k%d", k), func() (io.Closer, error) {
					created[k]++
					c18Yield(c.Y)
					cl := &c18RaceCloser{}
					amu.Lock()
					all = append(all, cl)
					amu.Unlock()
					return cl, nil
				})
				cl, ok := x.(*c18RaceCloser)
				if err != nil || !ok {
					failf("resource-manager: Get returned (%v, %v)", x, err)
					return
				}
				if !first[k].CompareAndSwap(nil, cl) && first[k].Load() != cl {
					failf("resource-manager: two different resources handed out for key %d", k)
				}
			})
			for k, n := range created {
				if n > 1 {
					failf("resource-manager: key %d created %d times", k, n)
				}
			}
			_ = m.Close()
			for _, cl := range all {
				if cl.closed != 1 {
					failf("resource-manager: a resource was closed %d times by Close", cl.closed)
				}
			}
		case "managedresource":
			gen := 0 // plain: generate runs under the write lock
			mr := syncx.NewManagedResource(func() interface{} { gen++; return gen },
				func(a, b interface{}) bool { return a == b })
			var broken atomic.Int32
			run(func(g, r int) {
				x := mr.Take()
				if id, ok := x.(int); !ok || id < 1 {
					failf("managed-resource: Take returned %v", x)
				}
				if (g+r)%3 == 0 {
					mr.MarkBroken(x)
					broken.Add(1)
				}
			})
			if gen > 1+int(broken.Load()) {
				failf("managed-resource: %d resources generated for %d MarkBroken calls", gen, broken.Load())
			}
		case "spinlock":
			var l syncx.SpinLock
			plain := 0
			done := 0
			run(func(g, r int) {
				if r%3 == 2 {
					if !l.TryLock() {
						return
					}
				} else {
					l.Lock()
				}
				x := plain
				c18Yield(c.Y)
				plain = x + 1
				done++
				l.Unlock()
			})
			if plain != done {
				failf("spin-lock: lost update")
			}
		case "barrier":
			var b syncx.Barrier
			plain := 0
			run(func(g, r int) {
				boom := c.P > 0 && (g+r)%c.P == 0
				c18RaceTry(func() {
					b.Guard(func() {
						x := plain
						c18Yield(c.Y)
						plain = x + 1
						if boom {
							panic(c18RacePanic{})
						}
					})
				})
			})
			if plain != c.G*c.R {
				failf("barrier: %d guarded increments produced %d", c.G*c.R, plain)
			}
		case "onceguard":
			var og syncx.OnceGuard
			winner := -1 // plain: written by the single winner only
			var wins atomic.Int32
			run(func(g, r int) {
				if og.Take() {
					winner = g
					wins.Add(1)
				} else if !og.Taken() {
					failf("once-guard: Take lost but Taken reports false")
				}
			})
			if wins.Load() != 1 || winner < 0 {
				failf("once-guard: %d winners", wins.Load())
			}
		case "donechan":
			dc := syncx.NewDoneChan()
			payload := 0 // plain: written before the first Close, read after Done
			var once sync.Once
			run(func(g, r int) {
				if (g+r)%2 == 0 {
					once.Do(func() { payload = 42 })
					dc.Close()
				}
				if g == 0 || (g+r)%2 == 0 { // g0 closes at r=0, so nobody waits for ever
					<-dc.Done()
					if payload != 42 {
						failf("done-chan: released before Close")
					}
				}
			})
		}
	})
	v.Fail = fail
	if v.Fail == "" && !res.OK() {
		v.Fail = "bubble: " + res.String()
	}
	return v
}

func c18RaceGen(rt *rapid.T) c18RaceCase {
	return c18RaceCase{
		K: rapid.SampledFrom([]string{"singleflight", "lockedcalls", "limit", "timeoutlimit", "pool", "refresource",
			"resourcemanager", "managedresource", "spinlock", "barrier", "onceguard", "donechan"}).Draw(rt, "k"),
		G: rapid.SampledFrom([]int{2, 2, 3, 4, 4, 6, 8}).Draw(rt, "g"),
		R: rapid.IntRange(1, 12).Draw(rt, "r"),
		N: rapid.IntRange(1, 3).Draw(rt, "n"),
		Y: rapid.IntRange(0, 2).Draw(rt, "y"),
		P: rapid.SampledFrom([]int{0, 0, 3, 5}).Draw(rt, "p"),
	}
}

func TestVerif_C18_race(t *testing.T) {
	kit.Run(t, "C18", "race-zero-delay", kit.Opts{Quick: 2000, Thorough: 40000, NoShard: true}, c18RaceGen,
		func(c c18RaceCase) kit.Verdict { return c18RaceInterp(t, c) })
}
