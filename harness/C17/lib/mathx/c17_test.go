package mathx

// C17 (anchored file lib/mathx/unstable.go) — the jitter primitive exactly as
// collection.Cache uses it: NewUnstable(0.05).AroundDuration(expire) must stay
// within 95%..105% of expire and never be negative, for every expiry the
// Duration type can carry with 5% head-room.
// Harness injected by /verif (overlay); see /verif/DESIGN.md "C17".

import (
	"fmt"
	"math"
	"math/big"
	"sort"
	"testing"
	"time"

	"pgregory.net/rapid"
	"verif.local/kit"
)

const c17jDeviation = 0.05 // collection.expiryDeviation

// c17jMaxBase: every positive Duration. Above MaxInt64/1.05 (about 278 years)
// 1.05*base is not representable: the upper bound is then MaxInt64 itself
// (still >= 0.95*base, so "between 95% and 105%" holds for the clamped value).
const c17jMaxBase = math.MaxInt64

type c17jCase struct {
	Base int64 `json:"base"` // ns
	J    int   `json:"j"`    // ns slept before NewUnstable (seeds its PRNG from the virtual clock)
	N    int   `json:"n"`    // draws
}

// c17jBounds: exact rational bounds floor(0.95*base) and ceil(1.05*base),
// widened by the rounding of the repository's float64 formula
// Duration((1 + d - 2*d*u) * float64(base)): float64(base) and each of the few
// float operations are off by at most 2^-53 relative, in total < 2^-50, i.e.
// base>>50 ns (0 below ~13 days), plus 1 ns for the final truncation.
func c17jBounds(base int64) (lo, hi *big.Int) {
	b := big.NewInt(base)
	slack := big.NewInt(base>>50 + 1)
	lo = new(big.Int).Mul(b, big.NewInt(95))
	lo.Div(lo, big.NewInt(100)) // floor for non-negative values
	lo.Sub(lo, slack)
	hi = new(big.Int).Mul(b, big.NewInt(105))
	hi.Add(hi, big.NewInt(99))
	hi.Div(hi, big.NewInt(100)) // ceil
	hi.Add(hi, slack)
	if max := big.NewInt(math.MaxInt64); hi.Cmp(max) > 0 {
		hi = max
	}
	return
}

func c17jInterp(t *testing.T, c c17jCase) (v kit.Verdict) {
	classes := map[string]bool{}
	var fail string
	res := kit.Bubble(t, func() {
		if c.J > 0 {
			time.Sleep(time.Duration(c.J))
		}
		u := NewUnstable(c17jDeviation)
		lo, hi := c17jBounds(c.Base)
		for i := 0; i < c.N; i++ {
			got := int64(u.AroundDuration(time.Duration(c.Base)))
			if got != c.Base {
				v.NonTrivial = true
			}
			if got < 0 {
				fail = fmt.Sprintf("AroundDuration(%d ns = %v) draw %d = %d ns: negative", c.Base, time.Duration(c.Base), i, got)
				return
			}
			g := big.NewInt(got)
			if g.Cmp(lo) < 0 || g.Cmp(hi) > 0 {
				fail = fmt.Sprintf("AroundDuration(%d ns = %v) draw %d = %d ns (%.6f of base): outside [0.95, 1.05]*base = [%v, %v]", c.Base, time.Duration(c.Base), i, got, float64(got)/float64(c.Base), lo, hi)
				return
			}
		}
	})
	switch b := time.Duration(c.Base); {
	case b < time.Second:
		classes["base<1s"] = true
	case b <= 20*time.Minute:
		classes["base-1s..20min"] = true
	case b <= 10*24*time.Hour:
		classes["base-20min..10d"] = true
	case b <= 100*24*time.Hour:
		classes["base-10d..100d"] = true
	case b <= 100*365*24*time.Hour:
		classes["base-100d..100y"] = true
	case c.Base <= math.MaxInt64/105*100:
		classes["base>100y"] = true
	default:
		classes["base>maxint64/1.05"] = true
	}
	for k := range classes {
		v.Classes = append(v.Classes, k)
	}
	sort.Strings(v.Classes)
	if fail != "" {
		v.Fail = fail
	} else if !res.OK() {
		v.Fail = "bubble: " + res.String()
	}
	return v
}

func c17jGen(rt *rapid.T) c17jCase {
	c := c17jCase{J: rapid.IntRange(0, 999999).Draw(rt, "j"), N: rapid.IntRange(1, 16).Draw(rt, "n")}
	switch rapid.SampledFrom([]string{"log", "log", "log", "boundary", "grid", "days"}).Draw(rt, "class") {
	case "log": // log-uniform over 1 ns .. ~276 years
		bits := rapid.IntRange(0, 62).Draw(rt, "bits")
		c.Base = int64(1) << uint(bits)
		if bits > 0 {
			c.Base += rapid.Int64Range(0, c.Base-1).Draw(rt, "mant")
		}
	case "boundary": // where integer arithmetic in 1/100, 1/1000, 1/10000 units would overflow
		div := rapid.SampledFrom([]int64{10500, 10000, 9500, 1050, 1000, 950, 105, 100, 95}).Draw(rt, "div")
		mul := rapid.SampledFrom([]int64{1, 1, 2, 3}).Draw(rt, "mul")
		c.Base = math.MaxInt64/div*mul + rapid.Int64Range(-1000, 1000).Draw(rt, "delta")
		if div == 100 && mul == 1 && rapid.Bool().Draw(rt, "top") { // the top of the range: MaxInt64 - 0..1000, MaxInt64/1.05 +- 1000
			c.Base = rapid.SampledFrom([]int64{math.MaxInt64, math.MaxInt64 / 105 * 100}).Draw(rt, "top-base") - rapid.Int64Range(0, 1000).Draw(rt, "top-delta")
		}
	case "grid": // expiries as a cache is configured: multiples of 100 ms from 2 s to 60 days
		c.Base = int64(100*time.Millisecond) * rapid.Int64Range(20, 60*864000).Draw(rt, "grid")
	case "days":
		c.Base = int64(24*time.Hour) * rapid.Int64Range(1, 36500).Draw(rt, "days")
	}
	if c.Base < 1 {
		c.Base = 1
	}
	if c.Base > c17jMaxBase {
		c.Base = c17jMaxBase
	}
	return c
}

func TestVerif_C17_jitter(t *testing.T) {
	kit.Run(t, "C17", "jitter-bounds", kit.Opts{Quick: 20000, Thorough: 800000}, c17jGen,
		func(c c17jCase) kit.Verdict { return c17jInterp(t, c) })
}
