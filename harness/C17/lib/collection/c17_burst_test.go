package collection

// C17 rule take-burst — the single-flight clause of Take under REAL parallelism.
//
// cache-history drives Take groups on the virtual clock of a synctest bubble: a fetch
// there sleeps, so every caller arriving while it runs is parked in the flight's
// WaitGroup long before the leader stores the value. The window between a caller's
// first (missed) cache lookup and its arrival at the flight table is never open while
// another flight for the key completes. This rule opens it: no bubble, real
// goroutines on 1, 2, 4 or all Ps, a fetch that answers from memory, and bursts of
// callers released by one gate on FRESH keys, round after round.
//
// What the statement determines (see verif.json, "take-burst"): every Take call has a
// point inside its own duration at which it either finds the key cached (returns that
// value, no fetch), or finds an execution of fetch for the key in progress (shares its
// result), or starts one. A successful execution caches its result when it completes.
// In a round nothing removes the key (expiry 24 h, limit >= keys in use) except the
// concurrent Del calls of the case, if any (see below), so for two executions X, Y of
// one key:
//   * X and Y in progress at the same time: whichever started second was started by a
//     caller that found an execution in progress - forbidden;
//   * X successful and ended before Y started: Y's caller decided to fetch after X had
//     completed and cached (it would have had to share X otherwise, or - had it decided
//     before X even started - X's caller would have had to share Y): the key was cached
//     at that point - forbidden.
//     With concurrent Del calls (case field dels) this is forbidden only when no Del can
//     have taken effect between X's completion and Y's start: a Del's effect lies inside
//     its stamped interval, so some Del with exit > X.end and enter < Y.start excuses Y.
// Hence the executions of one key in a round are disjoint in time and (without Del) only
// the LAST may succeed. Executions that FAIL may repeat (nothing is cached; a caller reaching the
// flight table after the failed flight has gone starts its own - unspecified which
// callers those are, so failed repeats are never counted).
// Time is a process-wide atomic sequence number; the stamps of an execution are taken
// INSIDE the fetch function (first and last statement), so "ended before / overlapping"
// by stamps implies the same in real time.
//
// The rule is a stress rule: the schedule is the Go scheduler's, not case data. On the
// unchanged tree the verdict does not depend on it (the argument above forbids the
// outcome for EVERY schedule); on a defective tree a replay may need several runs.

import (
	"fmt"
	"os"
	"runtime"
	"sort"
	"sync"
	"sync/atomic"
	"testing"
	"time"

	"pgregory.net/rapid"
	"verif.local/kit"
)

type c17BurstCase struct {
	P     int  `json:"p"`              // runtime.GOMAXPROCS while the case runs (0 = as the process has it)
	N     int  `json:"n"`              // Take callers per key and round, released together
	NK    int  `json:"nk"`             // fresh keys contended at once in a round
	R     int  `json:"r"`              // rounds
	Limit int  `json:"limit"`          // 0 = none; else >= NK (no key of the round can be evicted)
	Fail  int  `json:"fail,omitempty"` // the first Fail executions of every key fail (n-th call fault)
	Work  int  `json:"work,omitempty"` // fetch body: 0 returns at once, 1 Gosched, 2 / 3 spin 200 / 5000 iterations
	Pre   int  `json:"pre,omitempty"`  // stagger before Take: 0 none, 1 odd callers yield, 2 caller j yields j%3 times, 3 last quarter spins
	Keep  bool `json:"keep,omitempty"` // keys stay cached after the round (else Del + Get must miss)
	Gets  int  `json:"gets,omitempty"` // extra goroutines per key calling Get once during the burst
	Dels  int  `json:"dels,omitempty"` // extra goroutines per key calling Del once, as soon as a fetch of the key has started
	KA    int  `json:"ka,omitempty"`   // key shape: 0 plain, 1 with NUL / verbs / multi-byte, 2 long (4 KiB)
}

type c17BurstExec struct {
	who        int
	start, end int64
	ok         bool
	val        string
	err        error
}

type c17BurstCall struct {
	enter, exit int64
	val         any
	err         error
	pan         any
	paniced     bool
	ok          bool // Get: found
}

var c17BurstSink uint64

func c17BurstSpin(n int) {
	x := uint64(n) | 1
	for i := 0; i < n; i++ {
		x = x*6364136223846793005 + 1442695040888963407
	}
	atomic.AddUint64(&c17BurstSink, x)
}

func c17BurstKey(ka, round, k int) string {
	switch ka {
	case 1:
		return fmt.Sprintf("b\x00%%s%%d-键-%d-%d", round, k)
	case 2:
		return fmt.Sprintf("%04096d-%d", round, k)
	}
	return fmt.Sprintf("burst-%d-%d", round, k)
}

// c17BurstInterp: under --replay the case is repeated (up to 200 times, until it fails):
// the schedule is not part of the case, so one run of a failing case may well pass.
func c17BurstInterp(c c17BurstCase) (v kit.Verdict) {
	reps := 1
	if os.Getenv("VERIF_REPLAY") != "" {
		reps = 200
	}
	for i := 0; i < reps; i++ {
		if v = c17BurstOnce(c); v.Fail != "" {
			break
		}
	}
	return v
}

func c17BurstOnce(c c17BurstCase) (v kit.Verdict) {
	classes := map[string]bool{}
	defer func() {
		for k := range classes {
			v.Classes = append(v.Classes, k)
		}
		sort.Strings(v.Classes)
		v.NonTrivial = classes["burst-overlap"]
	}()
	if c.P > 0 {
		old := runtime.GOMAXPROCS(c.P)
		defer runtime.GOMAXPROCS(old)
	}
	classes[fmt.Sprintf("burst-gomaxprocs-%d", runtime.GOMAXPROCS(0))] = true
	switch {
	case c.N <= 4:
		classes["burst-callers-2..4"] = true
	case c.N <= 16:
		classes["burst-callers-5..16"] = true
	default:
		classes["burst-callers-17.."] = true
	}
	if c.Fail > 0 {
		classes["burst-failing-first-executions"] = true
	}
	if c.Work == 0 {
		classes["burst-zero-delay-fetch"] = true
	}
	if c.NK > 1 {
		classes["burst-several-keys-at-once"] = true
	}
	if c.Dels > 0 {
		classes["burst-concurrent-del"] = true
	}
	var opts []CacheOption
	if c.Limit > 0 {
		if c.Limit < c.NK {
			c.Limit = c.NK
		}
		opts = append(opts, WithLimit(c.Limit))
		classes["burst-limit"] = true
	}
	began := time.Now()
	cache, err := NewCache(24*time.Hour, opts...)
	if err != nil {
		v.Fail = "NewCache: " + err.Error()
		return
	}
	defer cache.timingWheel.Stop()

	var clock int64
	stamp := func() int64 { return atomic.AddInt64(&clock, 1) }

	for round := 0; round < c.R; round++ {
		keys := make([]string, c.NK)
		execs := make([][]c17BurstExec, c.NK)
		nexec := make([]int32, c.NK)
		calls := make([][]c17BurstCall, c.NK)
		gets := make([][]c17BurstCall, c.NK)
		dels := make([][]c17BurstCall, c.NK)
		for k := range keys {
			keys[k] = c17BurstKey(c.KA, round, k)
			execs[k] = make([]c17BurstExec, c.N)
			calls[k] = make([]c17BurstCall, c.N)
			gets[k] = make([]c17BurstCall, c.Gets)
			dels[k] = make([]c17BurstCall, c.Dels)
		}
		var wg sync.WaitGroup
		gate := make(chan struct{})
		for k := 0; k < c.NK; k++ {
			for j := 0; j < c.N; j++ {
				k, j := k, j
				wg.Add(1)
				go func() {
					defer wg.Done()
					call := &calls[k][j]
					<-gate
					switch c.Pre {
					case 1:
						if j%2 == 1 {
							runtime.Gosched()
						}
					case 2:
						for i := 0; i < j%3; i++ {
							runtime.Gosched()
						}
					case 3:
						if j >= c.N-c.N/4 {
							c17BurstSpin(300)
						}
					}
					call.paniced = true
					defer func() {
						if call.paniced {
							call.pan = recover()
						}
						call.exit = stamp()
					}()
					call.enter = stamp()
					call.val, call.err = cache.Take(keys[k], func() (any, error) {
						s := stamp()
						idx := int(atomic.AddInt32(&nexec[k], 1)) - 1
						switch c.Work {
						case 1:
							runtime.Gosched()
						case 2:
							c17BurstSpin(200)
						case 3:
							c17BurstSpin(5000)
						}
						e := &execs[k][idx] // idx < N: a Take call runs its fetch at most once
						e.who, e.start, e.ok = j, s, idx >= c.Fail
						if e.ok {
							e.val = fmt.Sprintf("value-%d-%d-%d", round, k, idx)
							e.end = stamp()
							return e.val, nil
						}
						e.err = fmt.Errorf("c17 burst fetch error %d-%d-%d", round, k, idx)
						e.end = stamp()
						return nil, e.err
					})
					call.paniced = false
				}()
			}
			for g := 0; g < c.Gets; g++ {
				k, g := k, g
				wg.Add(1)
				go func() {
					defer wg.Done()
					call := &gets[k][g]
					<-gate
					for i := 0; i < g; i++ {
						runtime.Gosched()
					}
					call.enter = stamp()
					call.val, call.ok = cache.Get(keys[k])
					call.exit = stamp()
				}()
			}
			for g := 0; g < c.Dels; g++ {
				k, g := k, g
				wg.Add(1)
				go func() {
					defer wg.Done()
					call := &dels[k][g]
					<-gate
					// aim: right after the first (g = 0) / second (g = 1) ... execution has begun
					for i := 0; i < 300 && int(atomic.LoadInt32(&nexec[k])) <= g; i++ {
						runtime.Gosched()
					}
					for i := 0; i < g; i++ {
						runtime.Gosched()
					}
					call.enter = stamp()
					cache.Del(keys[k])
					call.exit = stamp()
				}()
			}
		}
		close(gate)
		wg.Wait()
		if time.Since(began) > 30*time.Minute {
			v.Excluded = true // machine stalled: the 24 h expiry is no longer far away
			return
		}

		for k := 0; k < c.NK; k++ {
			what := fmt.Sprintf("round %d key %d (%d callers, GOMAXPROCS %d)", round, k, c.N, runtime.GOMAXPROCS(0))
			n := int(atomic.LoadInt32(&nexec[k]))
			if n > c.N {
				v.Fail = fmt.Sprintf("%s: %d executions of fetch by %d Take calls", what, n, c.N)
				return
			}
			ex := append([]c17BurstExec(nil), execs[k][:n]...)
			sort.Slice(ex, func(a, b int) bool { return ex[a].start < ex[b].start })
			if n == 0 {
				v.Fail = fmt.Sprintf("%s: no caller ran fetch for a key that was never set", what)
				return
			}
			entered := 0
			for _, cl := range calls[k] {
				if cl.enter < ex[0].end {
					entered++
				}
			}
			// delBetween: some concurrent Del of the key may have taken effect after stamp lo
			// and before stamp hi (its stamped interval contains its real one)
			delBetween := func(lo, hi int64) bool {
				for _, d := range dels[k] {
					if d.exit > lo && d.enter < hi {
						return true
					}
				}
				return false
			}
			for i := 1; i < n; i++ {
				prev, next := ex[i-1], ex[i]
				if next.start < prev.end {
					v.Fail = fmt.Sprintf("%s: fetch executions of callers %d and %d for one key were in progress at the same time (sequence stamps %d..%d and %d..%d)",
						what, prev.who, next.who, prev.start, prev.end, next.start, next.end)
					return
				}
				if prev.ok && delBetween(prev.end, next.start) {
					classes["burst-refetch-after-concurrent-del"] = true
				} else if prev.ok {
					v.Fail = fmt.Sprintf("%s: fetch ran again among overlapping Take callers of one key (%d executions, %d of them before the first success): caller %d started an execution (stamp %d) after the execution of caller %d had succeeded (stamps %d..%d) and nothing can have removed the key in between (no expiry, no eviction, no concurrent Del overlapping that gap); %d of the %d callers had entered Take before the first execution ended",
						what, n, i-1, next.who, next.start, prev.who, prev.start, prev.end, entered, c.N)
					return
				}
			}
			if n > 1 {
				classes["burst-refetch-after-failed-execution"] = true
			}
			// succ: the last successful execution (without concurrent Del: the only one)
			var succ *c17BurstExec
			for i := range ex {
				if ex[i].ok {
					succ = &ex[i]
				}
			}
			matchSucc := func(got any, exit int64) (found, early bool) {
				for _, e := range ex {
					if e.ok && got == any(e.val) {
						return true, exit < e.end
					}
				}
				return false, false
			}
			if entered >= 2 {
				classes["burst-overlap"] = true
			}
			if entered == c.N {
				classes["burst-all-entered-before-first-fetch-ended"] = true
			} else {
				classes["burst-late-entrants"] = true
			}
			firstSuccExit := int64(1) << 62
			for j, cl := range calls[k] {
				if cl.paniced {
					v.Fail = fmt.Sprintf("%s: Take of caller %d panicked: %v", what, j, cl.pan)
					return
				}
				matched := false
				if cl.err == nil {
					if found, early := matchSucc(cl.val, cl.exit); found {
						matched = true
						if early {
							v.Fail = fmt.Sprintf("%s: caller %d returned %#v before the execution producing it had ended", what, j, cl.val)
							return
						}
						if cl.exit < firstSuccExit {
							firstSuccExit = cl.exit
						}
					}
				} else if cl.val == nil {
					for _, e := range ex {
						if !e.ok && e.err == cl.err {
							matched = true
							if cl.exit < e.end {
								v.Fail = fmt.Sprintf("%s: caller %d returned the error of an execution that had not ended yet", what, j)
								return
							}
						}
					}
				}
				if !matched {
					v.Fail = fmt.Sprintf("%s: caller %d got (%#v, %v), which is the result of none of the %d fetch executions of its key in this round", what, j, cl.val, cl.err, n)
					return
				}
			}
			for j, cl := range calls[k] {
				if cl.err != nil && cl.enter > firstSuccExit {
					v.Fail = fmt.Sprintf("%s: caller %d entered Take after another caller had already returned the fetched value, and got the error %v instead of the cached value", what, j, cl.err)
					return
				}
			}
			for g, cl := range gets[k] {
				if !cl.ok {
					if cl.enter > firstSuccExit && c.Dels == 0 {
						v.Fail = fmt.Sprintf("%s: concurrent Get %d started after a Take had returned the fetched value, and missed", what, g)
						return
					}
					continue
				}
				classes["burst-concurrent-get-hit"] = true
				if found, early := matchSucc(cl.val, cl.exit); !found || early {
					v.Fail = fmt.Sprintf("%s: concurrent Get %d returned (%#v, true): not the result of a successful fetch that had ended", what, g, cl.val)
					return
				}
			}
			got, ok := cache.Get(keys[k])
			switch {
			case succ != nil && !ok && delBetween(succ.end, int64(1)<<62):
				classes["burst-deleted-after-last-success"] = true // a Del may have come last
			case succ != nil && (!ok || got != any(succ.val)):
				v.Fail = fmt.Sprintf("%s: Get after the burst = (%#v, %v), the last successful fetch returned %q and no Del can have followed it", what, got, ok, succ.val)
				return
			case succ == nil && ok:
				v.Fail = fmt.Sprintf("%s: Get after the burst = (%#v, true) although every fetch failed", what, got)
				return
			}
			if succ != nil {
				classes["burst-success"] = true
			} else {
				classes["burst-all-executions-failed"] = true
			}
		}
		if !c.Keep {
			for k := range keys {
				cache.Del(keys[k])
				if got, ok := cache.Get(keys[k]); ok {
					v.Fail = fmt.Sprintf("round %d key %d: Get after Del = (%#v, true)", round, k, got)
					return
				}
			}
		} else if c.Limit > 0 {
			if n := cache.size(); n > c.Limit {
				v.Fail = fmt.Sprintf("round %d: cache holds %d entries, limit %d", round, n, c.Limit)
				return
			}
		}
	}
	return
}

func c17BurstGen(rt *rapid.T) c17BurstCase {
	c := c17BurstCase{}
	c.P = rapid.SampledFrom([]int{0, 0, 1, 2, 4}).Draw(rt, "p")
	c.N = rapid.SampledFrom([]int{2, 3, 4, 8, 16, 32, 48, 48, 64}).Draw(rt, "n")
	c.NK = rapid.SampledFrom([]int{1, 1, 1, 2, 3}).Draw(rt, "nk")
	c.R = rapid.IntRange(20, 400).Draw(rt, "r")
	if rapid.IntRange(0, 3).Draw(rt, "limited") == 0 {
		c.Limit = c.NK + rapid.IntRange(0, 3).Draw(rt, "limit-extra")
	}
	c.Fail = rapid.SampledFrom([]int{0, 0, 0, 0, 1, 2, 5}).Draw(rt, "fail")
	c.Work = rapid.SampledFrom([]int{0, 0, 0, 0, 1, 2, 3}).Draw(rt, "work")
	c.Pre = rapid.IntRange(0, 3).Draw(rt, "pre")
	c.Keep = rapid.Bool().Draw(rt, "keep")
	c.Gets = rapid.SampledFrom([]int{0, 0, 1, 4}).Draw(rt, "gets")
	c.Dels = rapid.SampledFrom([]int{0, 0, 0, 1, 2}).Draw(rt, "dels")
	c.KA = rapid.SampledFrom([]int{0, 0, 0, 1, 2}).Draw(rt, "ka")
	return c
}

func TestVerif_C17_burst(t *testing.T) {
	// the variant units (@p1: GOMAXPROCS=1 process, @race: -race build) run a small share
	// of cache-history (VERIF_CHECKS_MULT of the unit); this rule is cheap and is the one
	// that needs those environments, so its share there is four times larger
	boost := 1
	if os.Getenv("VERIF_RULE_SUFFIX") != "" {
		boost = 4
	}
	kit.Run(t, "C17", "take-burst", kit.Opts{Quick: 300 * boost, Thorough: 9600 * boost}, c17BurstGen, c17BurstInterp)
}
