package collection

// C17 — in-memory cache: bounded, LRU-ordered, fresh within the 95%..105%
// expiry window, single-flight Take.
// Harness injected by /verif (overlay); see /verif/DESIGN.md "C17".
//
// Time layout inside one bubble (virtual clock, offsets from bubble start):
//   * the cache (and with it the wheel's 1 s ticker) is created at J ns (< 1 ms),
//     so wheel ticks happen at J + n*1s;
//   * sequential operations happen at instants = 50 ms (mod 100 ms), callers of a take
//     group arrive at 50 ms + 2 ms * key index (mod 100 ms);
//   * fetch functions take k*100 ms + 20 ms, so fetches of key i complete at
//     70 ms + 2 ms * i (mod 100 ms): events of different keys never share an instant;
//   * snapshots taken while a take group is running happen at tick + 10 ms.
// Hence no operation ever coincides with a wheel tick or with another kind of
// event, and "number of ticks the wheel has seen" == floor(offset / 1 s).

import (
	"errors"
	"fmt"
	"hash/crc32"
	"hash/fnv"
	"io"
	"math"
	"reflect"
	"runtime"
	"sort"
	"strings"
	"sync"
	"sync/atomic"
	"testing"
	"time"

	"github.com/gotid/god/lib/hash"
	"github.com/gotid/god/lib/logx"
	"pgregory.net/rapid"
	"verif.local/kit"
)

func init() { logx.Disable() }

// Keys that COLLIDE under the repository's own hash function (lib/hash.Hash,
// 64-bit murmur3) and under the usual 32-bit hashes. A table, shard index or
// single-flight map keyed by a hash instead of the key confuses exactly these.
// The 64-bit pairs are constants (verified below, so the class cannot go stale
// silently); the 32-bit pairs are found once by a birthday search.
var (
	c17Murmur64Pairs = [2][2]string{
		{"app-b1c01c1ebbabfeae", "app-635f1dbb22d2ef8d"},
		{"cache:user:100016mfbq5izke6w4b75", "cache:user:20002w1C9SrxFsBNdGuxU"},
	}
	c17Crc32Pair, c17Fnv32Pair, c17Murmur32Pair [2]string
)

func c17Birthday(name string, h func(string) uint32) [2]string {
	seen := make(map[uint32]int32, 1<<19)
	// keys u<16 hex digits of a mixed counter>: long and varied enough for crc32,
	// which never collides on inputs that differ in a window of <= 32 bits
	key := func(i int32) string { return fmt.Sprintf("u%016x", uint64(i+1)*0x9E3779B97F4A7C15) }
	for i := int32(0); i < 4000000; i++ {
		v := h(key(i))
		if j, ok := seen[v]; ok {
			return [2]string{key(j), key(i)}
		}
		seen[v] = i
	}
	panic("c17 harness: no colliding key pair found for " + name)
}

func init() {
	for _, p := range c17Murmur64Pairs {
		if p[0] == p[1] || hash.Hash([]byte(p[0])) != hash.Hash([]byte(p[1])) {
			panic(fmt.Sprintf("c17 harness: %q and %q no longer collide under lib/hash.Hash: the colliding-key class is stale", p[0], p[1]))
		}
	}
	c17Crc32Pair = c17Birthday("crc32", func(k string) uint32 { return crc32.ChecksumIEEE([]byte(k)) })
	c17Fnv32Pair = c17Birthday("fnv1a-32", func(k string) uint32 {
		f := fnv.New32a()
		f.Write([]byte(k))
		return f.Sum32()
	})
	c17Murmur32Pair = c17Birthday("low 32 bits of lib/hash.Hash", func(k string) uint32 { return uint32(hash.Hash([]byte(k))) })
}

const (
	c17Tick       = time.Second
	c17Slots      = 300
	c17Grid       = 100 * time.Millisecond
	c17OpPhase    = 50 * time.Millisecond
	c17FetchPhase = 20 * time.Millisecond
	c17PeekPhase  = 10 * time.Millisecond
	c17InterPhase = 30 * time.Millisecond
	c17KeyPhase   = 2 * time.Millisecond
	c17CachePhase = 1 * time.Millisecond
	c17LockHeld   = "<cache lock held>"
	// expiries above c17LongMs (20 min) are "long": the case never ticks through
	// them; only the lower half of the window oracle applies (present at every
	// tick before floor(0.95e)), checked while the case advances seconds..hours
	// and past the windows of every shorter expiry the key ever had
	c17LongMs = 1200000
	c17DayMs  = 86400000
)

type c17Taker struct {
	C   int  `json:"c,omitempty"`   // cache index; callers of cache 1 arrive 1 ms after those of cache 0
	Key int  `json:"key"`           // key index; callers of key i arrive 2*i ms after the grid instant
	At  int  `json:"at"`            // arrival offset, in 100 ms units
	Lat int  `json:"lat"`           // fetch latency = Lat*100 ms + 20 ms
	Err bool `json:"err,omitempty"` // fetch fails
	Pan bool `json:"pan,omitempty"` // fetch panics (recovered by the calling goroutine of the harness)
	// Re: the fetch function calls back into the same cache right before it
	// ends: "get" / "set" / "del" of the NEXT key (index Key+1 mod nk). Legal
	// today because Take holds no lock while fetch runs. Never the key being
	// taken (a nested Take of it would wait for itself).
	Re string `json:"re,omitempty"`
}

// c17Inter is a call made by ANOTHER goroutine while a take group is running:
// Set (cache default expiry) / Del / Get of a key, typically the key whose fetch
// is in flight. It happens At*100 ms + 30 ms + 2 ms * key + 1 ms * cache after the
// group starts, an instant no arrival, fetch completion, snapshot or tick shares.
type c17Inter struct {
	C   int    `json:"c,omitempty"`
	Key int    `json:"key"`
	At  int    `json:"at"`
	K   string `json:"k"` // set del get
}

// c17Panic is one of the values a panicking fetch panics with.
type c17Panic struct{ id int }

// c17Box / c17Err: pointer, struct and typed-nil shapes of cached values and of
// fetch errors. The cache treats values and errors as opaque `any`/`error`.
type c17Box struct{ ID int }

type c17Err struct{ id int }

func (e *c17Err) Error() string { return fmt.Sprintf("c17 fetch error %d", e.id) } // panics on a typed nil, like most real error types

// c17Val maps a value id (unique per Set / fetch of a case) to the cached value:
// the id selects the dynamic type too, so every history mixes ints, strings,
// uncomparable slices, pointers, structs, nil and typed nil pointers.
func c17Val(id int) any {
	switch id % 7 {
	case 1:
		return fmt.Sprintf("v%d", id)
	case 2:
		return []int{id}
	case 3:
		return &c17Box{id}
	case 4:
		return c17Box{id}
	case 5:
		return nil
	case 6:
		return (*c17Box)(nil)
	}
	return id
}

func c17Same(got any, id int) bool { return reflect.DeepEqual(got, c17Val(id)) }

func c17ErrVal(id int) error {
	switch id % 5 {
	case 1:
		return fmt.Errorf("c17 fetch error %d: %w", id, io.EOF)
	case 2:
		return io.EOF
	case 3:
		return &c17Err{id}
	case 4:
		return (*c17Err)(nil) // nil pointer inside a non-nil error interface: still a failure
	}
	return errors.New(fmt.Sprintf("c17 fetch error %d", id))
}

func c17PanicVal(id int) any {
	switch id % 3 {
	case 1:
		return fmt.Errorf("c17 fetch panic %d", id)
	case 2:
		return fmt.Sprintf("c17 fetch panic %d", id)
	}
	return c17Panic{id}
}

// c17RealKeys: the strings handed to the cache for key indices 0..5. Alphabet 0
// is k0..k5; alphabet 1 uses the empty key, format verbs, NUL, invalid UTF-8,
// multi-byte text and a 64 KiB + 1 key. Models and messages use the labels k<i>.
func c17RealKeys(alphabet int) []string {
	switch alphabet {
	case 2: // keys 2i and 2i+1 collide: murmur3-64 (twice), low 32 bits of murmur3
		return []string{c17Murmur64Pairs[0][0], c17Murmur64Pairs[0][1], c17Murmur64Pairs[1][0], c17Murmur64Pairs[1][1], c17Murmur32Pair[0], c17Murmur32Pair[1]}
	case 3: // crc32, fnv-1a 32, murmur3-64
		return []string{c17Crc32Pair[0], c17Crc32Pair[1], c17Fnv32Pair[0], c17Fnv32Pair[1], c17Murmur64Pairs[0][0], c17Murmur64Pairs[0][1]}
	}
	if alphabet == 1 {
		return []string{"", "%s%d%!v(MISSING)%", "a\x00b", "\xff\xfe\xfd", "Ключ-键-🔑", strings.Repeat("long/*?[", 8192) + "x"}
	}
	return []string{"k0", "k1", "k2", "k3", "k4", "k5"}
}

type c17Op struct {
	K   string     `json:"k"`             // set setx get del adv take
	C   int        `json:"c,omitempty"`   // cache index (take: see the callers)
	Key int        `json:"key,omitempty"` // key index (take: see the callers)
	E   int64      `json:"e,omitempty"`   // setx: expiry in ms (int64: expiries above 2^31 ms also on a 32-bit int)
	N   int        `json:"n,omitempty"`   // adv: ticks; churn: iterations
	M   int        `json:"m,omitempty"`   // churn: 0 = Set+Del cycling over 3 extra keys, 1 = Set of N distinct extra keys (evicted by the limit)
	T   []c17Taker `json:"t,omitempty"`   // take: the callers
	X   []c17Inter `json:"x,omitempty"`   // take: Set/Del/Get by other goroutines while the group runs
}

// c17Cfg configures the optional second cache of a case. Both caches live in
// one bubble (one process) and are used over the same key space; each is
// judged by its own model.
type c17Cfg struct {
	Limit int    `json:"limit"`
	Exp   int64  `json:"exp"`
	Name  string `json:"name,omitempty"` // "" = no WithName (default name)
}

type c17Case struct {
	Limit int     `json:"limit"`          // 0 = unlimited
	Exp   int64   `json:"exp"`            // cache expiry in ms
	Name  string  `json:"name,omitempty"` // WithName of cache 0, "" = none
	// Shared: both caches are built from ONE []CacheOption slice (WithLimit(Limit),
	// WithName(Name)); C2.Limit and C2.Name then equal those of cache 0
	Shared bool `json:"shared,omitempty"`
	// Opt: shape of the option list. bit 0: WithName before WithLimit; bit 1: a
	// limit <= 0 (0 or -1, "no limit") is passed explicitly as WithLimit(limit)
	Opt int `json:"opt,omitempty"`
	// KA: key alphabet (see c17RealKeys)
	KA int `json:"ka,omitempty"`
	// P: runtime.GOMAXPROCS while the caches are constructed and the case runs
	// (0 = as the process has it); restored after the case
	P int `json:"p,omitempty"`
	C2    *c17Cfg `json:"c2,omitempty"`   // second cache, created 1 us after the first
	J     int     `json:"j"`     // ns slept before NewCache (seeds the cache's jitter PRNG)
	Off   int     `json:"off"`   // wheel phase: ticks before the first op
	NK    int     `json:"nk"`    // keys
	Ops   []c17Op `json:"ops"`
}

func c17Key(i int) string { return fmt.Sprintf("k%d", i) }

func c17KeyIndex(label string) int {
	var i int
	fmt.Sscanf(label, "k%d", &i)
	return i
}

// c17Window: an entry set when the wheel has seen n0 ticks is scheduled with
// delay d = expire*(1.05 - 0.1u), u in [0,1), i.e. 0.95e < d <= 1.05e (float
// rounding aside), floored by the wheel to floor(d/1s) >= 1 ticks. It must be
// present while ticks-since-set < lo and absent once ticks-since-set >= hi.
// A 1 ms margin absorbs float rounding of the jitter product (costs one tick
// of sharpness only when 0.95e or 1.05e is a whole number of seconds).
// c17Sub: the jittered expiry may be below the wheel's 1 s interval
// (0.95e < 1 s). The statement fixes expiry only "to the granularity of the
// one-second wheel tick", so for such an entry the instant of the drop is
// UNSPECIFIED between the Set itself and the tick at which floor(1.05e)
// (at least one) ticks have passed: it may vanish at once (today: overwrite of
// a cached key) or at the next tick (today: new key); required is only that it
// is gone by then, that operations keep completing and that other entries are
// unaffected.
func c17Sub(expMs int64) bool {
	return expMs*1000*95/100-1000 < 1000000
}

// c17MaxMs encodes time.Duration(math.MaxInt64), the "never expires" idiom.
const c17MaxMs = math.MaxInt64 / 1000000

func c17Dur(expMs int64) time.Duration {
	if expMs >= c17MaxMs {
		return math.MaxInt64
	}
	return time.Duration(expMs) * time.Millisecond
}

// c17Overflows: 1.05*expire is not representable as a Duration (expire above
// MaxInt64/1.05 ns, e.g. time.Duration(math.MaxInt64) = "never"). Such entries
// are ordinary long-expiry entries for the oracle. (Findings expiry-jitter-overflow
// and set-after-rejected-expiry, fixed in /repo 00e8b57 and e9f3578, see FINDINGS.md;
// regression replays in /verif/replays/C17.)
func c17Overflows(expMs int64) bool { return c17Dur(expMs) > math.MaxInt64/105*100 }

func c17Window(expMs int64) (lo, hi int64) { // in ticks; int64: a 100-year expiry has more than 2^31 of them
	us := expMs * 1000
	lo = (us*95/100 - 1000) / 1000000
	hi = (us*105/100 + 1000) / 1000000
	if lo < 1 {
		lo = 1
	}
	if hi < 1 {
		hi = 1
	}
	return
}

// ---- reference model: LRU + expiry windows, written from the statement ----

type c17Ent struct {
	val    int
	set    int // wheel ticks seen when last set
	lo, hi int64
	long   bool // expiry > c17LongMs: never ticked through
	sub    bool // c17Sub: may be dropped at any time from its Set on
	free   bool // expiry <= 0: the statement says nothing about its lifetime
}

type c17Model struct {
	limit   int
	ents    map[string]*c17Ent
	order   []string // front (index 0) = most recently set/read/taken
	last    int      // tick of the last reconciliation
	classes map[string]bool
	// panicked: keys for which a fetch has panicked (classification only)
	panicked map[string]bool
	// shortEnd: latest tick at which any non-long expiry ever set in the case
	// (overwritten or not) could still fire; the horizon runs past it
	shortEnd int
	// failKey: key a failure is about
	failKey string
}

func c17NewModel(limit int, classes map[string]bool) *c17Model {
	return &c17Model{limit: limit, ents: map[string]*c17Ent{}, classes: classes, panicked: map[string]bool{}}
}

func (m *c17Model) unlink(k string) {
	for i, x := range m.order {
		if x == k {
			m.order = append(m.order[:i], m.order[i+1:]...)
			return
		}
	}
}

func (m *c17Model) touch(k string) {
	m.unlink(k)
	m.order = append([]string{k}, m.order...)
}

func (m *c17Model) drop(k string) {
	delete(m.ents, k)
	m.unlink(k)
}

// set stores the value; returns the evicted key ("" if none).
func (m *c17Model) set(k string, val, tick int, expMs int64) string {
	lo, hi := c17Window(expMs)
	if old, live := m.ents[k]; live && !old.long && expMs > c17LongMs {
		m.classes["reset-short-to-long"] = true
	}
	if expMs <= 0 {
		// lifetime unspecified: no window, no horizon
	} else if expMs > c17LongMs {
		m.classes["set-long-expiry"] = true
		if expMs > 10*c17DayMs {
			m.classes["set-expiry-over-10-days"] = true
		}
	} else if tick+int(hi) > m.shortEnd { // short expiry: hi <= 1260
		m.shortEnd = tick + int(hi)
	}
	m.ents[k] = &c17Ent{val: val, set: tick, lo: lo, hi: hi, long: expMs > c17LongMs, sub: c17Sub(expMs), free: expMs <= 0}
	switch {
	case expMs <= 0:
		m.classes["set-nonpositive-expiry"] = true
	case c17Sub(expMs):
		m.classes["set-sub-interval-expiry"] = true
	case c17Overflows(expMs):
		m.classes["set-expiry-above-maxint64/1.05"] = true
	case expMs >= 36500*c17DayMs:
		m.classes["set-expiry-100-years-or-more"] = true
	}
	m.touch(k)
	if m.limit > 0 && len(m.order) > m.limit {
		victim := m.order[len(m.order)-1]
		m.drop(victim)
		m.classes["evict"] = true
		return victim
	}
	return ""
}

// reconcile compares a snapshot of the cache contents taken when the wheel has
// seen T ticks (after the effects of tick T, before any later operation) with
// the model. Entries may vanish only through expiry: at a tick t in
// (m.last, T] with lo <= t-set <= hi. The model then follows the observation.
func (m *c17Model) reconcile(snap map[string]any, T int, what string) string {
	if _, held := snap[c17LockHeld]; held {
		return fmt.Sprintf("%s: at tick %d every goroutine of the bubble is idle but the cache lock is held: an operation or expiry callback is blocked for good inside the cache (later operations cannot complete)", what, T)
	}
	keys := make([]string, 0, len(m.ents))
	for k := range m.ents {
		keys = append(keys, k)
	}
	sort.Strings(keys)
	for _, k := range keys {
		e := m.ents[k]
		age := T - e.set
		v, present := snap[k]
		if present {
			if !c17Same(v, e.val) {
				m.failKey = k
				return fmt.Sprintf("%s: cache holds %s=%#v at tick %d, most recently set value is #%d = %#v", what, k, v, T, e.val, c17Val(e.val))
			}
			if e.free {
				continue
			}
			if int64(age) >= e.hi {
				m.failKey = k
				return fmt.Sprintf("%s: %s (set at tick %d, window [%d,%d] ticks) still present at tick %d, age %d ticks >= 105%% bound", what, k, e.set, e.lo, e.hi, T, age)
			}
			if int64(age) >= e.lo {
				m.classes["in-window-present"] = true
			}
			continue
		}
		if e.free {
			m.classes["nonpositive-expiry-entry-gone"] = true
			m.drop(k)
			continue
		}
		if e.sub { // unspecified instant: from the Set on (age >= hi is checked above)
			m.classes["expired"] = true
			if T == e.set && m.last == T {
				m.classes["sub-interval-dropped-at-once"] = true
			} else {
				m.classes["sub-interval-dropped-at-tick"] = true
			}
			m.drop(k)
			continue
		}
		first, lastOK := int64(e.set)+e.lo, int64(e.set)+e.hi
		if int64(m.last)+1 > first {
			first = int64(m.last) + 1
		}
		if int64(T) < lastOK {
			lastOK = int64(T)
		}
		if first > lastOK {
			m.failKey = k
			return fmt.Sprintf("%s: %s=%d (set at tick %d, may be dropped for age only %d..%d ticks later) is missing at tick %d (age %d, previous check at tick %d) although not deleted/evicted in the model (model order %v)", what, k, e.val, e.set, e.lo, e.hi, T, age, m.last, m.order)
		}
		m.classes["expired"] = true
		if int64(age) == e.lo {
			m.classes["expired-at-lo"] = true
		}
		if int64(age) == e.hi {
			m.classes["expired-at-hi"] = true
		}
		if e.lo >= c17Slots {
			m.classes["expired-multi-revolution"] = true
		}
		m.drop(k)
	}
	extra := []string{}
	for k := range snap {
		if _, ok := m.ents[k]; !ok {
			extra = append(extra, fmt.Sprintf("%s=%v", k, snap[k]))
		}
	}
	if len(extra) > 0 {
		sort.Strings(extra)
		return fmt.Sprintf("%s: cache holds %v at tick %d which the model has deleted/evicted/expired or never set (model order %v)", what, extra, T, m.order)
	}
	if m.limit > 0 && len(snap) > m.limit {
		return fmt.Sprintf("%s: cache holds %d entries, limit %d", what, len(snap), m.limit)
	}
	m.last = T
	return ""
}

// ---- take-group history ----

const (
	c17EvArrive = iota
	c17EvFetchStart
	c17EvFetchEnd
	c17EvReturn
	c17EvPeek
	c17EvInter
)

type c17Ev struct {
	at   time.Duration
	kind int
	who  int
	val  any
	err  error
	pan  bool // the call of Take panicked
	pval any  // with this value
	rv     any  // re-entrant get: result
	rok    bool // re-entrant get: found
	relock bool // fetch found the cache lock held (re-entrant call not made)
	snap []map[string]any // per cache
}

func c17Lat(tk c17Taker) time.Duration {
	return time.Duration(tk.Lat)*c17Grid + c17FetchPhase
}

// c17CheckGroup replays the recorded history of one take group against the
// model. Written from the statement: a caller finding the key cached gets the
// cached value without any fetch; otherwise, if an execution of fetch for the
// key is in flight it waits for it and gets its result; otherwise exactly one
// of the callers arriving at that instant runs its fetch. The result of a
// successful fetch is cached (with the cache's expiry), a failed one is not.
// A fetch that panics: the statement is silent about what the executing caller
// and the callers waiting for it receive (UNSPECIFIED, not compared); required
// are only that all of them return when the execution ends, that nothing is
// cached, and that the execution is over: a later caller of the key is judged
// by the normal rules (it must run a fetch of its own).
func c17CheckGroup(ms []*c17Model, exps []int64, op c17Op, nk int, vals, rvals, xvals []int, errs []error, pvals []any, log []c17Ev, what string) string {
	type flight struct {
		leader  int
		start   time.Duration
		waiters map[int]bool
		// interfered / setDuring: another goroutine called Set/Del/Get (Set) of the key
		// while this execution was in flight
		interfered, setDuring bool
	}
	flights := map[string]*flight{}
	arrived := map[int]bool{}
	returned := map[int]bool{}
	execs := map[string]int{}
	for bi := 0; bi < len(log); {
		bj := bi
		for bj < len(log) && log[bj].at == log[bi].at {
			bj++
		}
		batch := log[bi:bj]
		bi = bj
		at := batch[0].at
		tick := int(at / c17Tick)
		var arr, fst, fen, ret, peeks, inters []c17Ev
		for _, e := range batch {
			switch e.kind {
			case c17EvInter:
				inters = append(inters, e)
			case c17EvArrive:
				arr = append(arr, e)
			case c17EvFetchStart:
				fst = append(fst, e)
			case c17EvFetchEnd:
				fen = append(fen, e)
			case c17EvReturn:
				ret = append(ret, e)
			case c17EvPeek:
				peeks = append(peeks, e)
			}
		}
		w := fmt.Sprintf("%s at +%v (tick %d)", what, at, tick)
		if len(inters) > 0 {
			// A Set / Del / Get by another goroutine while the group runs. Written from the
			// statement: Get returns the value most recently set; a Set makes the key
			// cached (callers arriving from now on get that value at once, without fetch
			// and without waiting for the execution in flight); a Del makes it absent
			// (callers arriving from now on share the execution in flight, or start one).
			// Neither touches the execution in flight: the callers already waiting get ITS
			// result when it completes, and a successful result is then cached - over a
			// value set meanwhile ("giving all of them its result and caching it").
			if len(inters) != 1 || len(batch) != 1 {
				return w + ": harness: the instant of an interfering call is shared with other events"
			}
			e := inters[0]
			x := op.X[e.who]
			key := c17Key(x.Key)
			m := ms[x.C]
			for _, y := range ms {
				y.failKey = ""
			}
			m.failKey = key
			if len(ms) > 1 {
				w += fmt.Sprintf(" cache %d", x.C)
			}
			during := ""
			if fl := flights[fmt.Sprintf("cache %d %s", x.C, key)]; fl != nil {
				during = "-during-fetch"
				fl.interfered = true
			}
			m.classes["inter-"+x.K+during] = true
			switch x.K {
			case "set":
				if ev := m.set(key, xvals[e.who], tick, exps[x.C]); ev != "" && during != "" {
					m.classes["inter-set-during-fetch-evicts"] = true
				}
				if during != "" {
					flights[fmt.Sprintf("cache %d %s", x.C, key)].setDuring = true
				}
			case "del":
				m.drop(key)
			case "get":
				oe, live := m.ents[key]
				if live && oe.free && !e.rok {
					m.drop(key)
					live = false
				}
				if live && oe.sub && !e.rok {
					m.drop(key) // sub-interval expiry: the instant of the drop is unspecified
					live = false
				}
				if live {
					if !e.rok || !c17Same(e.rv, oe.val) {
						return fmt.Sprintf("%s: Get(%s) by another goroutine while the take group runs returned (%#v,%v), most recently set value #%d", w, key, e.rv, e.rok, oe.val)
					}
					m.touch(key)
				} else if e.rok {
					return fmt.Sprintf("%s: Get(%s) by another goroutine while the take group runs returned (%#v,true) for an absent key", w, key, e.rv)
				}
			}
			continue
		}
		key, fkey, ci := "", "", 0
		for _, e := range batch {
			if e.kind == c17EvPeek {
				continue
			}
			k := fmt.Sprintf("cache %d %s", op.T[e.who].C, c17Key(op.T[e.who].Key))
			if fkey != "" && k != fkey {
				return w + ": harness: events of two keys or caches share an instant"
			}
			fkey, key, ci = k, c17Key(op.T[e.who].Key), op.T[e.who].C
		}
		if len(ms) > 1 && fkey != "" {
			w += fmt.Sprintf(" cache %d", ci)
		}
		for _, x := range ms {
			x.failKey = ""
		}
		m, expMs := ms[ci], exps[ci]
		m.failKey = key
		fl := flights[fkey]
		for _, r := range ret {
			own := false
			for _, pv := range pvals {
				own = own || (r.pan && r.pval == pv)
			}
			if r.pan && !own {
				return fmt.Sprintf("%s: Take of caller %d panicked with %v", w, r.who, r.pval)
			}
		}
		switch {
		case len(peeks) > 0:
			if len(peeks) != len(batch) {
				return w + ": harness: snapshot instant shared with caller events"
			}
			for _, p := range peeks {
				for i := range ms {
					if f := ms[i].reconcile(p.snap[i], tick, fmt.Sprintf("%s snapshot of cache %d", w, i)); f != "" {
						return f
					}
				}
			}
		case len(fen) > 0:
			if len(arr) > 0 || len(fst) > 0 {
				return w + ": harness: completion instant shared with arrivals"
			}
			if fl == nil {
				return fmt.Sprintf("%s: fetch of caller %d completed although the model has no execution in flight", w, fen[0].who)
			}
			if len(fen) != 1 || fen[0].who != fl.leader {
				return fmt.Sprintf("%s: %d fetch executions completed, expected only caller %d's", w, len(fen), fl.leader)
			}
			if at != fl.start+c17Lat(op.T[fl.leader]) {
				return w + ": harness: fetch completion at unexpected instant"
			}
			tk := op.T[fl.leader]
			if tk.Re != "" && nk > 1 {
				// the re-entrant call happened right before the fetch ended
				if fen[0].relock {
					return fmt.Sprintf("%s: the fetch function of caller %d was called with the cache lock held: a fetch that reads or writes another key of the same cache (legal, Take documents no restriction) would block for good", w, fl.leader)
				}
				other := c17Key((tk.Key + 1) % nk)
				m.classes["fetch-reentrant-"+tk.Re] = true
				switch tk.Re {
				case "get":
					oe, live := m.ents[other]
					if live && oe.free && !fen[0].rok {
						m.drop(other)
						live = false
					}
					if live {
						if !fen[0].rok || !c17Same(fen[0].rv, oe.val) {
							m.failKey = other
							return fmt.Sprintf("%s: Get(%s) called from inside the fetch of caller %d returned (%#v,%v), most recently set value #%d", w, other, fl.leader, fen[0].rv, fen[0].rok, oe.val)
						}
						m.touch(other)
					} else if fen[0].rok {
						return fmt.Sprintf("%s: Get(%s) called from inside the fetch of caller %d returned (%#v,true) for an absent key", w, other, fl.leader, fen[0].rv)
					}
				case "set":
					m.set(other, rvals[fl.leader], tick, expMs)
				case "del":
					m.drop(other)
				}
			}
			if tk.Pan {
				for _, r := range ret {
					if !fl.waiters[r.who] {
						return fmt.Sprintf("%s: caller %d returned with an execution it was not waiting for", w, r.who)
					}
					if r.pan && r.pval != pvals[fl.leader] {
						return fmt.Sprintf("%s: caller %d panicked with %v, the fetch of caller %d panicked with %v", w, r.who, r.pval, fl.leader, pvals[fl.leader])
					}
					returned[r.who] = true
					delete(fl.waiters, r.who)
				}
				if len(fl.waiters) > 0 {
					return fmt.Sprintf("%s: callers %v did not return when the shared fetch ended with a panic", w, c17Keys(fl.waiters))
				}
				m.classes["take-fetch-panic"] = true
				if len(ret) > 1 {
					m.classes["take-fetch-panic-with-waiters"] = true
				}
				m.panicked[key] = true
				delete(flights, fkey) // nothing is cached: the model is unchanged, the next snapshot checks it
				continue
			}
			for _, r := range ret {
				if !fl.waiters[r.who] {
					return fmt.Sprintf("%s: caller %d returned with an execution it was not waiting for", w, r.who)
				}
				if r.pan {
					return fmt.Sprintf("%s: Take of caller %d panicked with %v although the shared fetch (caller %d) did not", w, r.who, r.pval, fl.leader)
				}
				if tk.Err {
					if r.err != errs[fl.leader] || r.val != nil {
						return fmt.Sprintf("%s: caller %d got (%v,%v), the shared fetch (caller %d) failed with %v", w, r.who, r.val, r.err, fl.leader, errs[fl.leader])
					}
				} else if r.err != nil || !c17Same(r.val, vals[fl.leader]) {
					return fmt.Sprintf("%s: caller %d got (%#v,%v), the shared fetch (caller %d) returned #%d = %#v", w, r.who, r.val, r.err, fl.leader, vals[fl.leader], c17Val(vals[fl.leader]))
				}
				returned[r.who] = true
				delete(fl.waiters, r.who)
			}
			if len(fl.waiters) > 0 {
				return fmt.Sprintf("%s: callers %v did not return when the shared fetch completed", w, c17Keys(fl.waiters))
			}
			if tk.Err {
				m.classes["take-fetch-err"] = true
			} else {
				m.classes["take-fetch-ok"] = true
				if fl.setDuring {
					if _, still := m.ents[key]; still {
						m.classes["take-caches-over-concurrent-set"] = true
					}
				}
				if fl.interfered && len(ret) > 1 {
					m.classes["take-waiters-across-interference"] = true
				}
				if ev := m.set(key, vals[fl.leader], tick, expMs); ev != "" {
					m.classes["take-evicts"] = true
				}
			}
			delete(flights, fkey)
		default:
			if len(arr) == 0 {
				return fmt.Sprintf("%s: caller events without an arrival: %d fetch starts, %d returns", w, len(fst), len(ret))
			}
			for _, a := range arr {
				arrived[a.who] = true
			}
			if len(arr) > 1 {
				m.classes["take-same-instant"] = true
			}
			ent, cached := m.ents[key]
			if cached && ent.sub && len(fst) > 0 {
				// sub-interval expiry: the instant of the drop is unspecified, so a
				// caller finding the entry gone already is as good as one finding it
				m.drop(key)
				cached = false
				m.classes["sub-interval-gone-before-take"] = true
			}
			switch {
			case fl != nil && !cached:
				if len(fst) > 0 {
					return fmt.Sprintf("%s: caller %d ran fetch while the execution of caller %d (started +%v) was in flight", w, fst[0].who, fl.leader, fl.start)
				}
				if len(ret) > 0 {
					return fmt.Sprintf("%s: caller %d returned (%v,%v) while the execution it must share is still in flight", w, ret[0].who, ret[0].val, ret[0].err)
				}
				for _, a := range arr {
					fl.waiters[a.who] = true
				}
				m.classes["take-overlap"] = true
			case cached:
				if len(fst) > 0 {
					return fmt.Sprintf("%s: caller %d ran fetch although %s=%d is cached", w, fst[0].who, key, ent.val)
				}
				got := map[int]bool{}
				for _, r := range ret {
					if !arrived[r.who] || returned[r.who] {
						return fmt.Sprintf("%s: caller %d returned out of turn", w, r.who)
					}
					if r.pan || r.err != nil || !c17Same(r.val, ent.val) {
						return fmt.Sprintf("%s: caller %d got (%#v,%v), cached value is #%d = %#v", w, r.who, r.val, r.err, ent.val, c17Val(ent.val))
					}
					got[r.who] = true
					returned[r.who] = true
				}
				for _, a := range arr {
					if !got[a.who] {
						return fmt.Sprintf("%s: caller %d did not return at once although %s is cached", w, a.who, key)
					}
				}
				m.touch(key)
				m.classes["take-hit"] = true
				if fl != nil {
					m.classes["take-hit-while-fetch-in-flight"] = true
				}
			default:
				if len(fst) != 1 {
					return fmt.Sprintf("%s: %d of the %d callers arriving together ran fetch for the absent key, want exactly 1", w, len(fst), len(arr))
				}
				lead := fst[0].who
				ok := false
				for _, a := range arr {
					ok = ok || a.who == lead
				}
				if !ok {
					return fmt.Sprintf("%s: fetch of caller %d started, but it did not arrive now", w, lead)
				}
				if len(ret) > 0 {
					return fmt.Sprintf("%s: caller %d returned (%v,%v) before the fetch completed", w, ret[0].who, ret[0].val, ret[0].err)
				}
				fl = &flight{leader: lead, start: at, waiters: map[int]bool{}}
				flights[fkey] = fl
				for j, tk := range op.T {
					if other := fmt.Sprintf("cache %d %s", tk.C, c17Key(tk.Key)); j != lead && tk.C != ci && tk.Key == op.T[lead].Key && flights[other] != nil {
						m.classes["take-same-key-in-flight-in-both-caches"] = true
					}
				}
				for _, a := range arr {
					fl.waiters[a.who] = true
				}
				if m.panicked[key] {
					m.classes["take-fetch-after-panic"] = true
				}
				if execs[fkey]++; execs[fkey] >= 2 {
					m.classes["take-two-executions"] = true
				}
				if len(flights) >= 2 {
					m.classes["take-two-keys-in-flight"] = true
					if partner := fmt.Sprintf("cache %d %s", ci, c17Key(op.T[lead].Key^1)); flights[partner] != nil {
						m.classes["take-partner-keys-in-flight"] = true
					}
				}
				if len(arr) > 1 {
					m.classes["take-overlap"] = true
				}
			}
		}
	}
	for _, x := range ms {
		x.failKey = ""
	}
	if len(flights) != 0 {
		return what + ": an execution of fetch never completed"
	}
	for i := range op.T {
		if !arrived[i] || !returned[i] {
			return fmt.Sprintf("%s: caller %d arrived=%v returned=%v", what, i, arrived[i], returned[i])
		}
	}
	return ""
}

func c17FirstAt(ts []c17Taker, j int) int {
	for f := 0; f < j; f++ {
		if ts[f].At == ts[j].At && ts[f].Key == ts[j].Key && ts[f].C == ts[j].C {
			return f
		}
	}
	return j
}

func c17NormTakers(ts []c17Taker) []c17Taker {
	out := append([]c17Taker(nil), ts...)
	for j := range out {
		out[j] = out[c17FirstAt(out, j)]
	}
	return out
}

func c17Keys(s map[int]bool) []int {
	var r []int
	for k := range s {
		r = append(r, k)
	}
	sort.Ints(r)
	return r
}

// ---- interpreter ----

func c17Run(c c17Case, classes map[string]bool) (fail, known string) {
	fail = c17Run1(c, classes, &known)
	return
}

func c17Run1(c c17Case, classes map[string]bool, known *string) string {
	start := time.Now()
	elapsed := func() time.Duration { return time.Since(start) }
	if c.J > 0 {
		time.Sleep(time.Duration(c.J))
	}
	type inst struct {
		cache *Cache
		m     *c17Model
		exp   int64
	}
	var insts []*inst
	cfgs := []c17Cfg{{Limit: c.Limit, Exp: c.Exp, Name: c.Name}}
	if c.C2 != nil {
		cfgs = append(cfgs, *c.C2)
		classes["two-caches"] = true
		if c.C2.Name == c.Name {
			classes["two-caches-same-name"] = true
		}
	}
	var sharedOpts []CacheOption
	for i, cfg := range cfgs {
		if i > 0 {
			time.Sleep(time.Microsecond) // another seed for the second cache's jitter PRNG
			if c.Shared {
				cfg.Limit, cfg.Name = cfgs[0].Limit, cfgs[0].Name
				classes["two-caches-shared-options"] = true
			}
		}
		var opts []CacheOption
		if i > 0 && c.Shared {
			opts = sharedOpts // the very option values cache 0 was built from
		} else {
			if cfg.Limit > 0 || c.Opt&2 != 0 {
				opts = append(opts, WithLimit(cfg.Limit))
				if cfg.Limit <= 0 {
					classes["opt-explicit-nonpositive-limit"] = true
				}
			}
			if cfg.Name != "" {
				opts = append(opts, WithName(cfg.Name))
				if c.Opt&1 != 0 && len(opts) == 2 {
					opts[0], opts[1] = opts[1], opts[0]
					classes["opt-name-before-limit"] = true
				}
			}
			sharedOpts = opts
		}
		if cfg.Limit < 0 {
			cfg.Limit = 0 // "no limit"
		}
		if cfg.Limit > 0 {
			classes[fmt.Sprintf("limit-%d", cfg.Limit)] = true
		} else {
			classes["limit-none"] = true
		}
		cache, err := NewCache(c17Dur(cfg.Exp), opts...)
		if err != nil {
			return "NewCache: " + err.Error()
		}
		defer cache.timingWheel.Stop()
		insts = append(insts, &inst{cache: cache, m: c17NewModel(cfg.Limit, classes), exp: cfg.Exp})
	}
	real := c17RealKeys(c.KA)
	label := map[string]string{}
	for i, r := range real {
		label[r] = c17Key(i)
	}
	switch c.KA {
	case 0:
	case 1:
		classes["key-alphabet-special"] = true
	default:
		classes["key-alphabet-hash-collisions"] = true
	}
	pick := func(ci int) *inst {
		if ci < 0 || ci >= len(insts) {
			ci = 0
		}
		return insts[ci]
	}
	tag := func(ci int, what string) string {
		if len(insts) > 1 {
			return fmt.Sprintf("%s cache %d", what, ci)
		}
		return what
	}
	tickNow := func() int { return int(elapsed() / c17Tick) }
	sleepUntil := func(target time.Duration) {
		d := target - elapsed()
		if d < 0 {
			panic(fmt.Sprintf("c17 harness: target %v is in the past (%v)", target, elapsed()))
		}
		if d > 0 {
			time.Sleep(d)
		}
		kit.Wait()
	}
	// peek1 is only called with the bubble quiescent (after kit.Wait): if the
	// cache lock is taken then, its holder is blocked for good inside the
	// critical section; report that instead of blocking on the mutex (which
	// synctest cannot see). The marker entry makes the reconciliation fail.
	peek1 := func(cache *Cache) map[string]any {
		if !cache.lock.TryLock() {
			return map[string]any{c17LockHeld: nil}
		}
		defer cache.lock.Unlock()
		s := make(map[string]any, len(cache.data))
		for k, v := range cache.data {
			if l, ok := label[k]; ok {
				k = l
			}
			s[k] = v
		}
		return s
	}
	peek := func() []map[string]any {
		var r []map[string]any
		for _, in := range insts {
			r = append(r, peek1(in.cache))
		}
		return r
	}
	reconcileAll := func(T int, what string) string {
		for i, in := range insts {
			if f := in.m.reconcile(peek1(in.cache), T, tag(i, what)); f != "" {
				return f
			}
		}
		return ""
	}
	check := func(what string) string { return reconcileAll(tickNow(), what) }
	stepTo := func(target int, what string) string {
		for {
			now := tickNow()
			if now >= target {
				return ""
			}
			next := now + 1
			minStart := 1 << 30
			for _, in := range insts {
				for _, e := range in.m.ents {
					if s := int64(e.set) + e.lo; s < int64(minStart) && !e.free {
						minStart = int(s)
					}
				}
			}
			if minStart-1 > next {
				next = minStart - 1
				if next > target {
					next = target
				}
			}
			sleepUntil(time.Duration(next)*c17Tick + c17OpPhase)
			if f := reconcileAll(next, what); f != "" {
				return f
			}
		}
	}
	wheelPos := func(cache *Cache, key string) (int, bool) {
		v, ok := cache.timingWheel.timers.Get(real[c17KeyIndex(key)])
		if !ok {
			return 0, false
		}
		return v.(*positionEntry).pos, true
	}

	// run executes one cache operation in its own goroutine and reports whether
	// it returned once the bubble is quiescent. Set/Get/Del do not wait for time
	// to pass, so an operation still pending then is blocked for good (a hang),
	// which would otherwise spin the virtual clock for ever.
	run := func(f func()) bool {
		done := make(chan struct{})
		go func() {
			f()
			close(done)
		}()
		kit.Wait()
		select {
		case <-done:
			return true
		default:
			return false
		}
	}
	sleepUntil(c17OpPhase)
	if f := stepTo(c.Off, "initial offset"); f != "" {
		return f
	}
	nextVal := 0
	doSet := func(in *inst, what, key string, expMs int64, custom bool) string {
		cache, m := in.cache, in.m
		nextVal++
		val := nextVal
		old, live := m.ents[key]
		oldPos, havePos := wheelPos(cache, key)
		now := tickNow()
		if !run(func() {
			if custom {
				cache.SetWithExpire(real[c17KeyIndex(key)], c17Val(val), c17Dur(expMs))
			} else {
				cache.Set(real[c17KeyIndex(key)], c17Val(val))
			}
		}) {
			return what + ": Set did not return (blocked with every goroutine of the bubble idle)"
		}
		if live {
			classes["reset-live"] = true
			if int64(now-old.set) >= old.lo {
				classes["reset-in-window"] = true
			}
			if newPos, ok := wheelPos(cache, key); ok && havePos && now > old.set {
				classes["reset-live-later-tick"] = true
				tp := (now + c17Slots - 1) % c17Slots
				rel := func(p int) int { return (p-tp+c17Slots-1)%c17Slots + 1 }
				if (newPos > oldPos) != (rel(newPos) > rel(oldPos)) {
					classes["reset-straddle"] = true
				}
				if lo, _ := c17Window(expMs); lo >= c17Slots || old.lo >= c17Slots {
					classes["reset-multi-revolution"] = true
				}
			}
		}
		lo, _ := c17Window(expMs)
		if lo >= c17Slots {
			classes["set-multi-revolution"] = true
		}
		m.set(key, val, now, expMs)
		return check(what)
	}

	switch {
	case len(c.Ops) <= 5:
		classes["ops-1..5"] = true
	case len(c.Ops) <= 15:
		classes["ops-6..15"] = true
	case len(c.Ops) <= 30:
		classes["ops-16..30"] = true
	default:
		classes["ops-31.."] = true
	}
	for i, o := range c.Ops {
		what := fmt.Sprintf("op %d %s (tick %d)", i, c17OpString(o), tickNow())
		key := c17Key(o.Key)
		rk := real[o.Key%len(real)]
		for _, x := range insts {
			x.m.failKey = ""
		}
		in := pick(o.C)
		cache, m := in.cache, in.m
		switch o.K {
		case "set":
			if f := doSet(in, what, key, in.exp, false); f != "" {
				return f
			}
		case "setx":
			if f := doSet(in, what, key, o.E, true); f != "" {
				return f
			}
		case "get":
			var v any
			var ok bool
			if !run(func() { v, ok = cache.Get(rk) }) {
				return what + ": Get did not return (blocked with every goroutine of the bubble idle)"
			}
			e, live := m.ents[key]
			if live && e.free && !ok {
				m.drop(key) // lifetime unspecified
				live = false
			}
			if live {
				if !ok || !c17Same(v, e.val) {
					m.failKey = key
					return fmt.Sprintf("%s: Get returned (%#v,%v), most recently set value #%d (set at tick %d, window [%d,%d]) not deleted/evicted/expired", what, v, ok, e.val, e.set, e.lo, e.hi)
				}
				m.touch(key)
				classes["get-hit"] = true
			} else {
				if ok {
					return fmt.Sprintf("%s: Get returned (%v,true) for a key the model has deleted/evicted/expired or never set", what, v)
				}
				classes["get-miss"] = true
			}
			if f := check(what); f != "" {
				return f
			}
		case "del":
			if !run(func() { cache.Del(rk) }) {
				return what + ": Del did not return (blocked with every goroutine of the bubble idle)"
			}
			if _, live := m.ents[key]; live {
				classes["del-live"] = true
			}
			m.drop(key)
			if f := check(what); f != "" {
				return f
			}
		case "adv":
			if o.N >= c17Slots && len(insts[0].m.ents) > 0 {
				classes["adv-revolution-live"] = true
			}
			if f := stepTo(tickNow()+o.N, what); f != "" {
				return f
			}
		case "take":
			// Callers arriving at the same instant share one fetch specification
			// (latency, outcome, value): which of them becomes the executing caller
			// is up to the scheduler, and the verdict must not depend on it.
			o.T = c17NormTakers(o.T)
			for j := range o.T {
				if o.T[j].C < 0 || o.T[j].C >= len(insts) {
					o.T[j].C = 0
				}
				// A re-entrant Set uses the cache's default expiry. With a sub-interval
				// default the instant at which the overwritten entry vanishes is
				// unspecified and, inside a group, not observed before the next event:
				// such a call is made a re-entrant Get instead.
				if o.T[j].Re == "set" && c17Sub(insts[o.T[j].C].exp) {
					o.T[j].Re = "get"
				}
			}
			o.T = c17NormTakers(o.T)
			// interfering calls: one per (instant, cache, key); a Set with a sub-interval
			// default expiry is made a Get (as for the re-entrant Set above)
			var xs []c17Inter
			for _, x := range o.X {
				if x.C < 0 || x.C >= len(insts) {
					x.C = 0
				}
				x.Key %= c.NK
				if x.K == "set" && c17Sub(insts[x.C].exp) {
					x.K = "get"
				}
				dup := false
				for _, y := range xs {
					dup = dup || (y.C == x.C && y.Key == x.Key && y.At == x.At)
				}
				if !dup {
					xs = append(xs, x)
				}
			}
			o.X = xs
			xvals := make([]int, len(o.X))
			for j := range xvals {
				nextVal++
				xvals[j] = nextVal
			}
			n := len(o.T)
			vals := make([]int, n)
			errs := make([]error, n)
			pvals := make([]any, n)
			rvals := make([]int, n)
			for j := range o.T {
				if f := c17FirstAt(o.T, j); f < j {
					vals[j], errs[j], pvals[j], rvals[j] = vals[f], errs[f], pvals[f], rvals[f]
					continue
				}
				nextVal++
				rvals[j] = nextVal
				nextVal++
				vals[j] = nextVal
				errs[j] = c17ErrVal(nextVal)
				pvals[j] = c17PanicVal(nextVal)
			}
			var mu sync.Mutex
			var log []c17Ev
			rec := func(e c17Ev) {
				mu.Lock()
				e.at = elapsed()
				log = append(log, e)
				mu.Unlock()
			}
			doneCh := make(chan struct{})
			remaining := int32(n + len(o.X))
			span := 0
			for j, x := range o.X {
				j, x := j, x
				if x.At > span {
					span = x.At
				}
				go func() {
					time.Sleep(time.Duration(x.At)*c17Grid + c17InterPhase - c17OpPhase + time.Duration(x.Key)*c17KeyPhase + time.Duration(x.C)*c17CachePhase + c17Grid)
					cache := pick(x.C).cache
					ev := c17Ev{kind: c17EvInter, who: j}
					switch x.K {
					case "set":
						cache.Set(real[x.Key], c17Val(xvals[j]))
					case "del":
						cache.Del(real[x.Key])
					case "get":
						ev.rv, ev.rok = cache.Get(real[x.Key])
					}
					rec(ev)
					if atomic.AddInt32(&remaining, -1) == 0 {
						close(doneCh)
					}
				}()
			}
			for j, tk := range o.T {
				j, tk := j, tk
				if tk.At > span {
					span = tk.At
				}
				go func() {
					if d := time.Duration(tk.At)*c17Grid + time.Duration(tk.Key)*c17KeyPhase + time.Duration(tk.C)*c17CachePhase; d > 0 {
						time.Sleep(d)
					}
					cache := pick(tk.C).cache
					rec(c17Ev{kind: c17EvArrive, who: j})
					ev := c17Ev{kind: c17EvReturn, who: j, pan: true}
					func() {
						defer func() { ev.pval = recover() }()
						ev.val, ev.err = cache.Take(real[tk.Key%len(real)], func() (any, error) {
							rec(c17Ev{kind: c17EvFetchStart, who: j})
							time.Sleep(c17Lat(tk))
							fe := c17Ev{kind: c17EvFetchEnd, who: j}
							if tk.Re != "" && c.NK > 1 {
								other := real[(tk.Key+1)%c.NK]
								if !cache.lock.TryLock() {
									fe.relock = true
								} else {
									cache.lock.Unlock()
									switch tk.Re {
									case "get":
										fe.rv, fe.rok = cache.Get(other)
									case "set":
										cache.Set(other, c17Val(rvals[j]))
									case "del":
										cache.Del(other)
									}
								}
							}
							rec(fe)
							if tk.Pan {
								panic(pvals[j])
							}
							if tk.Err {
								return nil, errs[j]
							}
							return c17Val(vals[j]), nil
						})
						ev.pan = false
					}()
					rec(ev)
					if atomic.AddInt32(&remaining, -1) == 0 {
						close(doneCh)
					}
				}()
			}
			sumLat := 0
			for _, tk := range o.T {
				sumLat += tk.Lat + 1
			}
			deadline := tickNow() + (span+sumLat)/10 + 3
			for finished := false; !finished; {
				next := time.Duration(tickNow()+1)*c17Tick + c17PeekPhase
				timer := time.NewTimer(next - elapsed())
				select {
				case <-doneCh:
					timer.Stop()
					finished = true
				case <-timer.C:
					kit.Wait()
					rec(c17Ev{kind: c17EvPeek, snap: peek()})
					if tickNow() > deadline {
						return fmt.Sprintf("%s: %d of %d Take callers have not returned 2 ticks after every fetch could have completed", what, atomic.LoadInt32(&remaining), n)
					}
				}
			}
			kit.Wait()
			el := elapsed()
			target := (el-c17OpPhase+c17Grid-1)/c17Grid*c17Grid + c17OpPhase
			sleepUntil(target)
			if n >= 2 {
				classes["take-group"] = true
			} else {
				classes["take-single"] = true
			}
			var ms []*c17Model
			var exps []int64
			for _, in := range insts {
				ms, exps = append(ms, in.m), append(exps, in.exp)
			}
			if f := c17CheckGroup(ms, exps, o, c.NK, vals, rvals, xvals, errs, pvals, log, what); f != "" {
				return f
			}
			if f := check(what + " end"); f != "" {
				return f
			}
		case "churn":
			// long-lived instance: thousands of cheap operations on extra keys x<i>
			// in one virtual instant while the ordinary entries stay pending, then the
			// history goes on (the wheel's timer index is a SafeMap that rebuilds
			// itself after 10 000 deletions)
			mode := o.M
			if m.limit <= 0 {
				mode = 0
			}
			names := make([]string, o.N)
			ids := make([]int, o.N)
			for i := range names {
				if mode == 0 {
					names[i] = fmt.Sprintf("x%d", i%3)
				} else {
					names[i] = fmt.Sprintf("x%d", i)
				}
				nextVal++
				ids[i] = nextVal
			}
			if !run(func() {
				for i, name := range names {
					cache.Set(name, c17Val(ids[i]))
					if mode == 0 {
						cache.Del(name)
					}
				}
			}) {
				return what + ": churn did not return (blocked with every goroutine of the bubble idle)"
			}
			now := tickNow()
			for i, name := range names {
				m.set(name, ids[i], now, in.exp)
				if mode == 0 {
					m.drop(name)
				}
			}
			switch {
			case o.N >= 10000 && mode == 0:
				classes["churn-set-del-10k+"] = true
			case o.N >= 10000:
				classes["churn-evict-10k+"] = true
			default:
				classes["churn-below-10k"] = true
			}
			if f := check(what); f != "" {
				return f
			}
		default:
			panic("c17 harness: unknown op " + o.K)
		}
	}

	// public-API sweep: Get of every key agrees with the model
	for ci, in := range insts {
		cache, m := in.cache, in.m
		for i := 0; i < c.NK; i++ {
			key := c17Key(i)
			v, ok := cache.Get(real[i])
			if e, live := m.ents[key]; live && e.free && !ok {
				m.drop(key)
			}
			if e, live := m.ents[key]; live {
				if !ok || !c17Same(v, e.val) {
					m.failKey = key
					return fmt.Sprintf("%s (tick %d): Get(%s) returned (%#v,%v), most recently set value %d (set at tick %d, window [%d,%d])", tag(ci, "final sweep"), tickNow(), key, v, ok, e.val, e.set, e.lo, e.hi)
				}
				m.touch(key)
			} else if ok {
				return fmt.Sprintf("%s (tick %d): Get(%s) returned (%v,true), the model has it deleted/evicted/expired or never set", tag(ci, "final sweep"), tickNow(), key, v)
			}
		}
	}
	kit.Wait()
	// horizon: every entry with an expiry <= 20 min is dropped inside its window;
	// entries with a long expiry are not ticked through, they must survive the
	// horizon, which also runs past every shorter expiry they had before a re-set
	end := tickNow()
	for _, in := range insts {
		if in.m.shortEnd > end {
			end = in.m.shortEnd
		}
	}
	if f := stepTo(end+1, "horizon"); f != "" {
		return f
	}
	for ci, in := range insts {
		cache, m := in.cache, in.m
		for k, e := range m.ents {
			if e.free {
				continue
			}
			if !e.long {
				panic("c17 harness: short-lived " + k + " in the model after the horizon")
			}
			classes["long-expiry-survives-horizon"] = true
		}
		for i := 0; i < c.NK; i++ {
			v, ok := cache.Get(real[i])
			if e, live := m.ents[c17Key(i)]; live && e.free && !ok {
				m.drop(c17Key(i))
			}
			if e, live := m.ents[c17Key(i)]; live {
				if !ok || !c17Same(v, e.val) {
					m.failKey = c17Key(i)
					return fmt.Sprintf("%s (tick %d): Get(%s) returned (%v,%v), most recently set value %d (set at tick %d, may be dropped for age only %d..%d ticks later)", tag(ci, "after horizon"), tickNow(), c17Key(i), v, ok, e.val, e.set, e.lo, e.hi)
				}
			} else if ok {
				return fmt.Sprintf("%s (tick %d): Get(%s) returned (%v,true)", tag(ci, "after horizon"), tickNow(), c17Key(i), v)
			}
		}
	}
	return ""
}

func c17OpString(o c17Op) string {
	switch o.K {
	case "set", "get", "del":
		return fmt.Sprintf("%s(c%d,k%d)", o.K, o.C, o.Key)
	case "setx":
		return fmt.Sprintf("setx(c%d,k%d,%dms)", o.C, o.Key, o.E)
	case "adv":
		return fmt.Sprintf("adv(%d)", o.N)
	case "churn":
		return fmt.Sprintf("churn(c%d,n=%d,mode=%d)", o.C, o.N, o.M)
	case "take":
		if len(o.X) > 0 {
			return fmt.Sprintf("take(%+v, others %+v)", o.T, o.X)
		}
		return fmt.Sprintf("take(%+v)", o.T)
	}
	return o.K
}

func c17Interp(t *testing.T, c c17Case) (v kit.Verdict) {
	var fail, known string
	classes := map[string]bool{}
	if c.P > 0 {
		// a cache constructed in a process with few Ps (1-CPU container); set
		// outside the bubble, restored when the case is over
		old := runtime.GOMAXPROCS(c.P)
		defer runtime.GOMAXPROCS(old)
		classes[fmt.Sprintf("gomaxprocs-%d", c.P)] = true
	} else if runtime.GOMAXPROCS(0) == 1 {
		classes["gomaxprocs-1"] = true
	}
	res := kit.Bubble(t, func() { fail, known = c17Run(c, classes) })
	v.NonTrivial = classes["reset-straddle"] || classes["evict"] || classes["take-overlap"]
	for k := range classes {
		v.Classes = append(v.Classes, k)
	}
	sort.Strings(v.Classes)
	switch {
	case fail != "":
		v.Fail = fail
		v.Known = known
	case res.Hang || res.Panic != "":
		// res.Leak is the expected residue (statLoop of NewCache never ends)
		v.Fail = "bubble: " + res.String()
	}
	return v
}

// ---- generator ----

func c17GenExp(rt *rapid.T, label string) int64 {
	switch rapid.SampledFrom([]string{"small", "small", "small", "mid", "mid", "rev", "big", "long", "long", "sub", "huge", "max", "nonpos"}).Draw(rt, label+"-class") {
	case "huge": // scale-free magnitudes below the point where 1.05*e leaves the Duration range
		return rapid.SampledFrom([]int64{30 * c17DayMs, 36500 * c17DayMs, 91250 * c17DayMs, int64(math.MaxInt64/105*100/1000000) - 1000}).Draw(rt, label)
	case "max": // above MaxInt64/1.05 ns, up to time.Duration(math.MaxInt64) ("never"); finding expiry-jitter-overflow, fixed in 00e8b57
		return rapid.SampledFrom([]int64{c17MaxMs, 104025 * c17DayMs, int64(math.MaxInt64/105*100/1000000) + 1000}).Draw(rt, label)
	case "nonpos": // legal to pass, lifetime unspecified by the statement
		// math.MinInt64/1e6 ms: 1.05 * expiry leaves the Duration range downwards (the
		// jitter clamps at MinInt64); like every expiry <= 0 run for panics / hangs only
		return rapid.SampledFrom([]int64{0, -1, -1000, math.MinInt64 / 1000000}).Draw(rt, label)
	case "sub": // below (or just around) the wheel interval: 1 ms .. 1100 ms
		return rapid.Int64Range(1, 1100).Draw(rt, label)
	case "long": // never ticked through: hours, days, and the multi-day values named in the follow-up
		switch rapid.SampledFrom([]string{"hours", "days", "named", "named", "over10d"}).Draw(rt, label+"-long") {
		case "hours":
			return 60000 * rapid.Int64Range(21, 24*60).Draw(rt, label) // 21 min .. 24 h
		case "days":
			return 3600000 * rapid.Int64Range(24, 240).Draw(rt, label) // 1 .. 10 days
		case "named":
			return c17DayMs * rapid.SampledFrom([]int64{7, 11, 12, 14, 20, 40}).Draw(rt, label)
		}
		return 100 * rapid.Int64Range(10*c17DayMs/100, 60*c17DayMs/100).Draw(rt, label) // 10 .. 60 days
	case "small":
		return 100 * rapid.Int64Range(20, 100).Draw(rt, label) // 2 s .. 10 s
	case "mid":
		return 100 * rapid.Int64Range(100, 2500).Draw(rt, label) // 10 s .. 250 s
	case "rev":
		return 100 * rapid.Int64Range(2500, 3600).Draw(rt, label) // around one revolution
	}
	return 1000 * rapid.Int64Range(360, 1200).Draw(rt, label) // up to 20 min
}

type c17GenKey struct {
	set  int
	exp  int64
	live bool
}

// c17RawOp is drawn statelessly (so that rapid can delete and shrink single
// ops); c17Gen then resolves the "aimed" advances into explicit tick counts.
type c17RawOp struct {
	op   c17Op
	mode string // adv: one few lo hi rev long
	aim  int
	d    int
}

func c17GenRawOp(nk, nc, ka int) *rapid.Generator[c17RawOp] {
	// keys skewed towards low indices so that re-sets and re-reads of the same
	// key are frequent while all nk keys still occur
	keyGen := rapid.Custom(func(rt *rapid.T) int {
		k := rapid.IntRange(0, nk-1).Draw(rt, "key")
		if k2 := rapid.IntRange(0, nk-1).Draw(rt, "key2"); k2 < k && rapid.Bool().Draw(rt, "skew") {
			k = k2
		}
		return k
	})
	return rapid.Custom(func(rt *rapid.T) c17RawOp {
		r := c17RawOp{}
		o := &r.op
		o.K = rapid.SampledFrom([]string{"set", "set", "set", "setx", "setx", "get", "get", "del", "adv", "adv", "adv", "take", "take"}).Draw(rt, "kind")
		if nc > 1 && o.K != "adv" && o.K != "take" {
			o.C = rapid.IntRange(0, nc-1).Draw(rt, "c")
		}
		switch o.K {
		case "set", "get", "del":
			o.Key = keyGen.Draw(rt, "k")
		case "setx":
			o.Key = keyGen.Draw(rt, "k")
			o.E = c17GenExp(rt, "e")
		case "adv":
			r.mode = rapid.SampledFrom([]string{"one", "few", "few", "few", "lo", "lo", "lo", "hi", "hi", "hi", "rev", "rev", "long", "long", "hour"}).Draw(rt, "adv")
			switch r.mode {
			case "one":
				o.N = 1
			case "few":
				o.N = rapid.IntRange(2, 9).Draw(rt, "n")
			case "lo", "hi":
				// aim at the expiry window of a key the generator believes live
				r.aim = rapid.IntRange(0, nk*nc-1).Draw(rt, "aim")
				r.d = rapid.IntRange(-2, 2).Draw(rt, "d")
				o.N = rapid.IntRange(1, 3).Draw(rt, "n") // fallback
			case "rev":
				o.N = rapid.IntRange(c17Slots-5, c17Slots+5).Draw(rt, "n")
			case "long":
				o.N = rapid.IntRange(c17Slots+6, 700).Draw(rt, "n")
			case "hour": // 3600 wheel ticks per virtual hour: rare and bounded
				o.N = rapid.IntRange(3600, 4000).Draw(rt, "n")
			}
		case "take":
			key := keyGen.Draw(rt, "k")
			nt := rapid.SampledFrom([]int{1, 1, 2, 3, 4, 5}).Draw(rt, "nt")
			for j := 0; j < nt; j++ {
				tkey := key
				if rapid.IntRange(0, 4).Draw(rt, "other-key") == 0 {
					tkey = keyGen.Draw(rt, "k2") // callers of different keys must not share executions
				} else if ka >= 2 && key^1 < nk && rapid.Bool().Draw(rt, "partner-key") {
					tkey = key ^ 1 // the key colliding with it under some hash
				}
				tc := 0
				if nc > 1 { // callers spread over both caches, same key space, overlapping
					tc = rapid.IntRange(0, nc-1).Draw(rt, "tc")
				}
				o.T = append(o.T, c17Taker{
					C:   tc,
					Key: tkey,
					At:  rapid.SampledFrom([]int{0, 0, 0, 1, 2, 5, 9, 10, 11, 20, 30}).Draw(rt, "at"),
					Lat: rapid.SampledFrom([]int{0, 1, 3, 5, 10, 12, 25}).Draw(rt, "lat"),
				})
				if nk > 1 {
					o.T[j].Re = rapid.SampledFrom([]string{"", "", "", "", "", "get", "set", "del"}).Draw(rt, "re")
				}
				switch rapid.IntRange(0, 7).Draw(rt, "outcome") {
				case 0, 1:
					o.T[j].Err = true
				case 2:
					o.T[j].Pan = true
				}
			}
			o.T = c17NormTakers(o.T)
			// other goroutines calling Set / Del / Get of (mostly) the key being taken
			// while the group runs, at the generated arrival offsets of the group and the
			// instants between them
			if nx := rapid.SampledFrom([]int{0, 0, 0, 1, 1, 2, 3}).Draw(rt, "nx"); nx > 0 {
				for j := 0; j < nx; j++ {
					x := c17Inter{Key: key, K: rapid.SampledFrom([]string{"set", "set", "del", "del", "get"}).Draw(rt, "xk")}
					if rapid.IntRange(0, 3).Draw(rt, "x-other-key") == 0 {
						x.Key = keyGen.Draw(rt, "xkey")
					}
					if nc > 1 {
						x.C = rapid.IntRange(0, nc-1).Draw(rt, "xc")
					}
					x.At = rapid.SampledFrom([]int{0, 0, 1, 2, 3, 5, 9, 10, 11, 12, 20, 25, 30, 35}).Draw(rt, "xat")
					o.X = append(o.X, x)
				}
			}
		}
		return r
	})
}

func c17Gen(rt *rapid.T) c17Case {
	c := c17Case{}
	c.Limit = rapid.SampledFrom([]int{0, 1, 2, 2, 3, 3, 4}).Draw(rt, "limit")
	c.Opt = rapid.SampledFrom([]int{0, 0, 0, 1, 2, 3}).Draw(rt, "opt")
	if c.Opt&2 != 0 && c.Limit == 0 && rapid.Bool().Draw(rt, "neg-limit") {
		c.Limit = -1
	}
	c.KA = rapid.SampledFrom([]int{0, 0, 0, 1, 2, 3}).Draw(rt, "ka")
	c.P = rapid.SampledFrom([]int{0, 0, 0, 0, 1, 2}).Draw(rt, "gomaxprocs")
	c.Exp = c17GenExp(rt, "exp")
	c.J = rapid.IntRange(0, 999999).Draw(rt, "j")
	switch rapid.SampledFrom([]string{"any", "any", "any", "end", "end", "begin"}).Draw(rt, "off-class") {
	case "any":
		c.Off = rapid.IntRange(0, c17Slots-1).Draw(rt, "off")
	case "end": // the wheel pointer wraps around during the case
		c.Off = rapid.IntRange(c17Slots-15, c17Slots-1).Draw(rt, "off")
	default:
		c.Off = rapid.IntRange(0, 5).Draw(rt, "off")
	}
	c.NK = rapid.IntRange(1, 6).Draw(rt, "nk")
	if c.KA >= 2 && c.NK < 2 {
		c.NK = 2 // at least one colliding pair
	}
	if c.Limit > 0 && c.NK <= c.Limit && rapid.IntRange(0, 3).Draw(rt, "nk-over") > 0 {
		c.NK = c.Limit + 1 // evictions need more keys than the limit
	}
	// several caches in one process: a second cache with its own limit/expiry,
	// with or without WithName (without: both carry the default name)
	nc := 1
	exps := []int64{c.Exp}
	c.Name = rapid.SampledFrom([]string{"", "", "n", "%s%d%!"}).Draw(rt, "name")
	if rapid.IntRange(0, 7).Draw(rt, "two-caches") < 3 {
		nc = 2
		names := rapid.SampledFrom([][2]string{{"", ""}, {"", ""}, {"a", "a"}, {"", "a"}, {"a", "b"}, {"%s%d%!", "%s%d%!"}, {"proc", ""}}).Draw(rt, "names")
		c.Name = names[0]
		c.C2 = &c17Cfg{
			Limit: rapid.SampledFrom([]int{0, 1, 2, 3, 4, -1}).Draw(rt, "limit2"),
			Exp:   c17GenExp(rt, "exp2"),
			Name:  names[1],
		}
		exps = append(exps, c.C2.Exp)
		if rapid.IntRange(0, 2).Draw(rt, "shared-options") == 0 {
			// option values reused across instances: one []CacheOption for both caches
			c.Shared = true
			if c.Limit <= 0 {
				c.Limit = rapid.IntRange(1, 3).Draw(rt, "shared-limit")
			}
			c.C2.Limit, c.C2.Name = c.Limit, c.Name
		}
	}
	minOps := rapid.SampledFrom([]int{1, 6, 12, 24}).Draw(rt, "min-ops")
	raw := rapid.SliceOfN(c17GenRawOp(c.NK, nc, c.KA), minOps, 60).Draw(rt, "ops")
	now := c.Off
	gk := make([]c17GenKey, c.NK*nc) // index = cache*NK + key
	for _, r := range raw {
		o := r.op
		switch o.K {
		case "set":
			gk[o.C*c.NK+o.Key] = c17GenKey{set: now, exp: exps[o.C], live: true}
		case "setx":
			gk[o.C*c.NK+o.Key] = c17GenKey{set: now, exp: o.E, live: true}
		case "del":
			gk[o.C*c.NK+o.Key].live = false
		case "adv":
			if (r.mode == "lo" || r.mode == "hi") && gk[r.aim].live && gk[r.aim].exp <= c17LongMs {
				lo, hi := c17Window(gk[r.aim].exp)
				tgt := gk[r.aim].set + int(lo) // short expiry (<= c17LongMs): lo, hi <= 1260
				if r.mode == "hi" {
					tgt = gk[r.aim].set + int(hi)
				}
				if n := tgt - now + r.d; n >= 1 {
					o.N = n
				}
			}
			now += o.N
			for k := range gk {
				if gk[k].live {
					if _, hi := c17Window(gk[k].exp); int64(now-gk[k].set) >= hi {
						gk[k].live = false
					}
				}
			}
		case "take":
			span := 0
			for _, tk := range o.T {
				if tk.At+tk.Lat > span {
					span = tk.At + tk.Lat
				}
			}
			now += span / 10
			for _, tk := range o.T {
				if g := &gk[tk.C*c.NK+tk.Key]; !g.live {
					*g = c17GenKey{set: now, exp: exps[tk.C], live: true}
				}
			}
			for _, x := range o.X {
				if x.K == "set" {
					gk[x.C*c.NK+x.Key] = c17GenKey{set: now, exp: exps[x.C], live: true}
				}
			}
		}
		c.Ops = append(c.Ops, o)
	}
	// long-lived instance: in about one case of 40 one churn of 1 000..21 000
	// operations is inserted somewhere into the history
	if x := rapid.IntRange(0, 63).Draw(rt, "churn"); x == 37 || x == 21 {
		ch := c17Op{K: "churn",
			N: rapid.SampledFrom([]int{1000, 10500, 10500, 12000, 21000}).Draw(rt, "churn-n"),
			M: rapid.IntRange(0, 1).Draw(rt, "churn-mode"),
			C: rapid.IntRange(0, nc-1).Draw(rt, "churn-c")}
		at := rapid.IntRange(0, len(c.Ops)).Draw(rt, "churn-at")
		c.Ops = append(c.Ops[:at], append([]c17Op{ch}, c.Ops[at:]...)...)
	}
	return c
}

func TestVerif_C17_history(t *testing.T) {
	kit.Run(t, "C17", "cache-history", kit.Opts{Quick: 4000, Thorough: 128000}, c17Gen,
		func(c c17Case) kit.Verdict { return c17Interp(t, c) })
}

// Small-scope exhaustive rule: a key is set with expiry e1, re-set (directly or
// after a Del) b ticks later with expiry e2, at EVERY phase 0..299 of the
// 300-slot wheel, and must then be dropped inside the window of the re-set
// (checked tick by tick by the same interpreter, horizon included).
func c17EnumerateResets(thorough bool) func(yield func(c17Case) bool) {
	e1s := []int64{3000, 200000, 400000}
	e2s := []int64{3000, 290000, 650000, 12 * c17DayMs, 20 * c17DayMs}
	kinds := []string{"setx"}
	if thorough {
		e1s = []int64{2000, 3000, 10000, 200000, 290000, 310000, 400000, 900000}
		e2s = []int64{2000, 10000, 100000, 290000, 310000, 650000, 1200000, 3600000, 12 * c17DayMs, 20 * c17DayMs}
		kinds = []string{"setx", "del-setx", "set"}
	}
	return func(yield func(c17Case) bool) {
		idx := 0
		for _, e1 := range e1s {
			lo64, _ := c17Window(e1)
			lo1 := int(lo64) // e1 <= 900 s
			bs := []int{1, lo1 - 1}
			if thorough {
				bs = []int{1, 2, 7, lo1 - 1, c17Slots - 1, c17Slots, c17Slots + 1}
			}
			seen := map[int]bool{}
			for _, b := range bs {
				if b < 1 || b >= lo1 || seen[b] {
					continue // the key must still be live for certain at the re-set
				}
				seen[b] = true
				for _, e2 := range e2s {
					for _, kind := range kinds {
						for off := 0; off < c17Slots; off++ {
							idx++
							c := c17Case{Limit: 0, Exp: e2, J: (off*7919 + idx*104729) % 1000000, Off: off, NK: 1}
							c.Ops = append(c.Ops, c17Op{K: "setx", E: e1}, c17Op{K: "adv", N: b})
							switch kind {
							case "setx":
								c.Ops = append(c.Ops, c17Op{K: "setx", E: e2})
							case "set":
								c.Ops = append(c.Ops, c17Op{K: "set"})
							case "del-setx":
								c.Ops = append(c.Ops, c17Op{K: "del"}, c17Op{K: "setx", E: e2})
							}
							if !yield(c) {
								return
							}
						}
					}
				}
			}
		}
	}
}

func TestVerif_C17_resetphases(t *testing.T) {
	kit.Enumerate(t, "C17", "cache-reset-phases", c17EnumerateResets(kit.Thorough()),
		func(c c17Case) kit.Verdict {
			v := c17Interp(t, c)
			v.NonTrivial = v.NonTrivial || c17Contains(v.Classes, "reset-live-later-tick")
			return v
		})
}

func c17Contains(ss []string, x string) bool {
	for _, s := range ss {
		if s == x {
			return true
		}
	}
	return false
}
