package collection

// C10 — two further rules (round 8):
//
//   wheel-real-ticker: the PUBLIC constructor NewTimingWheel with the real timex.NewTicker,
//   run in the virtual time of a synctest bubble. Every other rule drives the wheel through the
//   in-package constructor with a harness ticker, so the wiring "interval -> ticker" and the
//   realTicker type were never executed. In a bubble a time.Ticker ticks exactly every
//   interval, so "during tick T + floor(d/I)" becomes "at virtual time (T + floor(d/I)) * I
//   after construction", exactly.
//
//   wheel-unspecified: calls whose result the statement does not determine (delays in (0, I),
//   constructor arguments the constructor documents as invalid). Judged for panics, hangs and
//   goroutine leaks ONLY.

import (
	"fmt"
	"sort"
	"sync"
	"testing"
	"time"

	"pgregory.net/rapid"
	"verif.local/kit"
)

type c10RTOp struct {
	Kind string `json:"k"`             // set move remove adv drain stop
	Key  int    `json:"key,omitempty"`
	Val  int    `json:"v,omitempty"`
	M    int    `json:"m,omitempty"` // delay = M*I + R*I/4
	R    int    `json:"r,omitempty"`
	N    int    `json:"n,omitempty"` // adv: sleep N quarter-intervals (one more when that ends on a tick instant)
}

type c10RTCase struct {
	Iv    int       `json:"iv"` // index into c10RTIntervals
	Slots int       `json:"slots"`
	Q0    int       `json:"q0"` // the first call is issued Q0 quarter-intervals after construction (1..3)
	Ops   []c10RTOp `json:"ops"`
}

// all divisible by 4: calls are issued at quarter-interval offsets strictly between two ticks,
// so no call ever coincides with a tick in virtual time
//
// The last three (1, 2, 3 ns: legal intervals, the smallest a wheel can be built with) cannot be
// split into quarters. For them ("tiny") every call is issued right after construction, when the
// wheel has certainly seen T = 0 ticks (virtual time stands still while the harness runs and the
// first tick is one interval away); "adv" ops are skipped and the harness only sleeps once, past
// the last due tick.
var c10RTIntervals = []time.Duration{10 * time.Millisecond, time.Millisecond, time.Second, time.Hour, 8 * time.Microsecond, 4 * time.Nanosecond, 100 * time.Millisecond, time.Minute,
	time.Nanosecond, 2 * time.Nanosecond, 3 * time.Nanosecond}

type c10RTFire struct {
	at       time.Duration
	key, val int
}

func (f c10RTFire) String() string { return fmt.Sprintf("{%v key=%d value=%d}", f.at, f.key, f.val) }

func c10RTSort(f []c10RTFire) {
	sort.Slice(f, func(a, b int) bool {
		if f[a].at != f[b].at {
			return f[a].at < f[b].at
		}
		return f[a].key < f[b].key
	})
}

func c10RTInterp(t *testing.T, c c10RTCase) (v kit.Verdict) {
	var fail string
	classes := map[string]bool{}
	nontrivial := false
	res := kit.Bubble(t, func() {
		iv := c10RTIntervals[c.Iv%len(c10RTIntervals)]
		quarter, per := iv/4, 4 // harness time unit, units per tick
		tiny := iv < 4
		if tiny {
			quarter, per = iv, 1
			classes["interval-below-4ns-calls-at-construction"] = true
		}
		classes["interval-"+iv.String()] = true
		var mu sync.Mutex
		var fires []c10RTFire
		defer func() { // a panic on the caller's goroutine becomes a verdict instead of a process crash
			if r := recover(); r != nil {
				fail = fmt.Sprintf("panic on the caller's goroutine: %v", r)
			}
		}()
		start := time.Now()
		w, err := NewTimingWheel(iv, c.Slots, func(k, val any) {
			at := time.Since(start)
			mu.Lock()
			fires = append(fires, c10RTFire{at: at, key: k.(int), val: val.(int)})
			mu.Unlock()
		})
		if err != nil || w == nil {
			fail = fmt.Sprintf("NewTimingWheel(%v, %d, fn) = %v, %v: valid arguments rejected", iv, c.Slots, w, err)
			return
		}
		q := 0 // quarter-intervals since construction; T = q/4 ticks have been seen
		sleepQ := func(n int) {
			time.Sleep(time.Duration(n) * quarter)
			q += n
			if !tiny && q%4 == 0 { // never rest on a tick instant
				time.Sleep(quarter)
				q++
			}
			kit.Wait()
		}
		take := func() []c10RTFire {
			mu.Lock()
			defer mu.Unlock()
			f := fires
			fires = nil
			return f
		}
		model := map[int]c10Pending{}
		stopped, drained := false, false
		// expect: everything the model says became due up to the current tick count must have
		// executed, each at exactly due*I after construction, and nothing else
		expect := func(what string) bool {
			T := q / per
			var want []c10RTFire
			if !stopped && !drained {
				for k, p := range model {
					if p.due <= int64(T) {
						want = append(want, c10RTFire{at: time.Duration(p.due) * iv, key: k, val: p.val})
						delete(model, k)
					}
				}
			}
			got := take()
			c10RTSort(got)
			c10RTSort(want)
			if fmt.Sprint(got) != fmt.Sprint(want) {
				fail = fmt.Sprintf("%s: %v after construction (tick %d) executed (at,key,value) %v, the statement gives %v (still pending in the model: %v)", what, time.Duration(q)*quarter, T, got, want, model)
				return false
			}
			if len(got) > 0 {
				classes["fired"] = true
			}
			return true
		}
		if !tiny {
			sleepQ(c.Q0)
		}
		for i, o := range c.Ops {
			what := fmt.Sprintf("op %d %+v", i, o)
			T := q / per
			d := time.Duration(o.M)*iv + time.Duration(o.R)*quarter
			if tiny {
				d = time.Duration(o.M) * iv
				if o.Kind == "adv" {
					continue
				}
			}
			var err error
			switch o.Kind {
			case "set":
				err = w.SetTimer(o.Key, o.Val, d)
			case "move":
				err = w.MoveTimer(o.Key, d)
			case "remove":
				err = w.RemoveTimer(o.Key)
			case "adv":
				sleepQ(o.N)
				if o.N >= 4*c.Slots {
					classes["slept-a-revolution"] = true
				}
			case "stop":
				if !stopped {
					w.Stop()
					stopped = true
					classes["stopped"] = true
				}
			case "drain":
				var dm sync.Mutex
				var got, want []c10RTFire
				err = w.Drain(func(k, val any) {
					dm.Lock()
					got = append(got, c10RTFire{key: k.(int), val: val.(int)})
					dm.Unlock()
				})
				kit.Wait()
				if !stopped && err == nil {
					for k, p := range model {
						want = append(want, c10RTFire{key: k, val: p.val})
					}
					c10RTSort(got)
					c10RTSort(want)
					if fmt.Sprint(got) != fmt.Sprint(want) {
						fail = fmt.Sprintf("%s: drained %v, model pending %v", what, got, want)
						return
					}
					if len(want) > 0 {
						classes["drain-nonempty"] = true
					}
					model = map[int]c10Pending{}
					drained = true
				}
			}
			kit.Wait()
			if o.Kind != "adv" && o.Kind != "stop" {
				if stopped {
					if err != ErrClosed {
						fail = fmt.Sprintf("%s: after Stop got %v, want ErrClosed", what, err)
						return
					}
				} else if err != nil {
					fail = fmt.Sprintf("%s: unexpected error %v", what, err)
					return
				} else {
					p, pending := model[o.Key]
					switch o.Kind {
					case "set":
						if pending {
							classes["reset"] = true
							nontrivial = true
						}
						if o.M > c.Slots {
							classes["multi-revolution"] = true
						}
						model[o.Key] = c10Pending{val: o.Val, due: int64(T + o.M)}
					case "move":
						if pending {
							classes["move-pending"] = true
							nontrivial = true
							model[o.Key] = c10Pending{val: p.val, due: int64(T + o.M)}
						}
					case "remove":
						if pending {
							classes["remove-pending"] = true
						}
						delete(model, o.Key)
					}
				}
			}
			if !expect(what) {
				return
			}
		}
		if !stopped {
			maxDue := q / per
			for _, p := range model {
				if p.due > int64(maxDue) {
					maxDue = int(p.due)
				}
			}
			sleepQ(per*(maxDue-q/per+c.Slots+1) + 1)
			if !expect("horizon") {
				return
			}
			if len(model) != 0 {
				fail = fmt.Sprintf("harness: model still holds %v after the horizon", model)
				return
			}
			w.Stop()
		}
		// the bubble must end without blocked goroutines: Stop ends the run loop and the ticker
	})
	v.NonTrivial = nontrivial && classes["fired"]
	for k := range classes {
		v.Classes = append(v.Classes, k)
	}
	sort.Strings(v.Classes)
	if fail != "" {
		v.Fail = fail
	} else if !res.OK() {
		v.Fail = "bubble: " + res.String()
	}
	return v
}

func c10RTGen(rt *rapid.T) c10RTCase {
	c := c10RTCase{
		Iv:    rapid.IntRange(0, 7).Draw(rt, "iv"),
		Slots: rapid.IntRange(1, 12).Draw(rt, "slots"),
		Q0:    rapid.IntRange(1, 3).Draw(rt, "q0"),
	}
	if rapid.IntRange(0, 11).Draw(rt, "tinyq") == 0 { // 1, 2, 3 ns
		c.Iv = rapid.IntRange(8, len(c10RTIntervals)-1).Draw(rt, "tinyiv")
	}
	if rapid.IntRange(0, 19).Draw(rt, "manyslots") == 19 {
		c.Slots = rapid.SampledFrom([]int{60, 100, 300, 600}).Draw(rt, "bigslots") // the sizes the repository's callers use
	}
	nkeys := rapid.IntRange(1, 4).Draw(rt, "nkeys")
	maxM := 3*c.Slots + 1
	if maxM > 40 {
		maxM = c.Slots + 40
	}
	n := rapid.IntRange(1, 25).Draw(rt, "nops")
	stopped, drained := false, false
	for i := 0; i < n; i++ {
		kinds := []string{"set", "set", "set", "move", "move", "remove", "adv", "adv", "adv", "adv"}
		if stopped {
			kinds = []string{"adv", "set", "move", "remove", "drain"}
		} else if drained {
			kinds = []string{"adv", "adv", "stop"}
		} else if i > n/2 {
			kinds = append(kinds, "drain", "stop")
		}
		o := c10RTOp{Kind: rapid.SampledFrom(kinds).Draw(rt, "kind")}
		switch o.Kind {
		case "set":
			o.Key = rapid.IntRange(0, nkeys-1).Draw(rt, "key")
			o.Val = rapid.IntRange(0, 99).Draw(rt, "val")
			o.M = rapid.IntRange(1, maxM).Draw(rt, "m")
			o.R = rapid.IntRange(0, 3).Draw(rt, "r")
		case "move":
			o.Key = rapid.IntRange(0, nkeys-1).Draw(rt, "key")
			o.M = rapid.IntRange(1, maxM).Draw(rt, "m")
			o.R = rapid.IntRange(0, 3).Draw(rt, "r")
		case "remove":
			o.Key = rapid.IntRange(0, nkeys-1).Draw(rt, "key")
		case "adv":
			o.N = rapid.IntRange(1, 4*c.Slots+8).Draw(rt, "n")
			if c.Slots > 12 {
				o.N = rapid.IntRange(1, 4*c.Slots+8).Draw(rt, "nbig")
			}
		case "drain":
			drained = true
		case "stop":
			stopped = true
		}
		c.Ops = append(c.Ops, o)
	}
	return c
}

func TestVerif_C10_realticker(t *testing.T) {
	kit.Run(t, "C10", "wheel-real-ticker", kit.Opts{Quick: 3000, Thorough: 96000}, c10RTGen,
		func(c c10RTCase) kit.Verdict { return c10RTInterp(t, c) })
}

// ---- unspecified region: judged for panics / hangs / leaks only.

type c10UCase struct {
	Ctor  int     `json:"ctor,omitempty"` // 0: valid wheel; 1 interval 0; 2 interval < 0; 3 slots 0; 4 slots < 0; 5 nil execute
	Slots int     `json:"slots"`
	Ops   []c10Op `json:"ops"` // set/move with Sub > 0: delay = Sub quarter-intervals (< I); Re/RN: the callback re-arms
	Sub   []int   `json:"sub"` // per op: 0 = delay M*I, 1..3 = that many quarter-intervals, 4 = one nanosecond
}

func c10UInterp(t *testing.T, c c10UCase) (v kit.Verdict) {
	classes := map[string]bool{}
	sub := false
	rootPanic := ""
	res := kit.Bubble(t, func() {
		// a panic raised on the caller's goroutine (e.g. by the constructor) becomes a verdict
		// instead of a process crash
		defer func() {
			if r := recover(); r != nil {
				rootPanic = fmt.Sprint(r)
			}
		}()
		if c.Ctor != 0 {
			iv, slots := c10Interval, c.Slots
			var fn Execute = func(k, v any) {}
			switch c.Ctor {
			case 1:
				iv = 0
			case 2:
				iv = -c10Interval
			case 3:
				slots = 0
			case 4:
				slots = -c.Slots
			default:
				fn = nil
			}
			classes["constructor-invalid-arguments"] = true
			w, err := NewTimingWheel(iv, slots, fn)
			if err == nil && w != nil {
				w.Stop() // accepted: whatever it built must at least shut down
			}
			return
		}
		tk := &c10Ticker{c: make(chan time.Time), stopped: make(chan struct{})}
		var mu sync.Mutex
		rearms := map[int][2]int{}
		var w *TimingWheel
		w, err := newTimingWheelWithClock(c10Interval, c.Slots, func(k, val any) {
			mu.Lock()
			ra := rearms[k.(int)]
			if ra[1] > 0 {
				rearms[k.(int)] = [2]int{ra[0], ra[1] - 1}
			}
			mu.Unlock()
			if ra[1] > 0 { // the periodic-task idiom: re-arm from inside the callback
				_ = w.SetTimer(k, val, time.Duration(ra[0])*c10Interval)
			}
		}, tk)
		if err != nil {
			return
		}
		pending := map[int]bool{}
		for i, o := range c.Ops {
			d := time.Duration(o.M) * c10Interval
			if s := c.Sub[i]; s >= 4 {
				d = time.Nanosecond
			} else if s > 0 {
				d = time.Duration(s) * c10Interval / 4
			}
			switch o.Kind {
			case "set":
				mu.Lock()
				rearms[o.Key] = [2]int{o.Re, o.RN}
				mu.Unlock()
				_ = w.SetTimer(o.Key, o.Val, d)
				if d < c10Interval {
					classes["set-sub-interval"] = true
					if pending[o.Key] {
						sub = true
					}
				}
				pending[o.Key] = true
			case "move":
				_ = w.MoveTimer(o.Key, d)
				if d < c10Interval {
					classes["move-sub-interval"] = true
					if pending[o.Key] {
						sub = true
					}
				}
			case "remove":
				_ = w.RemoveTimer(o.Key)
				delete(pending, o.Key)
			case "tick":
				for j := 0; j < o.N; j++ {
					tk.tick()
					kit.Wait()
				}
				pending = map[int]bool{} // label only: "maybe pending" is enough for the class
			case "drain":
				_ = w.Drain(func(k, v any) {})
			}
			kit.Wait()
		}
		for j := 0; j < 3*c.Slots+3; j++ {
			tk.tick()
			kit.Wait()
		}
		w.Stop()
	})
	v.NonTrivial = sub || c.Ctor != 0
	for k := range classes {
		v.Classes = append(v.Classes, k)
	}
	sort.Strings(v.Classes)
	if rootPanic != "" {
		v.Fail = "unspecified region (judged for panics, hangs and leaks only): the call panicked: " + rootPanic
	} else if !res.OK() {
		v.Fail = "unspecified region (judged for panics, hangs and leaks only): bubble: " + res.String()
	}
	return v
}

func c10UGen(rt *rapid.T) c10UCase {
	c := c10UCase{Slots: rapid.IntRange(1, 8).Draw(rt, "slots")}
	if rapid.IntRange(0, 9).Draw(rt, "ctorq") == 0 {
		c.Ctor = rapid.IntRange(1, 5).Draw(rt, "ctor")
		return c
	}
	nkeys := rapid.IntRange(1, 3).Draw(rt, "nkeys")
	n := rapid.IntRange(1, 20).Draw(rt, "nops")
	for i := 0; i < n; i++ {
		o := c10Op{Kind: rapid.SampledFrom([]string{"set", "set", "move", "move", "remove", "tick", "tick", "drain"}).Draw(rt, "kind")}
		s := 0
		switch o.Kind {
		case "set", "move":
			o.Key = rapid.IntRange(0, nkeys-1).Draw(rt, "key")
			o.Val = rapid.IntRange(0, 9).Draw(rt, "val")
			o.M = int64(rapid.IntRange(1, 2*c.Slots+1).Draw(rt, "m"))
			if rapid.Bool().Draw(rt, "subq") {
				s = rapid.IntRange(1, 4).Draw(rt, "sub")
			}
			if o.Kind == "set" && rapid.IntRange(0, 3).Draw(rt, "rearm") == 0 {
				o.Re = rapid.IntRange(1, c.Slots+1).Draw(rt, "re")
				o.RN = rapid.IntRange(1, 2).Draw(rt, "rn")
			}
		case "remove":
			o.Key = rapid.IntRange(0, nkeys-1).Draw(rt, "key")
		case "tick":
			o.N = rapid.IntRange(1, c.Slots+1).Draw(rt, "n")
		case "drain":
			if i < n-2 { // keep it rare and late
				o.Kind = "tick"
				o.N = 1
			}
		}
		c.Ops = append(c.Ops, o)
		c.Sub = append(c.Sub, s)
	}
	return c
}

func TestVerif_C10_unspecified(t *testing.T) {
	kit.Run(t, "C10", "wheel-unspecified", kit.Opts{Quick: 1500, Thorough: 48000}, c10UGen,
		func(c c10UCase) kit.Verdict { return c10UInterp(t, c) })
}
