package collection

// C10 — timing wheel fires every task exactly once at the requested tick.
// Harness injected by /verif (overlay); see /verif/DESIGN.md "C10".

import (
	"fmt"
	"sort"
	"sync"
	"testing"
	"time"

	"pgregory.net/rapid"
	"verif.local/kit"
)

const c10Interval = 10 * time.Millisecond

type c10Op struct {
	Kind string `json:"k"`           // set move remove tick drain stop badset badmove badremove
	Key  int    `json:"key,omitempty"` // index into keys
	Val  int    `json:"v,omitempty"`
	M    int    `json:"m,omitempty"`    // delay = M*I (+ I/2 when Half)
	Half bool   `json:"half,omitempty"` // exercises the floor
	N    int    `json:"n,omitempty"`    // tick: number of ticks
}

type c10Case struct {
	Slots int     `json:"slots"`
	Ops   []c10Op `json:"ops"`
}

// verifTicker: unbuffered, so a tick is consumed by the wheel before Tick returns.
type c10Ticker struct {
	c       chan time.Time
	stopped chan struct{}
	once    sync.Once
}

func (t *c10Ticker) Chan() <-chan time.Time { return t.c }
func (t *c10Ticker) Stop()                  { t.once.Do(func() { close(t.stopped) }) }
func (t *c10Ticker) tick() bool {
	select {
	case t.c <- time.Now():
		return true
	case <-t.stopped:
		return false
	}
}

type c10Fire struct {
	key, val, tick int
	drained        bool
}

type c10Pending struct {
	val, due int
}

func c10Delay(o c10Op) time.Duration {
	d := time.Duration(o.M) * c10Interval
	if o.Half {
		d += c10Interval / 2
	}
	return d
}

// c10Interp runs the op list against a real wheel inside a bubble and against
// the reference model {key -> (value, dueTick)}.
func c10Interp(t *testing.T, c c10Case) (v kit.Verdict) {
	var fail string
	nontrivial := false
	classes := map[string]bool{}
	res := kit.Bubble(t, func() {
		var mu sync.Mutex
		var fires []c10Fire
		ticks := 0
		tk := &c10Ticker{c: make(chan time.Time), stopped: make(chan struct{})}
		w, err := newTimingWheelWithClock(c10Interval, c.Slots, func(k, val any) {
			mu.Lock()
			fires = append(fires, c10Fire{key: k.(int), val: val.(int), tick: ticks})
			mu.Unlock()
		}, tk)
		if err != nil {
			fail = "constructor: " + err.Error()
			return
		}
		model := map[int]c10Pending{}
		stopped, drained := false, false
		take := func() []c10Fire {
			mu.Lock()
			defer mu.Unlock()
			f := fires
			fires = nil
			return f
		}
		expectNoFire := func(what string) bool {
			if f := take(); len(f) != 0 {
				fail = fmt.Sprintf("%s: unexpected execution %+v", what, f)
				return false
			}
			return true
		}
		for i, o := range c.Ops {
			what := fmt.Sprintf("op %d %+v (ticks=%d)", i, o, ticks)
			switch o.Kind {
			case "set", "move", "remove":
				var err error
				switch o.Kind {
				case "set":
					err = w.SetTimer(o.Key, o.Val, c10Delay(o))
				case "move":
					err = w.MoveTimer(o.Key, c10Delay(o))
				case "remove":
					err = w.RemoveTimer(o.Key)
				}
				kit.Wait()
				if stopped {
					if err != ErrClosed {
						fail = fmt.Sprintf("%s: after Stop got %v, want ErrClosed", what, err)
						return
					}
				} else {
					if err != nil {
						fail = fmt.Sprintf("%s: unexpected error %v", what, err)
						return
					}
					p, pending := model[o.Key]
					switch o.Kind {
					case "set":
						if pending {
							classes["reset"] = true
							nontrivial = true
						}
						if o.M >= c.Slots {
							classes["multi-revolution"] = true
						}
						model[o.Key] = c10Pending{val: o.Val, due: ticks + o.M}
					case "move":
						if pending {
							classes["move-pending"] = true
							nontrivial = true
							model[o.Key] = c10Pending{val: p.val, due: ticks + o.M}
						} else {
							classes["move-absent"] = true
						}
					case "remove":
						if pending {
							classes["remove-pending"] = true
						}
						delete(model, o.Key)
					}
				}
				if !expectNoFire(what) {
					return
				}
			case "badset", "badmove", "badremove":
				var err error
				switch o.Kind {
				case "badset":
					if o.M > 0 {
						err = w.SetTimer(nil, o.Val, time.Duration(o.M)*c10Interval)
					} else {
						err = w.SetTimer(o.Key, o.Val, time.Duration(o.M)*c10Interval)
					}
				case "badmove":
					if o.M > 0 {
						err = w.MoveTimer(nil, time.Duration(o.M)*c10Interval)
					} else {
						err = w.MoveTimer(o.Key, time.Duration(o.M)*c10Interval)
					}
				case "badremove":
					err = w.RemoveTimer(nil)
				}
				kit.Wait()
				classes["invalid-arg"] = true
				if err != ErrArgument {
					fail = fmt.Sprintf("%s: invalid arguments got %v, want ErrArgument", what, err)
					return
				}
				if !expectNoFire(what) {
					return
				}
			case "tick":
				for j := 0; j < o.N; j++ {
					ticks++
					tk.tick()
					kit.Wait()
					got := take()
					var want []c10Fire
					if !stopped && !drained {
						for k, p := range model {
							if p.due == ticks {
								want = append(want, c10Fire{key: k, val: p.val, tick: ticks})
								delete(model, k)
							}
						}
					}
					sort.Slice(got, func(a, b int) bool { return got[a].key < got[b].key })
					sort.Slice(want, func(a, b int) bool { return want[a].key < want[b].key })
					if fmt.Sprint(got) != fmt.Sprint(want) {
						overdue := ""
						for k, p := range model {
							if p.due < ticks {
								overdue += fmt.Sprintf(" key %d due %d", k, p.due)
							}
						}
						fail = fmt.Sprintf("%s: at tick %d executed %v, model expects %v (still pending in model: %v)%s", what, ticks, got, want, model, overdue)
						return
					}
					if len(got) > 0 {
						classes["fired"] = true
					}
				}
			case "drain":
				var dm sync.Mutex
				var got []c10Fire
				err := w.Drain(func(k, val any) {
					dm.Lock()
					got = append(got, c10Fire{key: k.(int), val: val.(int), drained: true})
					dm.Unlock()
				})
				kit.Wait()
				if stopped {
					if err != ErrClosed {
						fail = fmt.Sprintf("%s: after Stop got %v, want ErrClosed", what, err)
						return
					}
				} else {
					if err != nil {
						fail = fmt.Sprintf("%s: unexpected error %v", what, err)
						return
					}
					var want []c10Fire
					for k, p := range model {
						want = append(want, c10Fire{key: k, val: p.val, drained: true})
					}
					sort.Slice(got, func(a, b int) bool { return got[a].key < got[b].key })
					sort.Slice(want, func(a, b int) bool { return want[a].key < want[b].key })
					if fmt.Sprint(got) != fmt.Sprint(want) {
						fail = fmt.Sprintf("%s: drained %v, model pending %v", what, got, want)
						return
					}
					if len(want) > 0 {
						classes["drain-nonempty"] = true
					}
					model = map[int]c10Pending{}
					drained = true
				}
				if !expectNoFire(what) {
					return
				}
			case "stop":
				if !stopped {
					w.Stop()
					stopped = true
					classes["stopped"] = true
					kit.Wait()
				}
				if !expectNoFire(what) {
					return
				}
			}
		}
		// horizon: every pending task must still fire exactly at its tick
		if !stopped {
			maxDue := ticks
			for _, p := range model {
				if p.due > maxDue {
					maxDue = p.due
				}
			}
			extra := maxDue - ticks + c.Slots + 1
			for j := 0; j < extra; j++ {
				ticks++
				tk.tick()
				kit.Wait()
				got := take()
				var want []c10Fire
				if !drained {
					for k, p := range model {
						if p.due == ticks {
							want = append(want, c10Fire{key: k, val: p.val, tick: ticks})
							delete(model, k)
						}
					}
				}
				sort.Slice(got, func(a, b int) bool { return got[a].key < got[b].key })
				sort.Slice(want, func(a, b int) bool { return want[a].key < want[b].key })
				if fmt.Sprint(got) != fmt.Sprint(want) {
					fail = fmt.Sprintf("horizon: at tick %d executed %v, model expects %v (model pending %v)", ticks, got, want, model)
					return
				}
				if len(got) > 0 {
					classes["fired"] = true
				}
			}
			w.Stop()
		}
	})
	v.NonTrivial = nontrivial && classes["fired"]
	for k := range classes {
		v.Classes = append(v.Classes, k)
	}
	sort.Strings(v.Classes)
	if fail != "" {
		v.Fail = fail
	} else if !res.OK() {
		v.Fail = "bubble: " + res.String()
	}
	return v
}

func c10Gen(rt *rapid.T) c10Case {
	c := c10Case{Slots: rapid.IntRange(1, 12).Draw(rt, "slots")}
	nkeys := rapid.IntRange(1, 3).Draw(rt, "nkeys")
	n := rapid.IntRange(1, 30).Draw(rt, "nops")
	maxM := 3*c.Slots + 1
	stopped, drained := false, false
	for i := 0; i < n; i++ {
		kinds := []string{"set", "set", "set", "move", "move", "remove", "tick", "tick", "tick", "tick"}
		if drained || stopped {
			kinds = []string{"tick", "tick", "stop"}
			if stopped {
				kinds = []string{"tick", "set", "move", "remove", "drain"}
			}
		} else {
			kinds = append(kinds, "badset", "badmove", "badremove")
			if i > n/2 {
				kinds = append(kinds, "drain", "stop")
			}
		}
		k := rapid.SampledFrom(kinds).Draw(rt, "kind")
		o := c10Op{Kind: k}
		switch k {
		case "set":
			o.Key = rapid.IntRange(0, nkeys-1).Draw(rt, "key")
			o.Val = rapid.IntRange(0, 99).Draw(rt, "val")
			o.M = rapid.IntRange(1, maxM).Draw(rt, "m")
			o.Half = rapid.Bool().Draw(rt, "half")
		case "move":
			o.Key = rapid.IntRange(0, nkeys-1).Draw(rt, "key")
			o.M = rapid.IntRange(1, maxM).Draw(rt, "m")
			o.Half = rapid.Bool().Draw(rt, "half")
		case "remove":
			o.Key = rapid.IntRange(0, nkeys-1).Draw(rt, "key")
		case "tick":
			o.N = rapid.IntRange(1, c.Slots+2).Draw(rt, "n")
		case "badset", "badmove":
			o.Key = rapid.IntRange(0, nkeys-1).Draw(rt, "key")
			o.M = rapid.SampledFrom([]int{0, -1, 1}).Draw(rt, "m") // 1 => nil key
		case "drain":
			drained = true
		case "stop":
			stopped = true
		}
		c.Ops = append(c.Ops, o)
	}
	return c
}

func TestVerif_C10_random(t *testing.T) {
	kit.Run(t, "C10", "wheel-random", kit.Opts{Quick: 6000, Thorough: 320000}, c10Gen,
		func(c c10Case) kit.Verdict { return c10Interp(t, c) })
}

// Small-scope exhaustive enumeration: for every slot count 1..maxN, every
// phase of the wheel, every first delay, every instant at which the task is
// still pending, a move or re-set with every delay, optionally a third
// operation (move / re-set / remove) at every later instant.
func c10Enumerate(maxN int) func(yield func(c10Case) bool) {
	return func(yield func(c10Case) bool) {
		for n := 1; n <= maxN; n++ {
			maxM := 2*n + 1
			for a := 0; a < n; a++ {
				for m1 := 1; m1 <= maxM; m1++ {
					for b := 0; b < m1; b++ {
						for _, k2 := range []string{"move", "set"} {
							for m2 := 1; m2 <= maxM; m2++ {
								base := []c10Op{}
								if a > 0 {
									base = append(base, c10Op{Kind: "tick", N: a})
								}
								base = append(base, c10Op{Kind: "set", Key: 0, Val: 1, M: m1})
								if b > 0 {
									base = append(base, c10Op{Kind: "tick", N: b})
								}
								base = append(base, c10Op{Kind: k2, Key: 0, Val: 2, M: m2})
								if !yield(c10Case{Slots: n, Ops: append([]c10Op(nil), base...)}) {
									return
								}
								for c := 0; c < m2; c++ {
									for _, k3 := range []string{"move", "set", "remove"} {
										m3s := maxM
										if k3 == "remove" {
											m3s = 1
										}
										for m3 := 1; m3 <= m3s; m3++ {
											ops := append([]c10Op(nil), base...)
											if c > 0 {
												ops = append(ops, c10Op{Kind: "tick", N: c})
											}
											ops = append(ops, c10Op{Kind: k3, Key: 0, Val: 3, M: m3})
											if !yield(c10Case{Slots: n, Ops: ops}) {
												return
											}
										}
									}
								}
							}
						}
					}
				}
			}
		}
	}
}

func TestVerif_C10_exhaustive(t *testing.T) {
	maxN := 3
	if kit.Thorough() {
		maxN = 5
	}
	kit.Enumerate(t, "C10", "wheel-exhaustive", c10Enumerate(maxN),
		func(c c10Case) kit.Verdict { return c10Interp(t, c) })
}
