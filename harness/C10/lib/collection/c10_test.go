package collection

// C10 — timing wheel fires every task exactly once at the requested tick.
// Harness injected by /verif (overlay); see /verif/DESIGN.md "C10".

import (
	"fmt"
	"math"
	"sort"
	"sync"
	"testing"
	"time"

	"pgregory.net/rapid"
	"verif.local/kit"
)

const c10Interval = 10 * time.Millisecond

type c10Op struct {
	Kind string `json:"k"`           // set move remove tick drain stop badset badmove badremove
	Key  int    `json:"key,omitempty"` // index into keys
	Val  int    `json:"v,omitempty"`
	M    int64  `json:"m,omitempty"`    // delay = M*I (+ I/2 when Half); int64: far delays exceed 2^31 intervals, also in the 32-bit build (unit lib/collection@386)
	Half bool   `json:"half,omitempty"` // exercises the floor
	N    int    `json:"n,omitempty"`    // tick: number of ticks
	NW   bool   `json:"nw,omitempty"`   // do not wait for the wheel to become quiescent after this call
	NilV bool   `json:"nilv,omitempty"` // set: the value is an untyped nil (recorded as -1)
	Re   int    `json:"re,omitempty"`   // set: when this task executes, its callback re-arms the key with delay Re*I ...
	RN   int    `json:"rn,omitempty"`   // ... at most RN times (the periodic-task idiom: SetTimer from inside the execute callback)
	DLat int    `json:"dlat,omitempty"` // drain: the drain function sleeps DLat half-intervals after recording the hand-over
	SD   bool   `json:"sd,omitempty"`   // drain: Stop is called right after Drain returned, while the (slow) hand-over is still running
	Pan  []int  `json:"pan,omitempty"`  // drain: the drain function panics for these keys (after recording the hand-over)
	CR   bool   `json:"cr,omitempty"`   // set: when this task executes, its callback first calls RemoveTimer on its own key (what collection.Cache's expiry callback does through Cache.Del)
	Hold bool   `json:"hold,omitempty"` // drain: the drain function does not return before the harness releases it (a hand-over that waits for its caller)
	HP   []int  `json:"hp,omitempty"`   // drain with SD and Hold: calls issued after Stop while the hand-over is still held (0 SetTimer, 1 MoveTimer, 2 RemoveTimer, 3 Drain); each must report ErrClosed before the release
}

// c10Expand turns bulk ops (bset/bmove/bremove over keys Key..Key+N-1) into single ops.
func c10Expand(ops []c10Op) []c10Op {
	bulk := false
	for _, o := range ops {
		if o.Kind == "bset" || o.Kind == "bmove" || o.Kind == "bremove" {
			bulk = true
		}
	}
	if !bulk {
		return ops
	}
	var out []c10Op
	for _, o := range ops {
		switch o.Kind {
		case "bset", "bmove", "bremove":
			for k := 0; k < o.N; k++ {
				out = append(out, c10Op{Kind: o.Kind[1:], Key: o.Key + k, Val: o.Val, M: o.M})
			}
		default:
			out = append(out, o)
		}
	}
	return out
}

type c10Case struct {
	Iv    int     `json:"iv,omitempty"` // index into c10Intervals (0 = 10 ms)
	KK    int     `json:"kk,omitempty"` // Go type of the keys: 0 int, 1 string, 2 comparable struct, 3 pointer
	Slots int     `json:"slots"`
	Ops   []c10Op `json:"ops"`
	Lat   int     `json:"lat,omitempty"` // slow-exec rule: every execute callback sleeps Lat half-intervals
	Pan   []int   `json:"pan,omitempty"` // slow-exec rule: the callback panics for these keys (after recording the execution)
}

// verifTicker: unbuffered, so a tick is consumed by the wheel before Tick returns.
type c10Ticker struct {
	c       chan time.Time
	stopped chan struct{}
	once    sync.Once
}

func (t *c10Ticker) Chan() <-chan time.Time { return t.c }
func (t *c10Ticker) Stop()                  { t.once.Do(func() { close(t.stopped) }) }
func (t *c10Ticker) tick() bool {
	select {
	case t.c <- time.Now():
		return true
	case <-t.stopped:
		return false
	}
}

type c10Fire struct {
	key, val, tick int
	drained        bool
}

type c10Pending struct {
	val int
	due int64 // tick count; int64 because ticks + M exceeds a 32-bit int for far delays
}

// c10Far: delays of at least this many intervals are "far" — they lie beyond every
// horizon the harness ticks through (2^31..2^39 intervals), must never execute and must
// still be handed over by Drain.
const c10Far = 1 << 30

// c10S: a value for a failure message, cut to a readable length (bulk histories hold thousands of keys).
func c10S(x any) string {
	s := fmt.Sprint(x)
	if len(s) > 600 {
		s = s[:600] + fmt.Sprintf(" ...(%d more bytes)", len(s)-600)
	}
	return s
}

func c10Val(v any) int {
	if v == nil {
		return -1
	}
	return v.(int)
}

func c10SetVal(o c10Op) (any, int) {
	if o.NilV {
		return nil, -1
	}
	return o.Val, o.Val
}

// tick intervals: the wheel only divides delays by its interval, so the behaviour must not
// depend on the unit
var c10Intervals = []time.Duration{c10Interval, time.Nanosecond, time.Millisecond, time.Second, time.Hour, 7 * time.Microsecond}

func c10Iv(c c10Case) time.Duration {
	if c.Iv <= 0 || c.Iv >= len(c10Intervals) {
		return c10Interval
	}
	return c10Intervals[c.Iv]
}

type c10KeyStruct struct {
	A int
	B string
}

// c10Keys maps key indices to key values of the case's key type and back.
type c10Keys struct {
	mu   sync.Mutex
	kind int
	ptrs map[int]*int
	back map[any]int
}

func (ks *c10Keys) of(i int) any {
	if ks.kind == 0 {
		return i
	}
	ks.mu.Lock()
	defer ks.mu.Unlock()
	var k any
	switch ks.kind {
	case 1:
		k = fmt.Sprintf("key-%d", i)
	case 2:
		k = c10KeyStruct{A: i, B: "k"}
	default:
		p, ok := ks.ptrs[i]
		if !ok {
			p = new(int)
			*p = i
			ks.ptrs[i] = p
		}
		k = p
	}
	ks.back[k] = i
	return k
}

func (ks *c10Keys) index(k any) int {
	if ks.kind == 0 {
		return k.(int)
	}
	ks.mu.Lock()
	defer ks.mu.Unlock()
	return ks.back[k]
}

// c10BadDelay: the non-positive delay of a badset/badmove op: M = 0 zero, -1 minus one interval,
// -2 the most negative Duration, -3 minus one nanosecond.
func c10BadDelay(o c10Op, iv time.Duration, classes map[string]bool) time.Duration {
	switch o.M {
	case -2:
		classes["invalid-delay-min-int64"] = true
		return time.Duration(math.MinInt64)
	case -3:
		return -time.Nanosecond
	}
	return time.Duration(o.M) * iv
}

func c10Delay(o c10Op, iv time.Duration) time.Duration {
	d := time.Duration(o.M) * iv
	if o.Half {
		d += iv / 2
	}
	return d
}

// c10Interp runs the op list against a real wheel inside a bubble and against
// the reference model {key -> (value, dueTick)}.
func c10Interp(t *testing.T, c c10Case) (v kit.Verdict) { return c10InterpP(t, c, nil) }

// c10InterpP: probe (may be nil) is called with the wheel after every operation, when the
// wheel is quiescent; it may add class labels only (never a verdict).
func c10InterpP(t *testing.T, c c10Case, probe func(w *TimingWheel, classes map[string]bool)) (v kit.Verdict) {
	var fail string
	nontrivial := false
	classes := map[string]bool{}
	res := kit.Bubble(t, func() {
		var mu sync.Mutex
		var fires []c10Fire
		ticks := 0
		tk := &c10Ticker{c: make(chan time.Time), stopped: make(chan struct{})}
		iv := c10Iv(c)
		ks := &c10Keys{kind: c.KK, ptrs: map[int]*int{}, back: map[any]int{}}
		if c.Iv != 0 {
			classes["interval-"+iv.String()] = true
		}
		if c.KK != 0 {
			classes[fmt.Sprintf("key-type-%d", c.KK)] = true
		}
		type rearm struct {
			re, rn int
			cr     bool
		}
		rearms := map[int]rearm{}      // harness side, read by the callback (under mu)
		modelRearms := map[int]rearm{} // model side
		var w *TimingWheel
		w, err := newTimingWheelWithClock(iv, c.Slots, func(k, val any) {
			ki := ks.index(k)
			mu.Lock()
			fires = append(fires, c10Fire{key: ki, val: c10Val(val), tick: ticks})
			ra := rearms[ki]
			if ra.rn > 0 {
				rearms[ki] = rearm{ra.re, ra.rn - 1, ra.cr}
			}
			mu.Unlock()
			if ra.cr {
				// re-entrant call: the task has just executed, so this removes nothing
				_ = w.RemoveTimer(k)
			}
			if ra.rn > 0 {
				// re-entrant call from inside the execute callback; ErrClosed after Stop is fine
				_ = w.SetTimer(k, val, time.Duration(ra.re)*iv)
			}
		}, tk)
		if err != nil {
			fail = "constructor: " + err.Error()
			return
		}
		model := map[int]c10Pending{}
		// fire applies the model's side of an execution at the current tick
		reent := 0 // executions of the current tick whose callback calls back into the wheel
		fire := func(k int, p c10Pending) {
			delete(model, k)
			if ra := modelRearms[k]; ra.rn > 0 || ra.cr {
				reent++
				if ra.cr {
					classes["callback-removes-own-key"] = true
				}
				if reent > 16 {
					classes["more-than-16-reentrant-callbacks-one-tick"] = true
				}
			}
			if ra := modelRearms[k]; ra.rn > 0 {
				modelRearms[k] = rearm{ra.re, ra.rn - 1, ra.cr}
				model[k] = c10Pending{val: p.val, due: int64(ticks + ra.re)}
				classes["rearmed-from-callback"] = true
			}
		}
		stopped, drained := false, false
		quiescent := true // the previous operation waited for the wheel to become quiescent
		take := func() []c10Fire {
			mu.Lock()
			defer mu.Unlock()
			f := fires
			fires = nil
			return f
		}
		expectNoFire := func(what string) bool {
			if f := take(); len(f) != 0 {
				fail = fmt.Sprintf("%s: unexpected execution %+v", what, f)
				return false
			}
			return true
		}
		for i, o := range c10Expand(c.Ops) {
			what := fmt.Sprintf("op %d %+v (ticks=%d)", i, o, ticks)
			if probe != nil && quiescent {
				probe(w, classes)
			}
			quiescent = !o.NW
			switch o.Kind {
			case "set", "move", "remove":
				var err error
				switch o.Kind {
				case "set":
					sv, _ := c10SetVal(o)
					if !stopped {
						mu.Lock()
						rearms[o.Key] = rearm{o.Re, o.RN, o.CR}
						mu.Unlock()
					}
					err = w.SetTimer(ks.of(o.Key), sv, c10Delay(o, iv))
				case "move":
					err = w.MoveTimer(ks.of(o.Key), c10Delay(o, iv))
				case "remove":
					err = w.RemoveTimer(ks.of(o.Key))
				}
				if !o.NW {
					kit.Wait()
				} else {
					classes["back-to-back-calls"] = true
				}
				if stopped {
					if err != ErrClosed {
						fail = fmt.Sprintf("%s: after Stop got %v, want ErrClosed", what, err)
						return
					}
				} else {
					if err != nil {
						fail = fmt.Sprintf("%s: unexpected error %v", what, err)
						return
					}
					p, pending := model[o.Key]
					switch o.Kind {
					case "set":
						if pending {
							classes["reset"] = true
							nontrivial = true
						}
						if o.M >= int64(c.Slots) {
							classes["multi-revolution"] = true
						}
						_, mv := c10SetVal(o)
						if o.NilV {
							classes["nil-value"] = true
						}
						if o.M >= c10Far {
							classes["far-delay"] = true
						}
						c10TopClass(o.M, iv, c.Slots, ticks, classes)
						model[o.Key] = c10Pending{val: mv, due: c10Due(ticks, o.M)}
						modelRearms[o.Key] = rearm{o.Re, o.RN, o.CR}
					case "move":
						if pending {
							classes["move-pending"] = true
							nontrivial = true
							if o.M >= c10Far {
								classes["far-delay"] = true
							}
							c10TopClass(o.M, iv, c.Slots, ticks, classes)
							model[o.Key] = c10Pending{val: p.val, due: c10Due(ticks, o.M)}
						} else {
							classes["move-absent"] = true
						}
					case "remove":
						if pending {
							classes["remove-pending"] = true
						}
						delete(model, o.Key)
					}
				}
				if !o.NW && !expectNoFire(what) {
					return
				}
			case "badset", "badmove", "badremove":
				var err error
				switch o.Kind {
				case "badset":
					if o.M > 0 {
						err = w.SetTimer(nil, o.Val, time.Duration(o.M)*iv)
					} else {
						err = w.SetTimer(ks.of(o.Key), o.Val, c10BadDelay(o, iv, classes))
					}
				case "badmove":
					if o.M > 0 {
						err = w.MoveTimer(nil, time.Duration(o.M)*iv)
					} else {
						err = w.MoveTimer(ks.of(o.Key), c10BadDelay(o, iv, classes))
					}
				case "badremove":
					err = w.RemoveTimer(nil)
				}
				kit.Wait()
				classes["invalid-arg"] = true
				if err != ErrArgument {
					fail = fmt.Sprintf("%s: invalid arguments got %v, want ErrArgument", what, err)
					return
				}
				if !expectNoFire(what) {
					return
				}
			case "tick":
				for j := 0; j < o.N; j++ {
					ticks++
					reent = 0
					tk.tick()
					kit.Wait()
					got := take()
					var want []c10Fire
					if !stopped && !drained {
						for k, p := range model {
							if p.due == int64(ticks) {
								want = append(want, c10Fire{key: k, val: p.val, tick: ticks})
								fire(k, p)
							}
						}
					}
					sort.Slice(got, func(a, b int) bool { return got[a].key < got[b].key })
					sort.Slice(want, func(a, b int) bool { return want[a].key < want[b].key })
					if fmt.Sprint(got) != fmt.Sprint(want) {
						overdue := ""
						for k, p := range model {
							if p.due < int64(ticks) {
								overdue += fmt.Sprintf(" key %d due %d", k, p.due)
							}
						}
						fail = fmt.Sprintf("%s: at tick %d executed %v, model expects %v (still pending in model: %v)%s", what, ticks, c10S(got), c10S(want), c10S(model), c10S(overdue))
						return
					}
					if len(got) > 0 {
						classes["fired"] = true
					}
				}
			case "drain":
				var dm sync.Mutex
				var got []c10Fire
				drainPanicked := false
				var release chan struct{}
				if o.Hold {
					release = make(chan struct{})
				}
				err := w.Drain(func(k, val any) {
					dm.Lock()
					got = append(got, c10Fire{key: ks.index(k), val: c10Val(val), drained: true})
					dm.Unlock()
					if release != nil {
						<-release
					}
					if o.DLat > 0 {
						time.Sleep(time.Duration(o.DLat) * c10Interval / 2)
					}
					for _, pk := range o.Pan {
						if pk == ks.index(k) {
							dm.Lock()
							drainPanicked = true
							dm.Unlock()
							panic(fmt.Sprintf("c10: drain function panics for key %d", pk))
						}
					}
				})
				wasStopped := stopped
				if o.SD && !stopped {
					// shutdown sequence Drain(); Stop() without waiting for the hand-over to finish:
					// every task pending at the Drain must still be handed over exactly once
					w.Stop()
					classes["stop-during-drain"] = true
				}
				if release != nil {
					// the hand-over is in progress and stays so: no drain function returns before the
					// release. "Every operation after Stop reports ErrClosed" does not depend on what the
					// wheel is busy with, so each call below must have returned ErrClosed while the
					// hand-over is still held (a call that only returns after the release never reports
					// anything to a caller whose drain function waits for it).
					kit.Wait()
					if o.SD && !wasStopped {
						if len(model) > 8 {
							classes["stop-while-held-drain-exceeds-its-workers"] = true
						}
						for _, pk := range o.HP {
							done := make(chan error, 1)
							go func() {
								var e error
								switch pk {
								case 0:
									e = w.SetTimer(ks.of(0), 1, iv)
								case 1:
									e = w.MoveTimer(ks.of(0), iv)
								case 2:
									e = w.RemoveTimer(ks.of(0))
								default:
									e = w.Drain(func(k, val any) {
										dm.Lock()
										got = append(got, c10Fire{key: ks.index(k), val: c10Val(val), drained: true})
										dm.Unlock()
									})
								}
								done <- e
							}()
							kit.Wait()
							name := []string{"SetTimer", "MoveTimer", "RemoveTimer", "Drain"}[pk&3]
							select {
							case e := <-done:
								if e != ErrClosed {
									fail = fmt.Sprintf("%s: %s after Stop (hand-over of %d tasks still held) got %v, want ErrClosed", what, name, len(model), e)
								}
							default:
								fail = fmt.Sprintf("%s: %s after Stop has not returned (every goroutine is blocked): it reports nothing while the hand-over of %d tasks is still held by its drain function, want ErrClosed", what, name, len(model))
							}
							if fail != "" {
								close(release)
								kit.Wait()
								return
							}
							classes["calls-after-stop-while-drain-held"] = true
						}
					}
					close(release)
				}
				if o.DLat > 0 {
					classes["slow-drain-fn"] = true
					time.Sleep(time.Duration(len(model)+2) * time.Duration(o.DLat) * c10Interval)
				}
				kit.Wait()
				dm.Lock()
				if drainPanicked {
					classes["drain-fn-panics"] = true
				}
				dm.Unlock()
				if wasStopped {
					if err != ErrClosed {
						fail = fmt.Sprintf("%s: after Stop got %v, want ErrClosed", what, err)
						return
					}
				} else {
					if err != nil {
						fail = fmt.Sprintf("%s: unexpected error %v", what, err)
						return
					}
					var want []c10Fire
					for k, p := range model {
						want = append(want, c10Fire{key: k, val: p.val, drained: true})
					}
					sort.Slice(got, func(a, b int) bool { return got[a].key < got[b].key })
					sort.Slice(want, func(a, b int) bool { return want[a].key < want[b].key })
					if fmt.Sprint(got) != fmt.Sprint(want) {
						fail = fmt.Sprintf("%s: drained %v, model pending %v", what, c10S(got), c10S(want))
						return
					}
					if len(want) > 0 {
						classes["drain-nonempty"] = true
					}
					model = map[int]c10Pending{}
					drained = true
					if o.SD {
						stopped = true
					}
				}
				if !expectNoFire(what) {
					return
				}
			case "stop":
				if !stopped {
					w.Stop()
					stopped = true
					classes["stopped"] = true
					kit.Wait()
				}
				if !expectNoFire(what) {
					return
				}
			}
		}
		if probe != nil && quiescent {
			probe(w, classes)
		}
		// horizon: every pending task must still fire exactly at its tick
		if !stopped {
			// tick until nothing near is pending any more (tasks re-armed from their callback
			// extend the horizon), then one more revolution
			nearest := func() int {
				maxDue := ticks
				for _, p := range model {
					if p.due > int64(maxDue) && p.due-int64(ticks) < c10Far/2 {
						maxDue = int(p.due)
					}
				}
				return maxDue
			}
			end := nearest() + c.Slots + 1
			for ticks < end {
				if n := nearest(); !drained && n > ticks && n+c.Slots+1 > end {
					end = n + c.Slots + 1
				}
				ticks++
				reent = 0
				tk.tick()
				kit.Wait()
				got := take()
				var want []c10Fire
				if !drained {
					for k, p := range model {
						if p.due == int64(ticks) {
							want = append(want, c10Fire{key: k, val: p.val, tick: ticks})
							fire(k, p)
						}
					}
				}
				sort.Slice(got, func(a, b int) bool { return got[a].key < got[b].key })
				sort.Slice(want, func(a, b int) bool { return want[a].key < want[b].key })
				if fmt.Sprint(got) != fmt.Sprint(want) {
					fail = fmt.Sprintf("horizon: at tick %d executed %v, model expects %v (model pending %v)", ticks, c10S(got), c10S(want), c10S(model))
					return
				}
				if len(got) > 0 {
					classes["fired"] = true
				}
			}
			// whatever is still pending lies beyond the horizon (far delays): it must not have
			// executed and Drain must still hand it over, exactly once, with its latest value
			if !drained && len(model) > 0 {
				var dm sync.Mutex
				var got, want []c10Fire
				err := w.Drain(func(k, val any) {
					dm.Lock()
					got = append(got, c10Fire{key: ks.index(k), val: c10Val(val), drained: true})
					dm.Unlock()
				})
				kit.Wait()
				for k, p := range model {
					want = append(want, c10Fire{key: k, val: p.val, drained: true})
				}
				sort.Slice(got, func(a, b int) bool { return got[a].key < got[b].key })
				sort.Slice(want, func(a, b int) bool { return want[a].key < want[b].key })
				if err != nil || fmt.Sprint(got) != fmt.Sprint(want) {
					fail = fmt.Sprintf("horizon: final drain (err %v) handed over %v, model still pending %v", err, c10S(got), c10S(want))
					return
				}
				classes["far-delay-drained"] = true
				if !expectNoFire("after final drain") {
					return
				}
			}
			w.Stop()
		}
	})
	v.NonTrivial = nontrivial && (classes["fired"] || classes["far-delay-drained"])
	for k := range classes {
		v.Classes = append(v.Classes, k)
	}
	sort.Strings(v.Classes)
	if fail != "" {
		v.Fail = fail
	} else if !res.OK() {
		v.Fail = "bubble: " + res.String()
	}
	return v
}

// c10FarM: a delay of 2^e + r intervals, e in 31..39 (10 ms * 2^39 still fits a Duration).
// Computed in int64, so the 32-bit build (unit lib/collection@386) draws the same delays:
// 2^31 - 3 .. 2^31 - 1 (steps fit an int32, hand position + steps does not), 2^31 .. 2^32 - 1
// (negative when truncated to 32 bits) and 2^32 + r and beyond (small when truncated).
// c10MaxM: the largest delays a time.Duration can hold: floor(MaxInt64 / I) intervals minus 0..2*slots
// (with a 1 ns interval the step count itself is within a revolution of 2^63-1, so any sum
// "hand position + steps" a wheel forms without reducing first leaves the int64 range).
func c10MaxM(rt *rapid.T, iv time.Duration, slots int) int64 {
	return math.MaxInt64/int64(iv) - int64(rapid.IntRange(0, 2*slots).Draw(rt, "maxr"))
}

// c10TopClass labels delays within two revolutions of the largest step count the interval allows.
func c10TopClass(m int64, iv time.Duration, slots, ticks int, classes map[string]bool) {
	if m >= math.MaxInt64/int64(iv)-int64(2*slots) {
		classes["delay-at-top-of-duration-range"] = true
		if iv == time.Nanosecond && slots > 1 && (ticks+slots-1)%slots != 0 {
			classes["top-delay-1ns-hand-off-slot-0"] = true
		}
	}
}

// c10Due: tick count at which a delay of m intervals set at tick count ticks is due; saturates
// (a delay of ~2^63 intervals is never reached by the harness anyway).
func c10Due(ticks int, m int64) int64 {
	if m > math.MaxInt64-int64(ticks) {
		return math.MaxInt64
	}
	return int64(ticks) + m
}

func c10FarM(rt *rapid.T) int64 {
	e := rapid.IntRange(31, 39).Draw(rt, "fare")
	return int64(1)<<e + int64(rapid.IntRange(-3, 40).Draw(rt, "farr"))
}

func c10Gen(rt *rapid.T) c10Case {
	c := c10Case{Slots: rapid.IntRange(1, 12).Draw(rt, "slots")}
	if rapid.IntRange(0, 3).Draw(rt, "ivq") == 3 {
		c.Iv = rapid.IntRange(1, len(c10Intervals)-1).Draw(rt, "iv")
	}
	if rapid.IntRange(0, 3).Draw(rt, "kkq") == 3 {
		c.KK = rapid.IntRange(1, 3).Draw(rt, "kk")
	}
	if rapid.IntRange(0, 39).Draw(rt, "manyslots") == 39 { // wheels as large as the ones the repository builds (300) and beyond
		c.Slots = rapid.SampledFrom([]int{59, 60, 255, 256, 300, 1000, 1024}).Draw(rt, "bigslots")
	}
	// nanosecond wheels with delays at the top of the Duration range (math.MaxInt64 ns = "for ever")
	topDelays := rapid.IntRange(0, 15).Draw(rt, "topdelays") == 0
	if topDelays {
		c.Iv = rapid.SampledFrom([]int{1, 1, 5, 0}).Draw(rt, "topiv") // 1 ns (mostly), 7 us, 10 ms
		if c.Slots > 12 {
			c.Slots = rapid.IntRange(2, 12).Draw(rt, "topslots")
		}
	}
	farOK := c10Iv(c) <= c10Interval // 2^39 intervals must still fit a time.Duration
	nkeys := rapid.IntRange(1, 3).Draw(rt, "nkeys")
	n := rapid.IntRange(1, 30).Draw(rt, "nops")
	wide := false
	if rapid.IntRange(0, 5).Draw(rt, "wide") == 0 { // many keys pending at once (drain uses a pool of 8 workers)
		nkeys = rapid.IntRange(9, 16).Draw(rt, "widekeys")
		n = rapid.IntRange(5, 40).Draw(rt, "widenops")
		wide = true
		for k := 0; k < nkeys; k++ { // everything pending with long delays
			c.Ops = append(c.Ops, c10Op{Kind: "set", Key: k, Val: k, M: int64(2*c.Slots + 1 + rapid.IntRange(0, c.Slots).Draw(rt, "widem"))})
		}
	}
	maxM := 3*c.Slots + 1
	// burst: more tasks due on ONE tick than any worker pool a wheel might run callbacks on, most of
	// them with callbacks that call back into the wheel (re-arm like lib/store/cache/cleaner.go,
	// RemoveTimer like collection.Cache)
	if !wide && rapid.IntRange(0, 7).Draw(rt, "burst") == 0 {
		nkeys = rapid.IntRange(17, 40).Draw(rt, "burstkeys")
		n = rapid.IntRange(3, 20).Draw(rt, "burstnops")
		wide = true
		m0 := rapid.IntRange(1, maxM).Draw(rt, "burstm")
		for k := 0; k < nkeys; k++ {
			o := c10Op{Kind: "set", Key: k, Val: k, M: int64(m0)}
			if rapid.IntRange(0, 3).Draw(rt, "burstre") > 0 {
				o.Re = rapid.IntRange(1, maxM).Draw(rt, "re")
				o.RN = rapid.IntRange(1, 2).Draw(rt, "rn")
			}
			o.CR = rapid.Bool().Draw(rt, "cr")
			c.Ops = append(c.Ops, o)
		}
	}
	stopped, drained := false, false
	for i := 0; i < n; i++ {
		kinds := []string{"set", "set", "set", "move", "move", "remove", "tick", "tick", "tick", "tick"}
		if drained || stopped {
			kinds = []string{"tick", "tick", "stop"}
			if stopped {
				kinds = []string{"tick", "set", "move", "remove", "drain"}
			}
		} else {
			kinds = append(kinds, "badset", "badmove", "badremove")
			if i > n/2 || wide {
				kinds = append(kinds, "drain", "stop")
			}
		}
		k := rapid.SampledFrom(kinds).Draw(rt, "kind")
		o := c10Op{Kind: k}
		switch k {
		case "set":
			o.Key = rapid.IntRange(0, nkeys-1).Draw(rt, "key")
			o.Val = rapid.IntRange(0, 99).Draw(rt, "val")
			o.M = int64(rapid.IntRange(1, maxM).Draw(rt, "m"))
			o.Half = rapid.Bool().Draw(rt, "half")
			o.NW = !stopped && rapid.IntRange(0, 2).Draw(rt, "nw") == 0
			o.NilV = rapid.IntRange(0, 5).Draw(rt, "nilv") == 5
			if rapid.IntRange(0, 11).Draw(rt, "far") == 11 && farOK {
				o.M = c10FarM(rt)
			}
			if topDelays && rapid.IntRange(0, 2).Draw(rt, "top") == 0 {
				o.M, o.Half = c10MaxM(rt, c10Iv(c), c.Slots), false
			}
			if rapid.IntRange(0, 5).Draw(rt, "rearm") == 5 {
				o.Re = rapid.IntRange(1, maxM).Draw(rt, "re")
				o.RN = rapid.IntRange(1, 3).Draw(rt, "rn")
			}
			o.CR = rapid.IntRange(0, 5).Draw(rt, "cr") == 5
		case "move":
			o.Key = rapid.IntRange(0, nkeys-1).Draw(rt, "key")
			o.M = int64(rapid.IntRange(1, maxM).Draw(rt, "m"))
			o.Half = rapid.Bool().Draw(rt, "half")
			if rapid.IntRange(0, 11).Draw(rt, "far") == 11 && farOK {
				o.M = c10FarM(rt)
			}
			if topDelays && rapid.IntRange(0, 2).Draw(rt, "top") == 0 {
				o.M, o.Half = c10MaxM(rt, c10Iv(c), c.Slots), false
			}
		case "remove":
			o.Key = rapid.IntRange(0, nkeys-1).Draw(rt, "key")
			o.NW = !stopped && rapid.IntRange(0, 2).Draw(rt, "nw") == 0
		case "tick":
			o.N = rapid.IntRange(1, c.Slots+2).Draw(rt, "n")
		case "badset", "badmove":
			o.Key = rapid.IntRange(0, nkeys-1).Draw(rt, "key")
			o.M = int64(rapid.SampledFrom([]int{0, -1, 1, -2, -3}).Draw(rt, "m")) // 1 => nil key
		case "drain":
			drained = true
			if rapid.IntRange(0, 2).Draw(rt, "slowdrain") == 0 {
				o.DLat = rapid.IntRange(1, 4).Draw(rt, "dlat")
			}
			if !stopped && rapid.IntRange(0, 2).Draw(rt, "stopduring") == 0 {
				o.SD = true
				stopped = true
				if rapid.Bool().Draw(rt, "hold") {
					o.Hold = true
					for j, np := 0, rapid.IntRange(1, 3).Draw(rt, "nhp"); j < np; j++ {
						o.HP = append(o.HP, rapid.IntRange(0, 3).Draw(rt, "hp"))
					}
				}
			}
			if wide && rapid.Bool().Draw(rt, "drainpanicsmost") {
				for k := 0; k < nkeys; k++ {
					if rapid.IntRange(0, 9).Draw(rt, "pk") < 8 {
						o.Pan = append(o.Pan, k)
					}
				}
			} else if rapid.IntRange(0, 2).Draw(rt, "drainpanics") == 0 {
				np := rapid.IntRange(1, nkeys).Draw(rt, "npan")
				for j := 0; j < np; j++ {
					o.Pan = append(o.Pan, rapid.IntRange(0, nkeys-1).Draw(rt, "pankey"))
				}
			}
		case "stop":
			stopped = true
		}
		c.Ops = append(c.Ops, o)
	}
	return c
}

func TestVerif_C10_random(t *testing.T) {
	kit.Run(t, "C10", "wheel-random", kit.Opts{Quick: 6000, Thorough: 320000}, c10Gen,
		func(c c10Case) kit.Verdict { return c10Interp(t, c) })
}

// Small-scope exhaustive enumeration: for every slot count 1..maxN, every
// phase of the wheel, every first delay, every instant at which the task is
// still pending, a move or re-set with every delay, optionally a third
// operation (move / re-set / remove) at every later instant.
func c10Enumerate(maxN int) func(yield func(c10Case) bool) {
	return func(yield func(c10Case) bool) {
		for n := 1; n <= maxN; n++ {
			maxM := 2*n + 1
			for a := 0; a < n; a++ {
				for m1 := 1; m1 <= maxM; m1++ {
					for b := 0; b < m1; b++ {
						for _, k2 := range []string{"move", "set"} {
							for m2 := 1; m2 <= maxM; m2++ {
								base := []c10Op{}
								if a > 0 {
									base = append(base, c10Op{Kind: "tick", N: a})
								}
								base = append(base, c10Op{Kind: "set", Key: 0, Val: 1, M: int64(m1)})
								if b > 0 {
									base = append(base, c10Op{Kind: "tick", N: b})
								}
								base = append(base, c10Op{Kind: k2, Key: 0, Val: 2, M: int64(m2)})
								if !yield(c10Case{Slots: n, Ops: append([]c10Op(nil), base...)}) {
									return
								}
								for c := 0; c < m2; c++ {
									for _, k3 := range []string{"move", "set", "remove"} {
										m3s := maxM
										if k3 == "remove" {
											m3s = 1
										}
										for m3 := 1; m3 <= m3s; m3++ {
											ops := append([]c10Op(nil), base...)
											if c > 0 {
												ops = append(ops, c10Op{Kind: "tick", N: c})
											}
											ops = append(ops, c10Op{Kind: k3, Key: 0, Val: 3, M: int64(m3)})
											if !yield(c10Case{Slots: n, Ops: ops}) {
												return
											}
										}
									}
								}
							}
						}
					}
				}
			}
		}
	}
}

func TestVerif_C10_exhaustive(t *testing.T) {
	maxN := 3
	if kit.Thorough() {
		maxN = 5
	}
	kit.Enumerate(t, "C10", "wheel-exhaustive", c10Enumerate(maxN),
		func(c c10Case) kit.Verdict { return c10Interp(t, c) })
}


// ---- bulk churn histories: the wheel's key index (SafeMap) compacts itself after
// ~10000 deletions; the same model must hold across those internal reorganisations.
func c10BulkGen(rt *rapid.T) c10Case {
	c := c10Case{Slots: rapid.IntRange(20, 120).Draw(rt, "slots")}
	long := rapid.IntRange(3000, 6000).Draw(rt, "long")
	pend := rapid.IntRange(0, 1600).Draw(rt, "pending")
	churn := rapid.IntRange(8500, 12500).Draw(rt, "churn")
	// two-generation histories: with >= 1000 tasks pending throughout, the index writes new keys
	// into its second map after 10001 deletions and folds that map back after 10000 more
	twoGen := rapid.IntRange(0, 3).Draw(rt, "twogen") == 0
	if twoGen {
		pend = rapid.IntRange(1000, 1600).Draw(rt, "pending2")
		churn = rapid.IntRange(21500, 25000).Draw(rt, "churn2")
	}
	if pend > 0 {
		c.Ops = append(c.Ops, c10Op{Kind: "bset", Key: 0, N: pend, Val: 1, M: int64(long)})
	}
	block := rapid.IntRange(400, 1500).Draw(rt, "block")
	key := 100000
	// keys the tail addresses: the "fresh" ones set after the churn and the "mid" ones set at
	// random points of the churn with a long delay (they live through the index's reorganisations)
	var addr []int
	midKey, midTotal := 300000, 0
	for done := 0; done < churn; done += block {
		if rapid.IntRange(0, 3).Draw(rt, "how") == 0 {
			c.Ops = append(c.Ops, c10Op{Kind: "bset", Key: key, N: block, Val: 2, M: 5}, c10Op{Kind: "bremove", Key: key, N: block})
		} else {
			c.Ops = append(c.Ops, c10Op{Kind: "bset", Key: key, N: block, Val: 2, M: 1}, c10Op{Kind: "tick", N: 1})
		}
		key += block
		if midTotal < 300 && rapid.IntRange(0, 3).Draw(rt, "mid") == 0 {
			n := rapid.IntRange(1, 40).Draw(rt, "midn")
			c.Ops = append(c.Ops, c10Op{Kind: "bset", Key: midKey, N: n, Val: 5, M: int64(long + rapid.IntRange(-100, 100).Draw(rt, "midd"))})
			for k := 0; k < n; k++ {
				addr = append(addr, midKey+k)
			}
			midKey += n
			midTotal += n
		}
	}
	fresh := rapid.IntRange(1, 60).Draw(rt, "fresh")
	c.Ops = append(c.Ops, c10Op{Kind: "bset", Key: 500000, N: fresh, Val: 3, M: int64(rapid.IntRange(20, 200).Draw(rt, "freshdelay"))})
	for k := 0; k < fresh; k++ {
		addr = append(addr, 500000+k)
	}
	if pend > 0 {
		drop := rapid.IntRange(0, pend).Draw(rt, "drop")
		if drop > 0 {
			c.Ops = append(c.Ops, c10Op{Kind: "bremove", Key: 0, N: drop})
		}
	}
	n := rapid.IntRange(1, 12).Draw(rt, "tail")
	if midTotal > 0 {
		n += rapid.IntRange(1, 12).Draw(rt, "tail2")
	}
	for i := 0; i < n; i++ {
		k := addr[rapid.IntRange(0, len(addr)-1).Draw(rt, "fk")]
		switch rapid.IntRange(0, 4).Draw(rt, "tk") {
		case 0:
			c.Ops = append(c.Ops, c10Op{Kind: "remove", Key: k})
		case 1:
			c.Ops = append(c.Ops, c10Op{Kind: "move", Key: k, M: int64(rapid.IntRange(1, 300).Draw(rt, "tm"))})
		case 2:
			c.Ops = append(c.Ops, c10Op{Kind: "set", Key: k, Val: 4, M: int64(rapid.IntRange(1, 300).Draw(rt, "tm"))})
		case 3:
			c.Ops = append(c.Ops, c10Op{Kind: "tick", N: rapid.IntRange(1, 40).Draw(rt, "tn")})
		default:
			c.Ops = append(c.Ops, c10Op{Kind: "bremove", Key: 0, N: rapid.IntRange(1, 1600).Draw(rt, "late")})
		}
	}
	return c
}

// c10IndexProbe labels (never judges) what happened inside the wheel's key index: the harness
// is in-package, so it can see the two maps of the SafeMap while the wheel is quiescent.
func c10IndexProbe() func(w *TimingWheel, classes map[string]bool) {
	lastOld, lastNew := 0, 0
	return func(w *TimingWheel, classes map[string]bool) {
		m := w.timers
		m.lock.RLock()
		dOld, dNew, nNew := m.deletionOld, m.deletionNew, len(m.dirtyNew)
		m.lock.RUnlock()
		if nNew > 0 {
			classes["index-second-map-in-use"] = true
		}
		if dOld < lastOld {
			classes["index-old-map-compacted"] = true
			if lastNew > 0 || nNew > 0 {
				classes["index-old-map-compacted-with-second-map-live"] = true
			}
		} else if dNew < lastNew {
			classes["index-second-map-folded-back"] = true
		}
		lastOld, lastNew = dOld, dNew
	}
}

func TestVerif_C10_bulk(t *testing.T) {
	kit.Run(t, "C10", "wheel-bulk", kit.Opts{Quick: 40, Thorough: 1600}, c10BulkGen,
		func(c c10Case) kit.Verdict {
			v := c10InterpP(t, c, c10IndexProbe())
			v.NonTrivial = v.Fail == ""
			return v
		})
}

// ---- slow execute callbacks: a callback that is still running when later ticks fire
// further tasks must not disturb them. Timing of a delayed callback's start is not
// predictable, so this rule checks the exactly-once part only: the multiset of executed
// (key,value) pairs equals the multiset the model says became due.
func c10SlowInterp(t *testing.T, c c10Case) (v kit.Verdict) {
	var fail string
	overlapped := false
	panicked := false
	stopWhileRunning, stopBeforeBatchDone := false, false
	res := kit.Bubble(t, func() {
		var mu sync.Mutex
		got := map[[2]int]int{}
		running := 0
		ticks := 0
		tk := &c10Ticker{c: make(chan time.Time), stopped: make(chan struct{})}
		lat := time.Duration(c.Lat) * c10Interval / 2
		w, err := newTimingWheelWithClock(c10Interval, c.Slots, func(k, val any) {
			mu.Lock()
			got[[2]int{k.(int), val.(int)}]++
			running++
			if running > 1 {
				overlapped = true
			}
			mu.Unlock()
			time.Sleep(lat)
			mu.Lock()
			running--
			mu.Unlock()
			for _, pk := range c.Pan {
				if pk == k.(int) {
					panicked = true
					panic(fmt.Sprintf("c10: callback of key %d panics", pk))
				}
			}
		}, tk)
		if err != nil {
			fail = err.Error()
			return
		}
		stopped := false
		model := map[int]c10Pending{}
		want := map[[2]int]int{}
		due := func() {
			for k, p := range model {
				if p.due == int64(ticks) {
					want[[2]int{k, p.val}]++
					delete(model, k)
				}
			}
		}
		for _, o := range c.Ops {
			switch o.Kind {
			case "set":
				err := w.SetTimer(o.Key, o.Val, time.Duration(o.M)*c10Interval)
				if stopped {
					if err != ErrClosed {
						fail = fmt.Sprintf("SetTimer after Stop got %v, want ErrClosed", err)
						return
					}
					break
				}
				model[o.Key] = c10Pending{val: o.Val, due: int64(ticks) + o.M}
			case "stop":
				// Stop while callbacks may still be running. Every task whose tick came BEFORE this
				// call is owed its one execution ("fires exactly once, during tick T + floor(d/I)";
				// the statement lets Stop end the service of operations, it does not take back a
				// tick that has happened); what is still pending never becomes due.
				if !stopped {
					mu.Lock()
					nwant, ngot := 0, 0
					for _, n := range want {
						nwant += n
					}
					for _, n := range got {
						ngot += n
					}
					if running > 0 {
						stopWhileRunning = true
					}
					if nwant > ngot {
						stopBeforeBatchDone = true
					}
					mu.Unlock()
					w.Stop()
					stopped = true
					model = map[int]c10Pending{}
				}
			case "move":
				_ = w.MoveTimer(o.Key, time.Duration(o.M)*c10Interval)
				if p, ok := model[o.Key]; ok {
					model[o.Key] = c10Pending{val: p.val, due: c10Due(ticks, o.M)}
				}
			case "remove":
				_ = w.RemoveTimer(o.Key)
				delete(model, o.Key)
			case "tick":
				for j := 0; j < o.N; j++ {
					ticks++
					tk.tick()
					kit.Wait()
					due()
				}
			case "adv":
				time.Sleep(time.Duration(o.N) * c10Interval / 2)
			}
			kit.Wait()
		}
		for len(model) > 0 {
			ticks++
			tk.tick()
			kit.Wait()
			due()
		}
		time.Sleep(time.Duration(len(want)+2) * (lat + c10Interval)) // let every pending callback finish
		kit.Wait()
		if !stopped {
			w.Stop()
		}
		mu.Lock()
		defer mu.Unlock()
		for k, n := range want {
			if got[k] != n {
				fail = fmt.Sprintf("task key=%d value=%d became due %d time(s) but was executed %d time(s); executed=%v due=%v", k[0], k[1], n, got[k], got, want)
				return
			}
		}
		for k, n := range got {
			if want[k] != n {
				fail = fmt.Sprintf("task key=%d value=%d executed %d time(s) but became due %d time(s); executed=%v due=%v", k[0], k[1], n, want[k], got, want)
				return
			}
		}
	})
	v.NonTrivial = overlapped || panicked || stopBeforeBatchDone
	if stopWhileRunning {
		v.Classes = append(v.Classes, "stop-while-callback-running")
	}
	if stopBeforeBatchDone {
		v.Classes = append(v.Classes, "stop-before-due-batch-finished")
	}
	if overlapped {
		v.Classes = append(v.Classes, "callbacks-overlap-later-tick")
	}
	if panicked {
		v.Classes = append(v.Classes, "callback-panicked")
	}
	if fail != "" {
		v.Fail = fail
	} else if !res.OK() {
		v.Fail = "bubble: " + res.String()
	}
	return v
}

func c10SlowGen(rt *rapid.T) c10Case {
	c := c10Case{Slots: rapid.IntRange(1, 8).Draw(rt, "slots"), Lat: rapid.IntRange(1, 6).Draw(rt, "lat")}
	nkeys := rapid.IntRange(2, 6).Draw(rt, "nkeys")
	if rapid.IntRange(0, 2).Draw(rt, "panics") == 0 {
		np := rapid.IntRange(1, 2).Draw(rt, "npan")
		for i := 0; i < np; i++ {
			c.Pan = append(c.Pan, rapid.IntRange(0, nkeys-1).Draw(rt, "pankey"))
		}
	}
	n := rapid.IntRange(3, 30).Draw(rt, "nops")
	stopAt := -1
	if rapid.IntRange(0, 2).Draw(rt, "stops") == 0 { // Stop somewhere in the second half, then a few more ops
		stopAt = rapid.IntRange(n/2, n-1).Draw(rt, "stopat")
	}
	for i := 0; i < n; i++ {
		if i == stopAt {
			c.Ops = append(c.Ops, c10Op{Kind: "stop"})
			continue
		}
		switch rapid.IntRange(0, 9).Draw(rt, "kind") {
		case 0, 1, 2, 3:
			c.Ops = append(c.Ops, c10Op{Kind: "set", Key: rapid.IntRange(0, nkeys-1).Draw(rt, "key"), Val: rapid.IntRange(0, 9).Draw(rt, "val"), M: int64(rapid.IntRange(1, 3).Draw(rt, "m"))})
		case 4:
			c.Ops = append(c.Ops, c10Op{Kind: "move", Key: rapid.IntRange(0, nkeys-1).Draw(rt, "key"), M: int64(rapid.IntRange(1, 3).Draw(rt, "m"))})
		case 5:
			c.Ops = append(c.Ops, c10Op{Kind: "remove", Key: rapid.IntRange(0, nkeys-1).Draw(rt, "key")})
		case 6, 7, 8:
			c.Ops = append(c.Ops, c10Op{Kind: "tick", N: rapid.IntRange(1, 3).Draw(rt, "n")})
		default:
			c.Ops = append(c.Ops, c10Op{Kind: "adv", N: rapid.IntRange(1, 8).Draw(rt, "n")})
		}
	}
	return c
}

func TestVerif_C10_slowexec(t *testing.T) {
	kit.Run(t, "C10", "wheel-slow-exec", kit.Opts{Quick: 4000, Thorough: 160000}, c10SlowGen,
		func(c c10Case) kit.Verdict { return c10SlowInterp(t, c) })
}
