package mapping_test

// C05 rule "tags": struct tags that the tag grammar rejects or that sit at its edges
// (range= with swapped / equal / missing / non-numeric bounds, options / default / env / range
// without a value, optional=a=b, optional=!, options= empty), placed on a top-level field, inside a
// nested struct that is present / absent, and inside an optional embedded struct, through
// the JSON, map, YAML and conf entry points. What such a declaration means is not fixed by the
// statement (a malformed tag is a programming error): UNSPECIFIED. Judged: no panic, and an
// accepted call must have stored exactly the document's value.

import (
	"fmt"
	"reflect"
	"testing"

	"github.com/gotid/god/lib/conf"
	"github.com/gotid/god/lib/mapping"
	"verif.local/kit"
)

type c05TagCase struct {
	Opt   string `json:"opt"`   // the option text after the key
	Place string `json:"place"` // top nested nested-absent embedded-optional
	EP    string `json:"ep"`
}

var c05OddTagOptions = []string{
	"range=[5:1]", "range=(2:2)", "range=[2:2)", "range=(2:2]", "range=[2:2]", "range=[a:5]", "range=[1:b]", "range=[1:2:3]", "range=[:]",
	"range=[", "range=[5]", "range=(5)", "range=[]", "range=[5:", "range=", "range=x1:5]", "range=[1:5x", "range=[1:5", "range", "range=[1:5]=", "range=1:5",
	"options", "options=", "options=3=4", "options=[3,4]", "options=[]", "default", "default=", "default=1=2", "default=x",
	"env", "env=", "env=A=B", "optional=a=b", "optional=!", "optional=", "optional=!missing", "optional=missing", "optionalx",
	"default=[1,x]", "default=[1,2", "default=1,2]", "default=[[1]]", "default=[1.5]", "default=[300000000000000000000]", "default={}",
	"string,range=[1:", "inherit=1", "unknown=1", "", " optional ", "optional,optional", "default=3,default=4", "range=[1:5],range=[7:9]",
}

// c05Unexported: fields reflect cannot set (reflect.StructOf cannot build them).
type c05Unexported struct {
	a int            `json:"a" key:"a"`
	m map[string]int `json:"m" key:"m"`
	s []int          `json:"s" key:"s"`
	t string         `json:"t,default=x" key:"t,default=x"`
	B int            `json:"b,optional" key:"b,optional"`
}

var _ = c05Unexported{a: 0, m: nil, s: nil, t: ""}

// one unexported field each, first in the struct (absent required / defaulted fields end the walk early)
type (
	c05UnexpMap struct {
		m map[string]int `json:"m" key:"m"`
		B int            `json:"b,optional" key:"b,optional"`
	}
	c05UnexpSlice struct {
		s []int `json:"s,default=[1,2]" key:"s,default=[1,2]"`
		B int   `json:"b,optional" key:"b,optional"`
	}
	c05UnexpStr struct {
		t string `json:"t,default=x" key:"t,default=x"`
		B int    `json:"b,optional" key:"b,optional"`
	}
	c05UnexpPtr struct {
		p *int `json:"p,optional" key:"p,optional"`
		B int  `json:"b,optional" key:"b,optional"`
	}
)

var _ = []any{c05UnexpMap{m: nil}, c05UnexpSlice{s: nil}, c05UnexpStr{t: ""}, c05UnexpPtr{p: nil}}

func c05TagStruct(opt, place string) (reflect.Type, string) {
	intT := reflect.TypeOf(0)
	tag := func(key string) reflect.StructTag {
		return reflect.StructTag(fmt.Sprintf(`json:%q key:%q`, key+","+opt, key+","+opt))
	}
	leaf := reflect.StructOf([]reflect.StructField{
		{Name: "A", Type: intT, Tag: tag("a")},
		{Name: "B", Type: intT, Tag: `json:"b,optional" key:"b,optional"`},
	})
	switch place {
	case "unexported":
		// (the option text selects which of the unexported fields the document carries)
		docs := []string{`{"a":3,"m":{"k":1},"s":[1],"t":"y","b":1}`, `{"a":3}`, `{"m":{"k":1}}`, `{"m":"{}"}`, `{"s":[1]}`, `{"s":"[1]"}`, `{"t":"y"}`, `{"b":1}`, `{}`, `{"a":null,"m":null,"s":null}`}
		switch len(opt) % 7 {
		case 0:
			return reflect.TypeOf(c05UnexpMap{}), []string{`{}`, `{"b":1}`, `{"m":{"k":1}}`}[len(opt)/7%3]
		case 1:
			return reflect.TypeOf(c05UnexpSlice{}), []string{`{}`, `{"b":1}`, `{"s":[3]}`}[len(opt)/7%3]
		case 2:
			return reflect.TypeOf(c05UnexpStr{}), []string{`{}`, `{"b":1}`, `{"t":"y"}`}[len(opt)/7%3]
		case 3:
			return reflect.TypeOf(c05UnexpPtr{}), []string{`{}`, `{"b":1}`, `{"p":5}`}[len(opt)/7%3]
		}
		return reflect.TypeOf(c05Unexported{}), docs[len(opt)%len(docs)]
	case "embedded-own-tag":
		return reflect.StructOf([]reflect.StructField{{Name: "E", Type: leaf, Anonymous: true, Tag: tag("")}}), `{"a":3,"b":1}`
	case "slice-absent", "slice":
		st := reflect.StructOf([]reflect.StructField{
			{Name: "A", Type: reflect.TypeOf([]int8(nil)), Tag: tag("a")},
			{Name: "B", Type: intT, Tag: `json:"b,optional" key:"b,optional"`},
		})
		if place == "slice" {
			return st, `{"a":[3],"b":1}`
		}
		return st, `{"b":1}`
	case "nested":
		return reflect.StructOf([]reflect.StructField{{Name: "N", Type: leaf, Tag: `json:"n" key:"n"`}}), `{"n":{"a":3,"b":1}}`
	case "nested-absent":
		return reflect.StructOf([]reflect.StructField{{Name: "N", Type: leaf, Tag: `json:"n" key:"n"`}, {Name: "B", Type: intT, Tag: `json:"b,optional" key:"b,optional"`}}), `{"b":1}`
	case "nested-untagged-absent":
		mid := reflect.StructOf([]reflect.StructField{{Name: "Inner", Type: leaf}})
		return reflect.StructOf([]reflect.StructField{{Name: "N", Type: mid, Tag: `json:"n" key:"n"`}}), `{}`
	case "embedded-optional":
		return reflect.StructOf([]reflect.StructField{{Name: "E", Type: leaf, Anonymous: true, Tag: `json:",optional" key:",optional"`}}), `{"a":3}`
	case "embedded":
		return reflect.StructOf([]reflect.StructField{{Name: "E", Type: leaf, Anonymous: true}}), `{"a":3,"b":1}`
	}
	return leaf, `{"a":3,"b":1}`
}

func c05InterpTag(c c05TagCase) (v kit.Verdict) {
	v.Classes = []string{"place:" + c.Place, "ep:" + c.EP}
	v.NonTrivial = true
	var rt reflect.Type
	var doc string
	built := c05Call(func() error { rt, doc = c05TagStruct(c.Opt, c.Place); return nil })
	if built.Panic != nil {
		return kit.Verdict{Excluded: true, Classes: []string{"unbuildable-shape"}}
	}
	target := reflect.New(rt)
	out := c05Call(func() error {
		switch c.EP {
		case "key":
			node, _ := c05ParseJSON(doc)
			m, _ := node.toAny().(map[string]any)
			return mapping.UnmarshalKey(m, target.Interface())
		case "yaml":
			return mapping.UnmarshalYamlBytes([]byte(doc), target.Interface())
		case "conf":
			return conf.LoadFromJsonBytes([]byte(doc), target.Interface())
		}
		return mapping.UnmarshalJsonBytes([]byte(doc), target.Interface())
	})
	switch {
	case out.Panic != nil:
		v.Fail = fmt.Sprintf("P0 %s panicked on tag option %q (%s): %v | type %v doc %s", c.EP, c.Opt, c.Place, out.Panic, rt, doc)
	case out.Err == nil:
		v.Classes = append(v.Classes, "outcome:accepted")
		// exactness of what the document carries (a = 3 wherever the document has it)
		a := target.Elem()
		for a.Kind() == reflect.Struct && a.NumField() > 0 && a.Type().Field(0).Name != "A" {
			a = a.Field(0)
		}
		if c.Place == "slice" {
			if f := a.Field(0); f.Len() != 1 || f.Index(0).Int() != 3 {
				v.Fail = fmt.Sprintf("P1 %s accepted the document but field A holds %v, the document says [3] | tag option %q type %v doc %s", c.EP, f.Interface(), c.Opt, rt, doc)
			}
		} else if c.Place == "unexported" || c.Place == "embedded-own-tag" {
			// nothing can be (or is specified to be) stored
		} else if a.Kind() == reflect.Struct && a.Field(0).Kind() == reflect.Int && c.Place != "nested-absent" && c.Place != "nested-untagged-absent" {
			if got := a.Field(0).Int(); got != 3 {
				v.Fail = fmt.Sprintf("P1 %s accepted the document but field A holds %d, the document says 3 | tag option %q (%s) type %v doc %s", c.EP, got, c.Opt, c.Place, rt, doc)
			}
		}
	default:
		v.Classes = append(v.Classes, "outcome:error")
	}
	return v
}

func TestVerif_C05_tags(t *testing.T) {
	places := []string{"top", "nested", "nested-absent", "nested-untagged-absent", "embedded-optional", "embedded", "embedded-own-tag", "slice", "slice-absent", "unexported"}
	eps := []string{"json", "key", "yaml", "conf"}
	kit.Enumerate(t, "C05", "tags", func(yield func(c05TagCase) bool) {
		for _, o := range c05OddTagOptions {
			for _, p := range places {
				for _, e := range eps {
					if !yield(c05TagCase{Opt: o, Place: p, EP: e}) {
						return
					}
				}
			}
		}
	}, c05InterpTag)
}
