package mapping_test

// C05 rule "minimal": a fixed, enumerated list of the smallest inputs of every
// known finding (F1..F9, see verif.json "findings") plus the neighbouring inputs
// that must keep working. It makes every known predicate fire on every run
// (deterministic KNOWN-FINDING lines) and turns into a regression list once a
// finding is fixed: with the fix each case must be rejected with an error (or,
// for F6, accepted with the exact value).

import (
	"encoding/json"
	"os"
	"path/filepath"
	"testing"

	"verif.local/kit"
)

func c05One(t c05Typ, tagOpts func(*c05Fld), v c05JV) c05Case {
	f := c05Fld{W: []string{"a"}, T: t, Tag: "json", KS: "camel"}
	if tagOpts != nil {
		tagOpts(&f)
	}
	fs := []c05Fld{f}
	return c05Case{S: fs, D: c05Obj(c05KV{K: fs[0].key(0), V: v})}
}

func c05MinimalCases() []c05Case {
	sc := func(k string) c05Typ { return c05Typ{K: k} }
	ptr := func(k string) c05Typ { return c05Typ{K: k, P: true} }
	sl := func(e c05Typ) c05Typ { return c05Typ{K: "slice", E: &e} }
	mp := func(e c05Typ) c05Typ { return c05Typ{K: "map", E: &e} }
	st := c05Typ{K: "struct", F: []c05Fld{{W: []string{"x"}, T: c05Typ{K: "int"}, Tag: "json", KS: "camel"}}}
	str := func(f *c05Fld) { f.Str = true }
	strOpts := func(f *c05Fld) { f.Str = true; f.Opts = []string{"1", "2"} }
	env := func(v string) func(*c05Fld) { return func(f *c05Fld) { f.Env = true; f.EV = &v } }
	cases := []c05Case{
		// F1 jsonnumber-overflow
		c05One(sc("int8"), nil, c05Num("300")),
		c05One(sc("int8"), nil, c05Num("-129")),
		c05One(sc("uint8"), nil, c05Num("256")),
		c05One(sc("int32"), nil, c05Num("2147483648")),
		c05One(sc("float32"), nil, c05Num("1e39")),
		c05One(ptr("int8"), nil, c05Num("500")),
		// neighbours that must be accepted exactly
		c05One(sc("int8"), nil, c05Num("127")),
		c05One(sc("int8"), nil, c05Num("-128")),
		c05One(sc("uint8"), nil, c05Num("255")),
		c05One(sc("float32"), nil, c05Num("3.4028235e38")),
		c05One(sc("int64"), nil, c05Num("9223372036854775807")),
		// already rejected by the code (must stay rejected)
		c05One(sc("int64"), nil, c05Num("9223372036854775808")),
		c05One(sc("uint8"), nil, c05Num("-1")),
		c05One(sc("float64"), nil, c05Num("1e400")),
		c05One(sc("int"), nil, c05Num("1.5")),
		// F2 setvalue-overflow
		c05One(sl(sc("int8")), nil, c05Arr(c05Num("300"))),
		c05One(mp(sc("int8")), nil, c05Obj(c05KV{K: "k", V: c05Num("300")})),
		c05One(sc("int8"), str, c05Str("300")),
		c05One(sl(sc("float32")), nil, c05Arr(c05Num("1e39"))),
		c05One(sl(sc("uint8")), nil, c05Arr(c05Num("256"))),
		// F3 fillslice-nonslice-panic
		c05One(sl(sl(sc("int"))), nil, c05Arr(c05Num("1"), c05Num("2"))),
		c05One(mp(sl(sc("int"))), nil, c05Obj(c05KV{K: "k", V: c05Num("1")})),
		c05One(mp(sl(sc("int"))), nil, c05Obj(c05KV{K: "k", V: c05Null()})),
		c05One(mp(sl(sc("int"))), nil, c05Obj(c05KV{K: "k", V: c05Obj(c05KV{K: "x", V: c05Num("1")})})),
		// F4 fillslice-struct-elem-panic
		c05One(sl(st), nil, c05Arr(c05Num("1"))),
		// F5 fillslicevalue-object-elem-panic
		c05One(sl(sc("bool")), nil, c05Arr(c05Obj())),
		// F6 generatemap-ptr-elem-panic (well-typed documents)
		c05One(mp(ptr("string")), nil, c05Obj(c05KV{K: "k", V: c05Str("x")})),
		c05One(mp(ptr("int")), nil, c05Obj(c05KV{K: "k", V: c05Num("1")})),
		c05One(mp(ptr("bool")), nil, c05Obj(c05KV{K: "k", V: c05Bool(true)})),
		// F7 duration-number-panic
		c05One(sc("dur"), nil, c05Num("5")),
		c05One(sc("dur"), nil, c05Str("1h30m")),
		// F8 stringoption-number-options-panic
		c05One(sc("int"), strOpts, c05Num("1")),
		c05One(sc("int"), strOpts, c05Str("2")),
		c05One(sc("int"), strOpts, c05Str("3")),
		// F9 fillslicefromstring-ptr-elem-panic
		c05One(sl(ptr("int")), nil, c05Str("[1]")),
		c05One(sl(ptr("int")), nil, c05Str("null")),
		// F10 fillslicefromstring-null-elem-panic (found after F1..F9 were fixed)
		c05One(sl(sc("bool")), nil, c05Str("[null]")),
		c05One(sl(sc("int")), nil, c05Str("[1,null]")),
		// F11 fillslicefromstring-nested-array-panic
		c05One(sl(sl(sc("bool"))), nil, c05Str("[[]]")),
		c05One(sl(sl(sc("int"))), nil, c05Str("[[1,2]]")),
		// F12 env-int64-duration-panic, F13 env-pointer-panic (env= region, found after round 2)
		c05One(sc("int64"), env("0"), c05Num("1")),
		c05One(ptr("int"), env("5"), c05Num("1")),
		// env= neighbours: overrides the document; range/options apply to it
		c05One(sc("int"), env("123"), c05Num("18")),
		c05One(sc("int8"), env("300"), c05Num("1")),
		c05One(sc("int"), func(f *c05Fld) { env("70000")(f); f.Rng = &c05Rng{L: "1", R: "65535", LI: true, RI: true} }, c05Num("80")),
		c05One(sc("dur"), env("1h"), c05Str("1s")),
	}
	// default=[{...},{}] on a slice of structs whose element has its own defaulted slices (absent in the document)
	dflt := func(d string) *string { return &d }
	rule := c05Typ{K: "struct", F: []c05Fld{
		{W: []string{"name"}, T: c05Typ{K: "string"}, Tag: "json", KS: "camel", Def: dflt("any")},
		{W: []string{"on"}, T: c05Typ{K: "bool"}, Tag: "json", KS: "camel", Opt: true},
		{W: []string{"methods"}, T: sl(sc("string")), Tag: "json", KS: "camel", Def: dflt("[GET,POST]")},
		{W: []string{"codes"}, T: sl(sc("int")), Tag: "json", KS: "camel", Def: dflt("[200,204]")},
	}}
	rules := c05Fld{W: []string{"rules"}, T: sl(rule), Tag: "json", KS: "camel", Def: dflt(`[{"on1":true},{}]`)}
	cases = append(cases,
		// (the same field ABSENT is not listed here: kit.Enumerate has no wedge watchdog, a
		// re-entrant lock there would end as a time-out; it is replays/json-nested-slice-default.json,
		// which kit.Run replays under the watchdog)
		c05Case{S: []c05Fld{rules}, D: c05Obj(c05KV{K: "rules0", V: c05Arr(c05Obj())})},
	)
	return cases
}

// c05NestedDefaultCase: every field absent; the slice of structs and the slices inside
// its elements all come from declared defaults.
func c05NestedDefaultCase() c05Case {
	cs := c05MinimalCases()
	c := cs[len(cs)-1]
	c.D = c05Obj()
	return c
}

// c05DumpReplays writes one replay file (kit.ReplayFile format, rule "json") per
// known root cause into the directory named by VERIF_C05_DUMP. Used once to
// produce harness/C05/replays/.
func c05DumpReplays(dir string) {
	pick := map[int]string{0: "jsonnumber-overflow", 15: "setvalue-overflow", 20: "fillslice-nonslice-panic",
		24: "fillslice-struct-elem-panic", 25: "fillslicevalue-object-elem-panic", 26: "generatemap-ptr-elem-panic",
		29: "duration-number-panic", 31: "stringoption-number-options-panic", 34: "fillslicefromstring-ptr-elem-panic",
		36: "fillslicefromstring-null-elem-panic", 38: "fillslicefromstring-nested-array-panic",
		40: "env-int64-duration-panic", 41: "env-pointer-panic"}
	cases := c05MinimalCases()
	_ = os.MkdirAll(dir, 0o755)
	{
		// F14 (YAML path): float-notation integers beyond 2^53
		yc := c05One(c05Typ{K: "int64"}, nil, c05Num("9223372036854774784.0"))
		raw, _ := json.Marshal(yc)
		rf := kit.ReplayFile{Property: "C05", Rule: "yaml", Case: raw,
			Message: "minimal input of finding yaml-float-notation-int-rounded: " + c05Describe(&yc)}
		b, _ := json.MarshalIndent(rf, "", " ")
		_ = os.WriteFile(filepath.Join(dir, "yaml-yaml-float-notation-int-rounded.json"), b, 0o644)
	}
	{
		// F15: a yaml.v2-style map[interface{}]interface{} for a map[string]string field (entry point "native")
		mc := c05One(c05Typ{K: "map", E: &c05Typ{K: "string"}}, func(f *c05Fld) { f.Tag = "key" }, c05Obj(c05KV{K: "k", V: c05Str("v")}))
		mc.EP = "native"
		for mc.FP = 0; mc.FP < 1000; mc.FP++ {
			m, _ := c05Native(&mc.D, c05Mix(uint64(mc.FP), 0), true).(map[string]any)
			if _, ok := m[mc.S[0].key(0)].(map[any]any); ok {
				break
			}
		}
		raw, _ := json.Marshal(mc)
		rf := kit.ReplayFile{Property: "C05", Rule: "json", Case: raw,
			Message: "minimal input of finding generatemap-nonstring-key-panic (repaired): " + c05Describe(&mc)}
		b, _ := json.MarshalIndent(rf, "", " ")
		_ = os.WriteFile(filepath.Join(dir, "json-generatemap-nonstring-key-panic.json"), b, 0o644)
	}
	{
		// F16: []*DefinedBool (repaired)
		pc := c05One(c05Typ{K: "slice", E: &c05Typ{K: "bool", P: true, D: true}}, nil, c05Arr(c05Bool(false), c05Bool(true)))
		raw, _ := json.Marshal(pc)
		rf := kit.ReplayFile{Property: "C05", Rule: "json", Case: raw,
			Message: "minimal input of finding fillslicevalue-ptr-defined-elem-panic (repaired): " + c05Describe(&pc)}
		b, _ := json.MarshalIndent(rf, "", " ")
		_ = os.WriteFile(filepath.Join(dir, "json-fillslicevalue-ptr-defined-elem-panic.json"), b, 0o644)
	}
	{
		// round 8 findings (open): pointer-to-collection fields, range= on a present optional=<dep> field,
		// typed Go maps whose element type only shares the kind with the field's element type
		dump := func(rule, id string, c c05Case) {
			raw, _ := json.Marshal(c)
			rf := kit.ReplayFile{Property: "C05", Rule: rule, Known: id, Case: raw,
				Message: "minimal input of finding " + id + " on f1e5d0a: " + c05Describe(&c)}
			b, _ := json.MarshalIndent(rf, "", " ")
			_ = os.WriteFile(filepath.Join(dir, rule+"-"+id+".json"), b, 0o644)
		}
		dump("json", "ptr-to-collection-panic", c05One(c05Typ{K: "map", P: true, E: &c05Typ{K: "int"}}, nil, c05Obj(c05KV{K: "k", V: c05Num("1")})))
		ps := c05One(c05Typ{K: "slice", P: true, E: &c05Typ{K: "int"}}, nil, c05Arr())
		dump("yaml", "ptr-to-collection-panic", ps)
		od := c05Case{S: []c05Fld{
			{W: []string{"a"}, T: c05Typ{K: "int"}, Tag: "json", KS: "camel", Opt: true},
			{W: []string{"b"}, T: c05Typ{K: "int"}, Tag: "json", KS: "camel", Opt: true, OD: "a0", Rng: &c05Rng{L: "1", R: "5", LI: true, RI: true}},
		}, D: c05Obj(c05KV{K: "a0", V: c05Num("1")}, c05KV{K: "b1", V: c05Num("100")})}
		dump("json", "optional-dep-range-dropped", od)
		tm := c05One(c05Typ{K: "map", E: &c05Typ{K: "int", D: true}}, func(f *c05Fld) { f.Tag = "key" }, c05Obj(c05KV{K: "k", V: c05Num("1")}))
		tm.EP, tm.NM = "native", 1
		for tm.FP = 0; tm.FP < 1000; tm.FP++ {
			m := c05NativeDoc(tm.S, &tm.D, c05Mix(uint64(tm.FP), 1), nil)
			if _, ok := m[tm.S[0].key(0)].(map[string]int); ok {
				break
			}
		}
		dump("native", "typed-map-elem-kind-only-panic", tm)
		// F21 (rule conf has its own case type)
		base := c05Typ{K: "struct", F: []c05Fld{
			{W: []string{"host"}, T: c05Typ{K: "string"}, Tag: "json", KS: "title"},
			{W: []string{"port"}, T: c05Typ{K: "int"}, Tag: "json", KS: "title", Def: func() *string { d := "80"; return &d }()},
		}}
		cc := c05ConfCase{S: []c05Fld{{W: []string{"e"}, T: base, Anon: true, Tag: "json", Opt: true}, {W: []string{"name"}, T: c05Typ{K: "string"}, Tag: "json", KS: "title"}},
			D: c05Obj(c05KV{K: "Host0", V: c05Str("h")}, c05KV{K: "Port1", V: c05Num("8080")}, c05KV{K: "Name1", V: c05Str("n")})}
		cc.D2 = cc.D
		raw, _ := json.Marshal(cc)
		rf := kit.ReplayFile{Property: "C05", Rule: "conf", Case: raw,
			Message: "minimal input of finding embedded-optional-raw-key on f973659 (repaired by 787c2c8): " + c05Describe(&c05Case{S: cc.S, D: cc.D})}
		b, _ := json.MarshalIndent(rf, "", " ")
		_ = os.WriteFile(filepath.Join(dir, "conf-embedded-optional-raw-key.json"), b, 0o644)
	}
	{
		nd := c05NestedDefaultCase()
		raw, _ := json.Marshal(nd)
		rf := kit.ReplayFile{Property: "C05", Rule: "json", Case: raw,
			Message: "regression input (no defect on the unchanged tree): nested slice defaults, everything absent: " + c05Describe(&nd)}
		b, _ := json.MarshalIndent(rf, "", " ")
		_ = os.WriteFile(filepath.Join(dir, "json-nested-slice-default.json"), b, 0o644)
	}
	for i, id := range pick {
		raw, _ := json.Marshal(cases[i])
		rf := kit.ReplayFile{Property: "C05", Rule: "json", Known: id, Case: raw,
			Message: "minimal input of finding " + id + " on 7bc7747: " + c05Describe(&cases[i])}
		b, _ := json.MarshalIndent(rf, "", " ")
		_ = os.WriteFile(filepath.Join(dir, "json-"+id+".json"), b, 0o644)
	}
}

func TestVerif_C05_minimal(t *testing.T) {
	if d := os.Getenv("VERIF_C05_DUMP"); d != "" {
		c05DumpReplays(d)
	}
	kit.Enumerate(t, "C05", "minimal", func(yield func(c05Case) bool) {
		for _, c := range c05MinimalCases() {
			if !yield(c) {
				return
			}
		}
	}, c05InterpJSON)
}
