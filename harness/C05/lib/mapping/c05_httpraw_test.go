package mapping_test

// C05 rule "httpraw": the path / form / header documents of a request as a hostile client sends
// them — not produced by httpc (rule http only carries representable values). A request struct
// whose fields live in the path, form (query string or url-encoded body) and header parts is
// parsed by httpx.Parse behind the real router; every value arrives as text: numbers at and
// beyond the limits of the kind, "+5", " 5", "0x10", "1e3", "NaN", "TRUE", "", percent signs,
// multi-byte text, 400-digit numbers, JSON text, repeated header lines for one name.
// Judged with the same oracle as the string-valued unmarshalers (P0, P1): an accepted request
// must hold exactly what was sent, an absent required field / a value outside options= / range=
// / the kind must make Parse fail. Acceptance is never demanded here (rule http does that).

import (
	"fmt"
	"net/http"
	"net/http/httptest"
	"net/url"
	"reflect"
	"strconv"
	"strings"
	"testing"

	"github.com/gotid/god/api/httpx"
	"github.com/gotid/god/api/router"
	"pgregory.net/rapid"
	"verif.local/kit"
)

type c05RawCase struct {
	S []c05Fld `json:"s"`           // Tag = path | form | header
	D c05JV    `json:"d"`           // key -> string (header: string or array of strings = repeated header lines)
	M string   `json:"m,omitempty"` // "" = GET with a query string, "POST" = query string, "BODY" = POST with a url-encoded body
	Q string   `json:"q,omitempty"` // raw text appended to the query string (malformed escapes, stray separators)
}

// c05RawText: the text form in which a document node travels in a request part.
func c05RawText(v *c05JV) string {
	switch v.T {
	case "str", "num":
		return v.S
	case "bool":
		return strconv.FormatBool(v.B)
	}
	return v.JSON()
}

func c05GenRawCase(rt *rapid.T) c05RawCase {
	var c c05RawCase
	n := rapid.IntRange(1, 5).Draw(rt, "nfields")
	for i := 0; i < n; i++ {
		part := c05W(rt, "part", []string{"form", "path", "header"}, []int{45, 20, 35})
		f := c05Fld{Tag: part}
		for j := rapid.IntRange(1, 2).Draw(rt, "nwords"); j > 0; j-- {
			f.W = append(f.W, c05Pick(rt, "word", c05Words))
		}
		f.T = c05Typ{K: c05GenScalarKind(rt, false), P: rapid.IntRange(0, 7).Draw(rt, "rawptr") == 0, D: c05GenDefined(rt)}
		switch part {
		case "path":
			f.KS = c05Pick(rt, "pks", []string{"camel", "lower", "title"})
		case "form":
			f.KS = c05Pick(rt, "fks", []string{"", "camel", "snake", "title", "kebab"})
		case "header":
			f.KS = c05Pick(rt, "hks", []string{"kebab", "title", "lower"})
			if rapid.IntRange(0, 5).Draw(rt, "hdrslice") == 0 {
				f.T = c05Typ{K: "slice", E: &c05Typ{K: c05Pick(rt, "hdrelem", []string{"string", "string", "int", "uint8", "bool"})}}
			}
		}
		c05GenOptionsBase(rt, &f)
		f.Str = false
		if part == "path" {
			f.Opt = false
		}
		c.S = append(c.S, f)
	}
	mode := c05W(rt, "docmode", []string{"mixed", "plain", "focus"}, []int{30, 20, 50})
	g := &c05DocGen{rt: rt, plain: mode == "plain", hostile: 8, focus: mode == "focus", allStr: true, small: true}
	doc := g.object(c.S, 1)
	// what a request can carry: text (and repeated header lines)
	var ms []c05KV
	for i := range doc.M {
		m := doc.M[i]
		f := c05FindField(c.S, m.K)
		switch {
		case f == nil || m.V.T == "null":
			continue // (a request part has no null: the key is simply not sent)
		case m.V.T == "arr" && f.Tag == "header":
			l := make([]c05JV, 0, len(m.V.L))
			for j := range m.V.L {
				if m.V.L[j].T != "null" {
					l = append(l, c05Str(c05RawText(&m.V.L[j])))
				}
			}
			ms = append(ms, c05KV{K: m.K, V: c05Arr(l...)})
		default:
			ms = append(ms, c05KV{K: m.K, V: c05Str(c05RawText(&m.V))})
		}
	}
	c.D = c05Obj(ms...)
	c.M = c05Pick(rt, "rawmethod", []string{"", "", "POST", "BODY"})
	if rapid.IntRange(0, 19).Draw(rt, "rawquery") == 0 {
		c.Q = c05Pick(rt, "rawq", []string{"&%zz", "&a=%", "&&", "&=x", "&;", "&a=1;b=2", "&%00=1", "&x=%ff"})
	}
	return c
}

func c05InterpRaw(c c05RawCase) (v kit.Verdict) {
	defer c05EnvCleanup()
	if msg, _ := c05History(nil); msg != "" {
		return kit.Verdict{Fail: msg, Classes: []string{"history-panic"}}
	}
	cc := c05Case{S: c.S, D: c.D}
	target, ok := c05Target(&cc)
	if !ok || c.D.T != "obj" {
		return kit.Verdict{Excluded: true, Classes: []string{"unbuildable-shape"}}
	}
	o := c05NewOracle()
	o.allStr = true
	o.unspec("raw-request") // acceptance is never demanded
	pattern, path := "/r", "/r"
	skip := map[int]bool{}
	query := url.Values{}
	hdr := http.Header{}
	for i := range c.S {
		f := &c.S[i]
		o.class("part:" + f.Tag)
		ms := c.D.lookup(f.key(i))
		if f.Tag == "path" {
			pattern += "/:" + f.key(i)
			if len(ms) != 1 || ms[0].T != "str" || ms[0].S == "" || ms[0].S == "." || ms[0].S == ".." || strings.Contains(ms[0].S, "/") {
				return kit.Verdict{Excluded: true, Classes: []string{"raw:path-value-not-a-segment"}}
			}
			path += "/" + url.PathEscape(ms[0].S)
			continue
		}
		for _, m := range ms {
			switch {
			case f.Tag == "form" && m.T == "str":
				query.Add(f.key(i), m.S)
				if m.S == "" {
					// whether an empty form value is a present "" or an absent key is not specified
					// (GetFormValues drops it): the field is not judged
					o.class("raw:empty-form-value")
					skip[i] = true
				}
			case f.Tag == "header" && m.T == "str":
				hdr.Add(f.key(i), m.S)
			case f.Tag == "header" && m.T == "arr":
				if len(m.L) < 2 {
					// one header line is one value: handed over as a string, not as a list
					return kit.Verdict{Excluded: true, Classes: []string{"raw:single-line-list"}}
				}
				for j := range m.L {
					hdr.Add(f.key(i), m.L[j].S)
				}
				o.class("raw:repeated-header")
			default:
				return kit.Verdict{Excluded: true, Classes: []string{"raw:not-carried"}}
			}
		}
		if len(ms) > 1 {
			return kit.Verdict{Excluded: true, Classes: []string{"raw:duplicate-key"}}
		}
	}
	method := http.MethodGet
	if c.M != "" {
		method = http.MethodPost
	}
	var (
		called   int
		parseOut c05Outcome
		got      reflect.Value
	)
	rtr := router.NewRouter()
	if err := rtr.Handle(method, pattern, http.HandlerFunc(func(w http.ResponseWriter, r *http.Request) {
		got = reflect.New(target.Type().Elem())
		parseOut = c05Call(func() error { return httpx.Parse(r, got.Interface()) })
		called++
	})); err != nil {
		return kit.Verdict{Excluded: true, Classes: []string{"route-rejected"}}
	}
	enc := query.Encode() + c.Q
	var req *http.Request
	built := c05Call(func() error {
		if c.M == "BODY" {
			req = httptest.NewRequest(method, path, strings.NewReader(enc))
			req.Header.Set("Content-Type", "application/x-www-form-urlencoded")
		} else {
			req = httptest.NewRequest(method, path+"?"+enc, nil)
		}
		for k, vs := range hdr {
			req.Header[k] = vs
		}
		return nil
	})
	if built.Panic != nil {
		return kit.Verdict{Excluded: true, Classes: []string{"raw:not-a-request"}}
	}
	served := c05Call(func() error { rtr.ServeHTTP(httptest.NewRecorder(), req); return nil })
	desc := func() string {
		return fmt.Sprintf("type %v request %s %s form %q header %v", target.Type().Elem(), method, path, enc, hdr)
	}
	if served.Panic != nil {
		return kit.Verdict{Fail: fmt.Sprintf("P0 the router panicked: %v | %s", served.Panic, desc()), Classes: []string{"outcome:panic"}}
	}
	if called != 1 {
		return kit.Verdict{Excluded: true, Classes: []string{"raw:route-not-matched"}}
	}
	if c.Q != "" {
		o.unspec("raw:odd-query-text")
	}
	res := reflect.Value{}
	if parseOut.Panic == nil && parseOut.Err == nil {
		res = got.Elem()
	}
	judged := append([]c05Fld(nil), c.S...)
	for i := range skip {
		judged[i].Tag = "-skip"
	}
	o.walkStruct(judged, &c.D, res, "")
	o.class("method:" + method + c.M)
	v.Fail, v.Known = c05Judge(o, parseOut, "httpx.Parse", desc)
	v = c05Finish(v, o, 1)
	v.NonTrivial = o.hot || len(c.S) >= 2
	return v
}

func TestVerif_C05_httpraw(t *testing.T) {
	kit.Run(t, "C05", "httpraw", kit.Opts{Quick: 8000, Thorough: 256000}, c05GenRawCase, c05InterpRaw)
}
