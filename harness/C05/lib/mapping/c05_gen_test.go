package mapping_test

// C05 generators: struct shapes ("programs") and shape-directed documents.

import (
	"fmt"
	"math/big"
	"strconv"
	"strings"

	"pgregory.net/rapid"
)

var (
	c05Words    = []string{"user", "name", "port", "max", "conn", "time", "out", "id", "host", "key", "log", "level", "a", "b"}
	c05IntKinds = []string{"int", "int8", "int16", "int32", "int64", "uint", "uint8", "uint16", "uint32", "uint64"}
	c05Alphabet = []string{"a", "b", "Z", "0", "7", " ", "_", "-", ".", ",", ":", "#", "{", "[", "\"", "'", "\\", "/", "<", "&", "%", "é", "中", "😀", "\n", "\t", "\u0001", "=", "|", "~", "*", "!", "?", "@", "y", "n",
		"%s", "%d", "%!", "$", "${HOME}", "$(x)", "`", "^", ")", "]", "}", ";", "\r", "\u007f", "\u00a0", "\ufeff"}
	c05MapKeys = []string{"k", "k2", "x", "y", "some", "zz"}
	// keys of map-typed fields are user data (not for the conf rule, which rewrites them)
	c05MapKeysWide = []string{"k", "k2", "x", "", " ", "a.b", "%s", "ключ", "line\nbreak", "UPPER", "snake_key", "kebab-key", "😀", "k\u0001", "a*b", "$x"}
	c05Durs        = []string{"0s", "1ns", "1h", "1h30m", "2.5s", "-3m", "100ms", "72h3m0.5s", "1us"}
)

// c05GenCfg tunes the shape generator for the rule that uses it.
type c05GenCfg struct {
	tag        string   // tag key
	keyStyles  []string // admissible key styles ("" = field name)
	conf       bool     // conf rule: restrict to what the conf sentence of the statement covers
	noCompiled bool     // no compiled struct types (their tags and keys are fixed)
	collHeavy  bool     // more slice and map fields (hand-built map documents: the element routes are the type-sensitive ones)
	dotted     bool     // some keys are written "parent.child" (not for conf / http / caller-made key functions)
	maxDepth   int
}

func c05Pick[T any](rt *rapid.T, label string, xs []T) T {
	return xs[rapid.IntRange(0, len(xs)-1).Draw(rt, label)]
}

// weighted choice
func c05W(rt *rapid.T, label string, names []string, weights []int) string {
	tot := 0
	for _, w := range weights {
		tot += w
	}
	x := rapid.IntRange(0, tot-1).Draw(rt, label)
	for i, w := range weights {
		if x < w {
			return names[i]
		}
		x -= w
	}
	return names[len(names)-1]
}

// c05Rare: true with probability 1/n, flat (rapid's integer generators favour small
// values and the bounds, so the draw is hashed).
func c05Rare(rt *rapid.T, label string, n uint64) bool {
	x := rapid.Uint64().Draw(rt, label)
	return (x*0x9E3779B97F4A7C15>>33)%n == 1
}

var (
	c05BigCounts  = [][]int{{255, 256, 257, 1000, 1024, 4096, 4097}, {10000, 32768, 65535, 65536, 65537}, {100000}}
	c05BigLengths = [][]int{{100, 255, 256, 257, 1023, 4095, 4096, 4097}, {32767, 32768, 65535, 65536, 65537}, {1 << 20, 1<<20 + 1}}
)

// c05BigSize: mostly the cheap sizes, the expensive ones rarely.
func c05BigSize(rt *rapid.T, tiers [][]int) int {
	switch x := rapid.IntRange(0, 39).Draw(rt, "bigtier"); {
	case x == 20:
		return c05Pick(rt, "bigsize", tiers[2])
	case x >= 21 && x <= 23:
		return c05Pick(rt, "bigsize", tiers[1])
	}
	return c05Pick(rt, "bigsize", tiers[0])
}

// c05GenDefined: about one type in six is the defined (named) variant.
func c05GenDefined(rt *rapid.T) bool { return rapid.IntRange(0, 5).Draw(rt, "defined") == 3 }

func c05GenScalarKind(rt *rapid.T, allowDur bool) string {
	k := c05W(rt, "kind", []string{"bool", "intk", "float32", "float64", "string", "dur", "text"}, []int{10, 45, 8, 10, 18, 7, 3})
	switch k {
	case "intk":
		return c05Pick(rt, "intkind", c05IntKinds)
	case "dur", "text":
		if !allowDur { // element types: neither Duration nor the TextUnmarshaler type
			return "string"
		}
	}
	return k
}

// c05GenElem: element type of a slice or map; cdepth counts the collections
// already entered (a field []T has cdepth 1), so [][]struct, []map[string]struct,
// map[string][]struct, [][]map[string]T ... are generated up to three levels.
func c05GenElem(rt *rapid.T, cfg *c05GenCfg, depth, cdepth int) *c05Typ {
	names := []string{"scalar", "pscalar", "struct", "pstruct", "slice", "map"}
	weights := []int{50, 6, 14, 5, 14, 11}
	if depth >= cfg.maxDepth {
		weights[2], weights[3] = 0, 0
	}
	if cdepth >= 3 {
		weights[4], weights[5] = 0, 0
	}
	if cdepth >= 2 {
		// the innermost levels are where structs are interesting (keys inside lists of lists)
		weights[2] *= 3
	}
	switch c05W(rt, "elem", names, weights) {
	case "pscalar":
		return &c05Typ{K: c05GenScalarKind(rt, false), P: true, D: c05GenDefined(rt)}
	case "struct", "pstruct":
		if c05CompiledTags[cfg.tag] && !cfg.noCompiled && rapid.IntRange(0, 5).Draw(rt, "compiledelem") == 2 {
			_, desc := c05Compiled("addr", cfg.tag)
			return &c05Typ{K: "struct", C: "addr", F: desc, P: c05W(rt, "elem", names, weights) == "pstruct"}
		}
		if c05W(rt, "elemptr", []string{"struct", "pstruct"}, []int{weights[2] + 1, weights[3] + 1}) == "pstruct" {
			return &c05Typ{K: "struct", P: true, F: c05GenFields(rt, cfg, depth+1, 3, "")}
		}
		return &c05Typ{K: "struct", F: c05GenFields(rt, cfg, depth+1, 3, "")}
	case "slice":
		return &c05Typ{K: "slice", E: c05GenElem(rt, cfg, depth, cdepth+1), D: c05GenDefined(rt)}
	case "map":
		return &c05Typ{K: "map", E: c05GenElem(rt, cfg, depth, cdepth+1), D: c05GenDefined(rt), DK: rapid.IntRange(0, 15).Draw(rt, "definedkey") == 7}
	}
	return &c05Typ{K: c05GenScalarKind(rt, false), D: c05GenDefined(rt)}
}

func c05GenFields(rt *rapid.T, cfg *c05GenCfg, depth, maxN int, prefix string) []c05Fld {
	n := rapid.IntRange(1, maxN).Draw(rt, "nfields")
	wide := depth == 1 && prefix == "" && maxN >= 6 && c05Rare(rt, "widestruct", 80)
	if wide {
		n = c05Pick(rt, "wide", []int{17, 33, 64, 65})
	}
	fs := make([]c05Fld, n)
	for i := range fs {
		if wide && i >= 4 {
			// many plain scalar fields
			sc := *cfg
			sc.maxDepth = 0
			f := c05Fld{W: []string{c05Pick(rt, "word", c05Words)}, T: c05Typ{K: c05GenScalarKind(rt, true)}, Tag: cfg.tag, KS: c05Pick(rt, "keystyle", cfg.keyStyles)}
			c05GenOptionsBase(rt, &f)
			fs[i] = f
			continue
		}
		fs[i] = c05GenField(rt, cfg, depth, prefix, i)
	}
	if !wide && len(fs) >= 2 && rapid.IntRange(0, 5).Draw(rt, "optdep") == 0 {
		// optional=<sibling key> / optional=!<sibling key>: optional depending on another field
		i := rapid.IntRange(0, len(fs)-1).Draw(rt, "optdepfield")
		if rapid.IntRange(0, 5).Draw(rt, "optdepconstrained") != 0 {
			// prefer a field that declares range= / options=
			found := false
			for k := range fs {
				if fs[(i+k)%len(fs)].Rng != nil {
					i, found = (i+k)%len(fs), true
					break
				}
			}
			for k := 0; k < len(fs) && !found; k++ {
				if len(fs[(i+k)%len(fs)].Opts) > 0 {
					i, found = (i+k)%len(fs), true
				}
			}
		}
		j := rapid.IntRange(0, len(fs)-2).Draw(rt, "optdepon")
		if j >= i {
			j++
		}
		if rapid.IntRange(0, 3).Draw(rt, "optdeprequired") != 0 {
			// prefer a dependency that the document carries (a required scalar)
			for k := range fs {
				if x := (j + k) % len(fs); x != i && !fs[x].Opt && fs[x].Def == nil && !fs[x].Anon && c05IsScalar(fs[x].T.K) {
					j = x
					break
				}
			}
		}
		a, b := &fs[i], &fs[j]
		if a.Tag == cfg.tag && b.Tag == cfg.tag && !a.Anon && !b.Anon && !a.Env && !a.Inh && a.FK == "" && a.T.K != "text" {
			a.Opt = true
			a.OD = b.key(j)
			if rapid.IntRange(0, 2).Draw(rt, "optdepnot") == 0 {
				a.OD = "!" + a.OD
			}
		}
	}
	if depth == 1 && prefix == "" && maxN >= 6 && c05Rare(rt, "deepchain", 80) {
		// deep nesting: a chain of 6..14 nested structs, scalars at every level
		d := rapid.IntRange(6, 10).Draw(rt, "chaindepth") // (deeper is only slower: the valuer chain is rebuilt per field, cost grows steeply with depth)
		fs = append(fs, c05Fld{W: []string{"deep"}, T: c05GenChain(rt, cfg, d), Tag: cfg.tag, KS: "camel"})
	}
	return fs
}

func c05GenChain(rt *rapid.T, cfg *c05GenCfg, d int) c05Typ {
	leaf := c05Fld{W: []string{"leaf"}, T: c05Typ{K: c05GenScalarKind(rt, true)}, Tag: cfg.tag, KS: "camel"}
	c05GenOptionsBase(rt, &leaf)
	t := c05Typ{K: "struct", F: []c05Fld{leaf}}
	for i := 0; i < d; i++ {
		side := c05Fld{W: []string{"side"}, T: c05Typ{K: c05GenScalarKind(rt, false)}, Tag: cfg.tag, KS: "camel"}
		c05GenOptionsBase(rt, &side)
		if rapid.IntRange(0, 3).Draw(rt, "chaininh") == 0 {
			side.Inh = true
			side.W = []string{"inh", "side", strconv.Itoa(i)}
		}
		next := c05Fld{W: []string{"next"}, T: t, Tag: cfg.tag, KS: "camel"}
		if rapid.IntRange(0, 4).Draw(rt, "chainptr") == 0 {
			next.T.P = true
		}
		t = c05Typ{K: "struct", F: []c05Fld{side, next}}
	}
	return t
}

func c05GenField(rt *rapid.T, cfg *c05GenCfg, depth int, prefix string, idx int) c05Fld {
	var f c05Fld
	nw := rapid.IntRange(1, 2).Draw(rt, "nwords")
	if prefix != "" {
		// children of embedded structs share the parent's key space: a prefix
		// unique to the embedded field keeps keys distinct (also case-insensitively)
		f.W = append(f.W, prefix)
	}
	for i := 0; i < nw; i++ {
		f.W = append(f.W, c05Pick(rt, "word", c05Words))
	}
	names := []string{"scalar", "pscalar", "slice", "map", "struct", "pstruct", "embedded"}
	weights := []int{55, 8, 13, 8, 9, 3, 4}
	if cfg.collHeavy {
		weights = []int{36, 6, 26, 16, 9, 3, 4}
	}
	if depth >= cfg.maxDepth {
		weights[4], weights[5], weights[6] = 0, 0, 0
	}
	shape := c05W(rt, "ftype", names, weights)
	compiled := c05CompiledTags[cfg.tag] && !cfg.noCompiled
	switch shape {
	case "scalar":
		f.T = c05Typ{K: c05GenScalarKind(rt, true), D: c05GenDefined(rt)}
	case "pscalar":
		f.T = c05Typ{K: c05GenScalarKind(rt, true), P: true, D: c05GenDefined(rt)}
	case "slice":
		f.T = c05Typ{K: "slice", E: c05GenElem(rt, cfg, depth, 1), D: c05GenDefined(rt)}
		f.T.P = rapid.IntRange(0, 13).Draw(rt, "ptrcoll") == 6 // *[]T
	case "map":
		f.T = c05Typ{K: "map", E: c05GenElem(rt, cfg, depth, 1), D: c05GenDefined(rt), DK: rapid.IntRange(0, 15).Draw(rt, "definedkey") == 7}
		f.T.P = rapid.IntRange(0, 9).Draw(rt, "ptrcoll") == 6 // *map[string]T
	case "struct", "pstruct":
		if compiled && rapid.IntRange(0, 4).Draw(rt, "compiled") == 2 {
			_, desc := c05Compiled("addr", cfg.tag)
			f.T = c05Typ{K: "struct", C: "addr", F: desc, P: shape == "pstruct"}
		} else {
			f.T = c05Typ{K: "struct", F: c05GenFields(rt, cfg, depth+1, 4, ""), P: shape == "pstruct"}
		}
	case "embedded":
		pre := prefix
		if pre == "" {
			pre = "e"
		}
		f.T = c05Typ{K: "struct", F: c05GenFields(rt, cfg, depth+1, 3, pre+string(rune('a'+idx)))}
		if compiled && prefix == "" && idx == 0 && rapid.IntRange(0, 2).Draw(rt, "compiledbase") == 1 {
			// a compiled struct type embedded (only as the first field: its keys are fixed)
			_, desc := c05Compiled("base", cfg.tag)
			f.T = c05Typ{K: "struct", C: "base", F: desc}
		}
		f.Anon = true
		f.Tag = ""
		if rapid.IntRange(0, 9).Draw(rt, "embopt") < 3 {
			f.Tag = cfg.tag
			f.Opt = true
			if f.T.C == "" && rapid.IntRange(0, 3).Draw(rt, "embptr") == 0 {
				f.T.P = true // optional embedded *struct
			}
		}
		return f
	}
	structDefault := false
	if shape == "slice" && f.T.E.K == "struct" && f.T.E.C == "" && rapid.IntRange(0, 9).Draw(rt, "structdefault") < 4 {
		// []struct (or []*struct) with default=[{...},{}]: the element struct must be satisfiable by {}
		// and carries its own defaulted slice field
		structDefault = true
		c05MakeDefaultable(rt, cfg, f.T.E.F)
		inner := c05Fld{W: []string{"dflt", c05Pick(rt, "word", c05Words)}, Tag: cfg.tag, KS: "camel"}
		if rapid.Bool().Draw(rt, "innerstr") {
			inner.T = c05Typ{K: "slice", E: &c05Typ{K: "string"}}
			d := c05Pick(rt, "sdefs", []string{"[x,y]", "[a]", "[GET,POST]"})
			inner.Def = &d
		} else {
			inner.T = c05Typ{K: "slice", E: &c05Typ{K: c05Pick(rt, "innerint", []string{"int", "int16", "uint8", "float64"})}}
			d := c05Pick(rt, "sdefn", []string{"[1,2]", "[7]", "[200,204]"})
			inner.Def = &d
		}
		f.T.E.F = append(f.T.E.F, inner)
	}
	// tag
	switch c05W(rt, "tagged", []string{"tag", "untagged", "other"}, []int{91, 6, 3}) {
	case "untagged":
		return f
	case "other":
		f.Tag = "-other"
		return f
	}
	f.Tag = cfg.tag
	f.KS = c05Pick(rt, "keystyle", cfg.keyStyles)
	c05GenOptions(rt, &f)
	if cfg.dotted && prefix == "" && !f.Env && !f.Inh && rapid.IntRange(0, 29).Draw(rt, "dottedkey") == 0 {
		f.KS = "dotted"
	}
	if structDefault {
		d := c05Pick(rt, "structdef", []string{"[{}]", "[{},{}]", "[{},{},{}]"})
		if k := c05FirstSettable(f.T.E.F); k != "" && rapid.Bool().Draw(rt, "structdefkey") {
			d = "[{" + strconv.Quote(k) + ":true},{}]"
		}
		f.Def = &d
	}
	if depth > 1 && prefix == "" && c05IsScalar(f.T.K) && !f.Env && !f.Inh && rapid.IntRange(0, 5).Draw(rt, "nestedinherit") == 0 {
		// fields of nested structs: inherit is only observable there
		f.Inh = true
		f.W = append([]string{"inh"}, f.W...)
	}
	return f
}

// c05MakeDefaultable rewrites the fields of an element struct so that the empty
// object {} satisfies it: everything optional or defaulted, nothing untagged.
func c05MakeDefaultable(rt *rapid.T, cfg *c05GenCfg, fs []c05Fld) {
	for i := range fs {
		f := &fs[i]
		if f.Anon {
			c05MakeDefaultable(rt, cfg, f.T.F)
			continue
		}
		if f.Tag == "-other" {
			continue
		}
		if f.Tag == "" {
			f.Tag, f.KS = cfg.tag, "camel"
		}
		if f.Def == nil {
			f.Opt = true
		}
	}
}

// c05FirstSettable: key of a plain bool field of the element struct (for default=[{"k":true},{}]).
func c05FirstSettable(fs []c05Fld) string {
	for i := range fs {
		f := &fs[i]
		if !f.Anon && f.Tag != "" && f.Tag != "-other" && f.T.K == "bool" && !f.T.P && !f.Str && !f.Env && f.KS != "" {
			return f.key(i)
		}
	}
	return ""
}

func c05GenOptions(rt *rapid.T, f *c05Fld) {
	c05GenOptionsBase(rt, f)
	if !c05IsScalar(f.T.K) {
		return
	}
	if f.T.K == "text" {
		return
	}
	switch c05W(rt, "source", []string{"doc", "env", "inherit"}, []int{78, 14, 8}) {
	case "inherit":
		if !f.T.P || rapid.Bool().Draw(rt, "inhptr") {
			f.Inh = true
			// the key is also written into enclosing objects: keep it distinct from every declared key there
			f.W = append([]string{"inh"}, f.W...)
		}
	case "env":
		if f.T.P && rapid.IntRange(0, 3).Draw(rt, "envptr") != 0 {
			return
		}
		f.Env = true
		var v string
		switch c05W(rt, "envstate", []string{"unset", "empty", "plain", "boundary", "garbage"}, []int{25, 5, 35, 28, 7}) {
		case "unset":
			return
		case "empty":
		case "garbage":
			v = c05Pick(rt, "envgarbage", []string{"bad", " 5", "5 ", "+5", "0x10", "1_0", "T", "yes", "Inf", "1h", "{}"})
		case "boundary":
			g := &c05DocGen{rt: rt}
			ff := *f
			ff.Str = false
			b := g.boundary(&ff.T, &ff)
			v = b.S
			if b.T == "bool" {
				v = strconv.FormatBool(b.B)
			}
		default:
			g := &c05DocGen{rt: rt, plain: true}
			ff := *f
			ff.Str = false
			b := g.plainValue(&ff.T, &ff, 1)
			v = b.S
			if b.T == "bool" {
				v = strconv.FormatBool(b.B)
			}
		}
		f.EV = &v
	}
}

func c05GenOptionsBase(rt *rapid.T, f *c05Fld) {
	k := f.T.K
	presence := c05W(rt, "presence", []string{"required", "optional", "default", "both"}, []int{40, 28, 28, 4})
	if presence == "optional" || presence == "both" {
		f.Opt = true
	}
	if k == "text" {
		return // no default=/options=/range= for the callback type
	}
	wantDef := presence == "default" || presence == "both"
	if !c05IsScalar(k) {
		if k == "slice" && c05IsScalar(f.T.E.K) && !f.T.E.P && (wantDef || rapid.IntRange(0, 2).Draw(rt, "slicedef") == 0) {
			var d string
			if f.T.E.K == "string" {
				d = c05Pick(rt, "sdefs", []string{"[x,y]", "[a]", "[dev, prod,test]"})
			} else if c05IsNumeric(f.T.E.K) {
				d = c05Pick(rt, "sdefn", []string{"[1,2]", "[7]", "[0,100,3]"})
			}
			if d != "" {
				f.Def = &d
			}
		}
		return
	}
	switch k {
	case "string":
		if rapid.IntRange(0, 3).Draw(rt, "hasopts") == 0 {
			f.Opts = c05Pick(rt, "stropts", [][]string{{"x", "y"}, {"dev", "test", "prod"}, {"A"}, {"on", "off", "1"}})
			f.OB = rapid.IntRange(0, 3).Draw(rt, "optsbracket") == 0
		}
		if wantDef {
			d := c05Pick(rt, "strdef", []string{"hello", "x y", "v1.2-rc_3", "0", "p,q", ",a,,b"})
			if len(f.Opts) > 0 {
				d = c05Pick(rt, "strdefopt", f.Opts)
			}
			f.Def = &d
		}
		if rapid.IntRange(0, 19).Draw(rt, "strflag") == 0 {
			f.Str = true
		}
	case "bool":
		if wantDef {
			d := c05Pick(rt, "booldef", []string{"true", "false"})
			f.Def = &d
		}
		if rapid.IntRange(0, 14).Draw(rt, "strflag") == 0 {
			f.Str = true
		}
	case "dur":
		if wantDef {
			d := c05Pick(rt, "durdef", c05Durs)
			f.Def = &d
		}
	default:
		lo, hi := c05KindSmallRange(k)
		isF := c05IsFloat(k)
		switch c05W(rt, "constraint", []string{"none", "range", "options", "both"}, []int{55, 28, 14, 3}) {
		case "range":
			f.Rng = c05GenRange(rt, lo, hi, isF)
		case "options":
			f.Opts = c05GenNumOpts(rt, lo, hi, isF)
			f.OB = rapid.IntRange(0, 3).Draw(rt, "optsbracket") == 0
		case "both":
			f.Opts = c05GenNumOpts(rt, lo, hi, isF)
			// a range that contains every option
			f.Rng = &c05Rng{L: strconv.Itoa(lo - 1), R: strconv.Itoa(hi + 200), LI: true, RI: true}
		}
		if wantDef {
			var d string
			switch {
			case len(f.Opts) > 0:
				d = c05Pick(rt, "numdefopt", f.Opts)
			case f.Rng != nil:
				d = c05InsideRange(rt, f.Rng, lo, hi, isF)
			default:
				if isF {
					d = c05Pick(rt, "fdef", []string{"1.5", "-2", "1e3", "0.25", "100"})
				} else if c05IsUint(k) {
					d = c05Pick(rt, "udef", []string{"1", "7", "100", "255"})
				} else {
					d = c05Pick(rt, "idef", []string{"1", "-7", "100", "127", "-128"})
				}
			}
			if d != "" {
				f.Def = &d
			}
		}
		if rapid.IntRange(0, 14).Draw(rt, "strflag") == 0 {
			f.Str = true
		}
	}
}

// small window used for constraint bounds of a numeric kind
func c05KindSmallRange(k string) (int, int) {
	if c05IsUint(k) {
		return 0, 100
	}
	return -50, 100
}

func c05GenRange(rt *rapid.T, lo, hi int, isF bool) *c05Rng {
	l := rapid.IntRange(lo, hi-1).Draw(rt, "rngl")
	r := rapid.IntRange(l, hi).Draw(rt, "rngr")
	rg := &c05Rng{L: strconv.Itoa(l), R: strconv.Itoa(r),
		LI: rapid.Bool().Draw(rt, "li"), RI: rapid.Bool().Draw(rt, "ri")}
	if isF && rapid.Bool().Draw(rt, "half") {
		rg.L = strconv.Itoa(l) + ".5"
		rg.R = strconv.Itoa(r+1) + ".5"
	}
	if rg.L == rg.R || l == r {
		rg.LI, rg.RI = true, true
		if !isF && l == r && rapid.Bool().Draw(rt, "widen") {
			rg.R = strconv.Itoa(r + 3)
		}
	}
	switch rapid.IntRange(0, 7).Draw(rt, "open") {
	case 0:
		rg.L = ""
	case 1:
		rg.R = ""
	}
	return rg
}

func c05GenNumOpts(rt *rapid.T, lo, hi int, isF bool) []string {
	n := rapid.IntRange(1, 3).Draw(rt, "nopts")
	seen := map[string]bool{}
	var out []string
	for i := 0; i < n; i++ {
		v := strconv.Itoa(rapid.IntRange(lo, hi).Draw(rt, "optv"))
		if isF && rapid.Bool().Draw(rt, "opthalf") {
			v += ".5"
		}
		if !seen[v] {
			seen[v] = true
			out = append(out, v)
		}
	}
	return out
}

// a value text inside the range (and inside the small window)
func c05InsideRange(rt *rapid.T, rg *c05Rng, lo, hi int, isF bool) string {
	l, r := float64(lo-20), float64(hi+20)
	if rg.L != "" {
		l, _ = strconv.ParseFloat(rg.L, 64)
	}
	if rg.R != "" {
		r, _ = strconv.ParseFloat(rg.R, 64)
	}
	if rg.L == "" {
		l = r - 30
		if l < float64(lo) && r >= float64(lo) {
			l = float64(lo) // stay inside the kind (unsigned kinds: not below 0)
		}
	}
	if rg.R == "" {
		r = l + 30
	}
	// candidates on a half-step grid
	var cands []string
	for x := l; x <= r && len(cands) < 64; x += 0.5 {
		if x == l && !rg.LI && rg.L != "" {
			continue
		}
		if x == r && !rg.RI && rg.R != "" {
			continue
		}
		isInt := x == float64(int64(x))
		if !isF && !isInt {
			continue
		}
		cands = append(cands, strconv.FormatFloat(x, 'f', -1, 64))
	}
	if len(cands) == 0 {
		// e.g. (3:4) for an integer kind: no admissible value
		return ""
	}
	return c05Pick(rt, "inrange", cands)
}

// ---------------- documents ----------------

type c05DocGen struct {
	rt       *rapid.T
	plain    bool // only plain (must-be-accepted) content
	p5       bool // request values: a field is absent only when optional and unconstrained
	small    bool // no big values (inside an element pattern that is repeated thousands of times, warm-ups)
	wideKeys bool // keys of map-typed fields from the full alphabet
	allStr   bool // every scalar is rendered as a string (documents for WithStringValues unmarshalers)
	big      bool // this case may still place its one big value (a long string or a long array)
	yamlNums bool // YAML-only number spellings (.inf -.inf .nan): the document has no JSON form
	// focus: one field of the object is hostile (boundary / ill-typed / absent ...), the rest is
	// plain: a must-fail value is only observable as a wrong acceptance when everything else is acceptable
	focus   bool
	focused bool // the field being generated is the hostile one
	hostile int  // percentage of nested elements replaced by an arbitrary value
}

func (g *c05DocGen) str() string {
	n := rapid.IntRange(0, 6).Draw(g.rt, "slen")
	var b strings.Builder
	for i := 0; i < n; i++ {
		b.WriteString(c05Pick(g.rt, "ch", c05Alphabet))
	}
	return b.String()
}

func (g *c05DocGen) any(depth int) c05JV {
	names := []string{"null", "num", "str", "bool", "arr", "obj"}
	weights := []int{8, 30, 22, 12, 14, 14}
	if depth >= 2 {
		weights[4], weights[5] = 0, 0
	}
	switch c05W(g.rt, "anyt", names, weights) {
	case "null":
		return c05Null()
	case "num":
		return c05Num(c05Pick(g.rt, "anynum", []string{"0", "1", "-1", "5", "300", "1.5", "1e2", "-0", "256", "70000", "9223372036854775808", "1e400", "0.1"}))
	case "str":
		if rapid.Bool().Draw(g.rt, "strkind") {
			return c05Str(c05Pick(g.rt, "anystr", []string{"", "1", "true", "1h", "[1,2]", "{\"k\":1}", "x", "null", "300"}))
		}
		return c05Str(g.str())
	case "bool":
		return c05Bool(rapid.Bool().Draw(g.rt, "anyb"))
	case "arr":
		n := rapid.IntRange(0, 3).Draw(g.rt, "anyn")
		l := make([]c05JV, n)
		for i := range l {
			l[i] = g.any(depth + 1)
		}
		return c05Arr(l...)
	}
	n := rapid.IntRange(0, 3).Draw(g.rt, "anyn")
	m := make([]c05KV, n)
	for i := range m {
		m[i] = c05KV{K: c05Pick(g.rt, "anyk", c05MapKeys), V: g.any(depth + 1)}
	}
	return c05Obj(m...)
}

// illTyped: a value of a JSON type the kind does not take.
func (g *c05DocGen) illTyped(t *c05Typ, f *c05Fld) c05JV {
	if (t.K == "slice" || t.K == "map") && rapid.IntRange(0, 2).Draw(g.rt, "jsoninstring") == 0 {
		// the code parses a string as JSON text for slice and map fields
		sp, sf, sm := g.plain, g.focus, g.small
		g.plain, g.focus, g.small = rapid.Bool().Draw(g.rt, "jisplain"), false, true
		v := g.plainValue(t, nil, 1)
		g.plain, g.focus, g.small = sp, sf, sm
		if rapid.IntRange(0, 5).Draw(g.rt, "jisnull") == 0 {
			return c05Str("null")
		}
		return c05Str(v.JSON())
	}
	for i := 0; i < 8; i++ {
		v := g.any(1)
		switch {
		case v.T == "null":
			continue
		case t.K == "bool" && v.T == "bool",
			t.K == "string" && v.T == "str",
			t.K == "dur" && v.T == "str",
			t.K == "text" && v.T == "str",
			c05IsNumeric(t.K) && v.T == "num",
			(t.K == "struct" || t.K == "map") && v.T == "obj",
			t.K == "slice" && v.T == "arr":
			continue
		}
		return v
	}
	if t.K == "bool" {
		return c05Num("1")
	}
	return c05Bool(true)
}

func (g *c05DocGen) wrapStr(f *c05Fld, v c05JV) c05JV {
	if g.allStr && (v.T == "num" || v.T == "bool") {
		if v.T == "num" && rapid.IntRange(0, 7).Draw(g.rt, "hostilestr") == 0 {
			// what a query string or a header may carry
			return c05Str(c05Pick(g.rt, "hostilenum", []string{"", " 5", "5 ", "+5", "0x10", "0b1", "1_000", "١٢٣", "１２", "1e3", "NaN", "Inf", "-Inf", "--1", "1,5", "1.", ".5", "00", "007", "%d", "9" + strings.Repeat("0", 400)}))
		}
		if v.T == "bool" {
			if rapid.IntRange(0, 5).Draw(g.rt, "hostilebool") == 0 {
				return c05Str(c05Pick(g.rt, "hostileboolv", []string{"TRUE", "True", "T", "1", "0", "yes", "on", "", " true", "truE", "null"}))
			}
			return c05Str(strconv.FormatBool(v.B))
		}
		return c05Str(v.S)
	}
	if f != nil && f.Str && (v.T == "num" || v.T == "bool") && rapid.IntRange(0, 9).Draw(g.rt, "strwrap") != 0 {
		if v.T == "bool" {
			return c05Str(strconv.FormatBool(v.B))
		}
		return c05Str(v.S)
	}
	return v
}

// plainValue: well-typed, canonical, inside the kind and inside options/range.
func (g *c05DocGen) plainValue(t *c05Typ, f *c05Fld, depth int) c05JV {
	rt := g.rt
	switch t.K {
	case "bool":
		return g.wrapStr(f, c05Bool(rapid.Bool().Draw(rt, "b")))
	case "string":
		if f != nil && len(f.Opts) > 0 {
			return c05Str(c05Pick(rt, "sopt", f.Opts))
		}
		if g.big && !g.small && rapid.Bool().Draw(rt, "bighere") {
			g.big = false // one big value per case
			n := c05BigSize(rt, c05BigLengths)
			if rapid.IntRange(0, 9).Draw(rt, "bigstrtier") >= 5 { // long strings are cheap: the 64 KiB .. 1 MiB sizes often
				n = c05Pick(rt, "bigstrsize", append(append([]int{}, c05BigLengths[1]...), c05BigLengths[2]...))
			}
			return c05JV{T: "lstr", N: n, S: c05Pick(rt, "bigpat", []string{"a", "ab%s", "x y", "0123456789"})}
		}
		return c05Str(g.str())
	case "dur":
		return c05Str(c05Pick(rt, "dur", c05Durs))
	case "text":
		return c05Str("t" + g.str())
	case "struct":
		return g.object(t.F, depth+1)
	case "slice":
		if g.big && !g.small && depth <= 2 && rapid.Bool().Draw(rt, "bighere") {
			g.big = false
			// a long array from a small description: N elements cycling through 1..3 patterns
			sm := g.small
			g.small = true
			np := rapid.IntRange(1, 3).Draw(rt, "npat")
			pats := make([]c05JV, np)
			for i := range pats {
				pats[i] = g.elem(t.E, depth)
			}
			g.small = sm
			return c05JV{T: "rep", N: c05BigSize(rt, c05BigCounts), L: pats}
		}
		n := rapid.IntRange(0, 4).Draw(rt, "slen")
		l := make([]c05JV, n)
		for i := range l {
			l[i] = g.elem(t.E, depth)
		}
		return c05Arr(l...)
	case "map":
		n := rapid.IntRange(0, 3).Draw(rt, "mlen")
		var m []c05KV
		seen := map[string]bool{}
		for i := 0; i < n; i++ {
			keys := c05MapKeys
			if g.wideKeys {
				keys = c05MapKeysWide
			}
			k := c05Pick(rt, "mkey", keys)
			if seen[k] {
				continue
			}
			seen[k] = true
			m = append(m, c05KV{K: k, V: g.elem(t.E, depth)})
		}
		return c05Obj(m...)
	}
	// numeric
	if f != nil && len(f.Opts) > 0 {
		return g.wrapStr(f, c05Num(c05Pick(rt, "nopt", f.Opts)))
	}
	if f != nil && f.Rng != nil {
		lo, hi := c05KindSmallRange(t.K)
		if s := c05InsideRange(rt, f.Rng, lo, hi, c05IsFloat(t.K)); s != "" {
			return g.wrapStr(f, c05Num(s))
		}
		return g.wrapStr(f, c05Num("0")) // empty integer range: nothing is inside
	}
	if c05IsFloat(t.K) {
		m := rapid.IntRange(-9999, 9999).Draw(rt, "mant")
		s := strconv.Itoa(m)
		switch rapid.IntRange(0, 3).Draw(rt, "fform") {
		case 1:
			s = strconv.FormatFloat(float64(m)/100, 'f', -1, 64)
		case 2:
			s = strconv.Itoa(m) + "e" + strconv.Itoa(rapid.IntRange(-5, 5).Draw(rt, "exp"))
		case 3:
			s = strconv.FormatFloat(float64(m)/8, 'f', -1, 64)
		}
		return g.wrapStr(f, c05Num(s))
	}
	lo, hi := c05IntRange(t.K)
	if hi.Cmp(c05MaxInt64) > 0 {
		hi = c05MaxInt64
	}
	var n *big.Int
	switch rapid.IntRange(0, 3).Draw(rt, "iform") {
	case 0: // small
		x := int64(rapid.IntRange(-100, 100).Draw(rt, "small"))
		n = big.NewInt(x)
	case 1: // exactly a limit of the kind (still plain)
		if rapid.Bool().Draw(rt, "hi") {
			n = hi
		} else {
			n = lo
		}
	default: // anywhere inside
		span := new(big.Int).Sub(hi, lo)
		x := rapid.Uint64().Draw(rt, "any")
		n = new(big.Int).Add(lo, new(big.Int).Mod(new(big.Int).SetUint64(x), new(big.Int).Add(span, big.NewInt(1))))
	}
	if n.Cmp(lo) < 0 {
		n = lo
	}
	if n.Cmp(hi) > 0 {
		n = hi
	}
	return g.wrapStr(f, c05Num(n.String()))
}

// boundary: values at and just beyond limits of the kind or of the constraint.
func (g *c05DocGen) boundary(t *c05Typ, f *c05Fld) c05JV {
	rt := g.rt
	one := big.NewInt(1)
	switch {
	case c05IsNumeric(t.K):
		var c []string
		if !c05IsFloat(t.K) {
			lo, hi := c05IntRange(t.K)
			c = append(c, lo.String(), hi.String(),
				new(big.Int).Sub(lo, one).String(), new(big.Int).Add(hi, one).String(),
				new(big.Int).Lsh(one, uint(c05Bits(t.K))).String(),
				new(big.Int).Add(new(big.Int).Lsh(one, uint(c05Bits(t.K))), big.NewInt(44)).String(),
				"300", "-129", "256", "65536", "-32769", "4294967296", "2147483648",
				"9223372036854775807", "9223372036854775808", "-9223372036854775808", "-9223372036854775809",
				"18446744073709551615", "18446744073709551616", "-1", "0", "-0",
				"1.5", "1.0", "1e2", "1E2", "2.5e1", "1e19", "1e-1", "0.0", "9007199254740993")
			c = append(c, c05PowerSet()...)
		} else {
			c = append(c, "1e39", "-1e39", "3.4028235e38", "3.4028236e38", "3.5e38", "1e38", "1e308", "1.7976931348623157e308",
				"1.8e308", "1e400", "-1e400", "1e-400", "5e-324", "1e-46", "0.1", "16777217", "9007199254740993",
				"0", "-0", "0.0", "1E2", "123456789012345678901234567890",
				"340282346638528859811704183484516925440", "340282356779733661637539395458142568447", "340282356779733661637539395458142568448",
				"16777216", "16777217", "-16777217")
			c = append(c, c05PowerSet()...)
		}
		if g.yamlNums && rapid.IntRange(0, 9).Draw(rt, "yamlnum") == 0 {
			return c05Num(c05Pick(rt, "yamlnumv", []string{".inf", "-.inf", "+.inf", ".nan", ".Inf", ".NaN", "0x10", "0o17", "1_000", "0b11"}))
		}
		var cc []string // candidates derived from the field's own constraint
		if f != nil && f.Rng != nil {
			for _, b := range []string{f.Rng.L, f.Rng.R} {
				if b == "" {
					continue
				}
				cc = append(cc, b, b, b)
				if r, ok := new(big.Rat).SetString(b); ok {
					up := new(big.Rat).Add(r, big.NewRat(1, 1))
					dn := new(big.Rat).Sub(r, big.NewRat(1, 1))
					cc = append(cc, up.FloatString(c05Dec(up)), dn.FloatString(c05Dec(dn)))
					if c05IsFloat(t.K) {
						uph := new(big.Rat).Add(r, big.NewRat(1, 4))
						dnh := new(big.Rat).Sub(r, big.NewRat(1, 4))
						cc = append(cc, uph.FloatString(c05Dec(uph)), dnh.FloatString(c05Dec(dnh)))
					}
				}
			}
		}
		if f != nil && len(f.Opts) > 0 {
			for _, op := range f.Opts {
				cc = append(cc, op)
				if strings.Contains(op, ".") {
					cc = append(cc, op+"0") // same number, other spelling
				} else {
					cc = append(cc, op+".0")
					if op != "0" && op != "-0" {
						cc = append(cc, op+"0") // ten times the option
					}
				}
				if r, ok := new(big.Rat).SetString(op); ok {
					up := new(big.Rat).Add(r, big.NewRat(1, 1))
					cc = append(cc, up.FloatString(c05Dec(up)))
				}
			}
		}
		if len(cc) > 0 && rapid.IntRange(0, 9).Draw(rt, "bndcons") < 6 {
			return g.wrapStr(f, c05Num(c05Notation(rt, c05Pick(rt, "bndc", cc))))
		}
		return g.wrapStr(f, c05Num(c05Notation(rt, c05Pick(rt, "bnd", c))))
	case t.K == "string":
		if f != nil && len(f.Opts) > 0 {
			op := c05Pick(rt, "bopt", f.Opts)
			return c05Str(c05Pick(rt, "bstr", []string{op + "x", strings.ToUpper(op), strings.ToLower(op), "", " " + op, op + "|" + op}))
		}
		return c05Str(c05Pick(rt, "bstr2", []string{"", " ", "null", "true", "123", strings.Repeat("long", 50), "é中"}))
	case t.K == "text":
		return c05Str(c05Pick(rt, "btext", []string{"!refused", "!", "", " x", "ok!", "!\n"}))
	case t.K == "dur":
		return c05Str(c05Pick(rt, "bdur", []string{"1x", "", "1", "1h ", "h", "-", "9223372036854775807ns", "9223372036854775808ns", "1e3s", "0"}))
	case t.K == "bool":
		return g.wrapStr(f, c05Bool(rapid.Bool().Draw(rt, "bb")))
	}
	return g.plainValue(t, f, 0)
}

// c05PowerSet: values at and around the powers of two where 8/16/32/53/63/64-bit
// integers and float64 mantissas end.
func c05PowerSet() []string {
	one := big.NewInt(1)
	var out []string
	add := func(n *big.Int) { out = append(out, n.String(), new(big.Int).Neg(n).String()) }
	for _, b := range []uint{7, 8, 15, 16, 31, 32, 53, 63, 64} {
		p := new(big.Int).Lsh(one, b)
		add(p)
		add(new(big.Int).Sub(p, one))
		add(new(big.Int).Add(p, one))
	}
	p63, p64 := new(big.Int).Lsh(one, 63), new(big.Int).Lsh(one, 64)
	for _, d := range []int64{-1024, -513, -512, 512, 1024, 1025} {
		add(new(big.Int).Add(p63, big.NewInt(d)))
	}
	for _, d := range []int64{-2048, -1025, 1024, 2048, 2049} {
		add(new(big.Int).Add(p64, big.NewInt(d)))
	}
	return out
}

// c05Notation rewrites a JSON number literal into another notation of exactly the
// same value: trailing ".0", exponent forms (1e3, 1E+3, 10e-1, d.ddde+N with every
// digit kept), many-digit mantissas. The oracle computes the exact value from the
// text with math/big, so the notation never changes what is expected.
func c05Notation(rt *rapid.T, text string) string {
	if !c05ReCanonInt.MatchString(text) {
		// already fractional / exponent notation: at most change the case of the exponent marker
		if rapid.IntRange(0, 3).Draw(rt, "notE") == 0 {
			return strings.Replace(text, "e", "E", 1)
		}
		return text
	}
	neg := strings.HasPrefix(text, "-")
	digits := strings.TrimPrefix(text, "-")
	sign := ""
	if neg {
		sign = "-"
	}
	switch rapid.IntRange(0, 11).Draw(rt, "notation") {
	case 0, 1, 2, 3: // plain
		return text
	case 4:
		return text + ".0"
	case 5:
		return text + ".000000000000000000000"
	case 6: // d.ddd e+N, every digit kept
		if len(digits) == 1 {
			return sign + digits + "e0"
		}
		return sign + digits[:1] + "." + digits[1:] + "e+" + strconv.Itoa(len(digits)-1)
	case 7: // same with E and no plus sign
		if len(digits) == 1 {
			return sign + digits + "E+0"
		}
		return sign + digits[:1] + "." + digits[1:] + "E" + strconv.Itoa(len(digits)-1)
	case 8: // one more digit, negative exponent: 10e-1
		return sign + digits + "0e-1"
	case 9: // trailing zeros moved into the exponent: 1000 -> 1e3
		z := len(digits) - len(strings.TrimRight(digits, "0"))
		if z == 0 || z == len(digits) {
			return text + "e0"
		}
		return sign + digits[:len(digits)-z] + "e" + strconv.Itoa(z)
	case 10: // what strconv prints for the nearest float64 (NOT always the same value: the oracle recomputes)
		f, _ := new(big.Float).SetString(text)
		x, _ := f.Float64()
		return strconv.FormatFloat(x, 'e', -1, 64)
	default:
		return sign + digits + "." + strings.Repeat("0", rapid.IntRange(1, 3).Draw(rt, "zeros")) + "E+0"
	}
}

func c05Dec(r *big.Rat) int {
	if r.IsInt() {
		return 0
	}
	return 2
}

// elem: an element of a slice or map.
func (g *c05DocGen) elem(t *c05Typ, depth int) c05JV {
	if !g.plain && g.focus && (t.K != "struct") {
		// focus inside a collection: about one element in three is hostile
		if rapid.IntRange(0, 2).Draw(g.rt, "focuselem") != 0 {
			sp := g.plain
			g.plain = true
			v := g.plainValue(t, nil, depth)
			g.plain = sp
			return v
		}
		switch x := rapid.IntRange(0, 9).Draw(g.rt, "focuselemkind"); {
		case x < 5 && (c05IsNumeric(t.K) || t.K == "string"):
			return g.boundary(t, nil)
		case x < 8:
			return g.any(1)
		default:
			return c05Null()
		}
	}
	if !g.plain {
		x := rapid.IntRange(0, 99).Draw(g.rt, "elemkind")
		switch {
		case x < g.hostile:
			return g.any(1)
		case x < g.hostile+12 && (c05IsNumeric(t.K) || t.K == "string"):
			return g.boundary(t, nil)
		case x < g.hostile+15:
			return c05Null()
		}
	}
	return g.plainValue(t, nil, depth)
}

// c05Canon: keys that conf treats as the same key (and a superset of that).
var c05CanonRepl = strings.NewReplacer("_", "", "-", "")

func c05Canon(k string) string {
	return strings.ToLower(c05CanonRepl.Replace(k))
}

// inheritExtras: for ",inherit" children of struct-typed fields of this object,
// the object itself may carry the child's key (added after all declared members;
// never a key that equals, in any spelling, a declared key of this object or one
// already present: conf would merge them).
func (g *c05DocGen) inheritExtras(fs []c05Fld, m *[]c05KV) {
	taken := map[string]bool{}
	for i := range *m {
		taken[c05Canon((*m)[i].K)] = true
	}
	var declared func(fs []c05Fld)
	declared = func(fs []c05Fld) {
		for i := range fs {
			if fs[i].Anon {
				declared(fs[i].T.F)
			}
			taken[c05Canon(fs[i].key(i))] = true
			taken[c05Canon(fs[i].goName(i))] = true
		}
	}
	declared(fs)
	var children func(cs []c05Fld, own *c05JV)
	children = func(cs []c05Fld, own *c05JV) {
		for j := range cs {
			c := &cs[j]
			if c.Anon {
				children(c.T.F, own)
				continue
			}
			if !c.Inh || c.Tag == "" || c.Tag == "-other" {
				continue
			}
			k := c.key(j)
			if taken[c05Canon(k)] {
				continue
			}
			p := 85
			if len(own.lookup(k)) > 0 {
				p = 30
			}
			if rapid.IntRange(0, 99).Draw(g.rt, "inheritprovide") >= p {
				continue
			}
			taken[c05Canon(k)] = true
			cc := *c
			if g.plain || rapid.IntRange(0, 2).Draw(g.rt, "inhkind") != 0 {
				sp, sf := g.plain, g.focus
				g.plain, g.focus = true, false
				*m = append(*m, c05KV{K: k, V: g.plainValue(&cc.T, &cc, 1)})
				g.plain, g.focus = sp, sf
			} else {
				*m = append(*m, c05KV{K: k, V: g.boundary(&cc.T, &cc)})
			}
		}
	}
	var parents func(fs []c05Fld)
	parents = func(fs []c05Fld) {
		for i := range fs {
			f := &fs[i]
			if f.Anon {
				parents(f.T.F)
				continue
			}
			if f.T.K != "struct" || f.Tag == "-other" {
				continue
			}
			for k := range *m {
				if (*m)[k].K == f.key(i) && (*m)[k].V.T == "obj" {
					children(f.T.F, &(*m)[k].V)
					break
				}
			}
		}
	}
	parents(fs)
}

// object: a document for the fields fs (embedded fields are flattened).
func (g *c05DocGen) object(fs []c05Fld, depth int) c05JV {
	var m []c05KV
	g.members(fs, depth, &m)
	g.inheritExtras(fs, &m)
	if !g.plain && rapid.IntRange(0, 9).Draw(g.rt, "extra") == 0 {
		m = append(m, c05KV{K: c05Pick(g.rt, "xk", []string{"unknown", "X", "", "a.b", "emb"}), V: g.any(1)})
	}
	return c05Obj(m...)
}

func (g *c05DocGen) members(fs []c05Fld, depth int, m *[]c05KV) {
	if g.focus && !g.plain {
		// exactly one field of this object gets the hostile treatment, the others are plain
		target := rapid.IntRange(0, len(fs)-1).Draw(g.rt, "focus")
		for i := range fs {
			g.plain, g.focus, g.focused = i != target, false, i == target
			g.member(&fs[i], i, depth, m)
		}
		g.plain, g.focus, g.focused = false, true, false
		return
	}
	for i := range fs {
		g.member(&fs[i], i, depth, m)
	}
}

func (g *c05DocGen) member(f *c05Fld, i, depth int, m *[]c05KV) {
	rt := g.rt
	switch {
	case f.Tag == "-other":
		if !g.plain && rapid.Bool().Draw(rt, "otherpresent") {
			*m = append(*m, c05KV{K: f.goName(i), V: g.any(1)})
		}
		return
	case f.Anon:
		if f.Opt && rapid.IntRange(0, 2).Draw(rt, "emballabsent") == 0 {
			return
		}
		if !g.plain && rapid.IntRange(0, 29).Draw(rt, "embwrap") == 0 {
			*m = append(*m, c05KV{K: f.goName(i), V: g.object(f.T.F, depth+1)})
			return
		}
		if g.focused {
			// the hostile field is one of the embedded struct's children
			g.plain, g.focus, g.focused = false, true, false
			g.members(f.T.F, depth, m)
			g.plain, g.focus, g.focused = false, false, true
			return
		}
		g.members(f.T.F, depth, m)
		return
	}
	key := f.key(i)
	if f.KS == "dotted" && f.Tag != "" && f.Tag != "-other" && f.FK == "" {
		// "parent.child": whatever is generated for the field is put into a nested object
		start := len(*m)
		flat := !g.plain && rapid.IntRange(0, 5).Draw(rt, "dottedflat") == 0 // the parent key holds the value itself, no object
		defer func() {
			pc := strings.SplitN(key, ".", 2)
			for j := start; j < len(*m); j++ {
				if (*m)[j].K == key && flat {
					(*m)[j].K = pc[0]
				} else if (*m)[j].K == key {
					(*m)[j] = c05KV{K: pc[0], V: c05Obj(c05KV{K: pc[1], V: (*m)[j].V})}
				}
			}
		}()
	}
	mayBeAbsent := f.Opt || f.Def != nil || (f.Inh && depth > 1) || (f.Env && f.EV != nil && *f.EV != "")
	var names []string
	var weights []int
	switch {
	case g.plain:
		names, weights = []string{"plain", "absent"}, []int{75, 25}
		if !mayBeAbsent {
			weights[1] = 0
		}
		if f.T.K == "map" && !f.Opt || f.T.K == "struct" && !f.Opt {
			weights[1] = 0
		}
		if f.T.K == "slice" && f.Def != nil {
			weights[0], weights[1] = 50, 50 // declared slice defaults: a rare shape, exercise the default often
		}
		if g.p5 && (!f.Opt || f.Def != nil || len(f.Opts) > 0 || f.Rng != nil || (f.T.K == "struct" && !f.T.P)) {
			weights[1] = 0
		}
	default:
		names = []string{"plain", "absent", "boundary", "illtyped", "null", "dup", "any", "inner"}
		weights = []int{46, 12, 22, 9, 4, 2, 5, 0}
		if g.focused {
			weights = []int{5, 15, 45, 16, 5, 3, 6, 0}
			if f.T.K == "struct" || f.T.K == "slice" || f.T.K == "map" {
				weights[7] = 40 // keep the composite well-formed, make one thing inside it hostile
			}
		}
		if mayBeAbsent && !g.focused {
			weights[1] = 24
		}
		if f.T.K == "slice" && f.Def != nil {
			weights[1] = 50
		}
		if !(c05IsNumeric(f.T.K) || f.T.K == "string" || f.T.K == "dur" || f.T.K == "text") {
			weights[0] += weights[2]
			weights[2] = 0
		}
	}
	switch c05W(rt, "disp", names, weights) {
	case "absent":
	case "plain":
		*m = append(*m, c05KV{K: key, V: g.plainValue(&f.T, f, depth)})
	case "inner":
		sp, sf, sd := g.plain, g.focus, g.focused
		g.plain, g.focus, g.focused = false, true, false
		*m = append(*m, c05KV{K: key, V: g.plainValue(&f.T, f, depth)})
		g.plain, g.focus, g.focused = sp, sf, sd
	case "boundary":
		*m = append(*m, c05KV{K: key, V: g.boundary(&f.T, f)})
	case "illtyped":
		*m = append(*m, c05KV{K: key, V: g.illTyped(&f.T, f)})
	case "null":
		*m = append(*m, c05KV{K: key, V: c05Null()})
	case "dup":
		*m = append(*m, c05KV{K: key, V: g.plainValue(&f.T, f, depth)}, c05KV{K: key, V: g.boundary(&f.T, f)})
	case "any":
		*m = append(*m, c05KV{K: key, V: g.any(0)})
	}
}

// ---------------- cases ----------------

// c05Warm is one earlier call in the same process, through another entry point,
// into an unrelated shape (cross-call history: package-level unmarshalers, caches).
type c05Warm struct {
	EP string   `json:"ep"` // confjson confyaml key yaml json
	S  []c05Fld `json:"s"`
	D  c05JV    `json:"d"`
}

// c05Custom describes a caller-made mapping.NewUnmarshaler(Tag, options...) instance.
type c05Custom struct {
	Tag   string `json:"tag"`
	Str   bool   `json:"str,omitempty"`   // WithStringValues()
	Canon string `json:"canon,omitempty"` // WithCanonicalKeyFunc: "", id, lower, upper
}

func c05CanonFn(name string) func(string) string {
	switch name {
	case "lower":
		return strings.ToLower
	case "upper":
		return strings.ToUpper
	case "id":
		return func(s string) string { return s }
	}
	return nil
}

// mapKeys applies fn to the keys of every object of the document.
func (v c05JV) mapKeys(fn func(string) string) c05JV {
	switch v.T {
	case "arr":
		l := make([]c05JV, len(v.L))
		for i := range v.L {
			l[i] = v.L[i].mapKeys(fn)
		}
		return c05JV{T: "arr", L: l}
	case "obj":
		m := make([]c05KV, len(v.M))
		for i := range v.M {
			m[i] = c05KV{K: fn(v.M[i].K), V: v.M[i].V.mapKeys(fn)}
		}
		return c05JV{T: "obj", M: m}
	}
	return v
}

type c05Case struct {
	W  []c05Warm  `json:"w,omitempty"`  // warm-up calls made before the judged call, in this order
	CU *c05Custom `json:"cu,omitempty"` // EP "custom": an unmarshaler built by the caller
	S  []c05Fld   `json:"s"`
	D  c05JV      `json:"d"`
	EP string     `json:"ep,omitempty"` // entry point: "" = UnmarshalJsonBytes, "key" = UnmarshalKey(map), "reader", "map", "opts1/2", "faultjson/faultyaml"
	FP int        `json:"fp,omitempty"` // fault entry points: the reader fails after FP/1000 of the document; native: seed of the value types
	NM int        `json:"nm,omitempty"` // native: 0 = value types drawn without looking at the struct, 1 = as a caller who knows the struct writes them
	Y  int        `json:"y,omitempty"`  // YAML style
}

var c05AllStyles = []string{"", "", "camel", "camel", "camel", "snake", "title", "kebab", "lower", "usnake", "odd"}

func c05GenWarmups(rt *rapid.T) []c05Warm {
	n := c05W(rt, "nwarm", []string{"0", "1", "2"}, []int{40, 35, 25})
	var ws []c05Warm
	for i := 0; i < int(n[0]-'0'); i++ {
		w := c05Warm{EP: c05Pick(rt, "warmep", []string{"confjson", "confjson", "confyaml", "key", "yaml", "json"})}
		tag := "json"
		if w.EP == "key" {
			tag = "key"
		}
		cfg := &c05GenCfg{tag: tag, keyStyles: c05AllStyles, maxDepth: 2}
		w.S = c05GenFields(rt, cfg, 1, 3, "")
		g := &c05DocGen{rt: rt, plain: rapid.IntRange(0, 3).Draw(rt, "warmplain") != 0, hostile: 6, small: true}
		w.D = g.object(w.S, 1)
		ws = append(ws, w)
	}
	return ws
}

func c05GenCase(rt *rapid.T) c05Case {
	ep := c05W(rt, "ep", []string{"", "key", "reader", "map", "opts1", "opts2", "faultjson", "faultyaml", "native", "custom"}, []int{38, 10, 6, 7, 3, 3, 3, 2, 14, 14})
	return c05GenCaseEP(rt, ep)
}

// c05GenNativeCase: rule "native" — hand-built map documents only (entry point "native").
func c05GenNativeCase(rt *rapid.T) c05Case { return c05GenCaseEP(rt, "native") }

func c05GenCaseEP(rt *rapid.T, ep string) c05Case {
	tag := "json"
	if ep == "key" || ep == "native" {
		tag = "key"
	}
	c := c05Case{EP: ep}
	if ep == "custom" {
		c.CU = &c05Custom{Tag: c05Pick(rt, "cutag", []string{"json", "key", "form", "cfg", "x-y"}),
			Str: rapid.IntRange(0, 9).Draw(rt, "custr") < 5, Canon: c05Pick(rt, "cucanon", []string{"", "", "id", "lower", "upper"})}
		tag = c.CU.Tag
	}
	cfg := &c05GenCfg{tag: tag, keyStyles: c05AllStyles, maxDepth: 3, collHeavy: ep == "native", dotted: c.CU == nil}
	if c.CU != nil && c.CU.Str {
		// string-valued sources carry scalars: flat shapes of scalars and pointers to scalars
		n := rapid.IntRange(1, 6).Draw(rt, "nfields")
		for i := 0; i < n; i++ {
			f := c05Fld{Tag: tag, KS: c05Pick(rt, "keystyle", cfg.keyStyles), T: c05Typ{K: c05GenScalarKind(rt, true), P: rapid.IntRange(0, 7).Draw(rt, "cuptr") == 0}}
			for j := rapid.IntRange(1, 2).Draw(rt, "nwords"); j > 0; j-- {
				f.W = append(f.W, c05Pick(rt, "word", c05Words))
			}
			c05GenOptionsBase(rt, &f)
			c.S = append(c.S, f)
		}
	} else {
		c.S = c05GenFields(rt, cfg, 1, 6, "")
	}
	modeW := []int{25, 20, 10, 45}
	if ep == "native" {
		// a value of the wrong Go type is only observable as a wrong acceptance when everything else is acceptable
		modeW = []int{12, 15, 5, 68}
	}
	mode := c05W(rt, "docmode", []string{"mixed", "plain", "hostile", "focus"}, modeW)
	g := &c05DocGen{rt: rt, plain: mode == "plain", hostile: 6, focus: mode == "focus", big: !strings.HasPrefix(ep, "fault") && c05Rare(rt, "bigcase", 100), wideKeys: true, allStr: c.CU != nil && c.CU.Str}
	if mode == "hostile" {
		g.hostile = 30
	}
	c.D = g.object(c.S, 1)
	c.Y = rapid.IntRange(0, 1).Draw(rt, "yamlstyle")
	c.W = c05GenWarmups(rt)
	if strings.HasPrefix(ep, "fault") || ep == "native" {
		c.FP = rapid.IntRange(0, 999).Draw(rt, "faultpos")
	}
	if ep == "native" && rapid.IntRange(0, 3).Draw(rt, "nativemode") != 0 {
		c.NM = 1
	}
	return c
}

func c05Describe(c *c05Case) string {
	defer func() { _ = recover() }()
	doc := c.D.JSON()
	if len(doc) > 3000 {
		doc = fmt.Sprintf("%s ... (%d bytes) ... %s", doc[:1500], len(doc), doc[len(doc)-300:])
	}
	return fmt.Sprintf("type %v doc %s", c05StructType(c.S), doc)
}
