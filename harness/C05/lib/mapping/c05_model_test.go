package mapping_test

// C05 — unmarshalling of configs and requests is exact, validated and panic-free.
// Harness injected by /verif (overlay); see /verif/DESIGN.md "C05".
//
// This file: the case data model (struct shapes as data, JSON documents as
// trees), reflect.StructOf construction, JSON / YAML rendering.

import (
	"encoding/json"
	"fmt"
	"math/big"
	"os"
	"reflect"
	"sort"
	"strconv"
	"strings"
	"time"
)

// c05Typ describes a Go type as data.
type c05Typ struct {
	K string   `json:"k"`           // bool int int8..int64 uint uint8..uint64 float32 float64 string dur struct slice map
	P bool     `json:"p,omitempty"` // pointer to K
	E *c05Typ  `json:"e,omitempty"` // element of slice / map[string]E
	F []c05Fld `json:"f,omitempty"` // fields of struct
	// Defined (named) types, which reflect.StructOf / SliceOf / MapOf can only contain when
	// they are COMPILED: D = the defined variant of a scalar kind (type c05DString string ...),
	// of []string / []int (c05Tags, c05Nums) or of map[string]string / map[string]bool
	// (c05Attrs, c05Flags); DK = the map key is the defined type c05Key; C = a compiled
	// struct type ("addr", "base") whose fields F describes.
	D  bool   `json:"d,omitempty"`
	DK bool   `json:"dk,omitempty"`
	C  string `json:"c,omitempty"`
}

type (
	c05DString  string
	c05DBool    bool
	c05DInt     int
	c05DInt8    int8
	c05DInt32   int32
	c05DInt64   int64
	c05DUint8   uint8
	c05DUint16  uint16
	c05DUint64  uint64
	c05DFloat32 float32
	c05DFloat64 float64
	c05Key      string
	c05Tags     []string
	c05Nums     []int
	c05Attrs    map[string]string
	c05Flags    map[string]bool

	// compiled struct types (tags for every tag key the rules use)
	c05Base struct {
		TraceId c05DString `json:"traceId,optional" key:"traceId,optional" form:"traceId,optional" cfg:"traceId,optional"`
		Debug   c05DBool   `json:"debug,default=false" key:"debug,default=false" form:"debug,default=false" cfg:"debug,default=false"`
	}
	c05Addr struct {
		Host   c05DString            `json:"host" key:"host" form:"host" cfg:"host"`
		Port   c05DUint16            `json:"port,default=80" key:"port,default=80" form:"port,default=80" cfg:"port,default=80"`
		Level  c05DString            `json:"level,optional,options=debug|info" key:"level,optional,options=debug|info" form:"level,optional,options=debug|info" cfg:"level,optional,options=debug|info"`
		Tags   c05Tags               `json:"tags,optional" key:"tags,optional" form:"tags,optional" cfg:"tags,optional"`
		Levels map[string]c05DString `json:"levels,optional" key:"levels,optional" form:"levels,optional" cfg:"levels,optional"`
		Flags  map[string]c05DBool   `json:"flags,optional" key:"flags,optional" form:"flags,optional" cfg:"flags,optional"`
	}
)

var c05Defined = map[string]reflect.Type{
	"string": reflect.TypeOf(c05DString("")), "bool": reflect.TypeOf(c05DBool(false)),
	"int": reflect.TypeOf(c05DInt(0)), "int8": reflect.TypeOf(c05DInt8(0)), "int32": reflect.TypeOf(c05DInt32(0)), "int64": reflect.TypeOf(c05DInt64(0)),
	"uint8": reflect.TypeOf(c05DUint8(0)), "uint16": reflect.TypeOf(c05DUint16(0)), "uint64": reflect.TypeOf(c05DUint64(0)),
	"float32": reflect.TypeOf(c05DFloat32(0)), "float64": reflect.TypeOf(c05DFloat64(0)),
}

// c05Compiled: reflect type and field description of a compiled struct type.
func c05Compiled(name, tag string) (reflect.Type, []c05Fld) {
	d := func(s string) *string { return &s }
	fld := func(fn, fk string, t c05Typ) c05Fld {
		return c05Fld{W: []string{fk}, FN: fn, FK: fk, T: t, Tag: tag, KS: "camel"}
	}
	switch name {
	case "base":
		a := fld("TraceId", "traceId", c05Typ{K: "string", D: true})
		a.Opt = true
		b := fld("Debug", "debug", c05Typ{K: "bool", D: true})
		b.Def = d("false")
		return reflect.TypeOf(c05Base{}), []c05Fld{a, b}
	case "addr":
		h := fld("Host", "host", c05Typ{K: "string", D: true})
		p := fld("Port", "port", c05Typ{K: "uint16", D: true})
		p.Def = d("80")
		l := fld("Level", "level", c05Typ{K: "string", D: true})
		l.Opt, l.Opts = true, []string{"debug", "info"}
		tg := fld("Tags", "tags", c05Typ{K: "slice", D: true, E: &c05Typ{K: "string"}})
		tg.Opt = true
		lv := fld("Levels", "levels", c05Typ{K: "map", E: &c05Typ{K: "string", D: true}})
		lv.Opt = true
		fl := fld("Flags", "flags", c05Typ{K: "map", E: &c05Typ{K: "bool", D: true}})
		fl.Opt = true
		return reflect.TypeOf(c05Addr{}), []c05Fld{h, p, l, tg, lv, fl}
	}
	panic("c05: unknown compiled type " + name)
}

var c05CompiledTags = map[string]bool{"json": true, "key": true, "form": true, "cfg": true}

type c05Rng struct {
	L  string `json:"l,omitempty"` // "" = open end
	R  string `json:"r,omitempty"`
	LI bool   `json:"li,omitempty"`
	RI bool   `json:"ri,omitempty"`
}

// c05Fld is one struct field: name words, type, tag options.
type c05Fld struct {
	W    []string `json:"w"` // words of the name; Go name = Title(words)+index
	T    c05Typ   `json:"t"`
	Anon bool     `json:"anon,omitempty"` // embedded
	Tag  string   `json:"tag,omitempty"`  // tag key ("json", "form", ...); "" = untagged; "-other" = tagged for another source only
	KS   string   `json:"ks,omitempty"`   // key style: "" none (field name is the key), camel, snake, title, kebab, lower
	Opt  bool     `json:"opt,omitempty"`
	Def  *string  `json:"def,omitempty"`
	Opts []string `json:"opts,omitempty"`
	Rng  *c05Rng  `json:"rng,omitempty"`
	Str  bool     `json:"str,omitempty"`  // ",string"
	Inh  bool     `json:"inh,omitempty"`  // ",inherit": an absent value is looked up in the enclosing objects
	Env  bool     `json:"env,omitempty"`  // ",env=NAME" (NAME is made unique per call: proc.Env memoises lookups)
	EV   *string  `json:"ev,omitempty"`   // value of the environment variable for this case (nil = unset)
	Tag2 []string `json:"tag2,omitempty"` // request structs: further parts (path form header json) the field is tagged for, all optional
	FN   string   `json:"fn,omitempty"`   // fixed Go name and key (fields of compiled struct types)
	FK   string   `json:"fk,omitempty"`
	OD   string   `json:"od,omitempty"`   // "optional=<OD>": optional depending on a sibling key ("k" = both or neither, "!k" = exactly one); Opt is set too
	OB   bool     `json:"ob,omitempty"`   // options written in the bracket form options=[a,b] instead of a|b
}

// Environment variables of env= fields. Names must be fresh for every call of the
// code under test because proc.Env caches the first lookup of a name for the life
// of the process; the value belongs to the case (c05Fld.EV), the name does not.
var (
	c05EnvSalt  int
	c05EnvNames = map[*c05Fld]string{}
	c05EnvSet   []string
)

func c05EnvNewBuild() {
	c05EnvSalt++
	c05EnvNames = map[*c05Fld]string{}
}

func c05EnvAssign(f *c05Fld) string {
	if n, ok := c05EnvNames[f]; ok {
		return n
	}
	n := fmt.Sprintf("C05E_%d_%d", c05EnvSalt, len(c05EnvNames))
	c05EnvNames[f] = n
	if f.EV != nil {
		_ = os.Setenv(n, *f.EV)
		c05EnvSet = append(c05EnvSet, n)
	}
	return n
}

// c05EnvCleanup restores the environment (deferred by every interpreter).
func c05EnvCleanup() {
	for _, n := range c05EnvSet {
		_ = os.Unsetenv(n)
	}
	c05EnvSet = c05EnvSet[:0]
}

// c05JV is a JSON document node.
type c05JV struct {
	T string  `json:"t"`           // null num str bool obj arr
	S string  `json:"s,omitempty"` // number text or string content
	B bool    `json:"b,omitempty"`
	N int     `json:"n,omitempty"` // "rep": an array of N elements cycling through L; "lstr": a string of N bytes repeating S
	M []c05KV `json:"m,omitempty"` // object members in order (duplicates possible)
	L []c05JV `json:"l,omitempty"`
}

type c05KV struct {
	K string `json:"k"`
	V c05JV  `json:"v"`
}

func c05Num(s string) c05JV   { return c05JV{T: "num", S: s} }
func c05Str(s string) c05JV   { return c05JV{T: "str", S: s} }
func c05Bool(b bool) c05JV    { return c05JV{T: "bool", B: b} }
func c05Null() c05JV          { return c05JV{T: "null"} }
func c05Obj(m ...c05KV) c05JV { return c05JV{T: "obj", M: m} }
func c05Arr(l ...c05JV) c05JV { return c05JV{T: "arr", L: l} }

// expand replaces the compact big-value nodes ("rep", "lstr": megabytes are never
// stored in a case) by ordinary arrays and strings.
func (v c05JV) expand() c05JV {
	switch v.T {
	case "lstr":
		pat := v.S
		if pat == "" {
			pat = "a"
		}
		return c05Str(strings.Repeat(pat, v.N/len(pat)+1)[:v.N])
	case "rep":
		pats := make([]c05JV, len(v.L))
		for i := range v.L {
			pats[i] = v.L[i].expand()
		}
		l := make([]c05JV, v.N)
		for i := range l {
			if len(pats) > 0 {
				l[i] = pats[i%len(pats)]
			} else {
				l[i] = c05Null()
			}
		}
		return c05JV{T: "arr", L: l}
	case "arr":
		l := make([]c05JV, len(v.L))
		for i := range v.L {
			l[i] = v.L[i].expand()
		}
		return c05JV{T: "arr", L: l}
	case "obj":
		m := make([]c05KV, len(v.M))
		for i := range v.M {
			m[i] = c05KV{K: v.M[i].K, V: v.M[i].V.expand()}
		}
		return c05JV{T: "obj", M: m}
	}
	return v
}

func (v *c05JV) lookup(k string) []*c05JV {
	var out []*c05JV
	for i := range v.M {
		if v.M[i].K == k {
			out = append(out, &v.M[i].V)
		}
	}
	return out
}

// ---- names and keys ----

func c05Title(w string) string {
	if w == "" {
		return w
	}
	return strings.ToUpper(w[:1]) + w[1:]
}

func (f *c05Fld) goName(i int) string {
	if f.FN != "" {
		return f.FN
	}
	var b strings.Builder
	for _, w := range f.W {
		b.WriteString(c05Title(w))
	}
	b.WriteString(strconv.Itoa(i))
	return b.String()
}

func c05Spell(words []string, i int, style string) string {
	idx := strconv.Itoa(i)
	switch style {
	case "camel":
		var b strings.Builder
		for j, w := range words {
			if j == 0 {
				b.WriteString(w)
			} else {
				b.WriteString(c05Title(w))
			}
		}
		return b.String() + idx
	case "snake":
		return strings.Join(words, "_") + idx
	case "kebab":
		return strings.Join(words, "-") + idx
	case "lower":
		return strings.Join(words, "") + idx
	case "odd": // keys outside [A-Za-z0-9_-]: blanks, format verbs, glob/regexp/shell specials, multi-byte
		// (not "." = nested lookup, "," "(" "[" "\\" = tag grammar, "=" "|" = option grammar)
		return c05OddKeys[(len(words[0])*7+len(words)*3+i)%len(c05OddKeys)] + idx
		ws := make([]string, len(words))
		for j, w := range words {
			ws[j] = c05Title(w)
		}
		return "X-" + strings.Join(ws, "-") + idx
	case "dotted": // "parent.child": the value sits in a nested object of the document (documented lookup of lib/mapping)
		var b strings.Builder
		for j, w := range words {
			if j == 0 {
				b.WriteString(w)
			} else {
				b.WriteString(c05Title(w))
			}
		}
		return "dot" + idx + "." + b.String() + idx
	case "usnake": // Upper_Snake
		ws := make([]string, len(words))
		for j, w := range words {
			ws[j] = c05Title(w)
		}
		return strings.Join(ws, "_") + idx
	default: // title == Go name
		var b strings.Builder
		for _, w := range words {
			b.WriteString(c05Title(w))
		}
		return b.String() + idx
	}
}

// key is the document key the field is looked up under.
func (f *c05Fld) key(i int) string {
	if f.FK != "" {
		return f.FK
	}
	if f.Tag == "" || f.KS == "" {
		return f.goName(i)
	}
	return c05Spell(f.W, i, f.KS)
}

func (f *c05Fld) tagText(i int) string {
	if f.Tag == "" {
		return ""
	}
	if f.Tag == "-other" {
		return `verifother:"x"`
	}
	var parts []string
	if f.KS == "" {
		parts = append(parts, "")
	} else {
		parts = append(parts, f.key(i))
	}
	if f.Opt && f.OD != "" {
		parts = append(parts, "optional="+f.OD)
	} else if f.Opt {
		parts = append(parts, "optional")
	}
	if f.Def != nil {
		d := *f.Def
		if c05IsScalar(f.T.K) {
			// a comma inside a scalar default is written with the tag grammar's escape character
			d = strings.ReplaceAll(d, ",", `\,`)
		}
		parts = append(parts, "default="+d)
	}
	if len(f.Opts) > 0 && f.OB {
		parts = append(parts, "options=["+strings.Join(f.Opts, ",")+"]")
	} else if len(f.Opts) > 0 {
		parts = append(parts, "options="+strings.Join(f.Opts, "|"))
	}
	if f.Rng != nil {
		l, r := "(", ")"
		if f.Rng.LI {
			l = "["
		}
		if f.Rng.RI {
			r = "]"
		}
		parts = append(parts, "range="+l+f.Rng.L+":"+f.Rng.R+r)
	}
	if f.Str {
		parts = append(parts, "string")
	}
	if f.Inh {
		parts = append(parts, "inherit")
	}
	if f.Env {
		parts = append(parts, "env="+c05EnvAssign(f))
	}
	out := f.Tag + ":" + strconv.Quote(strings.Join(parts, ","))
	for _, t2 := range f.Tag2 {
		// the same field is also (optionally) readable from other request parts
		out += " " + t2 + ":" + strconv.Quote(f.key(i)+",optional")
	}
	return out
}

// ---- reflect construction ----

var c05Scalars = map[string]reflect.Type{
	"bool": reflect.TypeOf(false), "string": reflect.TypeOf(""),
	"int": reflect.TypeOf(int(0)), "int8": reflect.TypeOf(int8(0)), "int16": reflect.TypeOf(int16(0)),
	"int32": reflect.TypeOf(int32(0)), "int64": reflect.TypeOf(int64(0)),
	"uint": reflect.TypeOf(uint(0)), "uint8": reflect.TypeOf(uint8(0)), "uint16": reflect.TypeOf(uint16(0)),
	"uint32": reflect.TypeOf(uint32(0)), "uint64": reflect.TypeOf(uint64(0)),
	"float32": reflect.TypeOf(float32(0)), "float64": reflect.TypeOf(float64(0)),
	"dur":  reflect.TypeOf(time.Duration(0)),
	"text": reflect.TypeOf(c05Text{}),
}

// c05Text: a field type with a user callback (encoding.TextUnmarshaler). It stores the
// text, and refuses text that starts with "!".
type c05Text struct{ V string }

func (t *c05Text) UnmarshalText(b []byte) error {
	if strings.HasPrefix(string(b), "!") {
		return fmt.Errorf("c05Text: refused %q", b)
	}
	t.V = string(b)
	return nil
}

func c05IsInt(k string) bool   { return strings.HasPrefix(k, "int") }
func c05IsUint(k string) bool  { return strings.HasPrefix(k, "uint") }
func c05IsFloat(k string) bool { return strings.HasPrefix(k, "float") }
func c05IsNumeric(k string) bool {
	return c05IsInt(k) || c05IsUint(k) || c05IsFloat(k)
}
func c05IsScalar(k string) bool { _, ok := c05Scalars[k]; return ok }

// The width of int and uint is the platform's (64 on amd64, 32 on a GOARCH=386 build: the
// statement's "never wrapped or truncated to fit" then means that 2^31..2^63 must be rejected
// for an int field exactly as for an int32 field).
func c05Bits(k string) int {
	switch k {
	case "int", "uint":
		return strconv.IntSize
	case "int8", "uint8":
		return 8
	case "int16", "uint16":
		return 16
	case "int32", "uint32", "float32":
		return 32
	}
	return 64
}

var c05OddKeys = []string{"user name", "ключ", "k%d", "%s", "a*b?", "k:v", "ünï", "{x}", "$k", "a/b", "~", "^a$", "x;y&z", "emoji😀", "q'uote", "tab\tkey", strings.Repeat("long", 64)}

// c05IntRange returns the inclusive value range of an integer kind.
func c05IntRange(k string) (lo, hi *big.Int) {
	bits := uint(c05Bits(k))
	one := big.NewInt(1)
	if c05IsUint(k) {
		hi = new(big.Int).Sub(new(big.Int).Lsh(one, bits), one)
		return big.NewInt(0), hi
	}
	hi = new(big.Int).Sub(new(big.Int).Lsh(one, bits-1), one)
	lo = new(big.Int).Neg(new(big.Int).Lsh(one, bits-1))
	return lo, hi
}

func (t *c05Typ) rtype() reflect.Type {
	var rt reflect.Type
	switch t.K {
	case "struct":
		if t.C != "" {
			rt, _ = c05Compiled(t.C, "json")
		} else {
			rt = c05StructType(t.F)
		}
	case "slice":
		rt = reflect.SliceOf(t.E.rtype())
		if t.D && !t.E.P && !t.E.D {
			switch t.E.K {
			case "string":
				rt = reflect.TypeOf(c05Tags(nil))
			case "int":
				rt = reflect.TypeOf(c05Nums(nil))
			}
		}
	case "map":
		kt := reflect.TypeOf("")
		if t.DK {
			kt = reflect.TypeOf(c05Key(""))
		}
		rt = reflect.MapOf(kt, t.E.rtype())
		if t.D && !t.DK && !t.E.P && !t.E.D {
			switch t.E.K {
			case "string":
				rt = reflect.TypeOf(c05Attrs(nil))
			case "bool":
				rt = reflect.TypeOf(c05Flags(nil))
			}
		}
	default:
		var ok bool
		if rt, ok = c05Scalars[t.K]; !ok {
			panic("c05: unknown kind " + t.K)
		}
		if dt, has := c05Defined[t.K]; t.D && has {
			rt = dt
		}
	}
	if t.P {
		rt = reflect.PtrTo(rt)
	}
	return rt
}

func c05StructType(fs []c05Fld) reflect.Type {
	sf := make([]reflect.StructField, len(fs))
	for i := range fs {
		f := &fs[i]
		sf[i] = reflect.StructField{
			Name:      f.goName(i),
			Type:      f.T.rtype(),
			Tag:       reflect.StructTag(f.tagText(i)),
			Anonymous: f.Anon,
		}
	}
	return reflect.StructOf(sf)
}

// depth of struct nesting of a shape (1 = flat).
func c05Depth(fs []c05Fld) int {
	d := 0
	for i := range fs {
		if x := c05TypDepth(&fs[i].T); x > d {
			d = x
		}
	}
	return d + 1
}

func c05TypDepth(t *c05Typ) int {
	switch t.K {
	case "struct":
		return c05Depth(t.F)
	case "slice", "map":
		return c05TypDepth(t.E)
	}
	return 0
}

// ---- rendering ----

var c05QuoteRepl = strings.NewReplacer("\u007f", `\u007f`, "\ufeff", `\ufeff`, "\u0085", `\u0085`)

// c05Quote: a JSON string literal that is also a valid YAML double-quoted scalar (DEL, BOM
// and NEL are escaped: yaml.v2 refuses them raw).
func c05Quote(s string) string {
	b, err := json.Marshal(s)
	if err != nil {
		panic(err)
	}
	return c05QuoteRepl.Replace(string(b))
}

func (v *c05JV) json(b *strings.Builder) {
	switch v.T {
	case "null":
		b.WriteString("null")
	case "num":
		b.WriteString(v.S)
	case "str":
		b.WriteString(c05Quote(v.S))
	case "bool":
		b.WriteString(strconv.FormatBool(v.B))
	case "arr":
		b.WriteByte('[')
		for i := range v.L {
			if i > 0 {
				b.WriteByte(',')
			}
			v.L[i].json(b)
		}
		b.WriteByte(']')
	case "obj":
		b.WriteByte('{')
		for i := range v.M {
			if i > 0 {
				b.WriteByte(',')
			}
			b.WriteString(c05Quote(v.M[i].K))
			b.WriteByte(':')
			v.M[i].V.json(b)
		}
		b.WriteByte('}')
	default:
		panic("c05: bad node " + v.T)
	}
}

func (v *c05JV) JSON() string {
	var b strings.Builder
	v.json(&b)
	return b.String()
}

// YAML rendering. Strings and keys are always double-quoted with JSON escapes
// (a subset of YAML's double-quoted escapes); numbers keep their JSON text;
// style 0 = flow (which is JSON-compatible YAML), style 1 = block.
func (v *c05JV) YAML(style int) string {
	var b strings.Builder
	if style == 0 {
		v.yamlFlow(&b)
		b.WriteByte('\n')
		return b.String()
	}
	v.yamlBlock(&b, 0, false)
	return b.String()
}

func (v *c05JV) yamlFlow(b *strings.Builder) {
	switch v.T {
	case "arr":
		b.WriteByte('[')
		for i := range v.L {
			if i > 0 {
				b.WriteString(", ")
			}
			v.L[i].yamlFlow(b)
		}
		b.WriteByte(']')
	case "obj":
		b.WriteByte('{')
		for i := range v.M {
			if i > 0 {
				b.WriteString(", ")
			}
			b.WriteString(c05Quote(v.M[i].K))
			b.WriteString(": ")
			v.M[i].V.yamlFlow(b)
		}
		b.WriteByte('}')
	default:
		v.json(b)
	}
}

func (v *c05JV) yamlBlock(b *strings.Builder, ind int, inSeq bool) {
	pad := strings.Repeat("  ", ind)
	switch {
	case v.T == "obj" && len(v.M) > 0:
		for i := range v.M {
			if !(inSeq && i == 0) {
				b.WriteString(pad)
			}
			b.WriteString(c05Quote(v.M[i].K))
			b.WriteByte(':')
			c := &v.M[i].V
			if (c.T == "obj" && len(c.M) > 0) || (c.T == "arr" && len(c.L) > 0) {
				b.WriteByte('\n')
				c.yamlBlock(b, ind+1, false)
			} else {
				b.WriteByte(' ')
				c.yamlFlow(b)
				b.WriteByte('\n')
			}
		}
	case v.T == "arr" && len(v.L) > 0:
		for i := range v.L {
			b.WriteString(pad)
			b.WriteString("- ")
			c := &v.L[i]
			if c.T == "obj" && len(c.M) > 0 {
				c.yamlBlock(b, ind+1, true)
			} else {
				// nested sequences and scalars in flow form
				c.yamlFlow(b)
				b.WriteByte('\n')
			}
		}
	default:
		b.WriteString(pad)
		v.yamlFlow(b)
		b.WriteByte('\n')
	}
}

// toAny converts the tree to what encoding/json with UseNumber produces
// (last duplicate wins), for the map entry point.
func (v *c05JV) toAny() any {
	switch v.T {
	case "null":
		return nil
	case "num":
		return json.Number(v.S)
	case "str":
		return v.S
	case "bool":
		return v.B
	case "arr":
		out := make([]any, len(v.L))
		for i := range v.L {
			out[i] = v.L[i].toAny()
		}
		return out
	case "obj":
		out := make(map[string]any, len(v.M))
		for i := range v.M {
			out[v.M[i].K] = v.M[i].V.toAny()
		}
		return out
	}
	panic("c05: bad node")
}

// yamlView: what the YAML path hands to the unmarshaler: a YAML null becomes
// the empty string (internal/encoding.toStringKeyMap). Used only to evaluate
// the panic predicates on the YAML entry points.
func (v *c05JV) yamlView() c05JV {
	switch v.T {
	case "null":
		return c05Str("")
	case "arr":
		l := make([]c05JV, len(v.L))
		for i := range v.L {
			l[i] = v.L[i].yamlView()
		}
		return c05JV{T: "arr", L: l}
	case "obj":
		m := make([]c05KV, len(v.M))
		for i := range v.M {
			m[i] = c05KV{K: v.M[i].K, V: v.M[i].V.yamlView()}
		}
		return c05JV{T: "obj", M: m}
	}
	return *v
}

// c05ParseJSON turns JSON text (e.g. a declared default=[{...}]) into a document node.
func c05ParseJSON(text string) (c05JV, bool) {
	dec := json.NewDecoder(strings.NewReader(text))
	dec.UseNumber()
	var v any
	if err := dec.Decode(&v); err != nil {
		return c05JV{}, false
	}
	return c05FromAny(v), true
}

func c05FromAny(v any) c05JV {
	switch x := v.(type) {
	case nil:
		return c05Null()
	case bool:
		return c05Bool(x)
	case string:
		return c05Str(x)
	case json.Number:
		return c05Num(x.String())
	case []any:
		l := make([]c05JV, len(x))
		for i := range x {
			l[i] = c05FromAny(x[i])
		}
		return c05JV{T: "arr", L: l}
	case map[string]any:
		keys := make([]string, 0, len(x))
		for k := range x {
			keys = append(keys, k)
		}
		sort.Strings(keys)
		m := make([]c05KV, 0, len(x))
		for _, k := range keys {
			m = append(m, c05KV{K: k, V: c05FromAny(x[k])})
		}
		return c05JV{T: "obj", M: m}
	}
	return c05Null()
}

func c05Sprint(v reflect.Value) string {
	b, err := json.Marshal(v.Interface())
	if err != nil {
		b = []byte(fmt.Sprintf("%+v", v.Interface()))
	}
	if len(b) > 3000 {
		return fmt.Sprintf("%s ... (%d bytes) ... %s", b[:1500], len(b), b[len(b)-300:])
	}
	return string(b)
}
