package mapping_test

// C05 rule "targets": every entry point with a destination that is not a pointer to a
// struct (the `v any` parameter: nil, values, nil pointers, pointers to other kinds).
// Nothing can be stored there, so the statement leaves only "fails with an error";
// and it must not panic.

import (
	"fmt"
	"strings"
	"testing"

	"github.com/gotid/god/lib/conf"
	"github.com/gotid/god/lib/mapping"
	"verif.local/kit"
)

type c05TargetCase struct {
	T  string `json:"t"`  // kind of destination
	EP string `json:"ep"` // entry point
}

type c05Plain struct {
	A int `json:"a,optional" key:"a,optional"`
}

func c05BadTarget(kind string) any {
	switch kind {
	case "nil":
		return nil
	case "struct-value":
		return c05Plain{}
	case "nil-struct-pointer":
		return (*c05Plain)(nil)
	case "pointer-to-int":
		return new(int)
	case "pointer-to-pointer":
		p := &c05Plain{}
		return &p
	case "pointer-to-map":
		m := map[string]any{}
		return &m
	case "pointer-to-slice":
		s := []c05Plain{}
		return &s
	case "map":
		return map[string]any{}
	case "string":
		return "x"
	case "func":
		return func() {}
	case "chan":
		return make(chan int)
	case "pointer-to-interface":
		var i any = c05Plain{}
		return &i
	}
	return nil
}

func c05InterpTarget(c c05TargetCase) (v kit.Verdict) {
	doc := `{"a":1}`
	t := c05BadTarget(c.T)
	out := c05Call(func() error {
		switch c.EP {
		case "jsonbytes":
			return mapping.UnmarshalJsonBytes([]byte(doc), t)
		case "jsonreader":
			return mapping.UnmarshalJsonReader(strings.NewReader(doc), t)
		case "jsonmap":
			return mapping.UnmarshalJsonMap(map[string]any{"a": 1}, t)
		case "key":
			return mapping.UnmarshalKey(map[string]any{"a": 1}, t)
		case "yamlbytes":
			return mapping.UnmarshalYamlBytes([]byte("a: 1\n"), t)
		case "yamlreader":
			return mapping.UnmarshalYamlReader(strings.NewReader("a: 1\n"), t)
		case "confjson":
			return conf.LoadFromJsonBytes([]byte(doc), t)
		case "confyaml":
			return conf.LoadFromYamlBytes([]byte("a: 1\n"), t)
		case "custom":
			return mapping.NewUnmarshaler("json", mapping.WithStringValues()).Unmarshal(map[string]any{"a": "1"}, t)
		}
		return fmt.Errorf("unknown entry point")
	})
	v.Classes = []string{"target:" + c.T, "ep:" + c.EP}
	v.NonTrivial = true
	switch {
	case out.Panic != nil:
		v.Fail = fmt.Sprintf("P0 %s panicked for a destination of kind %s: %v", c.EP, c.T, out.Panic)
	case out.Err == nil:
		v.Fail = fmt.Sprintf("P1 %s returned nil for a destination of kind %s (nothing can have been stored)", c.EP, c.T)
	}
	return v
}

func TestVerif_C05_targets(t *testing.T) {
	kinds := []string{"nil", "struct-value", "nil-struct-pointer", "pointer-to-int", "pointer-to-pointer", "pointer-to-map",
		"pointer-to-slice", "map", "string", "func", "chan", "pointer-to-interface"}
	eps := []string{"jsonbytes", "jsonreader", "jsonmap", "key", "yamlbytes", "yamlreader", "confjson", "confyaml", "custom"}
	kit.Enumerate(t, "C05", "targets", func(yield func(c05TargetCase) bool) {
		for _, k := range kinds {
			for _, e := range eps {
				if !yield(c05TargetCase{T: k, EP: e}) {
					return
				}
			}
		}
	}, c05InterpTarget)
}
