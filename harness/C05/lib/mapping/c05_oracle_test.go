package mapping_test

// C05 oracle: a validity predicate written from the property statement.
//
// walkStruct visits (shape, document, result) together and collects
//   mustFail : reasons for which the statement forbids a nil return
//              (required field absent, value outside options/range, no exact
//              representation in the field's kind);
//   bad      : differences between an accepted result and the document
//              (only when a result is available);
//   notPlain : the document leaves the domain in which acceptance is demanded
//              (P2): anything ill-typed, null, duplicated, non-canonical or
//              otherwise UNSPECIFIED by the statement;
//   panicPred: narrow predicates of known panics (see FINDINGS.md).
//
// Where the statement is silent (null values, ill-typed values that the code
// coerces, duplicate keys, absent non-optional map/struct without required
// children, ...) nothing is compared.

import (
	"encoding/json"
	"fmt"
	"math"
	"math/big"
	"reflect"
	"regexp"
	"sort"
	"strconv"
	"strings"
	"time"
)

type c05Finding struct {
	Msg   string
	Known string
}

type c05Oracle struct {
	mustFail  []c05Finding
	bad       []c05Finding
	notPlain  bool
	panicPred map[string]bool
	classes   map[string]bool
	hot       bool
	anc       []*c05JV            // enclosing objects of the struct being walked, nearest first (for ",inherit")
	canonKeys bool                // conf: keys are compared in canonical form (userName == user_name == UserName)
	allStr    bool                // WithStringValues(): every scalar comes as a string (as with form / path / header values)
	keyFn     func(string) string // WithCanonicalKeyFunc: the declared key is looked up as keyFn(key)
	native    bool                // the document is a hand-built Go map (native value types): acceptance is never demanded
	numText   bool                // JSON-text and map sources: an accepted NUMBER in a string field must still denote that number
}

func c05NewOracle() *c05Oracle {
	return &c05Oracle{panicPred: map[string]bool{}, classes: map[string]bool{}}
}

func (o *c05Oracle) docKey(k string) string {
	if o.keyFn != nil {
		return o.keyFn(k)
	}
	return k
}

func (o *c05Oracle) class(c string)  { o.classes[c] = true }
func (o *c05Oracle) unspec(c string) { o.notPlain = true; o.classes[c] = true }
func (o *c05Oracle) fail(known, f string, a ...any) {
	o.mustFail = append(o.mustFail, c05Finding{fmt.Sprintf(f, a...), known})
}
func (o *c05Oracle) mismatch(known, f string, a ...any) {
	o.bad = append(o.bad, c05Finding{fmt.Sprintf(f, a...), known})
}
func (o *c05Oracle) classList() []string {
	out := make([]string, 0, len(o.classes))
	for k := range o.classes {
		out = append(out, k)
	}
	sort.Strings(out)
	return out
}

var (
	c05ReCanonInt = regexp.MustCompile(`^-?(0|[1-9][0-9]*)$`)
	c05ReJSONNum  = regexp.MustCompile(`^-?(0|[1-9][0-9]*)(\.[0-9]+)?([eE][-+]?[0-9]+)?$`)
	c05ReDecFloat = regexp.MustCompile(`^[-+]?([0-9]+(\.[0-9]*)?|\.[0-9]+)([eE][-+]?[0-9]+)?$`)
	c05ReExp      = regexp.MustCompile(`[eE]([-+]?[0-9]+)$`)
	c05MaxInt64   = new(big.Int).SetInt64(math.MaxInt64)
	c05MinInt64   = new(big.Int).SetInt64(math.MinInt64)
	c05MaxUint64  = new(big.Int).SetUint64(math.MaxUint64)
)

// route of a number into a field, which decides which known root cause a
// silent overflow belongs to.
const (
	c05RouteDirect = "jsonnumber-overflow" // processFieldPrimitiveWithJSONNumber
	c05RouteSet    = "setvalue-overflow"   // setValue / validateAndSetValue -> setMatchedPrimitiveValue
)

// c05Exact parses a JSON number text exactly; ok=false when the exponent is
// too large to expand (then nothing is compared).
func c05Exact(text string) (*big.Rat, bool) {
	if m := c05ReExp.FindStringSubmatch(text); m != nil {
		e, err := strconv.Atoi(m[1])
		if err != nil || e > 5000 || e < -5000 {
			return nil, false
		}
	}
	if len(text) > 6000 {
		return nil, false
	}
	r, ok := new(big.Rat).SetString(text)
	return r, ok
}

// scanDoc: a number token that is not JSON makes the whole document malformed
// (every entry point may reject it); such a document is never "plain".
func (o *c05Oracle) scanDoc(v *c05JV) {
	switch v.T {
	case "num":
		if !c05ReJSONNum.MatchString(v.S) {
			o.unspec("malformed-number-token")
		}
	case "arr":
		for i := range v.L {
			o.scanDoc(&v.L[i])
		}
	case "obj":
		for i := range v.M {
			o.scanDoc(&v.M[i].V)
		}
	}
}

func (o *c05Oracle) walkStruct(fs []c05Fld, obj *c05JV, val reflect.Value, path string) {
	if path == "" {
		o.scanDoc(obj)
	}
	if len(fs) >= 17 {
		o.class("size:fields>=17")
	}
	for i := range fs {
		f := &fs[i]
		var fv reflect.Value
		if val.IsValid() {
			fv = val.Field(i)
		}
		p := path + "." + f.goName(i)
		switch {
		case f.Tag == "-skip":
			// the interpreter found the field's value outside what the statement determines
			o.unspec("field-not-judged")
			continue
		case f.Tag == "-other":
			// not addressed by this source: stays zero whatever the document says
			if fv.IsValid() && !fv.IsZero() {
				o.mismatch("", "%s: field without a tag for this source was written: %s", p, c05Sprint(fv))
			}
			continue
		case f.Anon:
			o.class("embedded")
			if len(obj.lookup(f.goName(i))) > 0 {
				o.unspec("embedded-wrapped")
				continue
			}
			if f.Opt {
				// all-or-nothing semantics of optional embedded structs: UNSPECIFIED (acceptance is never
				// demanded, a wholly absent one is not judged)
				o.unspec("embedded-optional")
				sub := c05NewOracle()
				sub.walkStruct(f.T.F, obj, reflect.Value{}, p)
				for id := range sub.panicPred {
					o.panicPred[id] = true
				}
				// ... but when the document GIVES one of its members the embedded struct is there, and an
				// accepted result is held to the statement member by member: a present member equals the
				// document, an absent one holds its declared default (zero when optional). Only for plain
				// members: env= / inherit / nested embedded members are looked up differently by the code.
				if fv.IsValid() && c05EmbeddedJudgeable(o, f.T.F, obj) {
					o.class("embedded-optional:partly-present")
					// (F21, repaired by 787c2c8: processAnonymousFieldOptional looked the members up under the
					// declared key, not under the unmarshaler's canonical form of it, and left them zero)
					for j := range f.T.F {
						k := f.T.F[j].key(j)
						if o.docKey(k) != k || o.canonKeys && c05ConfCamel(k) != k {
							o.class("embedded-optional:member-key-not-canonical")
						}
					}
					ev := fv
					if ev.Kind() == reflect.Ptr {
						if ev.IsNil() {
							o.mismatch("", "%s: the document gives members of the optional embedded struct, pointer left nil", p)
							continue
						}
						ev = ev.Elem()
					}
					ex := c05NewOracle()
					ex.canonKeys, ex.allStr, ex.keyFn, ex.native, ex.numText = o.canonKeys, o.allStr, o.keyFn, o.native, o.numText
					ex.walkStruct(f.T.F, obj, ev, p)
					o.bad = append(o.bad, ex.bad...)
				}
				continue
			}
			ev := fv
			if f.T.P && ev.IsValid() {
				if ev.IsNil() {
					o.mismatch("", "%s: embedded pointer left nil", p)
					ev = reflect.Value{}
				} else {
					ev = ev.Elem()
				}
			}
			o.walkStruct(f.T.F, obj, ev, p)
			continue
		}
		if f.T.P && (f.T.K == "map" || f.T.K == "slice") {
			// (F18, repaired by 7387cb9: fillMap / fillSlice / fillSliceFromString used the pointer type as
			// if it were the map / slice type and panicked; any panic there is a VIOLATION again)
			o.class("pointer-to-collection")
		}
		if f.KS == "dotted" && f.Tag != "" && f.FK == "" {
			// a key "parent.child" is looked up in the nested object `parent` by the code; the
			// statement does not speak about such keys: UNSPECIFIED, only the predicates of known panics
			o.unspec("dotted-key")
			if o.native {
				// (F22, repaired by b8457b6: recursiveValuer.Value merged an enclosing object's map INTO the
				// document's own map; a typed nil map there panicked "assignment to entry in nil map")
				o.class("dotted-key:native")
			}
			pc := strings.SplitN(f.key(i), ".", 2)
			if ps := obj.lookup(pc[0]); len(pc) == 2 && len(ps) == 1 && ps[0].T == "obj" {
				for _, cv := range ps[0].lookup(pc[1]) {
					if cv.T != "null" {
						sub := c05NewOracle()
						sub.native = o.native
						sub.value(&f.T, f, cv, reflect.Value{}, 0, p)
						for id := range sub.panicPred {
							o.panicPred[id] = true
						}
					}
				}
			}
			continue
		}
		if f.Env && f.EV != nil && *f.EV != "" {
			// documented by the package's tests: a set environment variable overrides the document
			o.class("env-set")
			o.envValue(f, *f.EV, fv, p)
			continue
		}
		if f.Env {
			o.class("env-unset")
		}
		if f.OD != "" {
			// optional=<key> / optional=!<key>: when such a field may be absent is not fixed by the
			// statement (acceptance is never demanded); a PRESENT value is still held to exactness,
			// options= and range=, an absent one may only leave zero or the default
			o.unspec("optional-dep")
		}
		ms := obj.lookup(o.docKey(f.key(i)))
		if len(ms) == 0 && f.Inh {
			// documented by the package's tests: the nearest enclosing object that has the key provides the value
			for _, a := range o.anc {
				ms = a.lookup(o.docKey(f.key(i)))
				if o.canonKeys {
					// through conf a differently spelled key of an enclosing object is the same key
					ms = nil
					for j := range a.M {
						if c05Canon(a.M[j].K) == c05Canon(f.key(i)) {
							ms = append(ms, &a.M[j].V)
						}
					}
				}
				if len(ms) > 0 {
					o.class("inherited-from-enclosing-object")
					break
				}
			}
		}
		switch len(ms) {
		case 0:
			o.absent(f, fv, p)
		case 1:
			if ms[0].T == "null" {
				// null is not covered by the statement (the code: error, or skipped when
				// optional). Whatever is decided, an accepted struct can only hold the
				// zero value or the declared default there.
				o.unspec("null-field")
				o.nullField(f, fv, p)
				continue
			}
			saved := o.anc
			o.anc = append([]*c05JV{obj}, saved...)
			o.value(&f.T, f, ms[0], fv, 0, p)
			o.anc = saved
		default:
			o.unspec("duplicate-key")
			// which duplicate wins is not specified; still collect the panic predicates of each
			for _, m := range ms {
				if m.T == "null" {
					continue
				}
				sub := c05NewOracle()
				sub.value(&f.T, f, m, reflect.Value{}, 0, p)
				for id := range sub.panicPred {
					o.panicPred[id] = true
				}
			}
		}
	}
}

// c05ConfCamel: the camelCase form conf gives a key made of words, digits, "_" (written from
// the statement's "snake_case or a different initial letter case": userName == user_name == UserName).
func c05ConfCamel(k string) string {
	var b strings.Builder
	up, first := false, true
	for _, r := range k {
		switch {
		case r == '_':
			up = !first
			continue
		case first && r >= 'A' && r <= 'Z':
			r += 'a' - 'A'
		case up && r >= 'a' && r <= 'z':
			r -= 'a' - 'A'
		}
		up, first = false, false
		b.WriteRune(r)
	}
	return b.String()
}

// c05EmbeddedJudgeable: every member of the optional embedded struct is a plain, tagged, named
// field and the document gives exactly one non-null value for at least one of them (none twice).
func c05EmbeddedJudgeable(o *c05Oracle, fs []c05Fld, obj *c05JV) bool {
	present := false
	for i := range fs {
		m := &fs[i]
		if m.Anon || m.Env || m.Inh || m.OD != "" || m.KS == "dotted" || m.Tag == "" || m.Tag == "-other" || m.Tag == "-skip" {
			return false
		}
		ms := obj.lookup(o.docKey(m.key(i)))
		if len(ms) > 1 {
			return false
		}
		if len(ms) == 1 {
			if ms[0].T == "null" {
				return false
			}
			present = true
		}
	}
	return present
}

// envValue: the field's value comes from the environment variable (text).
func (o *c05Oracle) envValue(f *c05Fld, text string, fv reflect.Value, p string) {
	t := &f.T
	p += "(env)"
	if !c05IsScalar(t.K) {
		o.unspec("env-on-composite")
		return
	}
	if t.P {
		// the env route does not allocate pointers: UNSPECIFIED (P0 still applies)
		o.unspec("env-on-pointer")
		if c05IsNumeric(t.K) || t.K == "dur" {
			o.panicPred["env-pointer-panic"] = true
		}
		return
	}
	switch t.K {
	case "string":
		v := c05Str(text)
		o.scalar(t, &c05Fld{T: f.T, Opts: f.Opts, Rng: f.Rng}, &v, fv, 0, p)
	case "bool":
		b, err := strconv.ParseBool(text)
		switch {
		case err != nil:
			o.class("env-bad-bool")
			o.fail("", "%s: %q is not a bool", p, text)
		case text == "true" || text == "false":
			o.expectBool(fv, b, p)
		default:
			o.unspec("env-bool-spelling")
		}
	case "dur":
		d, err := time.ParseDuration(text)
		if err != nil {
			o.class("bad-duration")
			o.fail("", "%s: %q is not a duration", p, text)
			return
		}
		if fv.IsValid() && time.Duration(fv.Int()) != d {
			o.mismatch("", "%s: environment %q (%d ns), field %d ns", p, text, int64(d), fv.Int())
		}
	default:
		if t.K == "int64" {
			// (F12, repaired by 85f7f67: the env route took every int64 field for a duration)
			if _, err := time.ParseDuration(text); err == nil {
				o.panicPred["env-int64-duration-panic"] = true
			}
		}
		o.scalarNumber(t.K, &c05Fld{T: f.T, Opts: f.Opts, Rng: f.Rng}, text, c05RouteDirect, fv, p)
	}
}

func (o *c05Oracle) nullField(f *c05Fld, fv reflect.Value, p string) {
	if !fv.IsValid() || fv.IsZero() {
		return
	}
	if fv.Kind() == reflect.Ptr && fv.Elem().IsZero() {
		return // a pointer to the zero value (YAML null reaches the unmarshaler as "")
	}
	if fv.Kind() == reflect.Ptr && (fv.Elem().Kind() == reflect.Slice || fv.Elem().Kind() == reflect.Map) && fv.Elem().Len() == 0 {
		return // a pointer to an empty collection
	}
	switch fv.Kind() {
	case reflect.Slice, reflect.Map:
		if fv.Len() == 0 {
			return
		}
	}
	if f.T.K == "struct" {
		// (a typed nil map is taken for an empty object): every child as if absent
		sv := fv
		if sv.Kind() == reflect.Ptr {
			sv = sv.Elem()
		}
		sub := c05NewOracle()
		empty := c05Obj()
		sub.walkStruct(f.T.F, &empty, sv, p)
		o.bad = append(o.bad, sub.bad...)
		return
	}
	if f.Def != nil && c05IsScalar(f.T.K) {
		dv := fv
		if f.T.P {
			dv = dv.Elem()
		}
		sub := c05NewOracle()
		sub.scalarText(f.T.K, *f.Def, dv, p, false)
		if len(sub.bad) == 0 {
			return
		}
	}
	o.mismatch("", "%s: document null, field holds %s (neither zero nor the declared default)", p, c05Sprint(fv))
}

// sliceDefault: the two unambiguous default syntaxes that are generated,
// "[x,y]" for string elements and "[1,2]" for numeric elements.
func (o *c05Oracle) sliceDefault(f *c05Fld, fv reflect.Value, p string) {
	t := &f.T
	def := *f.Def
	if t.E.K == "struct" {
		// default=[{...},{}] on a slice of structs: the field holds what a document with
		// that array would give (the elements' own absent fields take their defaults)
		node, ok := c05ParseJSON(def)
		if !ok || node.T != "arr" {
			o.unspec("absent-slice-default-unspecified")
			return
		}
		o.class("absent-slice-of-structs-default")
		if f.Opt && fv.IsValid() && fv.Len() == 0 {
			return
		}
		saved := o.anc
		o.anc = nil
		o.value(t, nil, &node, fv, 0, p+"(default)")
		o.anc = saved
		return
	}
	if !strings.HasPrefix(def, "[") || !strings.HasSuffix(def, "]") || t.E.P || !(t.E.K == "string" || c05IsNumeric(t.E.K)) {
		o.unspec("absent-slice-default-unspecified")
		return
	}
	var items []string
	if inner := strings.TrimSpace(def[1 : len(def)-1]); inner != "" {
		for _, it := range strings.Split(inner, ",") {
			items = append(items, strings.TrimSpace(it))
		}
	}
	o.class("absent-slice-default")
	if !fv.IsValid() {
		return
	}
	if f.Opt && fv.Len() == 0 {
		return
	}
	if fv.Len() != len(items) {
		o.mismatch("", "%s: absent, default=%s declared, field has %d elements: %s", p, def, fv.Len(), c05Sprint(fv))
		return
	}
	for i, it := range items {
		o.scalarText(t.E.K, it, fv.Index(i), fmt.Sprintf("%s(default)[%d]", p, i), false)
	}
}

func (o *c05Oracle) absent(f *c05Fld, fv reflect.Value, p string) {
	t := &f.T
	if t.P && (t.K == "slice" || t.K == "map") {
		if fv.IsValid() && fv.Kind() == reflect.Ptr {
			if fv.IsNil() {
				fv = reflect.Zero(fv.Type().Elem()) // nothing stored: an empty collection
			} else {
				fv = fv.Elem()
			}
		}
	}
	constrained := f.Def != nil || f.Opt
	_ = constrained
	switch {
	case c05IsScalar(t.K):
		switch {
		case f.Def != nil:
			o.class("absent-default")
			if f.Opt {
				// both declared: default or zero are acceptable readings
				o.class("absent-default+optional")
				if fv.IsValid() && fv.IsZero() {
					return
				}
			}
			if !fv.IsValid() {
				return
			}
			dv := fv
			if t.P {
				if dv.IsNil() {
					o.mismatch("", "%s: absent, default=%s declared, pointer left nil", p, *f.Def)
					return
				}
				dv = dv.Elem()
			}
			o.scalarText(t.K, *f.Def, dv, p+"(default)", false)
		case f.Opt:
			o.class("absent-optional")
			if fv.IsValid() && !fv.IsZero() {
				o.mismatch("", "%s: absent optional field is not zero: %s", p, c05Sprint(fv))
			}
		default:
			o.class("absent-required")
			o.fail("", "%s: required field absent", p)
		}
	case t.K == "slice":
		switch {
		case f.Def != nil:
			o.sliceDefault(f, fv, p)
		case f.Opt:
			o.class("absent-optional")
			if fv.IsValid() && fv.Len() != 0 {
				o.mismatch("", "%s: absent optional slice is not empty: %s", p, c05Sprint(fv))
			}
		default:
			o.class("absent-required")
			o.fail("", "%s: required slice absent", p)
		}
	case t.K == "map":
		if f.Opt {
			o.class("absent-optional")
		} else {
			// the code accepts an absent non-optional map as empty; whether a map
			// is "required" is not fixed by the statement: UNSPECIFIED
			o.unspec("absent-nonoptional-map")
		}
		if fv.IsValid() && fv.Len() != 0 {
			o.mismatch("", "%s: absent map is not empty: %s", p, c05Sprint(fv))
		}
	case t.K == "struct":
		if f.Opt {
			o.class("absent-optional")
			if fv.IsValid() && !fv.IsZero() {
				o.mismatch("", "%s: absent optional struct is not zero: %s", p, c05Sprint(fv))
			}
			return
		}
		// non-optional struct absent: every child is absent too. A required
		// child makes it fail; otherwise children take defaults / stay zero.
		o.notPlain = true
		o.class("absent-nonoptional-struct")
		sv := fv
		if t.P && sv.IsValid() {
			if sv.IsNil() {
				sv = reflect.Value{}
			} else {
				sv = sv.Elem()
			}
		}
		empty := c05Obj()
		saved := o.anc
		o.anc = nil
		o.walkStruct(t.F, &empty, sv, p)
		o.anc = saved
	}
}

// value checks a present, non-null document value against type t.
// pos: 0 = struct field, 1 = slice element, 2 = map value.
func (o *c05Oracle) value(t *c05Typ, f *c05Fld, v *c05JV, fv reflect.Value, pos int, p string) {
	if t.P && fv.IsValid() {
		if fv.Kind() != reflect.Ptr || fv.IsNil() {
			illTypedColl := t.K == "slice" && v.T != "arr" || t.K == "map" && v.T != "obj" // (e.g. the JSON text "null" for a *map field)
			if fv.Kind() == reflect.Ptr && !illTypedColl {
				o.mismatch("", "%s: present value %s but pointer left nil", p, v.JSON())
			}
			fv = reflect.Value{}
		} else {
			fv = fv.Elem()
		}
	}
	switch t.K {
	case "struct":
		if v.T != "obj" {
			o.unspec("illtyped-struct")
			if pos == 1 {
				o.panicPred["fillslice-struct-elem-panic"] = true
			}
			return
		}
		saved := o.anc
		if pos == 0 {
			o.class("nested-struct")
		} else {
			o.class("struct-in-collection")
			o.anc = nil // elements of slices and maps are unmarshalled on their own: nothing to inherit from
		}
		o.walkStruct(t.F, v, fv, p)
		o.anc = saved
	case "slice":
		if v.T != "arr" {
			o.unspec("illtyped-slice")
			if pos != 0 {
				o.panicPred["fillslice-nonslice-panic"] = true
			}
			if pos == 0 && v.T == "str" {
				var sl []any
				if json.NewDecoder(strings.NewReader(v.S)).Decode(&sl) == nil {
					if t.E.P {
						o.panicPred["fillslicefromstring-ptr-elem-panic"] = true
					}
					for _, e := range sl {
						if e == nil {
							o.panicPred["fillslicefromstring-null-elem-panic"] = true
						}
						if _, isArr := e.([]any); isArr && t.E.K == "slice" {
							o.panicPred["fillslicefromstring-nested-array-panic"] = true
						}
					}
				}
			}
			return
		}
		hasNull := false
		for i := range v.L {
			if v.L[i].T == "null" {
				hasNull = true
			}
		}
		if hasNull {
			o.unspec("null-element")
			fv = reflect.Value{}
		}
		if fv.IsValid() && fv.Len() != len(v.L) {
			o.mismatch("", "%s: document has %d elements, field has %d", p, len(v.L), fv.Len())
			fv = reflect.Value{}
		}
		if len(v.L) == 0 {
			o.class("empty-array")
		}
		if t.E.D && !t.E.P && t.E.K == "bool" && len(v.L) > 0 {
			// []DefinedBool: a decoded bool is not assignable to the element type, the code answers
			// with a type-mismatch error (allowed; numbers and strings go through setValue and work)
			o.unspec("defined-bool-element")
		}
		if len(v.L) >= 255 {
			o.class("size:array>=255")
		}
		if len(v.L) >= 65535 {
			o.class("size:array>=64K")
		}
		if f != nil && (len(f.Opts) > 0 || f.Rng != nil) {
			o.unspec("constraint-on-slice")
		}
		for i := range v.L {
			if v.L[i].T == "null" {
				continue // skipped by the code; nothing specified
			}
			if v.L[i].T == "obj" && t.E.K != "map" && t.E.K != "struct" && t.E.K != "slice" {
				o.panicPred["fillslicevalue-object-elem-panic"] = true
			}
			var ev reflect.Value
			if fv.IsValid() {
				ev = fv.Index(i)
			}
			o.value(t.E, nil, &v.L[i], ev, 1, fmt.Sprintf("%s[%d]", p, i))
		}
	case "map":
		if v.T != "obj" {
			o.unspec("illtyped-map")
			return
		}
		if t.DK {
			// a defined key type (map[Key]T): the code rejects it (string keys are not assignable): allowed
			o.unspec("defined-map-key")
		}
		seen := map[string]int{}
		for i := range v.M {
			seen[v.M[i].K]++
		}
		dup := false
		for _, n := range seen {
			if n > 1 {
				dup = true
			}
		}
		if dup {
			o.unspec("duplicate-key")
			fv = reflect.Value{}
		}
		if fv.IsValid() && fv.Len() != len(seen) {
			o.mismatch("", "%s: document has %d entries, field has %d", p, len(seen), fv.Len())
			fv = reflect.Value{}
		}
		for i := range v.M {
			m := &v.M[i]
			if seen[m.K] > 1 {
				// which of the duplicates the decoder keeps is not specified: only the panic predicates
				sub := c05NewOracle()
				if m.V.T != "null" {
					sub.value(t.E, nil, &m.V, reflect.Value{}, 2, p)
				}
				for id := range sub.panicPred {
					o.panicPred[id] = true
				}
				continue
			}
			if t.E.P && c05IsScalar(t.E.K) && m.V.T != "null" {
				o.panicPred["generatemap-ptr-elem-panic"] = true
				o.notPlain = true
			}
			if m.V.T == "null" {
				o.unspec("null-element")
				if t.E.K == "slice" {
					o.panicPred["fillslice-nonslice-panic"] = true
				}
				continue
			}
			var ev reflect.Value
			if fv.IsValid() {
				ev = fv.MapIndex(reflect.ValueOf(m.K).Convert(fv.Type().Key()))
				if !ev.IsValid() {
					o.mismatch("", "%s: key %q of the document missing in the field", p, m.K)
				}
			}
			o.value(t.E, nil, &m.V, ev, 2, fmt.Sprintf("%s[%q]", p, m.K))
		}
	default:
		o.scalar(t, f, v, fv, pos, p)
	}
}

func (o *c05Oracle) scalar(t *c05Typ, f *c05Fld, v *c05JV, fv reflect.Value, pos int, p string) {
	k := t.K
	str := f != nil && f.Str || o.allStr
	sized := c05IsNumeric(k)
	constrained := f != nil && (len(f.Opts) > 0 || f.Rng != nil)
	switch k {
	case "bool":
		if str {
			if v.T == "str" && (v.S == "true" || v.S == "false") {
				o.class("string-option")
				o.expectBool(fv, v.S == "true", p)
				return
			}
			o.unspec("illtyped-scalar")
			return
		}
		if v.T != "bool" {
			o.unspec("illtyped-scalar")
			return
		}
		o.expectBool(fv, v.B, p)
	case "string":
		if v.T != "str" {
			o.unspec("illtyped-scalar")
			if constrained {
				o.hot = true
			}
			if v.T == "num" && str && f != nil && len(f.Opts) > 0 && pos == 0 {
				o.panicPred["stringoption-number-options-panic"] = true
			}
			if v.T == "num" && o.numText && fv.IsValid() {
				// whether a number is taken for a string field is not specified; if it is, the
				// field must still denote that number (65 may be stored as "65", never as "A")
				if want, ok := c05Exact(v.S); ok {
					got, ok2 := new(big.Rat).SetString(fv.String())
					if !c05ReDecFloat.MatchString(fv.String()) || !ok2 || got.Cmp(want) != 0 {
						o.mismatch("", "%s: document number %s, string field holds %q", p, v.S, fv.String())
					}
				}
			}
			return
		}
		if f != nil && len(f.Opts) > 0 {
			in := false
			for _, op := range f.Opts {
				if op == v.S {
					in = true
				}
			}
			if !in {
				o.hot = true
				o.class("outside-options")
				o.fail("", "%s: value %q outside options %v", p, v.S, f.Opts)
				return
			}
			o.class("inside-options")
		}
		if f != nil && f.Rng != nil {
			o.unspec("range-on-string")
			return
		}
		if len(v.S) >= 100 {
			o.class("size:string>=100")
		}
		if len(v.S) >= 65535 {
			o.class("size:string>=64K")
		}
		if fv.IsValid() && fv.String() != v.S {
			a, b := v.S, fv.String()
			if len(a) > 200 {
				a = fmt.Sprintf("%s...(%d bytes)", a[:100], len(a))
			}
			if len(b) > 200 {
				b = fmt.Sprintf("%s...(%d bytes)", b[:100], len(b))
			}
			o.mismatch("", "%s: document %q, field %q", p, a, b)
		}
	case "text":
		// user callback: UnmarshalText gets the string; its error must surface
		if pos != 0 || v.T != "str" {
			o.unspec("illtyped-scalar")
			return
		}
		o.class("callback:text-unmarshaler")
		if strings.HasPrefix(v.S, "!") {
			o.class("callback:returns-error")
			o.fail("", "%s: UnmarshalText refused %q", p, v.S)
			return
		}
		if fv.IsValid() && fv.Field(0).String() != v.S {
			o.mismatch("", "%s: document %q, UnmarshalText stored %q", p, v.S, fv.Field(0).String())
		}
	case "dur":
		if pos != 0 {
			o.unspec("duration-element")
			return
		}
		if str {
			o.unspec("string-option-duration")
			return
		}
		switch v.T {
		case "str":
			d, err := time.ParseDuration(v.S)
			if err != nil {
				o.class("bad-duration")
				o.fail("", "%s: %q is not a duration", p, v.S)
				return
			}
			if fv.IsValid() && time.Duration(fv.Int()) != d {
				o.mismatch("", "%s: document %q (%d ns), field %d ns", p, v.S, int64(d), fv.Int())
			}
		case "num":
			o.unspec("illtyped-scalar")
			o.panicPred["duration-number-panic"] = true
		default:
			o.unspec("illtyped-scalar")
		}
	default:
		// numeric kinds
		var text string
		route := c05RouteDirect
		switch {
		case v.T == "num":
			text = v.S
			if pos != 0 || str {
				route = c05RouteSet
			}
			if str {
				o.notPlain = true // a bare number for a ",string" field: accepted by the code, not demanded
				if f != nil && len(f.Opts) > 0 && pos == 0 {
					o.panicPred["stringoption-number-options-panic"] = true
				}
			}
		case v.T == "str" && str:
			text = v.S
			route = c05RouteSet
			o.class("string-option")
		default:
			o.unspec("illtyped-scalar")
			if sized || constrained {
				o.hot = true
			}
			return
		}
		o.scalarNumber(k, f, text, route, fv, p)
	}
}

func (o *c05Oracle) expectBool(fv reflect.Value, want bool, p string) {
	if fv.IsValid() && fv.Bool() != want {
		o.mismatch("", "%s: document %v, field %v", p, want, fv.Bool())
	}
}

// scalarText: the declared default of a scalar field.
func (o *c05Oracle) scalarText(k, text string, fv reflect.Value, p string, _ bool) {
	switch k {
	case "bool":
		if text == "true" || text == "false" {
			o.expectBool(fv, text == "true", p)
		}
	case "string":
		if fv.String() != text {
			o.mismatch("", "%s: want %q, field %q", p, text, fv.String())
		}
	case "dur":
		d, err := time.ParseDuration(text)
		if err == nil && time.Duration(fv.Int()) != d {
			o.mismatch("", "%s: want %s, field %d ns", p, text, fv.Int())
		}
	default:
		sub := c05NewOracle()
		sub.scalarNumber(k, nil, text, c05RouteSet, fv, p)
		// a default that does not fit is outside the generated domain; only
		// exactness of what was stored is reported
		o.bad = append(o.bad, sub.bad...)
		for _, m := range sub.mustFail {
			o.bad = append(o.bad, c05Finding{"default not representable but stored: " + m.Msg, m.Known})
		}
	}
}

func (o *c05Oracle) scalarNumber(k string, f *c05Fld, text, route string, fv reflect.Value, p string) {
	constrained := f != nil && (len(f.Opts) > 0 || f.Rng != nil)
	if c05IsFloat(k) {
		if !c05ReDecFloat.MatchString(text) {
			o.unspec("odd-number-text")
			return
		}
		if !c05ReJSONNum.MatchString(text) {
			o.notPlain = true
		}
		r64, err := strconv.ParseFloat(text, 64)
		if err != nil {
			o.hot = true
			o.class("float-out-of-range")
			o.fail("", "%s: %s has no finite float64 representation", p, text)
			return
		}
		want := r64
		var alt float64
		if k == "float32" {
			f32 := float32(r64)
			if math.IsInf(float64(f32), 0) {
				o.hot = true
				o.class("float32-overflow")
				o.fail(route, "%s: %s overflows float32", p, text)
				return
			}
			if math.Abs(r64) > 3.4e38 {
				o.hot = true
				o.class("float32-at-max")
			}
			want = float64(f32)
			a, _ := strconv.ParseFloat(text, 32)
			alt = a
		} else {
			alt = want
			if math.Abs(r64) > 1.7e308 {
				o.hot = true
				o.class("float64-at-max")
			}
		}
		if !o.constraints(f, text, new(big.Rat).SetFloat64(r64), r64, p) {
			return
		}
		if fv.IsValid() {
			got := fv.Float()
			if got != want && got != alt {
				o.mismatch("", "%s: document %s, field %v", p, text, got)
			}
		}
		return
	}
	// integer kinds
	var n *big.Int
	switch {
	case c05ReCanonInt.MatchString(text):
		n, _ = new(big.Int).SetString(text, 10)
		if text == "-0" {
			o.notPlain = true
		}
	case c05ReJSONNum.MatchString(text):
		o.hot = true
		o.notPlain = true
		r, ok := c05Exact(text)
		if !ok {
			o.unspec("huge-exponent")
			return
		}
		if !r.IsInt() {
			o.class("fraction-into-int")
			o.fail("", "%s: %s is not integral, field kind %s", p, text, k)
			return
		}
		o.class("integral-float-literal-into-int")
		n = new(big.Int).Set(r.Num())
	default:
		o.unspec("odd-number-text")
		return
	}
	lo, hi := c05IntRange(k)
	if n.Cmp(lo) < 0 || n.Cmp(hi) > 0 {
		o.hot = true
		o.class("int-out-of-kind-range")
		// The known root causes only cover values the 64-bit intermediate can hold:
		// direct route: Int64() (and the explicit "< 0" test for unsigned kinds);
		// setValue route: ParseInt / ParseUint with 64 bits. Anything else accepted is a new defect.
		known := ""
		switch {
		case route == c05RouteDirect && n.Cmp(c05MinInt64) >= 0 && n.Cmp(c05MaxInt64) <= 0 && !(c05IsUint(k) && n.Sign() < 0):
			known = route
		case route == c05RouteSet && !c05IsUint(k) && n.Cmp(c05MinInt64) >= 0 && n.Cmp(c05MaxInt64) <= 0:
			known = route
		case route == c05RouteSet && c05IsUint(k) && n.Sign() >= 0 && n.Cmp(c05MaxUint64) <= 0:
			known = route
		}
		o.fail(known, "%s: %s does not fit %s", p, text, k)
		return
	}
	if n.Cmp(lo) == 0 || n.Cmp(hi) == 0 {
		if k != "uint" && k != "uint64" || n.Sign() != 0 {
			o.hot = true
			o.class("int-at-kind-limit")
		}
	}
	if n.Cmp(c05MaxInt64) > 0 {
		// uint64 values above MaxInt64: the code rejects them (allowed: "fails with an error")
		o.unspec("uint64-above-maxint64")
	}
	if constrained {
		fl, _ := new(big.Float).SetInt(n).Float64()
		if !o.constraints(f, text, new(big.Rat).SetInt(n), fl, p) {
			return
		}
	}
	if fv.IsValid() {
		var got *big.Int
		if c05IsUint(k) {
			got = new(big.Int).SetUint64(fv.Uint())
		} else {
			got = new(big.Int).SetInt64(fv.Int())
		}
		if got.Cmp(n) != 0 {
			// (F14, repaired by e119220: through YAML a float-notation integer beyond 2^53 used to be
			// stored as the shortest decimal of its float64; any such difference is a violation)
			o.mismatch("", "%s: document %s, field %s", p, text, got.String())
		}
	}
}

// constraints checks options= and range= of a numeric field against the
// exact value; false when the value is outside (mustFail recorded).
func (o *c05Oracle) constraints(f *c05Fld, text string, exact *big.Rat, _ float64, p string) bool {
	if f == nil {
		return true
	}
	if f.Rng != nil {
		in := true
		edge := false
		if (f.Rng.L == "" || f.Rng.R == "") && exact.Cmp(new(big.Rat).SetFloat64(math.MaxFloat64)) >= 0 || exact.Cmp(new(big.Rat).SetFloat64(-math.MaxFloat64)) <= 0 {
			// an open end is represented by +-MaxFloat64 in the code; a value AT that
			// magnitude is rejected when the bracket is exclusive. Allowed ("fails with an error").
			o.notPlain = true
		}
		if f.Rng.L != "" {
			l, ok := new(big.Rat).SetString(f.Rng.L)
			if !ok {
				o.unspec("bad-range")
				return false
			}
			c := exact.Cmp(l)
			if c < 0 || (c == 0 && !f.Rng.LI) {
				in = false
			}
			if c == 0 {
				edge = true
			}
		}
		if f.Rng.R != "" {
			r, ok := new(big.Rat).SetString(f.Rng.R)
			if !ok {
				o.unspec("bad-range")
				return false
			}
			c := exact.Cmp(r)
			if c > 0 || (c == 0 && !f.Rng.RI) {
				in = false
			}
			if c == 0 {
				edge = true
			}
		}
		if edge {
			o.hot = true
			o.class("range-edge")
		}
		if !in {
			o.hot = true
			o.class("outside-range")
			// (F17, repaired by 0af4e9d: a present optional=<dep> field used to lose its range=)
			if f.OD != "" {
				o.class("optional-dep:value-outside-range")
			}
			o.fail("", "%s: %s outside range %+v", p, text, *f.Rng)
			return false
		}
		o.class("inside-range")
	}
	if len(f.Opts) > 0 {
		in, same := false, false
		for _, op := range f.Opts {
			if op == text {
				same = true
			}
			if r, ok := new(big.Rat).SetString(op); ok && r.Cmp(exact) == 0 {
				in = true
			}
		}
		if !in {
			o.hot = true
			o.class("outside-options")
			o.fail("", "%s: %s outside options %v", p, text, f.Opts)
			return false
		}
		o.class("inside-options")
		if !same {
			o.notPlain = true // same number, different spelling: rejected by the code, allowed
		}
	}
	return true
}

// ---- verdict assembly ----

type c05Outcome struct {
	Err   error
	Panic any
}

func c05Call(fn func() error) (out c05Outcome) {
	defer func() {
		if r := recover(); r != nil {
			out.Panic = r
		}
	}()
	out.Err = fn()
	return
}

var c05PanicSig = map[string][]string{
	"fillslice-nonslice-panic":               {"reflect: call of reflect.Value.IsNil on", "reflect: call of reflect.Value.Cap on", "reflect: call of reflect.Value.Len on", "reflect: call of reflect.Value.Index on"},
	"fillslice-struct-elem-panic":            {"interface conversion: interface {} is", "not map[string]interface {}"},
	"generatemap-ptr-elem-panic":             {"reflect.Value.SetMapIndex: value of type"},
	"duration-number-panic":                  {"interface conversion: interface {} is json.Number, not string"},
	"stringoption-number-options-panic":      {"interface conversion: interface {} is json.Number, not string"},
	"fillslicevalue-object-elem-panic":       {"reflect: Key of non-map type"},
	"fillslicefromstring-ptr-elem-panic":     {"reflect.Set: value of type []"},
	"fillslicefromstring-nested-array-panic": {"reflect.Set: value of type []interface {} is not assignable"},
	"env-pointer-panic":                      {"on zero Value"},
	"env-int64-duration-panic":               {"value of type time.Duration is not assignable to type int64"},
	"fillslicefromstring-null-elem-panic":    {"invalid memory address or nil pointer dereference"},
}

func c05PanicKnown(o *c05Oracle, msg string) string {
	ids := make([]string, 0, len(o.panicPred))
	for id := range o.panicPred {
		ids = append(ids, id)
	}
	sort.Strings(ids)
	for _, id := range ids {
		sigs := c05PanicSig[id]
		switch id {
		case "fillslice-struct-elem-panic":
			if strings.Contains(msg, sigs[0]) && strings.Contains(msg, sigs[1]) {
				return id
			}
		default:
			for _, s := range sigs {
				if strings.Contains(msg, s) {
					return id
				}
			}
		}
	}
	return ""
}

// c05PickKnown: one id for a list of findings. If any finding has no known
// root cause the failure is unknown. With several known causes the first
// one that is NOT open is reported (so it is not masked); else the first.
func c05PickKnown(fs []c05Finding, open func(string) bool) string {
	ids := map[string]bool{}
	for _, f := range fs {
		if f.Known == "" {
			return ""
		}
		ids[f.Known] = true
	}
	l := make([]string, 0, len(ids))
	for id := range ids {
		l = append(l, id)
	}
	sort.Strings(l)
	for _, id := range l {
		if !open(id) {
			return id
		}
	}
	if len(l) > 0 {
		return l[0]
	}
	return ""
}

func c05Msgs(fs []c05Finding) string {
	var b strings.Builder
	for i, f := range fs {
		if i > 0 {
			b.WriteString("; ")
		}
		if i == 4 {
			fmt.Fprintf(&b, "... (%d more)", len(fs)-i)
			break
		}
		b.WriteString(f.Msg)
		if f.Known != "" {
			b.WriteString(" [" + f.Known + "]")
		}
	}
	return b.String()
}
