package mapping_test

// C05 entry point "native": the map form of a document as a Go caller builds it by hand
// (mapping.UnmarshalKey(map[string]any{"age": 18, ...})): native ints of every width,
// floats, typed slices and maps, fmt.Stringer values, typed nils, yaml-style
// map[any]any — instead of the json.Number trees a decoder produces. The document's
// value is what the native value denotes; acceptance is never demanded (kinds must match
// exactly in the code), but an accepted field must hold exactly that value, and nothing
// may panic.

import (
	"encoding/json"
	"math"
	"math/big"
	"strconv"
	"strings"
)

type c05Stringer string

func (s c05Stringer) String() string { return string(s) }

func c05Mix(h uint64, i int) uint64 {
	h ^= uint64(i+1) * 0x9E3779B97F4A7C15
	h ^= h >> 29
	h *= 0xBF58476D1CE4E5B9
	h ^= h >> 32
	return h
}

// c05Native converts a document node into a native Go value; deterministic in (v, h).
func c05Native(v *c05JV, h uint64, top bool) any {
	switch v.T {
	case "null":
		if top {
			return nil
		}
		switch h % 6 {
		case 0:
			return (*int)(nil)
		case 1:
			return []any(nil)
		case 2:
			return map[string]any(nil)
		}
		return nil
	case "bool":
		return v.B
	case "str":
		if h%5 == 0 {
			return c05Stringer(v.S)
		}
		return v.S
	case "num":
		return c05NativeNum(v.S, h)
	case "arr":
		elems := make([]any, len(v.L))
		for i := range v.L {
			elems[i] = c05Native(&v.L[i], c05Mix(h, i), false)
		}
		if h%10 < 3 && len(elems) > 0 {
			// a typed slice when every element has the same native type
			switch elems[0].(type) {
			case int:
				out := make([]int, 0, len(elems))
				for _, e := range elems {
					x, ok := e.(int)
					if !ok {
						return elems
					}
					out = append(out, x)
				}
				return out
			case string:
				out := make([]string, 0, len(elems))
				for _, e := range elems {
					x, ok := e.(string)
					if !ok {
						return elems
					}
					out = append(out, x)
				}
				return out
			case bool:
				out := make([]bool, 0, len(elems))
				for _, e := range elems {
					x, ok := e.(bool)
					if !ok {
						return elems
					}
					out = append(out, x)
				}
				return out
			case float64:
				out := make([]float64, 0, len(elems))
				for _, e := range elems {
					x, ok := e.(float64)
					if !ok {
						return elems
					}
					out = append(out, x)
				}
				return out
			}
		}
		return elems
	case "obj":
		m := make(map[string]any, len(v.M))
		for i := range v.M {
			m[v.M[i].K] = c05Native(&v.M[i].V, c05Mix(h, i), false)
		}
		if top {
			return m
		}
		switch h % 10 {
		case 0: // what yaml.v2 hands out
			out := make(map[any]any, len(m))
			for k, e := range m {
				out[k] = e
			}
			return out
		case 1, 2:
			if len(m) > 0 {
				allStr, allInt, allBool := true, true, true
				for _, e := range m {
					_, s := e.(string)
					_, n := e.(int)
					_, b := e.(bool)
					allStr, allInt, allBool = allStr && s, allInt && n, allBool && b
				}
				switch {
				case allStr:
					out := make(map[string]string, len(m))
					for k, e := range m {
						out[k] = e.(string)
					}
					return out
				case allInt:
					out := make(map[string]int, len(m))
					for k, e := range m {
						out[k] = e.(int)
					}
					return out
				case allBool:
					out := make(map[string]bool, len(m))
					for k, e := range m {
						out[k] = e.(bool)
					}
					return out
				}
			}
		}
		return m
	}
	return nil
}

func c05NativeNum(text string, h uint64) any {
	if c05ReCanonInt.MatchString(text) && text != "-0" {
		n, _ := new(big.Int).SetString(text, 10)
		if n.IsInt64() {
			x := n.Int64()
			switch h % 9 {
			case 0, 1:
				return int(x)
			case 2:
				return x
			case 3:
				switch {
				case x >= math.MinInt8 && x <= math.MaxInt8:
					return int8(x)
				case x >= math.MinInt16 && x <= math.MaxInt16:
					return int16(x)
				case x >= math.MinInt32 && x <= math.MaxInt32:
					return int32(x)
				}
				return x
			case 4:
				switch {
				case x < 0:
					return x
				case x <= math.MaxUint8:
					return uint8(x)
				case x <= math.MaxUint16:
					return uint16(x)
				case x <= math.MaxUint32:
					return uint32(x)
				}
				return uint64(x)
			case 5:
				if x >= 0 {
					return uint(x)
				}
			case 6:
				if x > -(1<<53) && x < 1<<53 {
					return float64(x)
				}
			}
			return json.Number(text)
		}
		if n.IsUint64() && h%3 == 0 {
			return n.Uint64()
		}
		return json.Number(text)
	}
	// a decimal that a float64 / float32 prints back unchanged
	if c05ReJSONNum.MatchString(text) && !strings.ContainsAny(text, "eE") {
		digits := strings.Trim(strings.Replace(strings.TrimPrefix(text, "-"), ".", "", 1), "0")
		f, err := strconv.ParseFloat(text, 64)
		if err == nil && strconv.FormatFloat(f, 'f', -1, 64) == text {
			switch {
			case h%4 == 0 && len(digits) <= 15:
				return f
			case h%4 == 1 && len(digits) <= 6 && strconv.FormatFloat(float64(float32(f)), 'f', -1, 32) == text:
				return float32(f)
			}
		}
	}
	return json.Number(text)
}
