package mapping_test

// C05 entry point "native": the map form of a document as a Go caller builds it by hand
// (mapping.UnmarshalKey(map[string]any{"age": 18, ...})): native ints of every width,
// floats, typed slices and maps, fmt.Stringer values, typed nils, yaml-style
// map[any]any — instead of the json.Number trees a decoder produces. The document's
// value is what the native value denotes; acceptance is never demanded (kinds must match
// exactly in the code), but an accepted field must hold exactly that value, and nothing
// may panic.

import (
	"encoding/json"
	"math"
	"math/big"
	"reflect"
	"sort"
	"strconv"
	"strings"
	"time"
)

type c05Stringer string

func (s c05Stringer) String() string { return string(s) }

func c05Mix(h uint64, i int) uint64 {
	h ^= uint64(i+1) * 0x9E3779B97F4A7C15
	h ^= h >> 29
	h *= 0xBF58476D1CE4E5B9
	h ^= h >> 32
	return h
}

// c05Native converts a document node into a native Go value; deterministic in (v, h).
func c05Native(v *c05JV, h uint64, top bool) any {
	switch v.T {
	case "null":
		if top {
			return nil
		}
		switch h % 6 {
		case 0:
			return (*int)(nil)
		case 1:
			return []any(nil)
		case 2:
			return map[string]any(nil)
		}
		return nil
	case "bool":
		return v.B
	case "str":
		if h%5 == 0 {
			return c05Stringer(v.S)
		}
		return v.S
	case "num":
		return c05NativeNum(v.S, h)
	case "arr":
		elems := make([]any, len(v.L))
		for i := range v.L {
			elems[i] = c05Native(&v.L[i], c05Mix(h, i), false)
		}
		if h%10 < 3 && len(elems) > 0 {
			// a typed slice when every element has the same native type
			switch elems[0].(type) {
			case int:
				out := make([]int, 0, len(elems))
				for _, e := range elems {
					x, ok := e.(int)
					if !ok {
						return elems
					}
					out = append(out, x)
				}
				return out
			case string:
				out := make([]string, 0, len(elems))
				for _, e := range elems {
					x, ok := e.(string)
					if !ok {
						return elems
					}
					out = append(out, x)
				}
				return out
			case bool:
				out := make([]bool, 0, len(elems))
				for _, e := range elems {
					x, ok := e.(bool)
					if !ok {
						return elems
					}
					out = append(out, x)
				}
				return out
			case float64:
				out := make([]float64, 0, len(elems))
				for _, e := range elems {
					x, ok := e.(float64)
					if !ok {
						return elems
					}
					out = append(out, x)
				}
				return out
			}
		}
		return elems
	case "obj":
		m := make(map[string]any, len(v.M))
		for i := range v.M {
			m[v.M[i].K] = c05Native(&v.M[i].V, c05Mix(h, i), false)
		}
		if top {
			return m
		}
		switch h % 10 {
		case 0: // what yaml.v2 hands out
			out := make(map[any]any, len(m))
			for k, e := range m {
				out[k] = e
			}
			return out
		case 1, 2:
			if len(m) > 0 {
				allStr, allInt, allBool := true, true, true
				for _, e := range m {
					_, s := e.(string)
					_, n := e.(int)
					_, b := e.(bool)
					allStr, allInt, allBool = allStr && s, allInt && n, allBool && b
				}
				switch {
				case allStr:
					out := make(map[string]string, len(m))
					for k, e := range m {
						out[k] = e.(string)
					}
					return out
				case allInt:
					out := make(map[string]int, len(m))
					for k, e := range m {
						out[k] = e.(int)
					}
					return out
				case allBool:
					out := make(map[string]bool, len(m))
					for k, e := range m {
						out[k] = e.(bool)
					}
					return out
				}
			}
		}
		return m
	}
	return nil
}

func c05NativeNum(text string, h uint64) any {
	if c05ReCanonInt.MatchString(text) && text != "-0" {
		n, _ := new(big.Int).SetString(text, 10)
		if n.IsInt64() {
			x := n.Int64()
			switch h % 9 {
			case 0, 1:
				// (a 32-bit build: a value an int cannot hold arrives as int64, never narrowed here)
				if int64(int(x)) == x {
					return int(x)
				}
				return x
			case 2:
				return x
			case 3:
				switch {
				case x >= math.MinInt8 && x <= math.MaxInt8:
					return int8(x)
				case x >= math.MinInt16 && x <= math.MaxInt16:
					return int16(x)
				case x >= math.MinInt32 && x <= math.MaxInt32:
					return int32(x)
				}
				return x
			case 4:
				switch {
				case x < 0:
					return x
				case x <= math.MaxUint8:
					return uint8(x)
				case x <= math.MaxUint16:
					return uint16(x)
				case x <= math.MaxUint32:
					return uint32(x)
				}
				return uint64(x)
			case 5:
				if x >= 0 && uint64(uint(x)) == uint64(x) {
					return uint(x)
				}
				if x >= 0 {
					return uint64(x)
				}
			case 6:
				if x > -(1<<53) && x < 1<<53 {
					return float64(x)
				}
			}
			return json.Number(text)
		}
		if n.IsUint64() && h%3 == 0 {
			return n.Uint64()
		}
		return json.Number(text)
	}
	// a decimal that a float64 / float32 prints back unchanged
	if c05ReJSONNum.MatchString(text) && !strings.ContainsAny(text, "eE") {
		digits := strings.Trim(strings.Replace(strings.TrimPrefix(text, "-"), ".", "", 1), "0")
		f, err := strconv.ParseFloat(text, 64)
		if err == nil && strconv.FormatFloat(f, 'f', -1, 64) == text {
			switch {
			case h%4 == 0 && len(digits) <= 15:
				return f
			case h%4 == 1 && len(digits) <= 6 && float64(float32(f)) == f && c05ExactFloat(text, f):
				// (only values a float32 holds exactly: float32(0.1) denotes another number than the text 0.1)
				return float32(f)
			}
		}
	}
	return json.Number(text)
}

// c05ExactFloat: the decimal text denotes exactly the float64 f.
func c05ExactFloat(text string, f float64) bool {
	r, ok := c05Exact(text)
	return ok && !math.IsInf(f, 0) && r.Cmp(new(big.Rat).SetFloat64(f)) == 0
}

// ---- shape-directed native documents (case field NM = 1) -------------------------
// What a Go caller who knows the destination struct writes by hand: a value of the field's
// own kind where the document's number fits it (int8(5), uint16(80), float32(1.5), the defined
// type itself, time.Duration, []byte for a TextUnmarshaler), typed slices and maps
// ([]int8{...}, []map[string]any{...}, map[string]int{...}); a value that does not fit the
// field's kind necessarily arrives in a wider or different type (int64(300) for an int8
// field), and about one number in eight has a stray type although it would fit.
// The document's value stays what the node says; the oracle is unchanged.

type c05NatCtx struct {
	classes map[string]bool
}

func (x *c05NatCtx) class(c string) {
	if x != nil && x.classes != nil {
		x.classes[c] = true
	}
}

// c05FindField: the field of fs (embedded structs flattened) that is looked up under key.
func c05FindField(fs []c05Fld, key string) *c05Fld {
	for i := range fs {
		f := &fs[i]
		if f.Tag == "-other" {
			continue
		}
		if f.Anon {
			if g := c05FindField(f.T.F, key); g != nil {
				return g
			}
			continue
		}
		if f.key(i) == key {
			return f
		}
	}
	return nil
}

func c05NativeDoc(fs []c05Fld, v *c05JV, h uint64, x *c05NatCtx) map[string]any {
	m := make(map[string]any, len(v.M))
	for i := range v.M {
		var t *c05Typ
		if f := c05FindField(fs, v.M[i].K); f != nil && !(f.Str && c05IsScalar(f.T.K)) {
			t = &f.T
		}
		m[v.M[i].K] = c05NativeT(&v.M[i].V, t, c05Mix(h, i), false, x)
	}
	return m
}

// c05ScalarRT: the Go type of a scalar kind (defined variant on request).
func c05ScalarRT(t *c05Typ, defined bool) reflect.Type {
	rt := c05Scalars[t.K]
	if dt, has := c05Defined[t.K]; defined && t.D && has {
		rt = dt
	}
	return rt
}

// c05NativeExactNum: the number as a value of exactly the field's kind, if it fits.
func c05NativeExactNum(text string, t *c05Typ, h uint64) (any, bool) {
	rv := reflect.New(c05ScalarRT(t, h%2 == 0)).Elem()
	switch {
	case c05IsFloat(t.K):
		if !c05ReJSONNum.MatchString(text) {
			return nil, false
		}
		f, err := strconv.ParseFloat(text, 64)
		if err != nil {
			return nil, false
		}
		if t.K == "float32" {
			// the float32 the caller gets from writing the literal; only when the literal is the
			// shortest form of that float32 (so the value has one reading) or exact
			f32 := float32(f)
			if math.IsInf(float64(f32), 0) || !(strconv.FormatFloat(float64(f32), 'f', -1, 32) == text || c05ExactFloat(text, float64(f32))) {
				return nil, false
			}
			rv.SetFloat(float64(f32))
			return rv.Interface(), true
		}
		if !(strconv.FormatFloat(f, 'f', -1, 64) == text || c05ExactFloat(text, f)) {
			return nil, false
		}
		rv.SetFloat(f)
		return rv.Interface(), true
	case c05ReCanonInt.MatchString(text) && text != "-0":
		n, _ := new(big.Int).SetString(text, 10)
		lo, hi := c05IntRange(t.K)
		if n.Cmp(lo) < 0 || n.Cmp(hi) > 0 {
			return nil, false
		}
		if c05IsUint(t.K) {
			rv.SetUint(n.Uint64())
		} else {
			rv.SetInt(n.Int64())
		}
		return rv.Interface(), true
	}
	return nil, false
}

// elem: the node is an element of a slice or map (there about one number in three has a stray
// type, in fields one in sixteen: a stray type in a field makes the code reject the document).
func c05NativeT(v *c05JV, t *c05Typ, h uint64, elem bool, x *c05NatCtx) any {
	if t == nil {
		return c05Native(v, h, false)
	}
	switch v.T {
	case "num":
		if c05IsNumeric(t.K) {
			if stray := h%16 == 0 || elem && h%3 == 0; !stray {
				if val, ok := c05NativeExactNum(v.S, t, h>>4); ok {
					x.class("native:field-kind")
					if t.D && h>>4%2 == 0 {
						x.class("native:defined-type")
					}
					if t.P && h%16 == 3 && !elem {
						// a pointer, as the field is one
						p := reflect.New(reflect.TypeOf(val))
						p.Elem().Set(reflect.ValueOf(val))
						x.class("native:pointer")
						return p.Interface()
					}
					return val
				}
				x.class("native:does-not-fit-field-kind")
			} else if elem {
				x.class("native:stray-type-element")
			} else {
				x.class("native:stray-type")
			}
		}
		return c05NativeNum(v.S, c05Mix(h, 77))
	case "str":
		switch {
		case t.K == "dur":
			if d, err := time.ParseDuration(v.S); err == nil && h%2 == 0 {
				x.class("native:duration")
				return d
			}
		case t.K == "text":
			if h%3 == 0 {
				x.class("native:bytes")
				return []byte(v.S)
			}
		case t.K == "string":
			switch h % 6 {
			case 0:
				return c05Stringer(v.S)
			case 1:
				x.class("native:defined-type")
				return c05DString(v.S)
			}
		case t.K == "slice" || t.K == "map":
			// JSON text for a collection field, in a string type of the caller
			switch h % 4 {
			case 0:
				x.class("native:defined-string-for-collection")
				return c05DString(v.S)
			case 1:
				return c05Stringer(v.S)
			}
		}
		return c05Native(v, h, false)
	case "bool":
		if t.K == "bool" && t.D && h%2 == 0 {
			x.class("native:defined-type")
			return c05DBool(v.B)
		}
		return v.B
	case "arr":
		var et *c05Typ
		if t.K == "slice" {
			et = t.E
		}
		elems := make([]any, len(v.L))
		for i := range v.L {
			elems[i] = c05NativeT(&v.L[i], et, c05Mix(h, i), true, x)
		}
		if h%10 < 3 {
			if ts, ok := c05TypedSlice(elems); ok {
				x.class("native:typed-slice")
				return ts
			}
		}
		return elems
	case "obj":
		m := make(map[string]any, len(v.M))
		switch t.K {
		case "struct":
			m = c05NativeDoc(t.F, v, h, x)
		case "map":
			for i := range v.M {
				m[v.M[i].K] = c05NativeT(&v.M[i].V, t.E, c05Mix(h, i), true, x)
			}
		default:
			return c05Native(v, h, false)
		}
		switch h % 10 {
		case 0: // what yaml.v2 hands out
			out := make(map[any]any, len(m))
			for k, e := range m {
				out[k] = e
			}
			x.class("native:map-any-any")
			return out
		case 1, 2, 3:
			if tm, ok := c05TypedMap(m); ok {
				x.class("native:typed-map")
				return tm
			}
		}
		return m
	}
	return c05Native(v, h, false)
}

// c05TypedSlice: []T when every element is a non-nil value of one Go type T.
func c05TypedSlice(elems []any) (any, bool) {
	if len(elems) == 0 || elems[0] == nil {
		return nil, false
	}
	et := reflect.TypeOf(elems[0])
	for _, e := range elems {
		if e == nil || reflect.TypeOf(e) != et {
			return nil, false
		}
	}
	out := reflect.MakeSlice(reflect.SliceOf(et), len(elems), len(elems))
	for i, e := range elems {
		out.Index(i).Set(reflect.ValueOf(e))
	}
	return out.Interface(), true
}

// c05TypedMap: map[string]T when every value is a non-nil value of one Go type T.
func c05TypedMap(m map[string]any) (any, bool) {
	if len(m) == 0 {
		return nil, false
	}
	keys := make([]string, 0, len(m))
	for k := range m {
		keys = append(keys, k)
	}
	sort.Strings(keys)
	if m[keys[0]] == nil {
		return nil, false
	}
	et := reflect.TypeOf(m[keys[0]])
	for _, k := range keys {
		if m[k] == nil || reflect.TypeOf(m[k]) != et {
			return nil, false
		}
	}
	out := reflect.MakeMapWithSize(reflect.MapOf(reflect.TypeOf(""), et), len(m))
	for _, k := range keys {
		out.SetMapIndex(reflect.ValueOf(k), reflect.ValueOf(m[k]))
	}
	return out.Interface(), true
}
