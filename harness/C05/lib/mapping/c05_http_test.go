package mapping_test

// C05 rule "http" (P5): a request struct sent with httpc.Do (path, form, header
// and json parts) to an httptest server whose route is served by the real
// router and parsed with httpx.Parse comes back as an equal struct.

import (
	"context"
	"fmt"
	"io"
	"math"
	"math/big"
	"net/http"
	"net/http/httptest"
	"net/http/httptrace"
	"reflect"
	"strconv"
	"strings"
	"sync"
	"testing"
	"time"

	"github.com/gotid/god/api/httpc"
	"github.com/gotid/god/api/httpx"
	"github.com/gotid/god/api/router"
	"pgregory.net/rapid"
	"verif.local/kit"
)

type c05HTTPCase struct {
	S []c05Fld `json:"s"` // Tag = path | form | header | json
	D c05JV    `json:"d"` // one member per field (keyed by the field's key): its value
	// Big > 0: the last field is an optional json string field "pad"; the interpreter fills it
	// with as many bytes as make the request body exactly Big bytes long (the megabytes are
	// not stored in the case). All json fields of such a case are optional or defaulted.
	Big int `json:"big,omitempty"`
	// M: HTTP method ("" = POST). A body-less GET is only drawn when no field lives in the json part.
	M string `json:"m,omitempty"`
	// X: a request httpc cannot build or must refuse (GET with a json part, an empty path value, a
	// path variable the struct lacks / the URL lacks, a value outside the field's own options=/range=,
	// an empty non-optional collection). What httpc does then is not fixed by the statement: run for
	// panics only (a refusal is fine, anything else is not judged).
	X string `json:"x,omitempty"`
	// CT: the context given to httpc.Do carries an httptrace.ClientTrace (must not change anything)
	CT bool `json:"ct,omitempty"`
}

const c05MaxBody = 8 << 20 // httpx reads at most this many bytes of a JSON body

// ---- building Go values from plain document nodes (harness-owned, no mapping code) ----

func c05Build(t *c05Typ, v *c05JV) (out reflect.Value, ok bool) {
	rt := t.rtype()
	base := rt
	if t.P {
		base = rt.Elem()
	}
	val := reflect.New(base).Elem()
	switch t.K {
	case "struct":
		if v.T != "obj" {
			return out, false
		}
		if !c05BuildStruct(t.F, v, val) {
			return out, false
		}
	case "slice":
		if v.T != "arr" {
			return out, false
		}
		val = reflect.MakeSlice(base, len(v.L), len(v.L))
		for i := range v.L {
			e, ok := c05Build(t.E, &v.L[i])
			if !ok {
				return out, false
			}
			val.Index(i).Set(e)
		}
	case "map":
		if v.T != "obj" {
			return out, false
		}
		val = reflect.MakeMapWithSize(base, len(v.M))
		for i := range v.M {
			e, ok := c05Build(t.E, &v.M[i].V)
			if !ok {
				return out, false
			}
			val.SetMapIndex(reflect.ValueOf(v.M[i].K).Convert(base.Key()), e)
		}
	case "bool":
		if v.T != "bool" {
			return out, false
		}
		val.SetBool(v.B)
	case "string":
		if v.T != "str" {
			return out, false
		}
		val.SetString(v.S)
	case "dur":
		d, err := time.ParseDuration(v.S)
		if v.T != "str" || err != nil {
			return out, false
		}
		val.SetInt(int64(d))
	default:
		if v.T != "num" {
			return out, false
		}
		switch {
		case c05IsFloat(t.K):
			f, err := strconv.ParseFloat(v.S, c05Bits(t.K))
			if err != nil {
				return out, false
			}
			val.SetFloat(f)
		default:
			n, good := new(big.Int).SetString(v.S, 10)
			lo, hi := c05IntRange(t.K)
			if !good || n.Cmp(lo) < 0 || n.Cmp(hi) > 0 {
				return out, false
			}
			if c05IsUint(t.K) {
				val.SetUint(n.Uint64())
			} else {
				val.SetInt(n.Int64())
			}
		}
	}
	if t.P {
		p := reflect.New(base)
		p.Elem().Set(val)
		return p, true
	}
	return val, true
}

func c05BuildStruct(fs []c05Fld, obj *c05JV, val reflect.Value) bool {
	for i := range fs {
		f := &fs[i]
		ms := obj.lookup(f.key(i))
		if len(ms) == 0 {
			continue // stays zero
		}
		if len(ms) > 1 {
			return false
		}
		src := ms[0]
		if f.Str && src.T == "str" && c05IsScalar(f.T.K) && f.T.K != "string" {
			// ",string" field: the document carries the value as text
			conv := c05Num(src.S)
			if f.T.K == "bool" {
				conv = c05Bool(src.S == "true")
			}
			src = &conv
		}
		e, ok := c05Build(&f.T, src)
		if !ok {
			return false
		}
		val.Field(i).Set(e)
	}
	return true
}

// ---- generator ----

var (
	c05PathAlphabet   = []string{"a", "B", "7", "-", "_", ".", "~", " ", "%", "+", "é", ":", "@", "=", "&", "?", "#", ";", ",", "中", "%41", "%s", "%d", "%!", "*", "[", "]", "{", "}", "$", "(", ")", "|", "^", "\\", "'", "\"", "<", ">", "😀", "%2F", "%00"}
	c05HeaderAlphabet = []string{"a", "B", "7", "-", "_", ".", " ", "%", "+", ":", "@", "=", "&", "?", "#", ";", ",", "\"", "é", "/", "%s", "%d", "%!", "*", "[", "{", "$", "(", "|", "^", "\\", "'", "<", "\t", "中"}
)

func c05GenToken(rt *rapid.T, alphabet []string, lead string) string {
	n := rapid.IntRange(0, 6).Draw(rt, "toklen")
	if c05Rare(rt, "longtoken", 40) {
		n = c05Pick(rt, "longtoklen", []int{100, 255, 256, 1000, 2000})
	}
	var b strings.Builder
	b.WriteString(lead)
	for i := 0; i < n; i++ {
		b.WriteString(c05Pick(rt, "tokch", alphabet))
	}
	s := strings.TrimSpace(b.String())
	if s == "" {
		return "v"
	}
	return s
}

// strip what the request parts cannot carry (stated in verif.json): Duration,
// ",string" on string kinds and on pointers, embedded / untagged fields.
func c05HTTPSanitize(fs []c05Fld, top bool) []c05Fld {
	out := make([]c05Fld, 0, len(fs))
	for _, f := range fs {
		if f.Anon || f.Tag == "" || f.Tag == "-other" {
			continue
		}
		c05HTTPSanitizeTyp(&f.T)
		if f.T.K == "string" || f.T.P {
			f.Str = false
		}
		f.Env, f.EV, f.Inh = false, nil, false
		f.OD = "" // optional=dep is not implemented by mapping.Marshal (stated there)
		if f.T.K == "slice" || f.T.K == "map" {
			f.T.P = false // pointers to collections are rejected by the server side (type mismatch error)
		}
		if top && f.T.D && f.Rng != nil {
			f.T.D = false // httpc checks range= of top-level fields with a type switch over the basic types only
		}
		if top && f.T.P && c05IsScalar(f.T.K) {
			// httpc validates options/range of top-level fields with fmt.Sprint / a type switch: not for pointers
			f.Opts, f.Rng, f.Def = nil, nil, nil
		}
		if f.T.K == "slice" {
			f.Def = nil
		}
		out = append(out, f)
	}
	return out
}

func c05HTTPSanitizeTyp(t *c05Typ) {
	switch t.K {
	case "dur":
		t.K = "int64"
	case "text":
		t.K = "string"
	case "struct":
		t.F = c05HTTPSanitize(t.F, false)
		if len(t.F) == 0 {
			t.F = []c05Fld{{W: []string{"only"}, T: c05Typ{K: "int"}, Tag: "json", KS: "camel"}}
		}
	case "slice", "map":
		if t.K == "slice" && t.E.K == "bool" && t.E.D {
			t.E.D = false // []DefinedBool is rejected by the server side (type mismatch error)
		}
		t.DK = false // map[DefinedKey]T likewise
		if t.K == "slice" && t.E.K == "uint8" && !t.E.P {
			t.E.K = "uint16" // []uint8 is []byte: encoding/json sends base64
		}
		c05HTTPSanitizeTyp(t.E)
	}
}

func c05GenHTTPCase(rt *rapid.T) c05HTTPCase {
	var c c05HTTPCase
	n := rapid.IntRange(1, 6).Draw(rt, "nfields")
	// (no "odd" keys: encoding/json, which httpc uses for nested structs, ignores tag names with some of those characters)
	cfgJSON := &c05GenCfg{tag: "json", keyStyles: c05AllStyles[:len(c05AllStyles)-1], maxDepth: 3}
	var members []c05KV
	for i := 0; i < n; i++ {
		part := c05W(rt, "part", []string{"json", "form", "path", "header"}, []int{45, 25, 15, 15})
		var f c05Fld
		if part == "json" {
			for try := 0; ; try++ {
				f = c05GenField(rt, cfgJSON, 1, "", i)
				if fs := c05HTTPSanitize([]c05Fld{f}, true); len(fs) == 1 {
					f = fs[0]
					break
				}
				if try > 20 {
					f = c05Fld{W: []string{"id"}, T: c05Typ{K: "int"}, Tag: "json", KS: "camel"}
					break
				}
			}
		} else {
			f = c05Fld{Tag: part}
			nw := rapid.IntRange(1, 2).Draw(rt, "nwords")
			for j := 0; j < nw; j++ {
				f.W = append(f.W, c05Pick(rt, "word", c05Words))
			}
			k := c05GenScalarKind(rt, false)
			f.T = c05Typ{K: k}
			switch part {
			case "path":
				f.KS = c05Pick(rt, "pks", []string{"camel", "lower", "title"})
			case "form":
				f.KS = c05Pick(rt, "fks", []string{"", "camel", "snake", "title", "kebab"})
			case "header":
				f.KS = c05Pick(rt, "hks", []string{"kebab", "title", "lower", "hdr"})
			}
			c05GenOptionsBase(rt, &f)
			f.Str = false
			if part == "path" {
				f.Opt = false
			}
		}
		c.S = append(c.S, f)
	}
	// fields tagged for two or three request parts: httpc sends the value through the part
	// named first, httpx.Parse visits the same struct once per part
	for i := range c.S {
		f := &c.S[i]
		if !c05IsScalar(f.T.K) || f.T.K == "text" || rapid.IntRange(0, 3).Draw(rt, "multitag") != 0 {
			continue
		}
		for _, t2 := range []string{"path", "form", "header", "json"} {
			if t2 != f.Tag && t2 != "path" && rapid.IntRange(0, 2).Draw(rt, "tag2") == 0 {
				f.Tag2 = append(f.Tag2, t2)
			}
		}
	}
	// values: every field present (absent only when optional and unconstrained)
	g := &c05DocGen{rt: rt, plain: true, p5: true}
	for i := range c.S {
		f := &c.S[i]
		key := f.key(i)
		ff := *f
		ff.Str = false // typed value; the tag keeps ",string"
		if f.Tag == "json" && f.Opt && len(f.Opts) == 0 && f.Rng == nil && !(f.T.K == "struct" && !f.T.P) && rapid.IntRange(0, 4).Draw(rt, "absent") == 0 {
			continue
		}
		var v c05JV
		switch {
		case f.Tag != "json" && f.T.K == "string" && len(f.Opts) == 0:
			switch f.Tag {
			case "path":
				v = c05Str(c05GenToken(rt, c05PathAlphabet, "s"))
			case "header":
				v = c05Str(c05GenToken(rt, c05HeaderAlphabet, ""))
			default:
				s := g.str()
				if s == "" {
					s = "f"
				}
				v = c05Str(s)
			}
		default:
			v = g.plainValue(&ff.T, &ff, 1)
			if (f.T.K == "slice" || f.T.K == "map") && !f.Opt {
				// httpc refuses empty non-optional collections
				for try := 0; try < 8 && len(v.L)+len(v.M) == 0; try++ {
					v = g.plainValue(&ff.T, &ff, 1)
				}
				if len(v.L)+len(v.M) == 0 {
					if f.T.K == "slice" {
						v = c05Arr(g.plainValue(ff.T.E, nil, 1))
					} else {
						v = c05Obj(c05KV{K: "k", V: g.plainValue(ff.T.E, nil, 1)})
					}
				}
			}
		}
		members = append(members, c05KV{K: key, V: v})
	}
	c.D = c05Obj(members...)
	hasJSON := false
	for i := range c.S {
		if c.S[i].Tag == "json" {
			hasJSON = true
		}
	}
	ms := []string{"", "", "", "PUT", "PATCH", "DELETE"}
	if !hasJSON {
		ms = append(ms, "GET", "GET", "HEAD", "OPTIONS")
	}
	c.M = c05Pick(rt, "method", ms)
	c.CT = rapid.IntRange(0, 7).Draw(rt, "clienttrace") == 0
	if rapid.IntRange(0, 11).Draw(rt, "refusable") == 0 {
		c.X = c05Pick(rt, "refusekind", []string{"getbody", "emptypath", "missingvar", "unusedvar", "badvalue", "emptycoll", "nilptr", "nan", "badurl", "badmethod"})
	}
	return c
}

// c05GenHTTPCaseBig wraps the generator: about one case in 700 is a large-document case.
func c05GenHTTPCaseMaybeBig(rt *rapid.T) c05HTTPCase {
	// (rapid's integer generators favour small values and bounds: hash the draw to get a flat 1/700)
	if x := rapid.Uint64().Draw(rt, "bigbody"); (x*0x9E3779B97F4A7C15>>33)%700 != 3 {
		return c05GenHTTPCase(rt)
	}
	c := c05GenHTTPCase(rt)
	for i := range c.S {
		if c.S[i].Tag == "json" && c.S[i].Def == nil {
			c.S[i].Opt = true // nothing required in the body: "no body" would be accepted silently
		}
	}
	c.S = append(c.S, c05Fld{W: []string{"pad"}, T: c05Typ{K: "string"}, Tag: "json", KS: "camel", Opt: true})
	if c.M == "GET" || c.M == "HEAD" || c.M == "OPTIONS" {
		c.M = "" // the pad field lives in the body
	}
	c.Big = c05MaxBody + c05Pick(rt, "bigdelta", []int{-1024, -5, -1, 0, 1, 3, 1024, 1024, 4 << 20})
	return c
}

// ---- the server: one process-wide httptest server, handler swapped per case ----

var (
	c05SrvOnce sync.Once
	c05Srv     *httptest.Server
	c05SrvMu   sync.Mutex
	c05SrvH    http.Handler
)

func c05Server() *httptest.Server {
	c05SrvOnce.Do(func() {
		c05Srv = httptest.NewServer(http.HandlerFunc(func(w http.ResponseWriter, r *http.Request) {
			c05SrvMu.Lock()
			h := c05SrvH
			c05SrvMu.Unlock()
			h.ServeHTTP(w, r)
		}))
	})
	return c05Srv
}

func c05InterpHTTP(c c05HTTPCase) (v kit.Verdict) {
	defer c05EnvCleanup()
	if msg, _ := c05History(nil); msg != "" {
		return kit.Verdict{Fail: msg, Classes: []string{"history-panic"}}
	}
	cc := c05Case{S: c.S, D: c.D}
	target, ok := c05Target(&cc)
	if !ok || c.D.T != "obj" {
		return kit.Verdict{Excluded: true, Classes: []string{"unbuildable-shape"}}
	}
	classes := map[string]bool{}
	sent := reflect.New(target.Type().Elem())
	if !c05BuildStruct(c.S, &c.D, sent.Elem()) {
		return kit.Verdict{Excluded: true, Classes: []string{"unbuildable-value"}}
	}
	o := c05NewOracle()
	// only for the predicates of known server-side panics (e.g. map[string]*scalar)
	o.walkStruct(c.S, &c.D, reflect.Value{}, "")
	o.classes = map[string]bool{}
	if len(o.mustFail) > 0 {
		// e.g. an integer field with range=(-2:-1): no value satisfies the field's own constraint
		return kit.Verdict{Excluded: true, Classes: []string{"no-representable-value"}}
	}
	pattern := "/r"
	applied := false
	for i := range c.S {
		f, fv := &c.S[i], sent.Elem().Field(i)
		switch {
		case applied:
		case c.X == "emptypath" && f.Tag == "path" && fv.Kind() == reflect.String:
			fv.SetString("")
			applied = true
		case c.X == "badvalue" && len(f.Opts) > 0 && fv.Kind() == reflect.String:
			fv.SetString(fv.String() + "-not-an-option")
			applied = true
		case c.X == "badvalue" && f.Rng != nil && f.Rng.R != "" && (fv.Kind() == reflect.Int || fv.Kind() == reflect.Int64 || fv.Kind() == reflect.Float64):
			if r, err := strconv.ParseFloat(f.Rng.R, 64); err == nil {
				if fv.Kind() == reflect.Float64 {
					fv.SetFloat(r + 1000)
				} else {
					fv.SetInt(int64(r) + 1000)
				}
				applied = true
			}
		case c.X == "emptycoll" && f.Tag == "json" && !f.Opt && (fv.Kind() == reflect.Slice || fv.Kind() == reflect.Map):
			fv.Set(reflect.Zero(fv.Type()))
			applied = true
		case c.X == "nilptr" && f.Tag == "json" && !f.Opt && fv.Kind() == reflect.Ptr:
			fv.Set(reflect.Zero(fv.Type()))
			applied = true
		case c.X == "nan" && f.Tag == "json" && (fv.Kind() == reflect.Float64 || fv.Kind() == reflect.Float32) && f.Rng == nil && len(f.Opts) == 0 && !f.Str:
			fv.SetFloat(math.NaN()) // encoding/json cannot encode it
			applied = true
		}
	}
	for i := range c.S {
		classes["part:"+c.S[i].Tag] = true
		if len(c.S[i].Tag2) > 0 {
			classes[fmt.Sprintf("multi-part-field:%d", len(c.S[i].Tag2)+1)] = true
		}
		if c.S[i].Tag == "path" {
			pattern += "/:" + c.S[i].key(i)
		}
		if c.S[i].T.K == "struct" || c.S[i].T.K == "slice" || c.S[i].T.K == "map" {
			classes["json-composite"] = true
		}
	}
	var (
		mu       sync.Mutex
		called   int
		parseErr error
		parsePan any
		bodyLen  int64
	)
	method := c.M
	if method == "" {
		method = http.MethodPost
	}
	urlPattern := pattern
	switch c.X {
	case "getbody":
		if classes["part:json"] {
			method, applied = http.MethodGet, true
		}
	case "missingvar":
		pattern, urlPattern, applied = pattern+"/:zz9", pattern+"/:zz9", true
	case "unusedvar":
		if i := strings.LastIndex(pattern, "/:"); i > 0 {
			pattern, urlPattern, applied = pattern[:i], pattern[:i], true
		}
	case "badurl":
		urlPattern, applied = pattern+"/%zz", true
	}
	httpcMethod := method
	if c.X == "badmethod" {
		httpcMethod, applied = "BAD METHOD", true
	}
	if c.CT {
		classes["ctx:client-trace"] = true
		// (F20, repaired by 638bb9d: httpc.request re-installed the context's own ClientTrace, the first
		// hook that fired recursed until "fatal error: stack overflow"; such a crash is reported by the driver)
	}
	if c.X != "" && !applied {
		return kit.Verdict{Excluded: true, Classes: []string{"refusable:not-applicable"}}
	}
	classes["method:"+method] = true
	rtr := router.NewRouter()
	if err := rtr.Handle(method, pattern, http.HandlerFunc(func(w http.ResponseWriter, r *http.Request) {
		got := reflect.New(target.Type().Elem())
		out := c05Call(func() error { return httpx.Parse(r, got.Interface()) })
		mu.Lock()
		called++
		parseErr, parsePan, bodyLen = out.Err, out.Panic, r.ContentLength
		target = got
		mu.Unlock()
		w.WriteHeader(http.StatusNoContent)
	})); err != nil {
		return kit.Verdict{Excluded: true, Classes: []string{"route-rejected"}}
	}
	srv := c05Server()
	c05SrvMu.Lock()
	c05SrvH = rtr
	c05SrvMu.Unlock()

	descText := fmt.Sprintf("type %v sent %s route %s", target.Type().Elem(), c05Sprint(sent.Elem()), pattern)
	desc := func() string { return descText }
	var resp *http.Response
	var (
		hookMu                       sync.Mutex
		gotConn, firstByte, wroteReq int
	)
	send := func() c05Outcome {
		out := c05Call(func() error {
			var err error
			ctx := context.Background()
			if c.CT {
				gotConn, firstByte, wroteReq = 0, 0, 0
				ctx = httptrace.WithClientTrace(ctx, &httptrace.ClientTrace{
					GotConn:              func(httptrace.GotConnInfo) { hookMu.Lock(); gotConn++; hookMu.Unlock() },
					WroteRequest:         func(httptrace.WroteRequestInfo) { hookMu.Lock(); wroteReq++; hookMu.Unlock() },
					GotFirstResponseByte: func() { hookMu.Lock(); firstByte++; hookMu.Unlock() },
				})
			}
			resp, err = httpc.Do(ctx, httpcMethod, srv.URL+urlPattern, sent.Interface())
			return err
		})
		if resp != nil {
			_, _ = io.Copy(io.Discard, resp.Body)
			_ = resp.Body.Close()
		}
		return out
	}
	out := send()
	if c.X != "" {
		switch {
		case out.Panic != nil:
			return kit.Verdict{Fail: fmt.Sprintf("P0 httpc.Do panicked on a request it cannot build (%s): %v | %s", c.X, out.Panic, desc()), Classes: []string{"refusable:" + c.X, "outcome:panic"}}
		case parsePan != nil:
			return kit.Verdict{Fail: fmt.Sprintf("P0 httpx.Parse panicked (%s): %v | %s", c.X, parsePan, desc()), Known: c05PanicKnown(o, fmt.Sprint(parsePan)), Classes: []string{"refusable:" + c.X, "outcome:panic"}}
		case out.Err != nil:
			return kit.Verdict{NonTrivial: true, Classes: []string{"refusable:" + c.X, "refusable:refused-by-httpc"}}
		}
		return kit.Verdict{Excluded: true, Classes: []string{"refusable:" + c.X, "refusable:sent-anyway"}}
	}
	if c.Big > 0 && out.Panic == nil && out.Err == nil && called == 1 && parsePan == nil && parseErr == nil {
		// large-document class: second request with the pad field sized so that the body is exactly c.Big bytes
		padField := sent.Elem().Field(len(c.S) - 1)
		n := c.Big - int(bodyLen)
		if len(c.S) == 0 || c.S[len(c.S)-1].W[0] != "pad" || padField.Kind() != reflect.String || n <= 0 {
			return kit.Verdict{Excluded: true, Classes: []string{"big:not-constructible"}}
		}
		classes[fmt.Sprintf("big:%+d", c.Big-c05MaxBody)] = true
		padField.SetString(strings.Repeat("a", n))
		called = 0
		out = send()
		descText += fmt.Sprintf(" | second request: pad field of %d bytes, Content-Length %d (limit %d)", n, bodyLen, c05MaxBody)
		bigOK := false
		switch {
		case out.Panic != nil || parsePan != nil:
		case out.Err != nil || parseErr != nil:
			classes["big:rejected-with-error"] = true
			bigOK = true // "either fails with an error ..."
		case called == 1 && int(bodyLen) == c.Big && reflect.DeepEqual(sent.Elem().Interface(), target.Elem().Interface()):
			classes["big:accepted-exact"] = true
			bigOK = true // "... or every field equals the document's value"
		}
		// keep messages small
		padField.SetString("")
		if target.Elem().Field(len(c.S)-1).Kind() == reflect.String {
			target.Elem().Field(len(c.S) - 1).SetString(fmt.Sprintf("<%d bytes>", target.Elem().Field(len(c.S)-1).Len()))
		}
		if bigOK {
			out, parseErr, parsePan, called = c05Outcome{}, nil, nil, 1
			target = sent // judged above
		} else if out.Panic == nil && parsePan == nil {
			v.Fail = fmt.Sprintf("P5 a %d-byte JSON body was neither rejected with an error nor parsed into the struct that was sent: handler calls %d, Content-Length %d, got %s | %s",
				c.Big, called, bodyLen, c05Sprint(target.Elem()), desc())
		}
	}
	hookMu.Lock()
	gc, fb, wr := gotConn, firstByte, wroteReq
	hookMu.Unlock()
	switch {
	case v.Fail != "":
	case c.CT && c.Big == 0 && out.Panic == nil && out.Err == nil && (fb != 1 || gc < 1 || wr < 1 || wr > gc):
		// the caller's trace hooks: one response, so the first response byte arrives exactly once; every
		// written request was written on a connection that was handed out (a transparent retry repeats both)
		v.Fail = fmt.Sprintf("P5 the context's httptrace hooks fired GotConn x%d, WroteRequest x%d, GotFirstResponseByte x%d for one successful httpc.Do | %s", gc, wr, fb, desc())
	case out.Panic != nil:
		v.Fail = fmt.Sprintf("P0 httpc.Do panicked: %v | %s", out.Panic, desc())
	case out.Err != nil:
		v.Fail = fmt.Sprintf("P5 httpc.Do refused a representable request struct: %v | %s", out.Err, desc())
	case called != 1:
		v.Fail = fmt.Sprintf("P5 the route handler ran %d times (status %d) | %s", called, resp.StatusCode, desc())
	case parsePan != nil:
		v.Fail = fmt.Sprintf("P0 httpx.Parse panicked: %v | %s", parsePan, desc())
		v.Known = c05PanicKnown(o, fmt.Sprint(parsePan))
	case parseErr != nil:
		v.Fail = fmt.Sprintf("P5 httpx.Parse rejected what httpc sent: %v | %s", parseErr, desc())
	case !reflect.DeepEqual(sent.Elem().Interface(), target.Elem().Interface()):
		v.Fail = fmt.Sprintf("P5 parsed struct differs: got %s | %s", c05Sprint(target.Elem()), desc())
	}
	nparts := 0
	for k := range classes {
		if strings.HasPrefix(k, "part:") {
			nparts++
		}
		o.class(k)
	}
	if nparts >= 3 {
		o.class("parts>=3")
	}
	v = c05Finish(v, o, c05Depth(c.S))
	v.NonTrivial = nparts >= 2 || classes["json-composite"]
	return v
}

func TestVerif_C05_http(t *testing.T) {
	kit.Run(t, "C05", "http", kit.Opts{Quick: 8000, Thorough: 160000}, c05GenHTTPCaseMaybeBig, c05InterpHTTP)
}

var _ = rapid.Bool
