package mapping_test

// C05 rules (see verif.json for the honest summary):
//   json : P0 no panic, P1 exactness / validation, P2 completeness on plain documents,
//          entry points UnmarshalJsonBytes, UnmarshalJsonReader, UnmarshalKey(map)
//   yaml : P3 the same content as YAML gives the same struct (P0/P1 on the YAML result too)
//   conf : P4 conf.LoadFromJsonBytes/LoadFromYamlBytes with respelled keys
//   http : P5 httpc -> router -> httpx.Parse round trip (c05_http_test.go)
//   minimal : enumerated regression inputs of the repaired defects (c05_minimal_test.go)
// json, yaml and conf additionally unmarshal every accepted document a second time
// after overwriting the first result in place (c05Repeat).

import (
	"fmt"
	"net/http"
	"net/http/httptest"
	"os"
	"path/filepath"
	"reflect"
	"runtime/debug"
	"strconv"
	"strings"
	"testing"

	"github.com/gotid/god/api/httpx"
	"github.com/gotid/god/lib/conf"
	"github.com/gotid/god/lib/logx"
	"github.com/gotid/god/lib/mapping"
	"pgregory.net/rapid"
	"verif.local/kit"
)

func init() {
	logx.Disable()
	// the process accumulates tens of thousands of reflect.StructOf types and tag-cache
	// entries (a large, long-lived heap): collect less often
	debug.SetGCPercent(400)
}

// Known findings: every failure that matches one of the narrow predicates of the
// oracle carries Verdict.Known = <id>; the kit tolerates it only while
// known_findings.txt (or the file named by VERIF_KNOWN) has an "open:" line for it.
// All nine ids found on 7bc7747 were fixed in /repo (b1a1e84, 84fc494), so they are
// reported as VIOLATIONs again if a regression re-introduces them.

func c05Open(id string) bool { return kit.KnownOpen("C05", id) }

// c05Finish fills classes and the non-trivial flag of the verdict.
func c05Finish(v kit.Verdict, o *c05Oracle, depth int) kit.Verdict {
	if v.Fail != "" && v.Known != "" {
		o.class("known:" + v.Known)
	}
	v.NonTrivial = o.hot || depth >= 3
	if depth >= 3 {
		o.class("nesting>=2")
	}
	if depth >= 7 {
		o.class("size:nesting>=6")
	}
	if o.notPlain {
		o.class("doc:unspecified-part")
	} else if len(o.mustFail) > 0 {
		o.class("doc:must-fail")
	} else {
		o.class("doc:plain")
	}
	v.Classes = o.classList()
	return v
}

// c05Judge: P0, P1, P2 for one call.
func c05Judge(o *c05Oracle, out c05Outcome, what string, desc func() string) (fail, known string) {
	switch {
	case out.Panic != nil:
		msg := fmt.Sprint(out.Panic)
		o.class("outcome:panic")
		return fmt.Sprintf("P0 %s panicked: %s | %s", what, msg, desc()), c05PanicKnown(o, msg)
	case out.Err == nil:
		o.class("outcome:accepted")
		if len(o.mustFail) > 0 {
			return fmt.Sprintf("P1 %s returned nil although: %s | %s", what, c05Msgs(o.mustFail), desc()),
				c05PickKnown(append(append([]c05Finding{}, o.mustFail...), o.bad...), c05Open)
		}
		if len(o.bad) > 0 {
			return fmt.Sprintf("P1 %s accepted but the struct differs from the document: %s | %s", what, c05Msgs(o.bad), desc()),
				c05PickKnown(o.bad, c05Open)
		}
	default:
		o.class("outcome:error")
		if !o.notPlain && len(o.mustFail) == 0 {
			return fmt.Sprintf("P2 %s rejected a plain document (well-typed, in range, required fields present): %v | %s", what, out.Err, desc()), ""
		}
	}
	return "", ""
}

func c05Target(c *c05Case) (reflect.Value, bool) {
	var rv reflect.Value
	ok := func() (ok bool) {
		defer func() {
			if recover() != nil {
				ok = false
			}
		}()
		c05EnvNewBuild()
		rv = reflect.New(c05StructType(c.S))
		return true
	}()
	return rv, ok
}

func c05Run(ep string, d *c05JV, target any) c05Outcome {
	if strings.HasPrefix(ep, "native:") {
		seed, _ := strconv.ParseUint(strings.TrimPrefix(ep, "native:"), 10, 64)
		m, _ := c05Native(d, c05Mix(seed, 0), true).(map[string]any)
		return c05Call(func() error { return mapping.UnmarshalKey(m, target) })
	}
	return c05RunPlain(ep, d, target)
}

// c05RunNative: entry point "native" of a case (c.NM: shape-directed value types).
func c05RunNative(c *c05Case, target any, x *c05NatCtx) c05Outcome {
	if c.NM == 0 {
		return c05Run("native:"+strconv.Itoa(c.FP), &c.D, target)
	}
	m := c05NativeDoc(c.S, &c.D, c05Mix(uint64(c.FP), 1), x)
	// observed class only (the statement is silent on it): is the caller's document the same afterwards?
	// (fmt prints maps in key order; pointers print as addresses, which do not change)
	before := ""
	if small := len(c.D.M) <= 8 && len(c.D.JSON()) < 2048; small {
		before = fmt.Sprintf("%v", m)
	}
	out := c05Call(func() error { return mapping.UnmarshalKey(m, target) })
	if before != "" && out.Panic == nil {
		if fmt.Sprintf("%v", m) == before {
			x.class("native:input-unchanged")
		} else {
			x.class("native:input-modified-by-unmarshal")
		}
	}
	return out
}

func c05RunPlain(ep string, d *c05JV, target any) c05Outcome {
	switch ep {
	case "key":
		m, _ := d.toAny().(map[string]any)
		return c05Call(func() error { return mapping.UnmarshalKey(m, target) })
	case "reader":
		return c05Call(func() error { return mapping.UnmarshalJsonReader(strings.NewReader(d.JSON()), target) })
	case "map":
		m, _ := d.toAny().(map[string]any)
		return c05Call(func() error { return mapping.UnmarshalJsonMap(m, target) })
	case "opts1", "opts2":
		// variadic options: one or two no-op options must behave like none
		id := mapping.WithCanonicalKeyFunc(func(s string) string { return s })
		opts := []mapping.UnmarshalOption{id}
		if ep == "opts2" {
			opts = append(opts, id)
		}
		return c05Call(func() error { return mapping.UnmarshalJsonBytes([]byte(d.JSON()), target, opts...) })
	}
	return c05Call(func() error { return mapping.UnmarshalJsonBytes([]byte(d.JSON()), target) })
}

// ---- cross-call history -------------------------------------------------
// The result of a call depends on nothing but its own inputs, so earlier calls
// through other entry points must not matter. c05Preamble is a fixed history run
// before every judged call (so that a replay file reproduces on its own even when
// a defect poisons process-wide state for good); c05WarmUp runs the generated
// warm-up calls of the case. Outcomes of these calls are not judged (panics are).

type c05PreConf struct {
	UserName string `json:"user_name"`
	Age      int    `json:"Age,optional"`
}

func c05Preamble() (panicked any) {
	out := c05Call(func() error {
		var a, b, c, d c05PreConf
		_ = conf.LoadFromJsonBytes([]byte(`{"userName":"a","age":1}`), &a)
		_ = conf.LoadFromYamlBytes([]byte("User_Name: b\n"), &b)
		_ = mapping.UnmarshalKey(map[string]any{"x": 1}, &struct {
			X int `key:"x"`
		}{})
		_ = mapping.UnmarshalYamlBytes([]byte("user_name: c\nAge: 2\n"), &c)
		r := httptest.NewRequest(http.MethodPost, "/p?q=1", strings.NewReader(`{"user_name":"d","Age":3}`))
		r.Header.Set("Content-Type", "application/json")
		_ = httpx.Parse(r, &d)
		return nil
	})
	return out.Panic
}

func c05WarmUp(ws []c05Warm) (panicked any, known string) {
	for i := range ws {
		w := &ws[i]
		wc := c05Case{S: w.S, D: w.D}
		t, ok := c05Target(&wc)
		if !ok || w.D.T != "obj" {
			continue
		}
		var out c05Outcome
		switch w.EP {
		case "confjson":
			out = c05Call(func() error { return conf.LoadFromJsonBytes([]byte(w.D.JSON()), t.Interface()) })
		case "confyaml":
			out = c05Call(func() error { return conf.LoadFromYamlBytes([]byte(w.D.YAML(1)), t.Interface()) })
		case "key":
			out = c05Run("key", &w.D, t.Interface())
		case "yaml":
			out = c05Call(func() error { return mapping.UnmarshalYamlBytes([]byte(w.D.YAML(0)), t.Interface()) })
		default:
			out = c05Run("", &w.D, t.Interface())
		}
		if out.Panic != nil {
			o := c05NewOracle()
			o.walkStruct(w.S, &w.D, reflect.Value{}, "")
			k := c05PanicKnown(o, fmt.Sprint(out.Panic))
			if k == "" && strings.HasPrefix(w.EP, "confyaml") || w.EP == "yaml" {
				yv := w.D.yamlView()
				o2 := c05NewOracle()
				o2.walkStruct(w.S, &yv, reflect.Value{}, "")
				k = c05PanicKnown(o2, fmt.Sprint(out.Panic))
			}
			return out.Panic, k
		}
	}
	return nil, ""
}

// c05History runs preamble and warm-ups; a non-empty message is a P0 failure
// (known = the narrow predicate of a known panic, if the warm-up document matches one).
func c05History(ws []c05Warm) (msg, known string) {
	if p := c05Preamble(); p != nil {
		return fmt.Sprintf("P0 a call of the fixed preamble panicked: %v", p), ""
	}
	if p, k := c05WarmUp(ws); p != nil {
		return fmt.Sprintf("P0 a warm-up call panicked: %v", p), k
	}
	return "", ""
}

func c05InterpJSON(c c05Case) (v kit.Verdict) {
	defer c05EnvCleanup()
	c.D = c.D.expand()
	if msg, known := c05History(c.W); msg != "" {
		return kit.Verdict{Fail: msg, Known: known, Classes: []string{"history-panic"}}
	}
	target, ok := c05Target(&c)
	if !ok || c.D.T != "obj" {
		return kit.Verdict{Excluded: true, Classes: []string{"unbuildable-shape"}}
	}
	if strings.HasPrefix(c.EP, "fault") {
		return c05InterpFault(&c, target)
	}
	if c.EP == "custom" && c.CU != nil {
		return c05InterpCustom(&c, target)
	}
	ep := c.EP
	o := c05NewOracle()
	o.numText = true
	run := func(t any) c05Outcome { return c05Run(ep, &c.D, t) }
	if c.EP == "native" {
		o.native = true
		o.unspec("native-values") // acceptance is never demanded for hand-built maps
		o.class(fmt.Sprintf("native:mode%d", c.NM))
		run = func(t any) c05Outcome { return c05RunNative(&c, t, &c05NatCtx{classes: o.classes}) }
	}
	out := run(target.Interface())
	res := reflect.Value{}
	if out.Panic == nil && out.Err == nil {
		res = target.Elem()
	}
	o.walkStruct(c.S, &c.D, res, "")
	o.class("ep:" + c.EP)
	for i := range c.W {
		o.class("warmup:" + c.W[i].EP)
	}
	v.Fail, v.Known = c05Judge(o, out, "Unmarshal("+c.EP+")", func() string { return c05Describe(&c) })
	if v.Fail == "" && res.IsValid() {
		v.Fail = c05Repeat(o, &c, res, "Unmarshal("+c.EP+")", run)
	}
	return c05Finish(v, o, c05Depth(c.S))
}

// c05Repeat — independence of results: the caller may modify what it got; a
// later unmarshal of the same document must not see that (declared defaults,
// memoised tag data and the input must not be aliased by a result). first is
// the accepted result of the first call; it is overwritten in place.
func c05Repeat(o *c05Oracle, c *c05Case, first reflect.Value, what string, run func(target any) c05Outcome) string {
	snapshot := c05DeepCopy(first)
	if c05Scribble(first) {
		o.class("repeat:result-had-slices-maps-pointers")
	}
	t2 := reflect.New(first.Type())
	out2 := run(t2.Interface())
	switch {
	case out2.Panic != nil:
		return fmt.Sprintf("P0 second %s of the same document panicked: %v | %s", what, out2.Panic, c05Describe(c))
	case out2.Err != nil:
		return fmt.Sprintf("P1 second %s of the same document failed after the caller modified the first result: %v | %s", what, out2.Err, c05Describe(c))
	case !c05DeepEq(snapshot, t2.Elem()):
		return fmt.Sprintf("P1 second %s of the same document gives %s, the first gave %s (the caller modified the first result in between) | %s",
			what, c05Sprint(t2.Elem()), c05Sprint(snapshot), c05Describe(c))
	}
	return ""
}

// c05DeepEq: reflect.DeepEqual, except that NaN equals NaN (",string" and string-valued
// sources accept the text "NaN" for float fields).
func c05DeepEq(a, b reflect.Value) bool {
	if a.Kind() != b.Kind() {
		return false
	}
	switch a.Kind() {
	case reflect.Float32, reflect.Float64:
		x, y := a.Float(), b.Float()
		return x == y || (x != x && y != y)
	case reflect.Ptr:
		if a.IsNil() || b.IsNil() {
			return a.IsNil() == b.IsNil()
		}
		return c05DeepEq(a.Elem(), b.Elem())
	case reflect.Struct:
		for i := 0; i < a.NumField(); i++ {
			if !c05DeepEq(a.Field(i), b.Field(i)) {
				return false
			}
		}
		return true
	case reflect.Slice:
		if a.IsNil() != b.IsNil() || a.Len() != b.Len() {
			return false
		}
		for i := 0; i < a.Len(); i++ {
			if !c05DeepEq(a.Index(i), b.Index(i)) {
				return false
			}
		}
		return true
	case reflect.Map:
		if a.IsNil() != b.IsNil() || a.Len() != b.Len() {
			return false
		}
		it := a.MapRange()
		for it.Next() {
			bv := b.MapIndex(it.Key())
			if !bv.IsValid() || !c05DeepEq(it.Value(), bv) {
				return false
			}
		}
		return true
	}
	return reflect.DeepEqual(a.Interface(), b.Interface())
}

// c05DeepCopy copies a value built from the generated kinds.
func c05DeepCopy(v reflect.Value) reflect.Value {
	out := reflect.New(v.Type()).Elem()
	switch v.Kind() {
	case reflect.Ptr:
		if !v.IsNil() {
			p := reflect.New(v.Type().Elem())
			p.Elem().Set(c05DeepCopy(v.Elem()))
			out.Set(p)
		}
	case reflect.Struct:
		for i := 0; i < v.NumField(); i++ {
			out.Field(i).Set(c05DeepCopy(v.Field(i)))
		}
	case reflect.Slice:
		if !v.IsNil() {
			s := reflect.MakeSlice(v.Type(), v.Len(), v.Len())
			for i := 0; i < v.Len(); i++ {
				s.Index(i).Set(c05DeepCopy(v.Index(i)))
			}
			out.Set(s)
		}
	case reflect.Map:
		if !v.IsNil() {
			m := reflect.MakeMapWithSize(v.Type(), v.Len())
			it := v.MapRange()
			for it.Next() {
				m.SetMapIndex(it.Key(), c05DeepCopy(it.Value()))
			}
			out.Set(m)
		}
	default:
		out.Set(v)
	}
	return out
}

// c05Scribble overwrites, in place, everything reachable through slices, maps
// and pointers of a result (what could be shared with library state); reports
// whether there was anything of that sort.
func c05Scribble(v reflect.Value) (touched bool) {
	switch v.Kind() {
	case reflect.Ptr:
		if !v.IsNil() {
			c05ScribbleScalar(v.Elem())
			c05Scribble(v.Elem())
			return true
		}
	case reflect.Struct:
		for i := 0; i < v.NumField(); i++ {
			if c05Scribble(v.Field(i)) {
				touched = true
			}
		}
	case reflect.Slice:
		for i := 0; i < v.Len(); i++ {
			c05Scribble(v.Index(i))
			c05ScribbleScalar(v.Index(i))
			touched = true
		}
	case reflect.Map:
		if v.IsNil() {
			return false
		}
		for _, k := range v.MapKeys() {
			e := reflect.New(v.Type().Elem()).Elem()
			e.Set(v.MapIndex(k))
			c05Scribble(e)
			c05ScribbleScalar(e)
			v.SetMapIndex(k, e)
			touched = true
		}
		v.SetMapIndex(reflect.ValueOf("scribbled-extra-key").Convert(v.Type().Key()), reflect.Zero(v.Type().Elem()))
		return true
	}
	return touched
}

func c05ScribbleScalar(v reflect.Value) {
	if !v.CanSet() {
		return
	}
	switch v.Kind() {
	case reflect.Bool:
		v.SetBool(!v.Bool())
	case reflect.String:
		v.SetString(v.String() + "#scribbled")
	case reflect.Int, reflect.Int8, reflect.Int16, reflect.Int32, reflect.Int64:
		v.SetInt(v.Int() ^ 0x55)
	case reflect.Uint, reflect.Uint8, reflect.Uint16, reflect.Uint32, reflect.Uint64:
		v.SetUint(v.Uint() ^ 0x55)
	case reflect.Float32, reflect.Float64:
		v.SetFloat(v.Float() + 1)
	}
}

// c05InterpCustom: unmarshalers made by the caller (shared and per-instance configuration).
// Three instances live side by side: u1 and u3 are built from the SAME options slice
// (WithStringValues and/or WithCanonicalKeyFunc), u2 is a plain instance for the same tag.
// Each is an independent model: u2 is run before and after u1 and must not change; u3 must
// agree with u1; u1 is judged by the oracle with the instance's settings.
func c05InterpCustom(c *c05Case, target reflect.Value) (v kit.Verdict) {
	var opts []mapping.UnmarshalOption
	if c.CU.Str {
		opts = append(opts, mapping.WithStringValues())
	}
	fn := c05CanonFn(c.CU.Canon)
	if fn != nil {
		opts = append(opts, mapping.WithCanonicalKeyFunc(fn))
	}
	u1 := mapping.NewUnmarshaler(c.CU.Tag, opts...)
	u2 := mapping.NewUnmarshaler(c.CU.Tag)
	u3 := mapping.NewUnmarshaler(c.CU.Tag, opts...)
	doc1 := c.D
	if fn != nil {
		doc1 = c.D.mapKeys(fn)
	}
	run := func(u *mapping.Unmarshaler, d *c05JV, t reflect.Value) c05Outcome {
		m, _ := d.toAny().(map[string]any)
		return c05Call(func() error { return u.Unmarshal(m, t.Interface()) })
	}
	typ := target.Type().Elem()
	t2a, t2b, t3 := reflect.New(typ), reflect.New(typ), reflect.New(typ)
	o2a := run(u2, &c.D, t2a)
	out := run(u1, &doc1, target)
	o2b := run(u2, &c.D, t2b)
	o3 := run(u3, &doc1, t3)

	o := c05NewOracle()
	o.allStr, o.keyFn = c.CU.Str, fn
	res := reflect.Value{}
	if out.Panic == nil && out.Err == nil {
		res = target.Elem()
	}
	o.walkStruct(c.S, &doc1, res, "")
	o.class("ep:custom")
	o.class(fmt.Sprintf("custom:str=%v,canon=%s", c.CU.Str, c.CU.Canon))
	desc := func() string {
		return fmt.Sprintf("NewUnmarshaler(%q, stringValues=%v, canonicalKey=%q) %s", c.CU.Tag, c.CU.Str, c.CU.Canon, c05Describe(&c05Case{S: c.S, D: doc1}))
	}
	v.Fail, v.Known = c05Judge(o, out, "custom Unmarshal", desc)
	same := func(a, b c05Outcome, ta, tb reflect.Value) bool {
		if (a.Panic == nil) != (b.Panic == nil) || (a.Err == nil) != (b.Err == nil) {
			return false
		}
		return a.Err != nil || a.Panic != nil || c05DeepEq(ta.Elem(), tb.Elem())
	}
	switch {
	case v.Fail != "":
	case o2a.Panic != nil && c05PanicKnown(o, fmt.Sprint(o2a.Panic)) == "":
		v.Fail = fmt.Sprintf("P0 the plain instance panicked: %v | %s", o2a.Panic, desc())
	case !same(o2a, o2b, t2a, t2b):
		v.Fail = fmt.Sprintf("P1 a plain NewUnmarshaler(%q) instance behaves differently after another instance with options was used: before err=%v %s, after err=%v %s | %s",
			c.CU.Tag, o2a.Err, c05Sprint(t2a.Elem()), o2b.Err, c05Sprint(t2b.Elem()), desc())
	case !same(out, o3, target, t3):
		v.Fail = fmt.Sprintf("P1 two instances built from the same options disagree: err=%v %s vs err=%v %s | %s",
			out.Err, c05Sprint(target.Elem()), o3.Err, c05Sprint(t3.Elem()), desc())
	}
	if v.Fail == "" && !c.CU.Str && o2a.Panic == nil {
		// the plain instance, alive next to the configured ones, is held to the plain oracle
		op := c05NewOracle()
		r2 := reflect.Value{}
		if o2a.Err == nil {
			r2 = t2a.Elem()
		}
		op.walkStruct(c.S, &c.D, r2, "")
		v.Fail, v.Known = c05Judge(op, o2a, "plain instance Unmarshal", desc)
	}
	return c05Finish(v, o, c05Depth(c.S))
}

// c05FaultReader delivers a strict prefix of the document, then fails.
type c05FaultReader struct {
	data []byte
	pos  int
}

var errC05Fault = fmt.Errorf("c05: injected read fault")

func (r *c05FaultReader) Read(p []byte) (int, error) {
	if r.pos >= len(r.data) {
		return 0, errC05Fault
	}
	n := copy(p, r.data[r.pos:])
	if n > 7 && len(r.data) < 4096 {
		n = 7 // short reads (small documents only: the decoder's buffering is quadratic in the number of reads)
	}
	r.pos += n
	return n, nil
}

// c05InterpFault: the reader fails inside the document (partial result then failure):
// the reader entry points must return an error, never a struct filled from the prefix.
func c05InterpFault(c *c05Case, target reflect.Value) (v kit.Verdict) {
	doc := c.D.JSON()
	if c.EP == "faultyaml" {
		doc = c.D.YAML(c.Y)
	}
	cut := len(doc) * (c.FP % 1000) / 1000
	if cut > len(doc)-2 {
		cut = len(doc) - 2
	}
	if cut < 0 {
		return kit.Verdict{Excluded: true, Classes: []string{"fault:doc-too-short"}}
	}
	r := &c05FaultReader{data: []byte(doc[:cut])}
	var out c05Outcome
	if c.EP == "faultyaml" {
		out = c05Call(func() error { return mapping.UnmarshalYamlReader(r, target.Interface()) })
	} else {
		out = c05Call(func() error { return mapping.UnmarshalJsonReader(r, target.Interface()) })
	}
	v.Classes = []string{"ep:" + c.EP, "fault:reader-fails-mid-document"}
	v.NonTrivial = true
	switch {
	case out.Panic != nil:
		v.Fail = fmt.Sprintf("P0 %s panicked on a failing reader: %v | %s", c.EP, out.Panic, c05Describe(c))
	case out.Err == nil:
		v.Fail = fmt.Sprintf("P1 %s returned nil although the reader failed after %d of %d bytes | %s", c.EP, cut, len(doc), c05Describe(c))
	}
	return v
}

func TestVerif_C05_json(t *testing.T) {
	kit.Run(t, "C05", "json", kit.Opts{Quick: 40000, Thorough: 1600000}, c05GenCase, c05InterpJSON)
}

// rule "native": the same interpreter and oracle on hand-built map documents only (the value
// TYPES of the document are a dimension of their own; rule json spends 14 % of its cases there).
func TestVerif_C05_native(t *testing.T) {
	kit.Run(t, "C05", "native", kit.Opts{Quick: 16000, Thorough: 512000}, c05GenNativeCase, c05InterpJSON)
}

// ---- P3: YAML agreement ----

func c05InterpYAML(c c05Case) (v kit.Verdict) {
	defer c05EnvCleanup()
	c.D = c.D.expand()
	if msg, known := c05History(c.W); msg != "" {
		return kit.Verdict{Fail: msg, Known: known, Classes: []string{"history-panic"}}
	}
	tj, ok := c05Target(&c)
	if !ok || c.D.T != "obj" {
		return kit.Verdict{Excluded: true, Classes: []string{"unbuildable-shape"}}
	}
	ty := reflect.New(tj.Type().Elem()) // same type: env= names are part of the tags
	js := c.D.JSON()
	ys := c.D.YAML(c.Y)
	if c.EP == "truncated" {
		return c05InterpTruncated(&c, tj.Type().Elem(), js, ys)
	}
	oj := c05Call(func() error { return mapping.UnmarshalJsonBytes([]byte(js), tj.Interface()) })
	oy := c05Call(func() error {
		if c.EP == "reader" {
			return mapping.UnmarshalYamlReader(strings.NewReader(ys), ty.Interface())
		}
		return mapping.UnmarshalYamlBytes([]byte(ys), ty.Interface())
	})
	o := c05NewOracle()
	res := reflect.Value{}
	if oy.Panic == nil && oy.Err == nil {
		res = ty.Elem()
	}
	o.walkStruct(c.S, &c.D, res, "")
	o.class(fmt.Sprintf("yaml-style:%d", c.Y))
	o.class("yaml-ep:" + c.EP)
	desc := func() string { return c05Describe(&c) + " yaml " + fmt.Sprintf("%q", ys) }
	v.Fail, v.Known = c05Judge(o, oy, "UnmarshalYamlBytes", desc)
	if oy.Panic != nil && v.Known == "" {
		yv := c.D.yamlView()
		o2 := c05NewOracle()
		o2.walkStruct(c.S, &yv, reflect.Value{}, "")
		v.Known = c05PanicKnown(o2, fmt.Sprint(oy.Panic))
	}
	if v.Fail == "" && oj.Panic == nil {
		plain := !o.notPlain && len(o.mustFail) == 0
		jn, yn := oj.Err == nil, oy.Err == nil
		switch {
		case jn && yn:
			if !reflect.DeepEqual(tj.Elem().Interface(), ty.Elem().Interface()) {
				if plain {
					v.Fail = fmt.Sprintf("P3 JSON and YAML of the same plain content give different structs: json %s yaml %s | %s",
						c05Sprint(tj.Elem()), c05Sprint(ty.Elem()), desc())
				} else {
					o.class("p3:differ-on-unspecified-content")
				}
			} else {
				o.class("p3:equal")
			}
		case jn != yn:
			if plain {
				v.Fail = fmt.Sprintf("P3 same plain content: json err=%v yaml err=%v | %s", oj.Err, oy.Err, desc())
			} else {
				o.class("p3:one-sided-error-on-unspecified-content")
			}
		default:
			o.class("p3:both-error")
		}
	}
	if v.Fail == "" && res.IsValid() {
		v.Fail = c05Repeat(o, &c, res, "UnmarshalYamlBytes", func(t any) c05Outcome {
			return c05Call(func() error { return mapping.UnmarshalYamlBytes([]byte(ys), t) })
		})
	}
	return c05Finish(v, o, c05Depth(c.S))
}

// c05InterpTruncated: the document text is cut inside its last token (a malformed document):
// an unclosed JSON object / YAML flow mapping denotes no document at all, so every entry point
// must fail with an error (block-style YAML may stay well-formed: no panic only).
func c05InterpTruncated(c *c05Case, typ reflect.Type, js, ys string) (v kit.Verdict) {
	v.Classes = []string{"yaml-ep:truncated", fmt.Sprintf("yaml-style:%d", c.Y)}
	v.NonTrivial = true
	jt := strings.TrimRight(js, " \n")
	jt = jt[:len(jt)-1]
	yt := strings.TrimRight(ys, " \n")
	yt = yt[:len(yt)-1]
	calls := []struct {
		name   string
		strict bool
		fn     func(t any) error
	}{
		{"UnmarshalJsonBytes", true, func(t any) error { return mapping.UnmarshalJsonBytes([]byte(jt), t) }},
		{"conf.LoadFromJsonBytes", true, func(t any) error { return conf.LoadFromJsonBytes([]byte(jt), t) }},
		{"UnmarshalYamlBytes", c.Y == 0, func(t any) error { return mapping.UnmarshalYamlBytes([]byte(yt), t) }},
		{"UnmarshalYamlReader", c.Y == 0, func(t any) error { return mapping.UnmarshalYamlReader(strings.NewReader(yt), t) }},
		{"conf.LoadFromYamlBytes", c.Y == 0, func(t any) error { return conf.LoadFromYamlBytes([]byte(yt), t) }},
	}
	for _, k := range calls {
		t := reflect.New(typ)
		out := c05Call(func() error { return k.fn(t.Interface()) })
		switch {
		case out.Panic != nil:
			o := c05NewOracle() // (the predicates of known panics: a truncated block-style YAML text may still be a document)
			o.walkStruct(c.S, &c.D, reflect.Value{}, "")
			return kit.Verdict{Fail: fmt.Sprintf("P0 %s panicked on a truncated document: %v | %s", k.name, out.Panic, c05Describe(c)),
				Known: c05PanicKnown(o, fmt.Sprint(out.Panic)), Classes: v.Classes}
		case out.Err == nil && k.strict:
			return kit.Verdict{Fail: fmt.Sprintf("P1 %s returned nil for a document cut before its closing brace (json %q yaml %q) | %s", k.name, jt, yt, c05Describe(c)), Classes: v.Classes}
		}
	}
	return v
}

func c05GenYAMLCase(rt *rapid.T) c05Case {
	cfg := &c05GenCfg{tag: "json", keyStyles: c05AllStyles, maxDepth: 3, dotted: true}
	var c c05Case
	c.S = c05GenFields(rt, cfg, 1, 6, "")
	mode := c05W(rt, "docmode", []string{"mixed", "plain", "hostile", "focus"}, []int{20, 40, 10, 30})
	g := &c05DocGen{rt: rt, plain: mode == "plain", hostile: 6, focus: mode == "focus", big: c05Rare(rt, "bigcase", 100), wideKeys: true, yamlNums: true}
	if mode == "hostile" {
		g.hostile = 30
	}
	c.D = g.object(c.S, 1)
	c.Y = rapid.IntRange(0, 1).Draw(rt, "yamlstyle")
	c.W = c05GenWarmups(rt)
	switch rapid.IntRange(0, 19).Draw(rt, "yamlreader") {
	case 1, 2, 3, 4, 5:
		c.EP = "reader"
	case 6:
		c.EP = "truncated"
	}
	return c
}

func TestVerif_C05_yaml(t *testing.T) {
	kit.Run(t, "C05", "yaml", kit.Opts{Quick: 15000, Thorough: 480000}, c05GenYAMLCase, c05InterpYAML)
}

// ---- P4: conf key respelling ----

type c05ConfCase struct {
	S  []c05Fld `json:"s"`
	D  c05JV    `json:"d"`           // keys as declared
	D2 c05JV    `json:"d2"`          // keys of declared fields respelled (snake_case / flipped initial)
	F  string   `json:"f,omitempty"` // the first load goes through conf.Load on a file with this extension (.json .yaml .yml .YML .Json)
	Y  int      `json:"y,omitempty"`
}

// c05Respell rewrites the keys of declared fields; one style per field.
func c05Respell(rt *rapid.T, fs []c05Fld, obj c05JV) c05JV {
	if obj.T != "obj" {
		return obj
	}
	out := c05JV{T: "obj", M: append([]c05KV(nil), obj.M...)}
	c05RespellInto(rt, fs, &out)
	return out
}

func c05RespellInto(rt *rapid.T, fs []c05Fld, out *c05JV) {
	for i := range fs {
		f := &fs[i]
		if f.Tag == "-other" {
			continue
		}
		if f.Anon {
			c05RespellInto(rt, f.T.F, out)
			continue
		}
		key := f.key(i)
		style := c05W(rt, "respell", []string{"same", "snake", "flip", "usnake"}, []int{20, 35, 35, 10})
		nk := key
		switch {
		case f.FK != "" && (style == "snake" || style == "usnake"):
			// fixed key of a compiled struct: traceId -> trace_id
			var b strings.Builder
			for _, r := range f.FK {
				if r >= 'A' && r <= 'Z' {
					b.WriteByte('_')
					r += 'a' - 'A'
				}
				b.WriteRune(r)
			}
			nk = b.String()
			style = ""
		}
		switch style {
		case "snake":
			nk = c05Spell(f.W, i, "snake")
		case "usnake":
			nk = c05Spell(f.W, i, "usnake")
		case "flip":
			if key[0] >= 'a' && key[0] <= 'z' {
				nk = strings.ToUpper(key[:1]) + key[1:]
			} else {
				nk = strings.ToLower(key[:1]) + key[1:]
			}
		}
		for j := range out.M {
			if out.M[j].K != key {
				continue
			}
			out.M[j].K = nk
			out.M[j].V = c05RespellValue(rt, &f.T, out.M[j].V)
		}
	}
}

func c05RespellValue(rt *rapid.T, t *c05Typ, v c05JV) c05JV {
	switch {
	case t.K == "struct" && v.T == "obj":
		return c05Respell(rt, t.F, v)
	case t.K == "slice" && (v.T == "arr" || v.T == "rep"):
		l := make([]c05JV, len(v.L))
		for i := range v.L {
			l[i] = c05RespellValue(rt, t.E, v.L[i])
		}
		return c05JV{T: v.T, N: v.N, L: l}
	case t.K == "map" && v.T == "obj":
		m := make([]c05KV, len(v.M))
		for i := range v.M {
			m[i] = c05KV{K: v.M[i].K, V: c05RespellValue(rt, t.E, v.M[i].V)}
		}
		return c05JV{T: "obj", M: m}
	}
	return v
}

func c05GenConfCase(rt *rapid.T) c05ConfCase {
	cfg := &c05GenCfg{tag: "json", keyStyles: []string{"", "camel", "camel"}, conf: true, maxDepth: 3}
	var c c05ConfCase
	c.S = c05GenFields(rt, cfg, 1, 6, "")
	mode := c05W(rt, "docmode", []string{"mixed", "plain", "focus"}, []int{15, 50, 35})
	g := &c05DocGen{rt: rt, plain: mode == "plain", hostile: 5, focus: mode == "focus", big: c05Rare(rt, "bigcase", 300)}
	c.D = g.object(c.S, 1)
	c.D2 = c05Respell(rt, c.S, c.D)
	c.F = c05W(rt, "conffile", []string{"", ".json", ".yaml", ".yml", ".YML", ".Json", ".json+env", ".yml+env", ".txt", ".toml", ".", "missing.json"},
		[]int{72, 6, 5, 4, 3, 2, 3, 2, 1, 1, 1, 1})
	c.Y = rapid.IntRange(0, 1).Draw(rt, "yamlstyle")
	return c
}

func c05InterpConf(c c05ConfCase) (v kit.Verdict) {
	defer c05EnvCleanup()
	c.D, c.D2 = c.D.expand(), c.D2.expand()
	cc := c05Case{S: c.S, D: c.D}
	t1, ok := c05Target(&cc)
	if !ok || c.D.T != "obj" || c.D2.T != "obj" {
		return kit.Verdict{Excluded: true, Classes: []string{"unbuildable-shape"}}
	}
	t2 := reflect.New(t1.Type().Elem())
	t3 := reflect.New(t1.Type().Elem())
	j1, j2, y2 := c.D.JSON(), c.D2.JSON(), c.D2.YAML(c.Y)
	o1 := c05Call(func() error { return conf.LoadFromJsonBytes([]byte(j1), t1.Interface()) })
	tf := reflect.New(t1.Type().Elem())
	tm := reflect.New(t1.Type().Elem())
	ext := strings.TrimSuffix(c.F, "+env")
	useEnv := ext != c.F
	yamlFile := strings.HasPrefix(strings.ToLower(ext), ".y")
	knownExt := map[string]bool{".json": true, ".yaml": true, ".yml": true}[strings.ToLower(ext)]
	dollar, mustLoaded := false, false
	of := c05Call(func() error {
		if c.F == "" {
			return nil
		}
		// what the user does: a file on disk, the loader chosen by its extension
		content := j1
		if yamlFile {
			content = c.D.YAML(c.Y)
		}
		dollar = strings.Contains(content, "$")
		c05FileSeq++
		path := filepath.Join(kit.WorkDir(), fmt.Sprintf("c05-conf-%d%s", c05FileSeq, ext))
		if c.F == "missing.json" {
			return conf.Load(path, tf.Interface()) // no such file
		}
		if err := os.WriteFile(path, []byte(content), 0o600); err != nil {
			panic("c05: cannot write " + path + ": " + err.Error())
		}
		defer os.Remove(path)
		if useEnv {
			return conf.Load(path, tf.Interface(), conf.UseEnv())
		}
		err := conf.Load(path, tf.Interface())
		if err == nil && knownExt {
			// MustLoad exits the process on an error: only called where Load has just succeeded
			conf.MustLoad(path, tm.Interface())
			mustLoaded = true
		}
		return err
	})
	o2 := c05Call(func() error { return conf.LoadFromJsonBytes([]byte(j2), t2.Interface()) })
	o3 := c05Call(func() error { return conf.LoadFromYamlBytes([]byte(y2), t3.Interface()) })
	o := c05NewOracle()
	o.canonKeys = true
	if c.F != "" {
		o.class("conf-file:" + strings.ToLower(c.F))
	}
	res := reflect.Value{}
	if o1.Panic == nil && o1.Err == nil {
		res = t1.Elem()
	}
	o.walkStruct(c.S, &c.D, res, "")
	desc := func() string { return c05Describe(&cc) + " respelled " + j2 }
	v.Fail, v.Known = c05Judge(o, o1, "conf.LoadFromJsonBytes", desc)
	if j1 != j2 {
		o.class("conf:respelled")
	}
	plain := !o.notPlain && len(o.mustFail) == 0
	if v.Fail == "" && o1.Panic == nil {
		switch {
		case o2.Panic != nil:
			v.Fail = fmt.Sprintf("P0 conf.LoadFromJsonBytes(respelled) panicked: %v | %s", o2.Panic, desc())
			v.Known = c05PanicKnown(o, fmt.Sprint(o2.Panic))
		case (o1.Err == nil) != (o2.Err == nil):
			v.Fail = fmt.Sprintf("P4 declared spelling: err=%v; respelled keys: err=%v | %s", o1.Err, o2.Err, desc())
		case o1.Err == nil && !reflect.DeepEqual(t1.Elem().Interface(), t2.Elem().Interface()):
			v.Fail = fmt.Sprintf("P4 respelled keys give a different struct: %s vs %s | %s", c05Sprint(t1.Elem()), c05Sprint(t2.Elem()), desc())
		}
	}
	if v.Fail == "" && o1.Panic == nil && plain {
		// YAML with respelled keys: only on plain content (number spelling is normalised by the YAML path)
		switch {
		case o3.Panic != nil:
			v.Fail = fmt.Sprintf("P0 conf.LoadFromYamlBytes panicked: %v | %s", o3.Panic, desc())
		case o3.Err != nil:
			v.Fail = fmt.Sprintf("P4 conf.LoadFromYamlBytes rejected plain respelled content: %v | yaml %q | %s", o3.Err, y2, desc())
		case o1.Err == nil && !reflect.DeepEqual(t1.Elem().Interface(), t3.Elem().Interface()):
			v.Fail = fmt.Sprintf("P4 YAML with respelled keys gives a different struct: %s vs %s | %s", c05Sprint(t1.Elem()), c05Sprint(t3.Elem()), desc())
		}
	}
	if v.Fail == "" && c.F != "" && o1.Panic == nil {
		// conf.Load(file): JSON files behave exactly like the bytes; YAML files are compared on plain content
		switch {
		case of.Panic != nil:
			v.Fail = fmt.Sprintf("P0 conf.Load(%s file) panicked: %v | %s", c.F, of.Panic, desc())
		case c.F == "missing.json":
			if of.Err == nil {
				v.Fail = fmt.Sprintf("P1 conf.Load of a file that does not exist returned nil | %s", desc())
			}
		case !knownExt:
			// a file type conf does not know: an error, or (should it be read as JSON after all) the same struct
			if of.Err == nil && (o1.Err != nil || !reflect.DeepEqual(t1.Elem().Interface(), tf.Elem().Interface())) {
				v.Fail = fmt.Sprintf("P1 conf.Load(%q file) returned nil with %s; the content as JSON gives err=%v %s | %s", ext, c05Sprint(tf.Elem()), o1.Err, c05Sprint(t1.Elem()), desc())
			}
		case useEnv && dollar:
			o.class("conf-file:env-expansion-applies") // UseEnv rewrites $NAME in the file: another document (not judged)
		case mustLoaded && !reflect.DeepEqual(tf.Elem().Interface(), tm.Elem().Interface()):
			v.Fail = fmt.Sprintf("P4 conf.MustLoad gives %s, conf.Load of the same file %s | %s", c05Sprint(tm.Elem()), c05Sprint(tf.Elem()), desc())
		case !yamlFile && (o1.Err == nil) != (of.Err == nil):
			v.Fail = fmt.Sprintf("P4 conf.Load(%s file): err=%v, conf.LoadFromJsonBytes of the same bytes: err=%v | %s", c.F, of.Err, o1.Err, desc())
		case yamlFile && plain && of.Err != nil:
			v.Fail = fmt.Sprintf("P4 conf.Load(%s file) rejected plain content: %v | %s", c.F, of.Err, desc())
		case o1.Err == nil && of.Err == nil && (!yamlFile || plain) && !reflect.DeepEqual(t1.Elem().Interface(), tf.Elem().Interface()):
			v.Fail = fmt.Sprintf("P4 conf.Load(%s file) gives %s, the bytes give %s | %s", c.F, c05Sprint(tf.Elem()), c05Sprint(t1.Elem()), desc())
		}
	}
	if v.Fail == "" && res.IsValid() {
		v.Fail = c05Repeat(o, &cc, res, "conf.LoadFromJsonBytes", func(t any) c05Outcome {
			return c05Call(func() error { return conf.LoadFromJsonBytes([]byte(j2), t) })
		})
	}
	return c05Finish(v, o, c05Depth(c.S))
}

func TestVerif_C05_conf(t *testing.T) {
	kit.Run(t, "C05", "conf", kit.Opts{Quick: 10000, Thorough: 320000}, c05GenConfCase, c05InterpConf)
}

var c05FileSeq int

var _ = rapid.Bool
