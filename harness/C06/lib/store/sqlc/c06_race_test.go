package sqlc_test

// C06 — rule readers-race: concurrent QueryRow / QueryRowIndex readers of a few
// uncached keys through sqlc.CachedConn over one miniredis node, built with
// the race detector (verif.json: units.lib/store/sqlc.race). Oracle (from the
// statement): the database callbacks of one key never overlap, every reader
// gets the database's row or ErrNotFound, and a second wave of the same
// readers does not reach the database at all (value cached / not-found
// remembered). A data race reported by the detector crashes the process and
// is turned into a violation by the driver.

import (
	"fmt"
	"math"
	"sort"
	"sync"
	"syscall"
	"testing"
	"time"

	"github.com/alicebob/miniredis/v2"
	"github.com/gotid/god/lib/logx"
	"github.com/gotid/god/lib/store/cache"
	"github.com/gotid/god/lib/store/redis"
	"github.com/gotid/god/lib/store/sqlc"
	"github.com/gotid/god/lib/store/sqlx"
	"pgregory.net/rapid"
	"verif.local/kit"
)

var rcSrv *miniredis.Miniredis

func init() {
	logx.Disable()
	rcSrv = miniredis.NewMiniRedis()
	if err := rcSrv.Start(); err != nil {
		panic(err)
	}
	if !redis.New(rcSrv.Addr()).Ping() { // warm the process-wide client outside any bubble
		panic("c06: miniredis not reachable")
	}
}

type rcReader struct {
	ID     int  `json:"id"`           // row 0..3 (index value = id)
	ViaIdx bool `json:"vi,omitempty"` // QueryRowIndex
	Off    int  `json:"of"`           // start offset, ms
}

type rcCase struct {
	Salt    int        `json:"salt"`
	OffMs   int        `json:"off"`
	Exists  []bool     `json:"ex"` // which of the rows 0..3 exist
	PKs     []int64    `json:"pk"` // primary key VALUE of each row (distinct)
	Lat     int        `json:"la"` // virtual duration of a database callback, ms
	Readers []rcReader `json:"r"`
}

type rcRow struct {
	ID  int64 // primary key value
	Idx int
	Val int
	Big int64
	F   float64
	S   string
}

func rcRealNow() int64 {
	var tv syscall.Timeval
	_ = syscall.Gettimeofday(&tv)
	return tv.Sec*1e9 + tv.Usec*1e3
}

func rcInterp(t *testing.T, c rcCase) (v kit.Verdict) {
	if len(c.Exists) != 4 || len(c.PKs) != 4 || len(c.Readers) == 0 {
		return kit.Verdict{Excluded: true}
	}
	for i := range c.PKs {
		for j := 0; j < i; j++ {
			if c.PKs[i] == c.PKs[j] {
				return kit.Verdict{Excluded: true}
			}
		}
	}
	rowOf := func(id int) rcRow {
		return rcRow{ID: c.PKs[id], Idx: id, Val: id + 100, Big: c.PKs[id] ^ 0x5555, F: float64(id) + 0.1, S: "r\"\\\n✓" + fmt.Sprint(id)}
	}
	slotOf := func(p any) int {
		txt := fmt.Sprint(p)
		for id, pk := range c.PKs {
			if fmt.Sprint(pk) == txt {
				return id
			}
		}
		return -1
	}
	rcSrv.FlushAll()
	var fail string
	failf := func(f string, a ...any) {
		if fail == "" {
			fail = fmt.Sprintf(f, a...)
		}
	}
	classes := map[string]bool{}
	t0 := rcRealNow()
	res := kit.Bubble(t, func() {
		time.Sleep(time.Duration(c.OffMs) * time.Millisecond) // varies the seed of the TTL jitter
		cc := sqlc.NewNodeConn(nil, redis.New(rcSrv.Addr()), cache.WithExpire(time.Minute), cache.WithNotFoundExpire(10*time.Second))
		pkey := func(id int) string {
			if id < 0 {
				return "unknown primary key"
			}
			return fmt.Sprintf("p%d:%d", c.Salt, c.PKs[id])
		}
		ikey := func(id int) string { return fmt.Sprintf("i%d:%d", c.Salt, id) }
		var mu sync.Mutex
		active, maxActive, calls := map[string]int{}, map[string]int{}, map[string]int{}
		lat := time.Duration(c.Lat) * time.Millisecond
		db := func(key string, id int, v any) error {
			mu.Lock()
			active[key]++
			calls[key]++
			if active[key] > maxActive[key] {
				maxActive[key] = active[key]
			}
			mu.Unlock()
			time.Sleep(lat)
			mu.Lock()
			active[key]--
			mu.Unlock()
			if id < 0 || id >= 4 || !c.Exists[id] {
				return sqlc.ErrNotFound
			}
			*v.(*rcRow) = rowOf(id)
			return nil
		}
		read := func(r rcReader) (rcRow, error) {
			var row rcRow
			if !r.ViaIdx {
				return row, cc.QueryRow(&row, pkey(r.ID), func(_ sqlx.Conn, v any) error { return db(pkey(r.ID), r.ID, v) })
			}
			err := cc.QueryRowIndex(&row, ikey(r.ID), func(p any) string { return fmt.Sprintf("p%d:%v", c.Salt, p) },
				func(_ sqlx.Conn, v any) (any, error) {
					if err := db(ikey(r.ID), r.ID, v); err != nil {
						return nil, err
					}
					return c.PKs[r.ID], nil
				},
				func(_ sqlx.Conn, v, p any) error { return db(pkey(slotOf(p)), slotOf(p), v) })
			return row, err
		}
		for wave := 0; wave < 2; wave++ {
			mu.Lock()
			calls = map[string]int{}
			mu.Unlock()
			type out struct {
				row rcRow
				err error
			}
			outs := make([]out, len(c.Readers))
			var wg sync.WaitGroup
			for i, r := range c.Readers {
				i, r := i, r
				wg.Add(1)
				go func() {
					defer wg.Done()
					time.Sleep(time.Duration(r.Off) * time.Millisecond)
					outs[i].row, outs[i].err = read(r)
				}()
			}
			wg.Wait()
			for i, r := range c.Readers {
				o := outs[i]
				switch {
				case o.err != nil && o.err != sqlc.ErrNotFound:
					failf("wave %d reader %d %+v: unexpected error %v", wave, i, r, o.err)
				case c.Exists[r.ID] && (o.err != nil || o.row != rowOf(r.ID)):
					failf("wave %d reader %d %+v: got (%+v, %v), the database holds row %d", wave, i, r, o.row, o.err, r.ID)
				case !c.Exists[r.ID] && o.err != sqlc.ErrNotFound:
					failf("wave %d reader %d %+v: got (%+v, %v), the database holds no row %d", wave, i, r, o.row, o.err, r.ID)
				}
			}
			mu.Lock()
			for k, n := range maxActive {
				if n > 1 {
					failf("wave %d: %d database queries for key %s ran at the same time", wave, n, k)
				}
			}
			for k, n := range calls {
				if n > 1 {
					failf("wave %d: %d database queries for key %s (the first result is cached or remembered as not found)", wave, n, k)
				}
				if wave == 1 && n > 0 {
					failf("second wave: key %s was read or found missing a moment ago and the database was queried again (%d)", k, n)
				}
			}
			mu.Unlock()
		}
	})
	if rcRealNow()-t0 > 2e9 {
		return kit.Verdict{Excluded: true, Classes: []string{"excluded-real-time-stall"}}
	}
	// non-trivial: at least two readers of one key overlap the first database query
	first := map[string]int{}
	for _, r := range c.Readers {
		k := fmt.Sprint(r.ID, r.ViaIdx)
		if f, ok := first[k]; !ok || r.Off < f {
			first[k] = r.Off
		}
	}
	over := map[string]int{}
	for _, r := range c.Readers {
		k := fmt.Sprint(r.ID, r.ViaIdx)
		if r.Off < first[k]+c.Lat {
			over[k]++
		}
		if r.ViaIdx {
			classes["index-readers"] = true
		}
		if !c.Exists[r.ID] {
			classes["readers-of-missing-row"] = true
		}
	}
	for _, n := range over {
		if n >= 2 {
			v.NonTrivial = true
			classes["overlapping-readers"] = true
		}
	}
	for k := range classes {
		v.Classes = append(v.Classes, k)
	}
	sort.Strings(v.Classes)
	if fail != "" {
		v.Fail = fail
	} else if !res.OK() {
		v.Fail = "bubble: " + res.String()
	}
	return v
}

func rcGen(rt *rapid.T) rcCase {
	c := rcCase{
		Salt:  rapid.IntRange(0, 999).Draw(rt, "salt"),
		OffMs: rapid.IntRange(0, 999).Draw(rt, "off"),
		Lat:   rapid.IntRange(1, 300).Draw(rt, "lat"),
	}
	for i := 0; i < 4; i++ {
		c.Exists = append(c.Exists, rapid.IntRange(0, 3).Draw(rt, "exists") != 0)
	}
	pool := []int64{0, 1, 2, -1, 1234567, 2097153, 4294967297, 1<<53 - 1, 1 << 53, 1<<53 + 1, -(1 << 53) - 1,
		1234567890123456789, 1234567890123456768, math.MaxInt64, math.MinInt64}
	c.PKs = rapid.SliceOfNDistinct(rapid.OneOf(rapid.SampledFrom(pool), rapid.Int64()), 4, 4, rapid.ID[int64]).Draw(rt, "pk")
	n := rapid.IntRange(2, 12).Draw(rt, "readers")
	nkeys := rapid.IntRange(1, 3).Draw(rt, "keys")
	for i := 0; i < n; i++ {
		c.Readers = append(c.Readers, rcReader{
			ID:     rapid.IntRange(0, nkeys-1).Draw(rt, "id"),
			ViaIdx: rapid.IntRange(0, 2).Draw(rt, "viaidx") == 0,
			Off:    rapid.SampledFrom([]int{0, 0, 0, 1, 2, 5, 50, 150, 299, 300, 301, 400}).Draw(rt, "offs"),
		})
	}
	return c
}

func TestVerif_C06_readers_race(t *testing.T) {
	kit.Run(t, "C06", "readers-race", kit.Opts{Quick: 400, Thorough: 16000}, rcGen,
		func(c rcCase) kit.Verdict { return rcInterp(t, c) })
}
