package sqlc_test

// C06 — rule readers-race: concurrent QueryRow / QueryRowIndex readers of a few
// uncached keys through sqlc.CachedConn over one miniredis node, built with
// the race detector (verif.json: units.lib/store/sqlc.race). Oracle (from the
// statement): the database callbacks of one key never overlap, every reader
// gets the database's row or ErrNotFound, and a second wave of the same
// readers does not reach the database at all (value cached / not-found
// remembered). A data race reported by the detector crashes the process and
// is turned into a violation by the driver.

import (
	"database/sql"
	"fmt"
	"math"
	"os"
	"sort"
	"sync"
	"syscall"
	"testing"
	"time"

	"github.com/alicebob/miniredis/v2"
	"github.com/gotid/god/lib/logx"
	"github.com/gotid/god/lib/store/cache"
	"github.com/gotid/god/lib/store/redis"
	"github.com/gotid/god/lib/store/sqlc"
	"github.com/gotid/god/lib/store/sqlx"
	"pgregory.net/rapid"
	"verif.local/kit"
)

var rcSrv *miniredis.Miniredis

// rwSrvs: two nodes for rule writers-race (a cache cluster needs two). The
// position of a node on the ring is a function of its address, so the ports
// are fixed per shard (VERIF_C06_SHARD=<i> replays a case of thorough shard i
// with the same placement); a busy port falls back to a free one.
var rwSrvs []*miniredis.Miniredis

func init() {
	logx.Disable()
	rcSrv = miniredis.NewMiniRedis()
	if err := rcSrv.Start(); err != nil {
		panic(err)
	}
	if !redis.New(rcSrv.Addr()).Ping() { // warm the process-wide client outside any bubble
		panic("c06: miniredis not reachable")
	}
	shard := 0
	sh := os.Getenv("VERIF_C06_SHARD")
	if sh == "" {
		sh = os.Getenv("VERIF_SHARD")
	}
	fmt.Sscanf(sh, "%d", &shard)
	for i := 0; i < 2; i++ {
		m := miniredis.NewMiniRedis()
		if err := m.StartAddr(fmt.Sprintf("127.0.0.1:%d", 23400+2*(shard%64)+i)); err != nil {
			m = miniredis.NewMiniRedis()
			if err := m.Start(); err != nil {
				panic(err)
			}
		}
		if !redis.New(m.Addr()).Ping() {
			panic("c06: miniredis not reachable")
		}
		rwSrvs = append(rwSrvs, m)
	}
}

type rcReader struct {
	ID     int  `json:"id"`           // row 0..3 (index value = id)
	ViaIdx bool `json:"vi,omitempty"` // QueryRowIndex
	Off    int  `json:"of"`           // start offset, ms
}

type rcCase struct {
	Salt    int        `json:"salt"`
	OffMs   int        `json:"off"`
	Exists  []bool     `json:"ex"` // which of the rows 0..3 exist
	PKs     []int64    `json:"pk"` // primary key VALUE of each row (distinct)
	Lat     int        `json:"la"` // virtual duration of a database callback, ms
	Readers []rcReader `json:"r"`
}

type rcRow struct {
	ID  int64 // primary key value
	Idx int
	Val int
	Big int64
	F   float64
	S   string
}

func rcRealNow() int64 {
	var tv syscall.Timeval
	_ = syscall.Gettimeofday(&tv)
	return tv.Sec*1e9 + tv.Usec*1e3
}

func rcInterp(t *testing.T, c rcCase) (v kit.Verdict) {
	if len(c.Exists) != 4 || len(c.PKs) != 4 || len(c.Readers) == 0 {
		return kit.Verdict{Excluded: true}
	}
	for i := range c.PKs {
		for j := 0; j < i; j++ {
			if c.PKs[i] == c.PKs[j] {
				return kit.Verdict{Excluded: true}
			}
		}
	}
	rowOf := func(id int) rcRow {
		return rcRow{ID: c.PKs[id], Idx: id, Val: id + 100, Big: c.PKs[id] ^ 0x5555, F: float64(id) + 0.1, S: "r\"\\\n✓" + fmt.Sprint(id)}
	}
	slotOf := func(p any) int {
		txt := fmt.Sprint(p)
		for id, pk := range c.PKs {
			if fmt.Sprint(pk) == txt {
				return id
			}
		}
		return -1
	}
	rcSrv.FlushAll()
	var fail string
	failf := func(f string, a ...any) {
		if fail == "" {
			fail = fmt.Sprintf(f, a...)
		}
	}
	classes := map[string]bool{}
	t0 := rcRealNow()
	res := kit.Bubble(t, func() {
		time.Sleep(time.Duration(c.OffMs) * time.Millisecond) // varies the seed of the TTL jitter
		cc := sqlc.NewNodeConn(nil, redis.New(rcSrv.Addr()), cache.WithExpire(time.Minute), cache.WithNotFoundExpire(10*time.Second))
		pkey := func(id int) string {
			if id < 0 {
				return "unknown primary key"
			}
			return fmt.Sprintf("p%d:%d", c.Salt, c.PKs[id])
		}
		ikey := func(id int) string { return fmt.Sprintf("i%d:%d", c.Salt, id) }
		var mu sync.Mutex
		active, maxActive, calls := map[string]int{}, map[string]int{}, map[string]int{}
		lat := time.Duration(c.Lat) * time.Millisecond
		db := func(key string, id int, v any) error {
			mu.Lock()
			active[key]++
			calls[key]++
			if active[key] > maxActive[key] {
				maxActive[key] = active[key]
			}
			mu.Unlock()
			time.Sleep(lat)
			mu.Lock()
			active[key]--
			mu.Unlock()
			if id < 0 || id >= 4 || !c.Exists[id] {
				return sqlc.ErrNotFound
			}
			*v.(*rcRow) = rowOf(id)
			return nil
		}
		read := func(r rcReader) (rcRow, error) {
			var row rcRow
			if !r.ViaIdx {
				return row, cc.QueryRow(&row, pkey(r.ID), func(_ sqlx.Conn, v any) error { return db(pkey(r.ID), r.ID, v) })
			}
			err := cc.QueryRowIndex(&row, ikey(r.ID), func(p any) string { return fmt.Sprintf("p%d:%v", c.Salt, p) },
				func(_ sqlx.Conn, v any) (any, error) {
					if err := db(ikey(r.ID), r.ID, v); err != nil {
						return nil, err
					}
					return c.PKs[r.ID], nil
				},
				func(_ sqlx.Conn, v, p any) error { return db(pkey(slotOf(p)), slotOf(p), v) })
			return row, err
		}
		for wave := 0; wave < 2; wave++ {
			mu.Lock()
			calls = map[string]int{}
			mu.Unlock()
			type out struct {
				row rcRow
				err error
			}
			outs := make([]out, len(c.Readers))
			var wg sync.WaitGroup
			for i, r := range c.Readers {
				i, r := i, r
				wg.Add(1)
				go func() {
					defer wg.Done()
					time.Sleep(time.Duration(r.Off) * time.Millisecond)
					outs[i].row, outs[i].err = read(r)
				}()
			}
			wg.Wait()
			for i, r := range c.Readers {
				o := outs[i]
				switch {
				case o.err != nil && o.err != sqlc.ErrNotFound:
					failf("wave %d reader %d %+v: unexpected error %v", wave, i, r, o.err)
				case c.Exists[r.ID] && (o.err != nil || o.row != rowOf(r.ID)):
					failf("wave %d reader %d %+v: got (%+v, %v), the database holds row %d", wave, i, r, o.row, o.err, r.ID)
				case !c.Exists[r.ID] && o.err != sqlc.ErrNotFound:
					failf("wave %d reader %d %+v: got (%+v, %v), the database holds no row %d", wave, i, r, o.row, o.err, r.ID)
				}
			}
			mu.Lock()
			for k, n := range maxActive {
				if n > 1 {
					failf("wave %d: %d database queries for key %s ran at the same time", wave, n, k)
				}
			}
			for k, n := range calls {
				if n > 1 {
					failf("wave %d: %d database queries for key %s (the first result is cached or remembered as not found)", wave, n, k)
				}
				if wave == 1 && n > 0 {
					failf("second wave: key %s was read or found missing a moment ago and the database was queried again (%d)", k, n)
				}
			}
			mu.Unlock()
		}
	})
	if rcRealNow()-t0 > 2e9 {
		return kit.Verdict{Excluded: true, Classes: []string{"excluded-real-time-stall"}}
	}
	// non-trivial: at least two readers of one key overlap the first database query
	first := map[string]int{}
	for _, r := range c.Readers {
		k := fmt.Sprint(r.ID, r.ViaIdx)
		if f, ok := first[k]; !ok || r.Off < f {
			first[k] = r.Off
		}
	}
	over := map[string]int{}
	for _, r := range c.Readers {
		k := fmt.Sprint(r.ID, r.ViaIdx)
		if r.Off < first[k]+c.Lat {
			over[k]++
		}
		if r.ViaIdx {
			classes["index-readers"] = true
		}
		if !c.Exists[r.ID] {
			classes["readers-of-missing-row"] = true
		}
	}
	for _, n := range over {
		if n >= 2 {
			v.NonTrivial = true
			classes["overlapping-readers"] = true
		}
	}
	for k := range classes {
		v.Classes = append(v.Classes, k)
	}
	sort.Strings(v.Classes)
	if fail != "" {
		v.Fail = fail
	} else if !res.OK() {
		v.Fail = "bubble: " + res.String()
	}
	return v
}

func rcGen(rt *rapid.T) rcCase {
	c := rcCase{
		Salt:  rapid.IntRange(0, 999).Draw(rt, "salt"),
		OffMs: rapid.IntRange(0, 999).Draw(rt, "off"),
		Lat:   rapid.IntRange(1, 300).Draw(rt, "lat"),
	}
	for i := 0; i < 4; i++ {
		c.Exists = append(c.Exists, rapid.IntRange(0, 3).Draw(rt, "exists") != 0)
	}
	pool := []int64{0, 1, 2, -1, 1234567, 2097153, 4294967297, 1<<53 - 1, 1 << 53, 1<<53 + 1, -(1 << 53) - 1,
		1234567890123456789, 1234567890123456768, math.MaxInt64, math.MinInt64}
	c.PKs = rapid.SliceOfNDistinct(rapid.OneOf(rapid.SampledFrom(pool), rapid.Int64()), 4, 4, rapid.ID[int64]).Draw(rt, "pk")
	n := rapid.IntRange(2, 12).Draw(rt, "readers")
	nkeys := rapid.IntRange(1, 3).Draw(rt, "keys")
	for i := 0; i < n; i++ {
		c.Readers = append(c.Readers, rcReader{
			ID:     rapid.IntRange(0, nkeys-1).Draw(rt, "id"),
			ViaIdx: rapid.IntRange(0, 2).Draw(rt, "viaidx") == 0,
			Off:    rapid.SampledFrom([]int{0, 0, 0, 1, 2, 5, 50, 150, 299, 300, 301, 400}).Draw(rt, "offs"),
		})
	}
	return c
}

func TestVerif_C06_readers_race(t *testing.T) {
	kit.Run(t, "C06", "readers-race", kit.Opts{Quick: 400, Thorough: 16000}, rcGen,
		func(c rcCase) kit.Verdict { return rcInterp(t, c) })
}

// ---------------------------------------------------------------------------
// rule writers-race: WRITERS running at the same time (Exec updates of possibly
// the same rows, bare DelCache calls) through two connections over the same
// node / the same two-node cluster, while readers only touch rows that no
// writer of the wave names - so every key still has a sequential history and the
// statement determines every result: a reader gets the current row, and once all
// writers have returned (completed writes) every read returns the database's
// current row, never a value from before. Built with the race detector.

type rwWriter struct {
	ID   int  `json:"id"`           // row 0..3
	Off  int  `json:"of"`           // start offset, ms
	Lat  int  `json:"la"`           // virtual duration of the statement, ms
	Del  bool `json:"del,omitempty"` // bare DelCache of the row's keys
	Conn int  `json:"c,omitempty"`  // which of the two connections
}

type rwWave struct {
	Writers []rwWriter `json:"w"`
	Readers []rcReader `json:"r,omitempty"` // rows that no writer of the wave names
}

type rwCase struct {
	Salt    int      `json:"salt"`
	OffMs   int      `json:"off"`
	Cluster bool     `json:"cl,omitempty"`
	PKs     []int64  `json:"pk"`
	Waves   []rwWave `json:"wv"`
}

func rwInterp(t *testing.T, c rwCase) (v kit.Verdict) {
	if len(c.PKs) != 4 || len(c.Waves) == 0 {
		return kit.Verdict{Excluded: true}
	}
	for i := range c.PKs {
		for j := 0; j < i; j++ {
			if c.PKs[i] == c.PKs[j] {
				return kit.Verdict{Excluded: true}
			}
		}
	}
	for _, m := range rwSrvs {
		m.FlushAll()
	}
	var fail string
	var mu sync.Mutex
	failf := func(f string, a ...any) {
		mu.Lock()
		if fail == "" {
			fail = fmt.Sprintf(f, a...)
		}
		mu.Unlock()
	}
	classes := map[string]bool{}
	t0 := rcRealNow()
	res := kit.Bubble(t, func() {
		time.Sleep(time.Duration(c.OffMs) * time.Millisecond)
		var ccs []sqlc.CachedConn
		for i := 0; i < 2; i++ {
			if c.Cluster {
				conf := cache.Config{
					{Config: redis.Config{Host: rwSrvs[0].Addr(), Type: redis.NodeType}, Weight: 100},
					{Config: redis.Config{Host: rwSrvs[1].Addr(), Type: redis.NodeType}, Weight: 100},
				}
				ccs = append(ccs, sqlc.NewConn(nil, conf, cache.WithExpire(time.Minute), cache.WithNotFoundExpire(10*time.Second)))
			} else {
				ccs = append(ccs, sqlc.NewNodeConn(nil, redis.New(rwSrvs[0].Addr()), cache.WithExpire(time.Minute), cache.WithNotFoundExpire(10*time.Second)))
			}
		}
		pkey := func(id int) string {
			if id < 0 {
				return "unknown primary key"
			}
			return fmt.Sprintf("p%d:%d", c.Salt, c.PKs[id])
		}
		ikey := func(id int) string { return fmt.Sprintf("i%d:%d", c.Salt, id) }
		slotOf := func(p any) int {
			txt := fmt.Sprint(p)
			for id, pk := range c.PKs {
				if fmt.Sprint(pk) == txt {
					return id
				}
			}
			return -1
		}
		db := map[int]rcRow{}
		ver := 0
		for id := 0; id < 4; id++ {
			db[id] = rcRow{ID: c.PKs[id], Idx: id, Val: 0, Big: c.PKs[id] ^ 0x5555, F: float64(id) + 0.1, S: "r\"\\\n✓" + fmt.Sprint(id)}
		}
		get := func(id int, v any) error {
			mu.Lock()
			defer mu.Unlock()
			row, ok := db[id]
			if !ok {
				return sqlc.ErrNotFound
			}
			*v.(*rcRow) = row
			return nil
		}
		read := func(cc sqlc.CachedConn, id int, viaIdx bool) (rcRow, error) {
			var row rcRow
			if !viaIdx {
				return row, cc.QueryRow(&row, pkey(id), func(_ sqlx.Conn, v any) error { return get(id, v) })
			}
			err := cc.QueryRowIndex(&row, ikey(id), func(p any) string { return fmt.Sprintf("p%d:%v", c.Salt, p) },
				func(_ sqlx.Conn, v any) (any, error) {
					if err := get(id, v); err != nil {
						return nil, err
					}
					return c.PKs[id], nil
				},
				func(_ sqlx.Conn, v, p any) error { return get(slotOf(p), v) })
			return row, err
		}
		check := func(what string, id int) {
			for ci, cc := range ccs {
				for _, viaIdx := range []bool{false, true} {
					got, err := read(cc, id, viaIdx)
					mu.Lock()
					want := db[id]
					mu.Unlock()
					if err != nil || got != want {
						failf("%s: row %d through connection %d (index: %v): got (%+v, %v), the database holds %+v", what, id, ci, viaIdx, got, err, want)
					}
				}
			}
		}
		for id := 0; id < 4; id++ {
			check("before the first wave", id) // and everything is cached now
		}
		for wi, wave := range c.Waves {
			written := map[int]bool{}
			for _, w := range wave.Writers {
				written[w.ID%4] = true
			}
			var wg sync.WaitGroup
			for i, w := range wave.Writers {
				i, w := i, w
				w.ID %= 4
				wg.Add(1)
				go func() {
					defer wg.Done()
					time.Sleep(time.Duration(w.Off) * time.Millisecond)
					cc := ccs[w.Conn%2]
					var err error
					if w.Del {
						err = cc.DelCache(pkey(w.ID), ikey(w.ID))
					} else {
						_, err = cc.Exec(func(sqlx.Conn) (sql.Result, error) {
							time.Sleep(time.Duration(w.Lat) * time.Millisecond)
							mu.Lock()
							defer mu.Unlock()
							ver++
							row := db[w.ID]
							row.Val = ver
							db[w.ID] = row
							return nil, nil
						}, pkey(w.ID), ikey(w.ID))
					}
					if err != nil {
						failf("wave %d writer %d %+v: returned %v", wi, i, w, err)
					}
				}()
			}
			for i, rd := range wave.Readers {
				i, rd := i, rd
				rd.ID %= 4
				if written[rd.ID] {
					continue // would be a read/write race on one key: outside the statement
				}
				classes["readers-of-other-rows-during-the-writes"] = true
				wg.Add(1)
				go func() {
					defer wg.Done()
					time.Sleep(time.Duration(rd.Off) * time.Millisecond)
					got, err := read(ccs[i%2], rd.ID, rd.ViaIdx)
					mu.Lock()
					want := db[rd.ID]
					mu.Unlock()
					if err != nil || got != want {
						failf("wave %d reader %d %+v: got (%+v, %v), the database holds %+v", wi, i, rd, got, err, want)
					}
				}()
			}
			wg.Wait()
			for id := 0; id < 4; id++ {
				check(fmt.Sprintf("after wave %d (all writers returned)", wi), id)
			}
		}
	})
	if rcRealNow()-t0 > 2e9 {
		return kit.Verdict{Excluded: true, Classes: []string{"excluded-real-time-stall"}}
	}
	if c.Cluster {
		classes["cluster-2"] = true
	}
	for _, wave := range c.Waves {
		perRow := map[int]int{}
		for i, a := range wave.Writers {
			perRow[a.ID%4]++
			for _, b := range wave.Writers[:i] {
				if a.Off < b.Off+b.Lat+1 && b.Off < a.Off+a.Lat+1 {
					v.NonTrivial = true // two writes in flight at the same time; every row was cached before
					classes["overlapping-writers"] = true
				}
			}
		}
		for _, n := range perRow {
			if n >= 2 {
				classes["writers-of-one-row"] = true
			}
		}
	}
	for k := range classes {
		v.Classes = append(v.Classes, k)
	}
	sort.Strings(v.Classes)
	if fail != "" {
		v.Fail = fail
	} else if !res.OK() {
		v.Fail = "bubble: " + res.String()
	}
	return v
}

func rwGen(rt *rapid.T) rwCase {
	c := rwCase{
		Salt:    rapid.IntRange(0, 999).Draw(rt, "salt"),
		OffMs:   rapid.IntRange(0, 999).Draw(rt, "off"),
		Cluster: rapid.Bool().Draw(rt, "cluster"),
	}
	pool := []int64{0, 1, 2, -1, 1234567, 4294967297, 1<<53 + 1, math.MaxInt64, math.MinInt64}
	c.PKs = rapid.SliceOfNDistinct(rapid.OneOf(rapid.SampledFrom(pool), rapid.Int64()), 4, 4, rapid.ID[int64]).Draw(rt, "pk")
	nw := rapid.IntRange(1, 3).Draw(rt, "waves")
	for w := 0; w < nw; w++ {
		var wave rwWave
		n := rapid.IntRange(2, 8).Draw(rt, "writers")
		nrows := rapid.IntRange(1, 3).Draw(rt, "rows")
		for i := 0; i < n; i++ {
			wave.Writers = append(wave.Writers, rwWriter{
				ID:   rapid.IntRange(0, nrows-1).Draw(rt, "id"),
				Off:  rapid.SampledFrom([]int{0, 0, 0, 1, 2, 5, 50, 150}).Draw(rt, "offs"),
				Lat:  rapid.SampledFrom([]int{0, 0, 1, 5, 50, 200}).Draw(rt, "lat"),
				Del:  rapid.IntRange(0, 4).Draw(rt, "del") == 0,
				Conn: rapid.IntRange(0, 1).Draw(rt, "conn"),
			})
		}
		nr := rapid.IntRange(0, 4).Draw(rt, "readers")
		for i := 0; i < nr; i++ {
			wave.Readers = append(wave.Readers, rcReader{
				ID:     rapid.IntRange(nrows, 3).Draw(rt, "rid"),
				ViaIdx: rapid.Bool().Draw(rt, "viaidx"),
				Off:    rapid.SampledFrom([]int{0, 0, 1, 5, 50, 150}).Draw(rt, "roffs"),
			})
		}
		c.Waves = append(c.Waves, wave)
	}
	return c
}

func TestVerif_C06_writers_race(t *testing.T) {
	kit.Run(t, "C06", "writers-race", kit.Opts{Quick: 300, Thorough: 12000}, rwGen,
		func(c rwCase) kit.Verdict { return rwInterp(t, c) })
}
