package cache_test

// C06 — cache-aside through sqlc.CachedConn over cache node / cluster over
// miniredis. External test package of lib/store/cache (so that it may import
// lib/store/sqlc) using the C06* helpers of c06_cleaner_test.go.
//
// rule history:   sequential histories of QueryRow / QueryRowIndex / Exec /
//                 DelCache / SetCache / time / redis faults / concurrent
//                 readers against a reference database (a map).
//
// Everything asserted is taken from the property statement:
//   coherence      a read returns the map's current row or ErrNotFound unless a
//                  failed delete of one of its keys is still pending;
//   shielding      callbacks of one key never overlap; while a not-found
//                  placeholder is alive the callbacks are not invoked;
//   TTL            every SETEX seen by miniredis carries ceil(0.95e)..ceil(1.05e) s
//                  (primary row stored through the index path: up to +5 s);
//   pass-through   a failing GET makes the read fail with an error that is not
//                  ErrNotFound and the key's callback is not invoked;
//   retry          a DEL answered with an error is repeated in the background
//                  1 s, +5 s, +1 min, +5 min, +1 h later while it keeps failing
//                  and never after its first success (DEL commands seen by
//                  miniredis between two operations are compared with this);
//   cluster        every key is served by one node only and a multi-key delete
//                  leaves none of the named keys on any node.

import (
	"context"
	"database/sql"
	"encoding/json"
	"fmt"
	"os"
	"runtime"
	"math"
	"math/big"
	"sort"
	"strconv"
	"strings"
	"sync"
	"testing"
	"time"

	"github.com/gotid/god/lib/store/cache"
	"github.com/gotid/god/lib/store/redis"
	"github.com/gotid/god/lib/store/sqlc"
	"github.com/gotid/god/lib/store/sqlx"
	"github.com/gotid/god/lib/syncx"
	"pgregory.net/rapid"
	"verif.local/kit"
)

// c06NoAux (sensitivity experiments only): switches off the three auxiliary
// assertions "named keys are gone after a delete", "a row / a miss read from
// the database is stored" so that a mutant must be caught by the coherence,
// shielding, TTL, pass-through or retry oracle itself.
var c06NoAux = os.Getenv("VERIF_C06_NOAUX") != ""

// c06NoLog (diagnosis only): do not compare the background DEL commands with
// the retry schedule, so that a missing retry shows up as the stale read it causes.
var c06NoLog = os.Getenv("VERIF_C06_NOLOG") != ""

// c06FlightStuck: a read was found blocked for good in sqlc's process-wide
// single-flight group (reported as a failure); later cases are not judged.
var c06FlightStuck bool

const (
	c06MaxInjected = 5 // per node and case: keeps the redis client's circuit breaker closed (protection = 5)
	c06NIDs        = 6
	c06NIdx        = 4
)

type hOp struct {
	K      string   `json:"k"`            // read readidx write delrow delcache setcache getcache adv conc cwrite fault
	ID     int      `json:"id,omitempty"` // primary key
	Idx    int      `json:"ix,omitempty"` // unique index value
	During bool     `json:"du,omitempty"` // write/delrow: a cached read of the row inside the exec callback, before the DB changes
	NoIdx  bool     `json:"ni,omitempty"` // write that keeps the index value: do not name the index key
	In     int      `json:"in,omitempty"` // which of the case's cache instances performs the operation
	Cx     string   `json:"cx,omitempty"` // ctx form of the call: "" non-Ctx API, bg Background, live (cancelled at the end of the case), cancel (cancelled right after the call returned), dl (deadline 400 ms: gone before a retry is due), pre (cancelled BEFORE the call), mid (deadline that passes while the Exec callback runs)
	GF     bool     `json:"gf,omitempty"` // conc: all readers start together while GETs are slow and then fail
	G      int      `json:"g,omitempty"`  // garbage: which undecodable value a foreign writer leaves under the keys
	CB     string   `json:"cb,omitempty"` // read: what the database callback does if it is reached: dberr (returns a custom error), panic, nest (reads another row through the same connection)
	SL     int      `json:"sl,omitempty"` // write: if > 0 the row's string field is SL bytes long (255 B .. 1 MiB), built from a pattern
	Fill   int      `json:"fi,omitempty"` // delcache: that many additional cached keys are named in the same call (10 .. 1000)
	Pay    int      `json:"py,omitempty"` // write: which payload (large integers, floats, strings needing escapes) the row carries
	Keys   []string `json:"ks,omitempty"` // delcache/setcache: "p<id>" / "i<idx>"
	D      int      `json:"d,omitempty"`  // adv: seconds
	Offs   []int    `json:"of,omitempty"` // conc: start offsets of the readers, ms
	Lat    int      `json:"la,omitempty"` // conc: virtual duration of the DB callback, ms
	ViaIdx bool     `json:"vi,omitempty"` // conc: readers use QueryRowIndex
	Node   int      `json:"n,omitempty"`  // fault: node
	Mode   string   `json:"m,omitempty"`  // fault: "" down get set del (error replies); rstdown rstget rstset rstdel (the connection is closed without a reply, every attempt); rst1down rst1get rst1set rst1del (the same for ONE command: the client's re-send goes through)
	Filt   string   `json:"f,omitempty"`  // fault: "" p i (key class the fault applies to)
	Txt    int      `json:"tx,omitempty"` // fault / conc with gf: which error reply the failing commands get (index into cache.C06Texts: ERR, WRONGTYPE, LOADING, BUSY, NOAUTH, MOVED, ASK, CLUSTERDOWN, READONLY, OOM, TRYAGAIN, MISCONF, NOPERM, max clients, MASTERDOWN)
	WT     bool     `json:"wt,omitempty"` // garbage: the foreign writer leaves a value of ANOTHER TYPE (a hash) under the key: the server itself answers GET with WRONGTYPE
	Res    int      `json:"rs,omitempty"` // write / delrow: which sql.Result the statement hands back (0 nil; auto-increment insert id>0 / 1 row; id>0 / 2 rows; id 0 / 1 row; 0 / 0; LastInsertId fails; RowsAffected fails; both fail; id -1)
	XF     bool     `json:"xf,omitempty"` // write: the database statement fails (the Exec callback returns an error, the database is unchanged)
	Bad    bool     `json:"bad,omitempty"` // setcache: a value that JSON cannot encode (+Inf): unspecified, run for panics only
	Ws     []hW     `json:"ws,omitempty"` // cwrite: writers running at the same time (no reader runs meanwhile)
}

// hW is one of the concurrent writers of a cwrite step: an update of row ID
// (keeping its index value) through Exec on instance In, whose database
// statement starts Off ms into the step and takes Lat ms; DelOnly: a bare
// DelCache of the row's keys instead.
type hW struct {
	ID      int  `json:"id"`
	In      int  `json:"in,omitempty"`
	Off     int  `json:"of,omitempty"`
	Lat     int  `json:"la,omitempty"`
	NoIdx   bool `json:"ni,omitempty"`
	DelOnly bool `json:"do,omitempty"`
	Pay     int  `json:"py,omitempty"`
}

// hInst: the options one CachedConn is created with. An option that is not
// passed takes the documented default (7 days / 1 minute).
type hInst struct {
	HasE  bool  `json:"he,omitempty"`
	E     int   `json:"e,omitempty"`   // seconds
	ENs   int64 `json:"ens,omitempty"` // if non-zero: the expiry in NANOseconds instead of E (1 ns .. MaxInt64; negative: -1 ns, -1 s, MinInt64 = "not set", the default applies)
	E0    bool  `json:"e0,omitempty"`  // the option is passed with the value 0 (= "not set")
	NF0   bool  `json:"nf0,omitempty"` // same for the not-found expiry
	HasNF bool  `json:"hn,omitempty"`
	NF    int   `json:"nf,omitempty"`   // seconds
	NFNs  int64 `json:"nfns,omitempty"` // same for the not-found expiry
	Share bool  `json:"sh,omitempty"`   // created over the SAME *redis.Redis object as the previous instance (NewNodeConn constructors)
	Direct bool `json:"di,omitempty"`   // built by the caller from cache.New / cache.NewNode (own single-flight group) and sqlc.NewConnWithCache; calls without a context go to the cache.Cache methods directly (Take, TakeWithExpire, SetWithExpire, Set, Get, Del, IsNotFound) as a cache-aside caller of that interface would use them
}

const c06HundredYears = int64(100*365.25*24*3600) * 1e9

// expireNs is the configured expiry in ns; judged is false where the statement
// gives no bound to compare with: a value <= 0 (the code substitutes its
// default) and values above 100 years (the +5 % jitter leaves the int64 range).
func (i hInst) expireNs() (ns int64, judged bool) {
	switch {
	case !i.HasE:
		return 7 * 24 * 3600 * 1e9, true
	case i.E0 || i.ENs < 0:
		// an option value <= 0 means "not set": the documented default applies
		return 7 * 24 * 3600 * 1e9, true
	case i.ENs != 0:
		return i.ENs, i.ENs <= c06HundredYears
	}
	return int64(i.E) * 1e9, i.E > 0
}

func (i hInst) nfExpireNs() (ns int64, judged bool) {
	switch {
	case !i.HasNF:
		return 60 * 1e9, true
	case i.NF0 || i.NFNs < 0:
		return 60 * 1e9, true
	case i.NFNs != 0:
		return i.NFNs, i.NFNs <= c06HundredYears
	}
	return int64(i.NF) * 1e9, i.NF > 0
}

func (i hInst) duration(zero bool, ns int64, secs int) time.Duration {
	if zero {
		return 0
	}
	if ns != 0 {
		return time.Duration(ns)
	}
	return time.Duration(secs) * time.Second
}

type hCase struct {
	Insts []hInst `json:"insts,omitempty"` // 1..3 connections created in this order over the same nodes (default: one with e / nfe)
	Weights []int  `json:"w"`    // one entry per node (1..3)
	Ctor    string `json:"ctor"` // node | conf (single node through NewNodeConn or NewConn) | ctype (cluster-type redis: one node through NewNodeConn, several through NewConn with Type=cluster entries) | cconf (cluster-type redis, always through NewConn)
	Expire  int    `json:"e"`    // seconds
	NFExp   int    `json:"nfe"`  // seconds
	PKKind  string   `json:"pkk,omitempty"` // "" / int: int64 primary keys (PKs), str: string primary keys (SPKs), u64: unsigned primary keys (UPKs: 2^53+-1, 2^63-1, 2^63, 2^63+1, neighbours above 2^63 that share one float64, MaxUint64)
	UPKs    []uint64 `json:"upk,omitempty"`
	PKs     []int64  `json:"pk,omitempty"`  // primary key VALUE of each of the 6 rows (default 0..5)
	SPKs    []string `json:"spk,omitempty"`
	IdxNames []string `json:"ixn,omitempty"` // NAME of each of the 4 index values inside its cache key (default "0".."3"); "~L<n>": n bytes, "~X": bytes that are not UTF-8
	Salt    int    `json:"salt"` // key name salt: varies the placement on the ring
	OffMs   int    `json:"off"`  // operations happen OffMs after a tick of the clean wheel
	Ops     []hOp  `json:"ops"`
}

// clusterType: the redis nodes are of cluster type (go-redis ClusterClient).
func (c hCase) clusterType() bool { return c.Ctor == "ctype" || c.Ctor == "cconf" }

// hRow is what the "database" stores and what every read must return EXACTLY,
// whether it comes from the callback, from the cache or from another
// reader's shared flight.
type hRow struct {
	ID  int    // row number 0..5 (harness bookkeeping)
	PK  int64  // primary key value (int kind)
	SPK string // primary key value (str kind)
	UPK uint64 // primary key value (u64 kind)
	Idx int
	Val int
	Big int64
	U   uint64
	F   float64
	S   string
}

var (
	c06Bigs = []int64{0, 1, -1, 1 << 53, 1<<53 + 1, -(1 << 53) - 1, 1234567890123456789, math.MaxInt64, math.MinInt64, 4611686018427387905}
	c06Us   = []uint64{0, 1, 1<<53 + 1, 1 << 63, math.MaxUint64}
	c06Fs   = []float64{0, 0.1, -1.5, 1e21, 1e-7, math.MaxFloat64, math.SmallestNonzeroFloat64, 123456789.12345679, 9007199254740993}
	c06Ss   = []string{"", "plain", `q"uote\back/slash`, "line\nbreak\ttab\r", "<html>&amp;'", "日本語 ✓ 🎉", "\u2028\u2029\u0000\u001f", "*", "null", `{"ID":1}`}
)

func c06Payload(row *hRow, pay int) {
	if pay < 0 {
		pay = -pay
	}
	row.Big = c06Bigs[pay%len(c06Bigs)]
	row.U = c06Us[(pay/3)%len(c06Us)]
	row.F = c06Fs[(pay/5)%len(c06Fs)]
	row.S = c06Ss[(pay/7)%len(c06Ss)]
}

var c06Lens = []int{255, 256, 4095, 4097, 32768, 65535, 65537, 1 << 20}

// pkText is the textual form of row id's primary key value ("" if none).
func (r *hRun) pkText(id int) string {
	if id < 0 || id >= c06NIDs {
		return ""
	}
	if r.c.PKKind == "str" {
		return r.c.SPKs[id]
	}
	if r.c.PKKind == "u64" {
		return strconv.FormatUint(r.c.UPKs[id], 10)
	}
	return strconv.FormatInt(r.c.PKs[id], 10)
}

// pkValue is what the index query returns as the primary key (int64 or string).
func (r *hRun) pkValue(id int) any {
	if r.c.PKKind == "str" {
		return r.c.SPKs[id]
	}
	if r.c.PKKind == "u64" {
		return r.c.UPKs[id]
	}
	return r.c.PKs[id]
}

// slotOf finds the row whose primary key prints as txt (-1: none: the
// primary key handed back by the cache layer is not one the database knows).
func (r *hRun) slotOf(txt string) int {
	for id := 0; id < c06NIDs; id++ {
		if r.pkText(id) == txt {
			return id
		}
	}
	return -1
}

type hTask struct {
	srv    int
	keys   []string
	k      int // index into C06Delays of the next attempt
	nextAt int // second (since wheel start) of the next attempt
	alive  bool
}

type hRun struct {
	t    *testing.T
	c    hCase
	srvs []*cache.C06Srv
	ccs  []sqlc.CachedConn
	direct []cache.Cache // per instance: the cache.Cache the caller built itself (nil: the instance came from sqlc.NewConn / NewNodeConn)
	cur  int // instance performing the running operation
	idxNames []string
	db   map[int]hRow
	ver  int

	start     time.Time
	serverNow int // seconds fast-forwarded on the servers

	ph      map[string]int // key -> server second at which its placeholder expires
	cached  map[string]int // key -> server second at which its value expires
	dirty   map[string]bool
	keyNode map[string]int
	invalid map[string]bool // key was cached when a write named it
	wrong   map[string]int  // key -> node: a foreign writer left a value of another type there (GET answers WRONGTYPE until a write removes it)
	tasksF  []*hTask        // statement model
	tasksI  []*hTask        // defect hypothesis (inverted reschedule condition)

	mu        sync.Mutex
	priCalls  map[int]int
	idxCalls  map[int]int
	active    map[string]int
	maxActive int
	lat       time.Duration

	ctx     context.Context // ctx of the running operation (nil: the non-Ctx API is used)
	ctxPre  bool            // that ctx was cancelled before the call
	ctxMid  bool            // that ctx expires while the Exec callback runs
	clientFails map[int]int // DELs that failed in the client with DeadlineExceeded (the circuit breaker counts them)
	inRead  bool            // the commands being absorbed belong to a read (its own DEL of an undecodable entry is not a write's removal)
	cbMode  string          // what the next reached primary callback does (dberr panic nest)
	cbNest  int
	cbFired bool
	nestRow hRow
	nestErr error
	cancels []func()        // contexts that live until the end of the case
	opLimit int64           // real-time limit of the running operation, ns
	opStart int64 // real clock at the start of the running operation
	stalled bool  // some operation took more than 2 s of real time

	classes    map[string]bool
	nontrivial bool
	fail       string
	known      string
}

func (r *hRun) pkey(id int) string  { return fmt.Sprintf("p%d:%s", r.c.Salt, r.pkText(id)) }
func (r *hRun) ikey(idx int) string {
	if idx >= 0 && idx < len(r.idxNames) {
		return fmt.Sprintf("i%d:%s", r.c.Salt, r.idxNames[idx])
	}
	return fmt.Sprintf("i%d:%d", r.c.Salt, idx)
}

// c06Expand turns a name descriptor into the name ("~L70000" -> 70000 bytes).
func c06Expand(d string) string {
	var n int
	switch {
	case d == "~X":
		return "\xff\xfe\xc0x"
	case strings.HasPrefix(d, "~L"):
		fmt.Sscanf(d[2:], "%d", &n)
		if n > 1<<20 {
			n = 1 << 20
		}
		return c06Long(n)
	}
	return d
}

// c06Long builds an n byte string with characters JSON has to escape.
func c06Long(n int) string {
	const pat = "long \"value\" \\ \n\t<é✓> %s %d "
	return strings.Repeat(pat, n/len(pat)+1)[:n]
}

func short(s string) string {
	if len(s) > 80 {
		return fmt.Sprintf("%.40q...(%d bytes)", s, len(s))
	}
	return fmt.Sprintf("%q", s)
}

// String keeps failure messages readable when the payload is long.
func (row hRow) String() string {
	return fmt.Sprintf("{ID:%d PK:%d UPK:%d SPK:%s Idx:%d Val:%d Big:%d U:%d F:%v S:%s}", row.ID, row.PK, row.UPK, short(row.SPK), row.Idx, row.Val, row.Big, row.U, row.F, short(row.S))
}

func (r *hRun) failf(format string, a ...any) {
	if r.fail == "" {
		r.fail = fmt.Sprintf(format, a...)
	}
}

func (r *hRun) stall() {
	if cache.C06RealNow()-r.opStart > r.opLimit {
		r.stalled = true
	}
}

// withCtx selects the ctx form of the operation; the returned function is
// called right after the library call returned.
func (r *hRun) withCtx(kind string, write bool) (after func()) {
	r.ctx, r.opLimit, after = nil, 2e9, func() {}
	r.ctxPre, r.ctxMid = false, false
	if (kind == "pre" && write || kind == "mid") && (len(r.srvs) > 1 || r.anyTaskAlive()) {
		// the model of a delete that fails inside the client is kept to one node
		kind = "cancel"
	}
	if kind == "mid" && (!write || r.srvs[0].Injected()+r.clientFails[0]+4 > c06MaxInjected) {
		kind = "pre"
	}
	switch kind {
	case "pre":
		ctx, cancel := context.WithCancel(context.Background())
		cancel()
		r.ctx, r.ctxPre = ctx, true
	case "mid":
		ctx, cancel := context.WithTimeout(context.Background(), 300*time.Millisecond)
		r.ctx, r.cancels, r.opLimit, r.ctxMid = ctx, append(r.cancels, cancel), 75e6, true
	case "bg":
		r.ctx = context.Background()
	case "live":
		ctx, cancel := context.WithCancel(context.Background())
		r.ctx, r.cancels = ctx, append(r.cancels, cancel)
	case "dl":
		if write {
			// the deadline also bounds the client's socket waits, in REAL time:
			// a call that needed more than a quarter of it is not judged
			ctx, cancel := context.WithTimeout(context.Background(), 400*time.Millisecond)
			r.ctx, r.cancels, r.opLimit = ctx, append(r.cancels, cancel), 1e8
			break
		}
		fallthrough
	case "cancel":
		ctx, cancel := context.WithCancel(context.Background())
		r.ctx, after = ctx, cancel
	}
	if kind != "" {
		r.classes["ctx-"+kind] = true
	}
	return after
}

// ttlBounds: ceil(0.95 e) .. ceil(1.05 e) whole seconds for an expiry of e ns.
func ttlBounds(ens int64) (lo, hi int) {
	f := func(pct int64) int {
		x := new(big.Int).Mul(big.NewInt(ens), big.NewInt(pct))
		d := big.NewInt(100 * 1e9)
		q, m := new(big.Int).DivMod(x, d, new(big.Int))
		if m.Sign() > 0 {
			q.Add(q, big.NewInt(1))
		}
		return int(q.Int64())
	}
	return f(95), f(105)
}

func (r *hRun) nowTick() int { return int(time.Since(r.start) / time.Second) }

func (r *hRun) rowByIdx(idx int) (hRow, bool) {
	for id := 0; id < c06NIDs; id++ {
		if row, ok := r.db[id]; ok && row.Idx == idx {
			return row, true
		}
	}
	return hRow{}, false
}

func (r *hRun) enter(key string) {
	r.mu.Lock()
	r.active[key]++
	if r.active[key] > r.maxActive {
		r.maxActive = r.active[key]
	}
	lat := r.lat
	r.mu.Unlock()
	if lat > 0 {
		time.Sleep(lat)
	}
}

func (r *hRun) leave(key string) {
	r.mu.Lock()
	r.active[key]--
	r.mu.Unlock()
}

// the three "SQL" callbacks: they read the reference map and count.
func (r *hRun) primaryQuery(id int, v any) error {
	key := r.pkey(id)
	if id < 0 {
		key = "unknown primary key"
	}
	r.enter(key)
	defer r.leave(key)
	r.mu.Lock()
	r.priCalls[id]++
	if mode := r.cbMode; mode != "" && !r.cbFired {
		r.cbFired = true
		nest := r.cbNest
		r.mu.Unlock()
		switch mode {
		case "dberr":
			return errC06DB{"c06 database failure"}
		case "panic":
			panic(errC06DB{"c06 callback panic"})
		case "nest":
			// re-entrancy: another row through the same connection from inside the callback
			r.nestRow, r.nestErr = r.queryRow(nest)
		}
		r.mu.Lock()
	}
	defer r.mu.Unlock()
	row, ok := r.db[id]
	if !ok || id < 0 {
		return sqlc.ErrNotFound
	}
	*v.(*hRow) = row
	return nil
}

type errC06DB struct{ msg string }

func (e errC06DB) Error() string { return e.msg }

func (r *hRun) indexQuery(idx int, v any) (any, error) {
	key := r.ikey(idx)
	r.enter(key)
	defer r.leave(key)
	r.mu.Lock()
	defer r.mu.Unlock()
	r.idxCalls[idx]++
	row, ok := r.rowByIdx(idx)
	if !ok {
		return nil, sqlc.ErrNotFound
	}
	*v.(*hRow) = row
	return r.pkValue(row.ID), nil
}

// notFoundAgrees: the cache's own predicate for "not found" must agree with
// what the read returned (used on instances whose cache.Cache the caller holds).
func (r *hRun) notFoundAgrees(c cache.Cache, err error) {
	if got := c.IsNotFound(err); got != (err == sqlc.ErrNotFound) {
		r.mu.Lock()
		r.failf("IsNotFound(%v) = %v on the cache that returned this error", err, got)
		r.mu.Unlock()
	}
}

func (r *hRun) queryRow(id int) (hRow, error) {
	var row hRow
	if c := r.direct[r.cur]; c != nil && r.ctx == nil {
		err := c.Take(&row, r.pkey(id), func(v any) error { return r.primaryQuery(id, v) })
		r.notFoundAgrees(c, err)
		return row, err
	}
	if ctx := r.ctx; ctx != nil {
		return row, r.ccs[r.cur].QueryRowCtx(ctx, &row, r.pkey(id), func(_ context.Context, _ sqlx.Conn, v any) error { return r.primaryQuery(id, v) })
	}
	err := r.ccs[r.cur].QueryRow(&row, r.pkey(id), func(_ sqlx.Conn, v any) error { return r.primaryQuery(id, v) })
	return row, err
}

func (r *hRun) queryRowIndex(idx int) (hRow, error) {
	var row hRow
	if c := r.direct[r.cur]; c != nil && r.ctx == nil {
		// index -> primary key -> row, written against the cache.Cache interface
		// (non-Ctx methods) the way a cache-aside caller of that interface does
		keyer := func(primary any) string { return fmt.Sprintf("p%d:%v", r.c.Salt, primary) }
		var primary any
		found := false
		err := c.TakeWithExpire(&primary, r.ikey(idx), func(_ any, expire time.Duration) error {
			pk, err := r.indexQuery(idx, &row)
			if err != nil {
				return err
			}
			primary, found = pk, true
			return c.SetWithExpire(keyer(pk), &row, expire+5*time.Second)
		})
		r.notFoundAgrees(c, err)
		if err != nil || found {
			return row, err
		}
		err = c.Take(&row, keyer(primary), func(v any) error { return r.primaryQuery(r.slotOf(fmt.Sprint(primary)), v) })
		r.notFoundAgrees(c, err)
		return row, err
	}
	if ctx := r.ctx; ctx != nil {
		return row, r.ccs[r.cur].QueryRowIndexCtx(ctx, &row, r.ikey(idx),
			func(primary any) string { return fmt.Sprintf("p%d:%v", r.c.Salt, primary) },
			func(_ context.Context, _ sqlx.Conn, v any) (any, error) { return r.indexQuery(idx, v) },
			func(_ context.Context, _ sqlx.Conn, v, primary any) error {
				return r.primaryQuery(r.slotOf(fmt.Sprint(primary)), v)
			})
	}
	err := r.ccs[r.cur].QueryRowIndex(&row, r.ikey(idx),
		func(primary any) string { return fmt.Sprintf("p%d:%v", r.c.Salt, primary) },
		func(_ sqlx.Conn, v any) (any, error) { return r.indexQuery(idx, v) },
		func(_ sqlx.Conn, v, primary any) error { return r.primaryQuery(r.slotOf(fmt.Sprint(primary)), v) })
	return row, err
}

type hBatch struct {
	getFailed map[string]bool
	setFailed bool
	setFails  []cache.C06Cmd // the SETs answered with an error
	delFailed bool
	sets      int
}

// c06Collapse turns the ATTEMPTS the server cut off by closing the connection
// into the outcome of the client's calls: the client re-sends a command up to 3
// times, so per command (name, keys, value) within one batch either a re-send
// got through (fewer than 4 cut-off attempts and an executed one: the call
// succeeded, the cut-off attempts vanish) or every attempt was cut off (one
// failed call per started group of 4 attempts; fewer when the caller's context
// ended the re-sending early).
func c06Collapse(l []cache.C06Cmd) (out []cache.C06Cmd, resets int) {
	id := func(e cache.C06Cmd) string { return e.Cmd + "\x00" + strings.Join(e.Keys, "\x00") + "\x00" + e.Val }
	cut, done := map[string]int{}, map[string]int{}
	for _, e := range l {
		if e.Reset {
			cut[id(e)]++
			resets++
		} else {
			done[id(e)]++
		}
	}
	if resets == 0 {
		return l, 0
	}
	seen := map[string]int{}
	for _, e := range l {
		if !e.Reset {
			out = append(out, e)
			continue
		}
		k := id(e)
		if done[k] > 0 && cut[k] < 4 {
			continue // its re-send was executed
		}
		seen[k]++
		if seen[k]%4 == 0 || seen[k] == cut[k] {
			out = append(out, e) // Failed is set: the call failed
		}
	}
	return out, resets
}

// absorb reads the command logs, checks TTLs and placement, and updates the
// model of what the servers hold. fromIndexRead: the commands belong to a
// QueryRowIndex (its primary row may carry the +5 s gap). background: no
// foreground operation ran (only retried DELs are legitimate).
func (r *hRun) absorb(fromIndexRead, background bool) (b hBatch, dels []string) {
	b.getFailed = map[string]bool{}
	for si, s := range r.srvs {
		entries, resets := c06Collapse(s.Take())
		if resets > 0 {
			r.classes["connection-reset-attempts"] = true
		}
		for _, e := range entries {
			if e.Reset && e.Err == "" {
				r.classes["call-failed-by-connection-resets"] = true
			} else if e.Reset {
				r.classes["call-failed-after-resends-of-a-retryable-error-reply"] = true
			}
			for _, k := range e.Keys {
				if n, ok := r.keyNode[k]; ok && n != si {
					r.failf("placement: key %q served by node %d and by node %d", k, n, si)
				}
				r.keyNode[k] = si
			}
			if background && e.Cmd != "DEL" {
				r.failf("background command %s %v on node %d while no operation was running", e.Cmd, e.Keys, si)
			}
			if e.Failed && e.Err != "" {
				r.classes["error-reply-"+strings.ToLower(strings.Fields(e.Err)[0])] = true
			}
			switch e.Cmd {
			case "GET":
				if e.Failed {
					b.getFailed[e.Keys[0]] = true
					if e.Real {
						r.classes["get-of-a-key-of-another-type"] = true
					}
				}
			case "SETEX":
				if e.Failed {
					b.setFailed = true
					b.setFails = append(b.setFails, e)
					continue
				}
				b.sets++
				k := e.Keys[0]
				// judged by the configuration of the instance that issued it
				exp, judged := r.c.Insts[r.cur].expireNs()
				if e.Val == "*" {
					exp, judged = r.c.Insts[r.cur].nfExpireNs()
				}
				if judged {
					lo, hi := ttlBounds(exp)
					if fromIndexRead && e.Val != "*" && strings.HasPrefix(k, "p") {
						hi += 5 // index path: the primary row outlives the index entry by the 5 s gap
						r.classes["ttl-index-gap"] = true
					}
					if e.Secs < lo || e.Secs > hi {
						r.failf("TTL: SET %q EX %d (value %.40q): configured expiry %v, want %d..%d s", k, e.Secs, e.Val, time.Duration(exp), lo, hi)
					}
					if exp%1e9 != 0 {
						r.classes["ttl-expiry-not-whole-seconds"] = true
					}
					if exp > 30*24*3600*1e9 {
						r.classes["ttl-expiry-over-30-days"] = true
					}
				} else {
					r.classes["ttl-unspecified-expiry"] = true // above 100 years (at MaxInt64 the unchanged tree sends no lifetime at all: seconds * 1e9 overflows)
				}
				if in := r.c.Insts[r.cur]; (e.Val == "*" && (in.NF0 || in.NFNs < 0)) || (e.Val != "*" && (in.E0 || in.ENs < 0)) {
					r.classes["ttl-nonpositive-option-means-default"] = true
				}
				if e.Secs <= 0 {
					continue // refused by the server: nothing stored
				}
				delete(r.wrong, k)
				if e.Val == "*" {
					r.ph[k] = r.serverNow + e.Secs
					delete(r.cached, k)
				} else {
					r.cached[k] = r.serverNow + e.Secs
					delete(r.ph, k)
				}
			case "DEL":
				dels = append(dels, fmt.Sprintf("%d|%s|%v", si, strings.Join(e.Keys, ","), e.Failed))
				if e.Failed {
					b.delFailed = true
					if r.inRead {
						// a read could not drop an entry it failed to decode: the
						// statement's retry clause is about removals by writes
						r.classes["read-del-of-undecodable-entry-failed"] = true
					} else if !background {
						// a failed removal: retried from the next tick on
						for _, k := range e.Keys {
							r.dirty[k] = true
						}
						for _, l := range []*[]*hTask{&r.tasksF, &r.tasksI} {
							*l = append(*l, &hTask{srv: si, keys: e.Keys, k: 0, nextAt: r.nowTick() + cache.C06Delays[0], alive: true})
						}
						r.classes["del-fault"] = true
					}
					continue
				}
				for _, k := range e.Keys {
					delete(r.ph, k)
					delete(r.cached, k)
					delete(r.dirty, k)
					delete(r.wrong, k)
				}
			}
		}
	}
	return
}

// storeSpecified: both expiries of the instance in charge are values for which
// the statement says what is stored (see hInst.expireNs).
func (r *hRun) storeSpecified() bool {
	_, a := r.c.Insts[r.cur].expireNs()
	_, b := r.c.Insts[r.cur].nfExpireNs()
	return a && b
}

func (r *hRun) phAlive(k string) bool     { return r.ph[k] > r.serverNow }
func (r *hRun) cachedAlive(k string) bool { return r.cached[k] > r.serverNow }

func (r *hRun) resetCalls() {
	r.mu.Lock()
	r.priCalls, r.idxCalls = map[int]int{}, map[int]int{}
	r.mu.Unlock()
}

func isCacheErr(err error) bool { return err != nil && err != sqlc.ErrNotFound }

// checkRow compares a read result with the reference map.
func (r *hRun) checkRow(what string, got hRow, err error, want hRow, exists bool) {
	switch {
	case isCacheErr(err):
		r.failf("%s: unexpected error %v (no cache fault was injected)", what, err)
	case exists && err == sqlc.ErrNotFound:
		r.failf("%s: got ErrNotFound, the database holds %+v", what, want)
	case exists && got != want:
		r.failf("%s: got %+v, the database holds %+v (stale read)", what, got, want)
	case !exists && err == nil:
		r.failf("%s: got %+v, the database holds no such row (stale read)", what, got)
	}
}

func (r *hRun) doRead(what string, id int) {
	key := r.pkey(id)
	phAlive, wasDirty, wasInvalid := r.phAlive(key), r.dirty[key], r.invalid[key]
	r.resetCalls()
	var got hRow
	var err error
	var panicked any
	func() {
		defer func() {
			if r.cbMode == "panic" {
				panicked = recover()
			}
		}()
		got, err = r.queryRow(id)
	}()
	cb, fired, nest := r.cbMode, r.cbFired, r.cbNest
	r.cbMode, r.cbFired = "", false
	r.inRead = true
	b, _ := r.absorb(false, false)
	r.inRead = false
	calls := r.priCalls[id]
	want, exists := r.db[id]
	if fired {
		r.classes["callback-"+cb] = true
		switch cb {
		case "dberr":
			// the statement does not say what a failing database yields; it must
			// not be a row that differs from the database, nor "not found" for a
			// row that exists, and nothing wrong may stay cached (later reads)
			if !isCacheErr(err) && !wasDirty {
				r.checkRow(what+" (database callback failed)", got, err, want, exists)
			}
			return
		case "panic":
			if panicked == nil && err == nil && !wasDirty {
				r.checkRow(what+" (database callback panicked)", got, err, want, exists)
			}
			// the key must not be stuck: an ordinary read right away (the clean
			// wheel keeps virtual time moving, so a stuck read is detected by a
			// virtual time-out, not by the bubble's deadlock detection)
			done := make(chan struct{})
			go func() {
				defer close(done)
				r.doRead(what+" (read after the callback panicked)", id)
			}()
			tm := time.NewTimer(10 * time.Second)
			select {
			case <-done:
				tm.Stop()
			case <-tm.C:
				r.failf("%s: the database callback panicked; the next read of %s is still blocked 10 s later", what, key)
				// sqlc's single-flight group is process-wide: the stuck entry would
				// wedge every later case that uses the same key name
				c06FlightStuck = true
			}
			return
		case "nest":
			nk := r.pkey(nest)
			nwant, nexists := r.db[nest]
			if b.getFailed[nk] {
				// the nested row's key could not be read (it holds a value of another
				// type): that failure is handed to the nested caller, not the database
				r.classes["nested-read-get-fault"] = true
				if !isCacheErr(r.nestErr) {
					r.failf("%s (nested read of row %d inside the callback): GET %s failed with a redis error, the nested read returned (%+v, %v) instead of that error", what, nest, nk, r.nestRow, r.nestErr)
				}
				if nest != id && r.priCalls[nest] != 0 {
					r.failf("%s (nested read of row %d inside the callback): GET %s failed with a redis error and the database was queried", what, nest, nk)
				}
			} else if !r.dirty[nk] {
				r.checkRow(what+fmt.Sprintf(" (nested read of row %d inside the callback)", nest), r.nestRow, r.nestErr, nwant, nexists)
			}
		}
	}
	switch {
	case r.ctxPre:
		// the caller's context is cancelled already: the cache lookup fails
		// (not a miss) and must not fall through to the database
		r.classes["read-ctx-already-cancelled"] = true
		if !isCacheErr(err) {
			r.failf("%s: the context was cancelled before the call, the read returned (%v, %v)", what, got, err)
		}
		if calls != 0 {
			r.failf("%s: the context was cancelled before the call (cache lookup failed) and the database was queried %d time(s)", what, calls)
		}
		return
	case b.getFailed[key]:
		r.classes["read-get-fault"] = true
		if !isCacheErr(err) {
			r.failf("%s: GET %s failed with a redis error, the read returned (%+v, %v) instead of that error", what, key, got, err)
		}
		if calls != 0 {
			r.failf("%s: GET %s failed with a redis error and the database was queried %d time(s)", what, key, calls)
		}
		return
	case b.setFailed:
		// the GET missed properly, the database answered, only STORING the result
		// (row or not-found marker) failed: the first clause of the statement
		// governs - the read returns the row, or ErrNotFound. Nothing was cached,
		// so shielding is not required afterwards.
		r.classes["read-set-fault"] = true
		if isCacheErr(err) && !wasDirty {
			r.failf("%s: GET missed, the database answered (row exists: %v) and only the SET of %s failed with a redis error: the read returned %v instead of the row / ErrNotFound", what, exists, key, err)
		}
		if !wasDirty {
			r.checkRow(what, got, err, want, exists)
		}
		return
	}
	if phAlive {
		r.classes["placeholder-hit"] = true
		if calls != 0 {
			r.failf("%s: a not-found placeholder for %s is alive (%d s left) and the database was queried %d time(s)", what, key, r.ph[key]-r.serverNow, calls)
		}
	}
	if wasDirty {
		r.classes["stale-tolerated"] = true
		if isCacheErr(err) {
			r.failf("%s: unexpected error %v", what, err)
		}
		return
	}
	r.checkRow(what, got, err, want, exists)
	if wasInvalid {
		r.nontrivial = true
		r.classes["read-after-invalidating-write"] = true
		delete(r.invalid, key)
	}
	if calls > 0 {
		r.classes["read-miss"] = true
		if exists && !r.cachedAlive(key) && !c06NoAux && r.storeSpecified() {
			r.failf("%s: the row was read from the database but not stored under %s", what, key)
		}
		if !exists && !r.phAlive(key) && !c06NoAux && r.storeSpecified() {
			r.failf("%s: not found in the database but no placeholder stored under %s", what, key)
		}
	} else if exists {
		r.classes["read-hit"] = true
	}
}

func (r *hRun) doReadIndex(what string, idx int) {
	ik := r.ikey(idx)
	want, exists := r.rowByIdx(idx)
	pk := ""
	if exists {
		pk = r.pkey(want.ID)
	}
	phAlive := r.phAlive(ik)
	wasDirty := r.dirty[ik] || (exists && r.dirty[pk])
	// a stale index entry may lead to any primary key: with any dirty key around
	// only the keys of this index value decide (the index key itself clean =>
	// it is absent, a placeholder written after the last write, or current).
	wasInvalid := r.invalid[ik]
	r.resetCalls()
	got, err := r.queryRowIndex(idx)
	r.inRead = true
	b, _ := r.absorb(true, false)
	r.inRead = false
	icalls := r.idxCalls[idx]
	pcalls := 0
	for _, n := range r.priCalls {
		pcalls += n
	}
	anyGetFailed := len(b.getFailed) > 0
	if r.ctxPre {
		r.classes["read-ctx-already-cancelled"] = true
		if !isCacheErr(err) {
			r.failf("%s: the context was cancelled before the call, the read returned (%v, %v)", what, got, err)
		}
		if icalls+pcalls != 0 {
			r.failf("%s: the context was cancelled before the call (cache lookup failed) and the database was queried", what)
		}
		return
	}
	if n := r.priCalls[-1]; n > 0 && !wasDirty {
		r.failf("%s: the primary query was called %d time(s) with a primary key the database never returned for this index value", what, n)
	}
	switch {
	case anyGetFailed:
		r.classes["readidx-get-fault"] = true
		if !isCacheErr(err) {
			r.failf("%s: a GET failed with a redis error (%v), the read returned (%+v, %v) instead of that error", what, b.getFailed, got, err)
		}
		if b.getFailed[ik] && icalls+pcalls != 0 {
			r.failf("%s: GET %s failed with a redis error and the database was queried", what, ik)
		}
		for id, n := range r.priCalls {
			if id >= 0 && b.getFailed[r.pkey(id)] && n != 0 {
				r.failf("%s: GET %s failed with a redis error and the database was queried", what, r.pkey(id))
			}
		}
		return
	case b.setFailed:
		r.classes["readidx-set-fault"] = true
		// One path is UNSPECIFIED: the index key missed, the index query found
		// the row and storing the PRIMARY row (done by CachedConn inside the
		// query callback) failed - the code hands that redis error to the
		// caller; the statement's two clauses pull in different directions
		// there, so row or redis error are both accepted (never a stale row or
		// ErrNotFound). Everywhere else (index entry, not-found marker, primary
		// row stored by the second Take) the read must succeed.
		primaryStoreInIndexQuery := false
		for _, e := range b.setFails {
			if icalls > 0 && strings.HasPrefix(e.Keys[0], "p") && e.Val != "*" {
				primaryStoreInIndexQuery = true
			}
		}
		if isCacheErr(err) {
			if primaryStoreInIndexQuery {
				r.classes["readidx-primary-store-fault-unspecified"] = true
				return
			}
			if !wasDirty {
				r.failf("%s: the GETs worked, the database answered (row exists: %v) and only a SET failed with a redis error (%v): the read returned %v instead of the row / ErrNotFound", what, exists, b.setFails[0].Keys, err)
			}
			return
		}
		if !wasDirty {
			r.checkRow(what, got, err, want, exists)
		}
		return
	}
	if phAlive {
		r.classes["placeholder-hit"] = true
		if icalls+pcalls != 0 {
			r.failf("%s: a not-found placeholder for %s is alive and the database was queried", what, ik)
		}
	}
	if wasDirty {
		r.classes["stale-tolerated"] = true
		if isCacheErr(err) {
			r.failf("%s: unexpected error %v", what, err)
		}
		return
	}
	r.checkRow(what, got, err, want, exists)
	if wasInvalid {
		r.nontrivial = true
		r.classes["read-after-invalidating-write"] = true
		delete(r.invalid, ik)
	}
	switch {
	case icalls > 0:
		r.classes["readidx-miss"] = true
		if exists && (!r.cachedAlive(ik) || !r.cachedAlive(pk)) && !c06NoAux && r.storeSpecified() {
			r.failf("%s: index and row were read from the database but not both stored (%s, %s)", what, ik, pk)
		}
		if !exists && !r.phAlive(ik) && !c06NoAux && r.storeSpecified() {
			r.failf("%s: not found in the database but no placeholder stored under %s", what, ik)
		}
	case pcalls > 0:
		r.classes["readidx-index-hit-primary-miss"] = true
	case exists:
		r.classes["readidx-hit"] = true
	}
}

// budget clears the fault of every node that could exceed the number of
// injected failures the circuit breaker of its redis client tolerates.
func (r *hRun) budget(worst func(si int) int) {
	for k, si := range r.wrong {
		// every read of such a key is one more failure for the circuit breaker:
		// the foreign writer takes its value away before the budget is used up
		if s := r.srvs[si]; s.Injected()+r.clientFails[si]+worst(si) > c06MaxInjected-1 {
			s.M.Del(k)
			delete(r.wrong, k)
			r.classes["fault-budget-exhausted"] = true
		}
	}
	for si, s := range r.srvs {
		if s.Fault() != "" && s.Injected()+r.clientFails[si]+worst(si) > c06MaxInjected {
			s.SetFault("", "")
			r.classes["fault-budget-exhausted"] = true
		}
	}
}

// namedKeysGone: after a delete without a failed DEL none of the keys exists anywhere.
func (r *hRun) namedKeysGone(what string, keys []string) {
	nodes := map[int]bool{}
	for _, k := range keys {
		for si, s := range r.srvs {
			if s.M.Exists(k) && !c06NoAux && r.storeSpecified() {
				r.failf("%s: key %s still exists on node %d after the delete returned", what, k, si)
			}
		}
		if n, ok := r.keyNode[k]; ok {
			nodes[n] = true
		}
	}
	if len(nodes) > 1 {
		r.classes["delete-spans-nodes"] = true
	}
}

func (r *hRun) markInvalidated(keys []string) {
	for _, k := range keys {
		if r.cachedAlive(k) || r.phAlive(k) {
			r.invalid[k] = true
		}
	}
}

// c06Result is the sql.Result a statement hands back.
type c06Result struct {
	id, aff       int64
	idErr, affErr error
}

func (x c06Result) LastInsertId() (int64, error) { return x.id, x.idErr }
func (x c06Result) RowsAffected() (int64, error) { return x.aff, x.affErr }

var c06Results = []sql.Result{nil,
	c06Result{id: 7, aff: 1}, c06Result{id: 7, aff: 2}, c06Result{id: 0, aff: 1}, c06Result{},
	c06Result{idErr: errC06DB{"LastInsertId is not supported by this driver"}, aff: 1},
	c06Result{id: 7, affErr: errC06DB{"RowsAffected is not supported by this driver"}},
	c06Result{idErr: errC06DB{"no id"}, affErr: errC06DB{"no count"}},
	c06Result{id: -1, aff: 1}, c06Result{id: 1 << 40, aff: 1}}

// exec runs a write on instance inst: the database statement, then the removal
// of the named keys - through CachedConn.Exec / ExecCtx, or, on an instance whose
// cache.Cache the caller holds and without a context, statement then Cache.Del.
func (r *hRun) exec(inst int, ctx context.Context, body func(sqlx.Conn) (sql.Result, error), keys ...string) error {
	if c := r.direct[inst]; c != nil && ctx == nil {
		if _, err := body(nil); err != nil {
			return err
		}
		return c.Del(keys...)
	}
	if ctx != nil {
		_, err := r.ccs[inst].ExecCtx(ctx, func(_ context.Context, conn sqlx.Conn) (sql.Result, error) { return body(conn) }, keys...)
		return err
	}
	_, err := r.ccs[inst].Exec(body, keys...)
	return err
}

func (r *hRun) delCache(keys ...string) error {
	if c := r.direct[r.cur]; c != nil && r.ctx == nil {
		return c.Del(keys...)
	}
	if ctx := r.ctx; ctx != nil {
		return r.ccs[r.cur].DelCacheCtx(ctx, keys...)
	}
	return r.ccs[r.cur].DelCache(keys...)
}

func (r *hRun) setCache(key string, val any) error {
	if c := r.direct[r.cur]; c != nil && r.ctx == nil {
		return c.Set(key, val)
	}
	if ctx := r.ctx; ctx != nil {
		return r.ccs[r.cur].SetCacheCtx(ctx, key, val)
	}
	return r.ccs[r.cur].SetCache(key, val)
}

func (r *hRun) getCache(key string, v any) error {
	if c := r.direct[r.cur]; c != nil && r.ctx == nil {
		err := c.Get(key, v)
		r.notFoundAgrees(c, err)
		return err
	}
	if ctx := r.ctx; ctx != nil {
		return r.ccs[r.cur].GetCacheCtx(ctx, key, v)
	}
	return r.ccs[r.cur].GetCache(key, v)
}

func (r *hRun) doWrite(what string, o hOp, del bool) {
	old, existed := r.db[o.ID]
	var keys []string
	keys = append(keys, r.pkey(o.ID))
	if del {
		if !existed {
			r.classes["skipped"] = true
			return
		}
		keys = append(keys, r.ikey(old.Idx))
	} else {
		if other, taken := r.rowByIdx(o.Idx); taken && other.ID != o.ID {
			r.classes["skipped"] = true // would break the unique index
			return
		}
		switch {
		case !existed:
			keys = append(keys, r.ikey(o.Idx))
			r.classes["insert"] = true
		case old.Idx != o.Idx:
			keys = append(keys, r.ikey(old.Idx), r.ikey(o.Idx))
			r.classes["update-index"] = true
		case o.NoIdx:
			r.classes["update-without-index-key"] = true
		default:
			keys = append(keys, r.ikey(o.Idx))
			r.classes["update"] = true
		}
	}
	if o.XF {
		// the database statement fails: nothing changes, Exec must hand the
		// error back; whether the cache is touched is not specified (whatever
		// is sent is absorbed), later reads must still be coherent
		r.classes["write-statement-fails"] = true
		want := errC06DB{"c06 statement failure"}
		err := r.exec(r.cur, r.ctx, func(sqlx.Conn) (sql.Result, error) { return nil, want }, keys...)
		r.absorb(false, false)
		if err != want {
			r.failf("%s: the database statement failed with %q, Exec returned %v", what, want.msg, err)
		}
		return
	}
	r.markInvalidated(keys)
	body := func(_ sqlx.Conn) (sql.Result, error) {
		if o.During {
			r.classes["read-during-exec"] = true
			r.absorb(false, false) // keep the model in step with whatever Exec did before calling back
			r.doRead(what+" (read inside the exec callback, before the change)", o.ID)
			if existed {
				// the read above may have re-cached the old row
				r.markInvalidated(keys[:1])
			}
		}
		if r.ctxMid {
			time.Sleep(400 * time.Millisecond) // the 300 ms deadline passes while the database works
		}
		r.mu.Lock()
		if del {
			delete(r.db, o.ID)
		} else {
			r.ver++
			row := hRow{ID: o.ID, Idx: o.Idx, Val: r.ver}
			switch r.c.PKKind {
			case "str":
				row.SPK = r.c.SPKs[o.ID]
			case "u64":
				row.UPK = r.c.UPKs[o.ID]
				r.classes["unsigned-primary-keys"] = true
			default:
				row.PK = r.c.PKs[o.ID]
			}
			c06Payload(&row, o.Pay)
			if o.SL > 0 {
				row.S = c06Long(c06Lens[o.SL%len(c06Lens)])
				r.classes[fmt.Sprintf("row-string-%d-bytes", len(row.S))] = true
			}
			r.db[o.ID] = row
		}
		r.mu.Unlock()
		if o.Res != 0 {
			r.classes["statement-result-shapes"] = true
		}
		if o.Res < 0 {
			return nil, nil
		}
		return c06Results[o.Res%len(c06Results)], nil
	}
	err := r.exec(r.cur, r.ctx, body, keys...)
	b, dels := r.absorb(false, false)
	if err != nil {
		r.failf("%s: Exec returned %v", what, err)
	}
	if (r.ctxPre || r.ctxMid) && len(dels) == 0 {
		r.clientDelFailed(keys)
		return
	}
	if !b.delFailed {
		r.namedKeysGone(what, keys)
	}
}

// clientDelFailed: the delete failed inside the client (context cancelled or
// past its deadline: nothing was sent). By the statement it is a failed removal
// like any other: retried from the next tick on, with a context of its own.
func (r *hRun) clientDelFailed(keys []string) {
	if len(keys) == 0 {
		return
	}
	groups := [][]string{keys}
	if r.c.clusterType() && len(keys) > 1 {
		groups = nil
		for _, k := range keys {
			groups = append(groups, []string{k})
		}
	}
	for _, g := range groups {
		for _, k := range g {
			r.dirty[k] = true
		}
		for _, l := range []*[]*hTask{&r.tasksF, &r.tasksI} {
			*l = append(*l, &hTask{srv: 0, keys: g, k: 0, nextAt: r.nowTick() + cache.C06Delays[0], alive: true})
		}
		if r.ctxMid {
			r.clientFails[0]++
		}
	}
	r.classes["del-failed-in-client-ctx"] = true
}

// c06Garbage: values that cannot be decoded into a row (valid JSON of another
// shape, truncated JSON, not JSON); index keys are read into an untyped value,
// there only text that is not JSON at all is undecodable.
var c06Garbage = []string{`"another shape"`, `[1,2,3]`, `{"ID":"not a number"}`, `{"ID":1,"Idx":`, `12`, `nul`, `{{`, "\x00\xff"}

// doGarbage: a foreign writer leaves an undecodable value under the keys
// (written to the server directly, as another program would).
func (r *hRun) doGarbage(o hOp) {
	for _, k := range r.resolveKeys(o.Keys) {
		si := 0
		if len(r.srvs) > 1 {
			n, ok := r.keyNode[k]
			if !ok {
				r.classes["skipped"] = true
				continue
			}
			si = n
		}
		g := o.G
		if g < 0 {
			g = -g
		}
		if o.WT {
			// a value of another type: written to the server directly, as another program would
			r.srvs[si].M.Del(k)
			r.srvs[si].M.HSet(k, "field", "value")
			r.srvs[si].M.SetTTL(k, time.Hour)
			delete(r.ph, k)
			delete(r.cached, k)
			r.wrong[k] = si
			r.classes["key-of-another-type"] = true
			continue
		}
		val := c06Garbage[g%len(c06Garbage)]
		if strings.HasPrefix(k, "i") {
			val = c06Garbage[3+g%(len(c06Garbage)-3)] // truncated or not JSON
			if val == "12" {
				val = "{{"
			}
		}
		_ = r.srvs[si].M.Set(k, val)
		r.srvs[si].M.SetTTL(k, time.Hour)
		delete(r.ph, k)
		delete(r.cached, k)
		r.classes["undecodable-entry"] = true
	}
}

func (r *hRun) resolveKeys(ks []string) (keys []string) {
	for _, k := range ks {
		var n int
		if len(k) < 2 {
			continue
		}
		fmt.Sscanf(k[1:], "%d", &n)
		switch k[0] {
		case 'p':
			keys = append(keys, r.pkey(n%c06NIDs))
		case 'i':
			keys = append(keys, r.ikey(n%c06NIdx))
		}
	}
	return
}

func (r *hRun) doDelCache(what string, o hOp) {
	keys := r.resolveKeys(o.Keys)
	if len(keys) == 0 {
		r.classes["delcache-zero-keys"] = true
	}
	if o.Fill > 0 && !r.anyTaskAlive() {
		// many keys in one call: they are cached first (through the API) so that
		// the delete has something to remove on whichever node holds them
		quiet := true
		for _, s := range r.srvs {
			quiet = quiet && s.Fault() == ""
		}
		if quiet {
			n := o.Fill
			if n > 1000 {
				n = 1000
			}
			for j := 0; j < n; j++ {
				k := fmt.Sprintf("p%d:~fill%d", r.c.Salt, j)
				if err := r.ccs[r.cur].SetCache(k, j); err != nil {
					r.failf("%s: SetCache(%s) returned %v", what, k, err)
				}
				keys = append(keys, k)
			}
			r.absorb(false, false)
			r.classes[fmt.Sprintf("delcache-%d-keys", len(keys)/100*100)] = true
		}
	}
	err := r.delCache(keys...)
	b, dels := r.absorb(false, false)
	if err != nil {
		r.failf("%s: DelCache returned %v", what, err)
	}
	if len(keys) == 0 && len(dels) > 0 {
		r.failf("%s: DelCache() without keys sent %v", what, dels)
	}
	if r.ctxPre && len(dels) == 0 {
		r.clientDelFailed(keys)
		return
	}
	if !b.delFailed {
		r.namedKeysGone(what, keys)
	}
}

func (r *hRun) doSetCache(what string, o hOp) {
	if o.Bad {
		// UNSPECIFIED: a value JSON cannot encode. Run for panics / hangs only;
		// whatever is sent is absorbed (and a SET would be judged like any other).
		r.classes["setcache-unencodable-value"] = true
		_ = r.setCache(fmt.Sprintf("p%d:~bad", r.c.Salt), math.Inf(1))
		r.absorb(false, false)
		return
	}
	// only values that agree with the database are written (anything else is
	// an incoherent write by the caller, outside the statement)
	for _, k := range o.Keys {
		var n int
		if len(k) < 2 {
			continue
		}
		fmt.Sscanf(k[1:], "%d", &n)
		var err error
		r.budget(func(int) int { return 1 })
		switch k[0] {
		case 'p':
			row, ok := r.db[n%c06NIDs]
			if !ok {
				r.classes["skipped"] = true
				continue
			}
			err = r.setCache(r.pkey(row.ID), row)
		case 'i':
			row, ok := r.rowByIdx(n % c06NIdx)
			if !ok {
				r.classes["skipped"] = true
				continue
			}
			err = r.setCache(r.ikey(row.Idx), r.pkValue(row.ID))
		default:
			continue
		}
		b, _ := r.absorb(false, false)
		r.classes["setcache"] = true
		if err != nil && !b.setFailed && !r.ctxPre {
			r.failf("%s: SetCache returned %v", what, err)
		}
	}
}

// doGetCache: GetCache never reaches the database, so the statement determines
// only this much: a cache failure other than a miss is returned as such, and a
// VALUE handed out must be the database's current one (never older than the
// last completed write) unless a failed removal of the key is still pending.
func (r *hRun) doGetCache(what string, o hOp) {
	for _, k := range o.Keys {
		var n int
		if len(k) < 2 {
			continue
		}
		fmt.Sscanf(k[1:], "%d", &n)
		r.budget(func(int) int { return 1 })
		r.resetCalls()
		var key string
		var err error
		var row hRow
		var pk any
		switch k[0] {
		case 'p':
			key = r.pkey(n % c06NIDs)
			err = r.getCache(key, &row)
		case 'i':
			key = r.ikey(n % c06NIdx)
			err = r.getCache(key, &pk)
		default:
			continue
		}
		wasDirty := r.dirty[key]
		r.inRead = true
		b, _ := r.absorb(false, false)
		r.inRead = false
		r.classes["getcache"] = true
		total := 0
		for _, c := range r.priCalls {
			total += c
		}
		for _, c := range r.idxCalls {
			total += c
		}
		if total != 0 {
			r.failf("%s: GetCache(%s) reached the database", what, key)
		}
		switch {
		case r.ctxPre:
			if !isCacheErr(err) {
				r.failf("%s: the context was cancelled before the call, GetCache(%s) returned %v", what, key, err)
			}
		case b.getFailed[key]:
			r.classes["getcache-get-fault"] = true
			if !isCacheErr(err) {
				r.failf("%s: GET %s failed with a redis error, GetCache returned %v instead of that error", what, key, err)
			}
		case isCacheErr(err):
			r.failf("%s: GetCache(%s): unexpected error %v (no cache fault was injected)", what, key, err)
		case err == nil && !wasDirty:
			r.classes["getcache-value"] = true
			if k[0] == 'p' {
				if want, exists := r.db[n%c06NIDs]; !exists || row != want {
					r.failf("%s: GetCache(%s) handed out %+v, the database holds %+v (exists: %v) (stale value)", what, key, row, want, exists)
				}
			} else {
				want, exists := r.rowByIdx(n % c06NIdx)
				if !exists || fmt.Sprint(pk) != r.pkText(want.ID) {
					r.failf("%s: GetCache(%s) handed out primary key %v, the database holds %q (exists: %v) (stale value)", what, key, pk, r.pkText(want.ID), exists)
				}
			}
		}
	}
}

// doCWrite: several writers at the same time - updates of (possibly the same)
// rows through Exec on (possibly different) instances, or bare DelCache calls -
// while NO read runs. When all have returned every one of them is a completed
// write: none of the named keys may still be cached, and the reads that follow
// must return the database's current rows.
func (r *hRun) doCWrite(what string, o hOp) {
	for _, s := range r.srvs {
		if s.Fault() != "" {
			r.classes["cwrite-skipped"] = true
			return
		}
	}
	if r.anyTaskAlive() || len(o.Ws) == 0 {
		r.classes["cwrite-skipped"] = true
		return
	}
	t0 := time.Now()
	var all []string
	type job struct {
		w    hW
		keys []string
	}
	var jobs []job
	rowsHit := map[int]int{}
	for _, w := range o.Ws {
		w.ID = ((w.ID % c06NIDs) + c06NIDs) % c06NIDs
		old, ok := r.db[w.ID]
		if !ok {
			continue
		}
		keys := []string{r.pkey(w.ID)}
		if !w.NoIdx || w.DelOnly {
			keys = append(keys, r.ikey(old.Idx))
		}
		jobs = append(jobs, job{w, keys})
		all = append(all, keys...)
		rowsHit[w.ID]++
	}
	if len(jobs) < 2 {
		r.classes["cwrite-skipped"] = true
		return
	}
	r.markInvalidated(all)
	errs := make([]error, len(jobs))
	var wg sync.WaitGroup
	for i, j := range jobs {
		i, j := i, j
		inst := 0
		if j.w.In > 0 {
			inst = j.w.In % len(r.ccs)
		}
		wg.Add(1)
		go func() {
			defer wg.Done()
			time.Sleep(time.Duration(j.w.Off%450) * time.Millisecond)
			if j.w.DelOnly {
				if c := r.direct[inst]; c != nil {
					errs[i] = c.Del(j.keys...)
				} else {
					errs[i] = r.ccs[inst].DelCache(j.keys...)
				}
				return
			}
			errs[i] = r.exec(inst, nil, func(sqlx.Conn) (sql.Result, error) {
				time.Sleep(time.Duration(j.w.Lat%400) * time.Millisecond) // the statement takes a while
				r.mu.Lock()
				defer r.mu.Unlock()
				old := r.db[j.w.ID]
				r.ver++
				row := hRow{ID: j.w.ID, PK: old.PK, SPK: old.SPK, UPK: old.UPK, Idx: old.Idx, Val: r.ver}
				c06Payload(&row, j.w.Pay)
				r.db[j.w.ID] = row
				return nil, nil
			}, j.keys...)
		}()
	}
	wg.Wait()
	b, _ := r.absorb(false, false)
	for i, err := range errs {
		if err != nil {
			r.failf("%s: writer %d returned %v", what, i, err)
		}
	}
	if !b.delFailed {
		r.namedKeysGone(what+" (all writers returned)", all)
	}
	r.classes["concurrent-writers"] = true
	for _, n := range rowsHit {
		if n >= 2 {
			r.classes["concurrent-writers-same-row"] = true
		}
	}
	// keep the operations aligned: the whole step takes exactly one second
	time.Sleep(time.Until(t0.Add(time.Second)))
	kit.Wait()
	r.serverNow++
	for _, s := range r.srvs {
		s.M.FastForward(time.Second)
	}
}

// step advances both task models over (.., toTick] and returns the DEL
// commands each of them predicts, as "node|keys|failed".
func stepTasks(tasks []*hTask, toTick int, srvs []*cache.C06Srv, inverted bool, apply bool) (exp []string, failures map[int]int) {
	failures = map[int]int{}
	for _, t := range tasks {
		tt := *t
		for tt.alive && tt.nextAt <= toTick {
			failed := srvs[tt.srv].WouldFail("DEL", tt.keys)
			exp = append(exp, fmt.Sprintf("%d|%s|%v", tt.srv, strings.Join(tt.keys, ","), failed))
			if failed {
				failures[tt.srv]++
			}
			if failed == inverted {
				tt.alive = false
				break
			}
			tt.k++
			if tt.k >= len(cache.C06Delays) {
				tt.alive = false
				break
			}
			tt.nextAt += cache.C06Delays[tt.k]
		}
		if apply {
			*t = tt
		}
	}
	sort.Strings(exp)
	return
}

func (r *hRun) anyTaskAlive() bool {
	for _, l := range [][]*hTask{r.tasksF, r.tasksI} {
		for _, t := range l {
			if t.alive {
				return true
			}
		}
	}
	return false
}

// doAdv lets d seconds pass on the virtual clock (clean wheel) and on the servers.
func (r *hRun) doAdv(what string, d int) { r.doAdvBy(what, d, 0) }

// realign: an operation that made the redis client back off between re-sends
// (or whose statement slept) has moved on the virtual clock; operations are
// meant to happen OffMs after a tick of the clean wheel, so the rest of the
// second is spent as an ordinary advance to the next such instant.
func (r *hRun) realign(what string) {
	pos := time.Since(r.start) % time.Second
	base := time.Duration(r.c.OffMs)*time.Millisecond + 500*time.Microsecond
	if pos == base {
		return
	}
	r.classes["realigned"] = true
	if pos < base {
		// the operation itself ran past a tick: no further tick until the instant wanted
		time.Sleep(base - pos)
		kit.Wait()
		return
	}
	less := pos - base
	r.doAdvBy(what+" (rest of the second)", 1, less)
}

// doAdvBy: as doAdv, but the virtual sleep is shorter by less (< 1 s).
func (r *hRun) doAdvBy(what string, d int, less time.Duration) {
	if d <= 0 {
		return
	}
	to := r.nowTick() + d
	r.budget(func(si int) int {
		_, f := stepTasks(r.tasksF, to, r.srvs, false, false)
		return f[si]
	})
	hadAlive := false
	for _, t := range r.tasksF {
		hadAlive = hadAlive || t.alive
	}
	wantF, _ := stepTasks(r.tasksF, to, r.srvs, false, true)
	wantI, _ := stepTasks(r.tasksI, to, r.srvs, true, true)
	time.Sleep(time.Duration(d)*time.Second - less)
	kit.Wait()
	_, got := r.absorb(false, true)
	sort.Strings(got)
	r.serverNow += d
	for _, s := range r.srvs {
		s.M.FastForward(time.Duration(d) * time.Second)
	}
	g, wf, wi := strings.Join(got, " "), strings.Join(wantF, " "), strings.Join(wantI, " ")
	if g != wf && !c06NoLog {
		r.failf("%s: background DEL commands (node|keys|failed) seen in the %d s up to tick %d: [%s]; a failed delete is retried 1 s, +5 s, +1 min, +5 min, +1 h later while it keeps failing and never after its first success: want [%s]", what, d, to, g, wf)
		if g == wi {
			r.known = cache.C06KnownInverted
		}
		return
	}
	if len(got) > 0 {
		r.classes["background-retry"] = true
	}
	if hadAlive {
		done := true
		for _, t := range r.tasksF {
			done = done && !t.alive
		}
		if done && strings.Contains(g, "|false") {
			r.classes["fault-then-recovery"] = true
			r.nontrivial = true
		}
	}
}

func (r *hRun) doConc(what string, o hOp) {
	for _, s := range r.srvs {
		if s.Fault() != "" {
			r.classes["conc-skipped"] = true
			return
		}
	}
	if r.anyTaskAlive() || len(o.Offs) == 0 || len(r.wrong) > 0 {
		r.classes["conc-skipped"] = true
		return
	}
	key := r.pkey(o.ID)
	want, exists := r.db[o.ID]
	if o.ViaIdx {
		key = r.ikey(o.Idx)
		want, exists = r.rowByIdx(o.Idx)
	}
	wasDirty := r.dirty[key] || (o.ViaIdx && exists && r.dirty[r.pkey(want.ID)])
	uncached := !r.cachedAlive(key) && !r.phAlive(key)
	gf := false
	if o.GF {
		// readers that start together while every GET is slow and then fails:
		// all but one join the leader's flight and must get its error too
		if len(o.Offs) > 4 {
			o.Offs = o.Offs[:4]
		}
		gf = true
		for _, s := range r.srvs {
			if s.Injected()+len(o.Offs) > c06MaxInjected {
				gf = false
			}
		}
		if gf {
			for i := range o.Offs {
				o.Offs[i] = 0
			}
			for _, s := range r.srvs {
				s.SetFaultText("slowget", "", cache.C06Text(o.Txt, true)) // never a reply the client re-sends after
			}
		}
	}
	r.resetCalls()
	r.mu.Lock()
	r.maxActive = 0
	r.lat = time.Duration(o.Lat) * time.Millisecond
	r.mu.Unlock()
	t0 := time.Now()
	type res struct {
		row hRow
		err error
	}
	out := make([]res, len(o.Offs))
	var wg sync.WaitGroup
	for i, off := range o.Offs {
		i, off := i, off
		wg.Add(1)
		go func() {
			defer wg.Done()
			time.Sleep(time.Duration(off) * time.Millisecond)
			if o.ViaIdx {
				out[i].row, out[i].err = r.queryRowIndex(o.Idx)
			} else {
				out[i].row, out[i].err = r.queryRow(o.ID)
			}
		}()
	}
	wg.Wait()
	r.mu.Lock()
	r.lat = 0
	maxActive := r.maxActive
	r.mu.Unlock()
	r.inRead = true
	b, _ := r.absorb(o.ViaIdx, false)
	r.inRead = false
	if gf {
		for _, s := range r.srvs {
			s.SetFault("", "")
		}
	}
	// keep the operations aligned: the whole step takes exactly one second
	time.Sleep(time.Until(t0.Add(time.Second)))
	kit.Wait()
	r.serverNow++
	for _, s := range r.srvs {
		s.M.FastForward(time.Second)
	}
	calls := r.priCalls[o.ID]
	if o.ViaIdx {
		calls = r.idxCalls[o.Idx]
	}
	if n := r.priCalls[-1]; n > 0 && !wasDirty {
		r.failf("%s: the primary query was called %d time(s) with a primary key the database never returned for this index value", what, n)
	}
	overlap := 0
	first := o.Offs[0]
	for _, off := range o.Offs {
		if off < first {
			first = off
		}
	}
	for _, off := range o.Offs {
		if off < first+o.Lat {
			overlap++
		}
	}
	if gf {
		r.classes["conc-get-fault"] = true
		total := 0
		for _, n := range r.priCalls {
			total += n
		}
		for _, n := range r.idxCalls {
			total += n
		}
		for i, x := range out {
			if !isCacheErr(x.err) {
				r.failf("%s reader %d: every GET failed with a redis error (%d GETs seen), the reader got (%+v, %v) instead of that error", what, i, len(b.getFailed), x.row, x.err)
			}
		}
		if total != 0 {
			r.failf("%s: every GET failed with a redis error and the database was queried %d time(s)", what, total)
		}
		if len(b.getFailed) > 0 && len(o.Offs) >= 2 {
			r.nontrivial = true
		}
		return
	}
	if maxActive > 1 {
		r.failf("%s: %d database queries for %s ran at the same time (%d readers)", what, maxActive, key, len(o.Offs))
	}
	if calls > 1 && r.storeSpecified() {
		r.failf("%s: %d readers of %s caused %d database queries (the first result is cached or remembered as not found)", what, len(o.Offs), key, calls)
	}
	if !wasDirty {
		for i, x := range out {
			r.checkRow(fmt.Sprintf("%s reader %d", what, i), x.row, x.err, want, exists)
		}
	}
	if uncached && calls == 1 && overlap >= 2 {
		r.classes["conc-overlap"] = true
		r.nontrivial = true
		if !exists {
			r.classes["conc-overlap-notfound"] = true
		}
	} else {
		r.classes["conc-no-overlap"] = true
	}
}

func c06HistInterp(t *testing.T, c hCase) (v kit.Verdict) {
	r := &hRun{t: t, c: c, db: map[int]hRow{}, ph: map[string]int{}, cached: map[string]int{}, dirty: map[string]bool{},
		keyNode: map[string]int{}, invalid: map[string]bool{}, wrong: map[string]int{}, priCalls: map[int]int{}, idxCalls: map[int]int{},
		active: map[string]int{}, classes: map[string]bool{}, opLimit: 2e9, clientFails: map[int]int{}}
	if c.PKKind == "" && len(c.PKs) == 0 {
		c.PKs = []int64{0, 1, 2, 3, 4, 5}
		r.c = c
	}
	if len(c.IdxNames) > 0 {
		if len(c.IdxNames) != c06NIdx {
			return kit.Verdict{Excluded: true}
		}
		seenN := map[string]bool{}
		for _, d := range c.IdxNames {
			name := c06Expand(d)
			if seenN[name] {
				return kit.Verdict{Excluded: true}
			}
			seenN[name] = true
			r.idxNames = append(r.idxNames, name)
		}
		r.classes["index-key-names-from-alphabet"] = true
	}
	seen := map[string]bool{}
	for id := 0; id < c06NIDs; id++ {
		if (c.PKKind == "str" && len(c.SPKs) != c06NIDs) || (c.PKKind == "u64" && len(c.UPKs) != c06NIDs) ||
			(c.PKKind != "str" && c.PKKind != "u64" && len(c.PKs) != c06NIDs) || seen[r.pkText(id)] {
			return kit.Verdict{Excluded: true}
		}
		seen[r.pkText(id)] = true
	}
	n := len(c.Weights)
	if len(c.Insts) == 0 {
		c.Insts = []hInst{{HasE: true, E: c.Expire, HasNF: true, NF: c.NFExp}}
		r.c = c
	}
	if n < 1 || n > len(cache.C06Srvs) || len(c.Insts) > 3 {
		return kit.Verdict{Excluded: true}
	}
	// a node may have no weight (0 or negative: it gets no keys) as long as one has
	// (cache.New ends the process on a configuration without any weight)
	total := 0
	for _, w := range c.Weights {
		if w > 0 {
			total += w
		}
	}
	if total <= 0 || (n == 1 && c.Weights[0] <= 0) {
		return kit.Verdict{Excluded: true}
	}
	for _, o := range c.Ops {
		if o.K == "fault" && o.Mode != "" && !c.clusterType() && (strings.HasPrefix(o.Mode, "rst") || cache.C06Retryable(cache.C06Text(o.Txt, false))) {
			// connection resets make the client back off for up to 88 ms of virtual
			// time per failed call: keep every operation clear of the wheel's ticks
			c.OffMs = 150 + c.OffMs%450
			r.c = c
			break
		}
	}
	for _, in := range c.Insts {
		if (in.HasE && in.ENs == 0 && !in.E0 && in.E < 1) || (in.HasNF && in.NFNs == 0 && !in.NF0 && in.NF < 1) {
			return kit.Verdict{Excluded: true}
		}
	}
	if !cache.C06RunnerAlive() {
		return kit.Verdict{Fail: fmt.Sprintf(cache.C06RunnerDead, runtime.GOMAXPROCS(0))}
	}
	if c06FlightStuck {
		return kit.Verdict{Excluded: true, Classes: []string{"excluded-after-a-stuck-single-flight"}}
	}
	if cache.C06Poisoned(c.Salt) {
		// a late command of a stalled earlier case could hit this case's keys
		return kit.Verdict{Excluded: true, Classes: []string{"excluded-key-names-of-a-stalled-case"}}
	}
	r.srvs = cache.C06Srvs[:n]
	for _, s := range cache.C06Srvs {
		s.Reset(fmt.Sprintf("p%d:", c.Salt), fmt.Sprintf("i%d:", c.Salt))
	}
	res := kit.Bubble(t, func() {
		restore := cache.C06LocalWheel()
		r.start = time.Now()
		defer func() {
			for _, cancel := range r.cancels {
				cancel()
			}
			if c.clusterType() {
				// the cluster client reloads its slot table in a goroutine that
				// ends with a 200 ms sleep
				time.Sleep(time.Second)
			}
			kit.Wait()
			restore()
			kit.Wait()
		}()
		time.Sleep(time.Duration(c.OffMs)*time.Millisecond + 500*time.Microsecond)
		// a throw-away instance with the documented defaults passed explicitly:
		// whatever an earlier case may have left behind in process-wide state
		// is overwritten, so cases stay independent
		_ = sqlc.NewNodeConn(nil, redis.New(r.srvs[0].M.Addr()), cache.WithExpire(7*24*time.Hour), cache.WithNotFoundExpire(time.Minute))
		var conf cache.Config
		rtype := redis.NodeType
		if c.clusterType() {
			rtype = redis.ClusterType
			r.classes["redis-cluster-type"] = true
			if n > 1 {
				r.classes["redis-cluster-type-several-cache-nodes"] = true
			}
		}
		for i, w := range c.Weights {
			conf = append(conf, cache.NodeConfig{Config: redis.Config{Host: r.srvs[i].M.Addr(), Type: rtype}, Weight: w})
			if w <= 0 {
				r.classes["cluster-node-without-weight"] = true
			}
			if total == 1 {
				r.classes["total-weight-1"] = true
			}
		}
		flights := syncx.NewSingleFlight() // of the instances the caller builds from cache.New / cache.NewNode
		var lastRds *redis.Redis
		for ii, in := range c.Insts {
			var opts []cache.Option
			if in.HasE {
				opts = append(opts, cache.WithExpire(in.duration(in.E0, in.ENs, in.E)))
			}
			if in.HasNF {
				opts = append(opts, cache.WithNotFoundExpire(in.duration(in.NF0, in.NFNs, in.NF)))
			}
			if !in.HasE || !in.HasNF {
				r.classes["default-expiry-option-omitted"] = true
				if ii > 0 {
					r.classes["defaults-after-earlier-instance-with-options"] = true
				}
			}
			if n == 1 && (c.Ctor == "ctype" || c.Ctor == "node") {
				// ctype: cluster-type redis (go-redis ClusterClient against miniredis' CLUSTER
				// SLOTS): node.DelCtx deletes key by key and retries each failed key on its own
				if !(in.Share && lastRds != nil) {
					if c.Ctor == "ctype" {
						lastRds = redis.New(r.srvs[0].M.Addr(), redis.WithCluster())
					} else {
						lastRds = redis.New(r.srvs[0].M.Addr())
					}
				} else {
					r.classes["instances-share-redis-object"] = true
				}
				if in.Direct {
					cch := cache.NewNode(lastRds, flights, cache.C06Stat, sql.ErrNoRows, opts...)
					r.ccs, r.direct = append(r.ccs, sqlc.NewConnWithCache(nil, cch)), append(r.direct, cch)
				} else {
					r.ccs, r.direct = append(r.ccs, sqlc.NewNodeConn(nil, lastRds, opts...)), append(r.direct, nil)
				}
			} else if in.Direct {
				cch := cache.New(conf, flights, cache.C06Stat, sql.ErrNoRows, opts...)
				r.ccs, r.direct = append(r.ccs, sqlc.NewConnWithCache(nil, cch)), append(r.direct, cch)
			} else {
				r.ccs, r.direct = append(r.ccs, sqlc.NewConn(nil, conf, opts...)), append(r.direct, nil)
			}
			if in.Direct {
				r.classes["instance-from-cache-New"] = true
			}
		}
		if len(c.Insts) > 1 {
			r.classes[fmt.Sprintf("instances-%d", len(c.Insts))] = true
		}
		if n == 1 {
			r.classes["single-node"] = true
		} else {
			r.classes[fmt.Sprintf("cluster-%d", n)] = true
			if cache.C06RandomPorts {
				r.classes["cluster-on-random-ports"] = true
			}
		}
		for i, o := range c.Ops {
			what := fmt.Sprintf("op %d %s", i, opString(o))
			r.opStart = cache.C06RealNow()
			r.cur = 0
			if o.In > 0 {
				r.cur = o.In % len(r.ccs)
			}
			if o.K != "adv" && o.K != "fault" {
				// an operation issues at most 2 failing commands per node (cluster-type
				// redis deletes key by key: up to 3 keys and the read inside Exec)
				worst := 2
				if c.clusterType() {
					worst = 4
				}
				r.budget(func(int) int { return worst })
			}
			after := r.withCtx("", false)
			switch o.K {
			case "read", "readidx":
				after = r.withCtx(o.Cx, false)
			case "write", "delrow", "delcache", "setcache":
				after = r.withCtx(o.Cx, true)
			case "getcache":
				after = r.withCtx(o.Cx, false)
			}
			if r.direct[r.cur] != nil && r.ctx == nil {
				r.classes["direct-cache-api"] = true
			}
			switch o.K {
			case "read":
				if o.CB != "" {
					quiet := true
					for _, s := range r.srvs {
						quiet = quiet && s.Fault() == ""
					}
					if nest := (o.ID + 1 + o.Idx) % c06NIDs; quiet && !r.ctxPre && (o.CB != "nest" || nest != o.ID%c06NIDs) {
						r.cbMode, r.cbNest, r.cbFired = o.CB, nest, false
					}
				}
				r.doRead(what, o.ID%c06NIDs)
				r.cbMode = ""
			case "churn":
				// a long-lived connection: thousands of cheap reads with whatever is
				// pending (retries, placeholders, cached rows) staying in place
				quiet := true
				for _, s := range r.srvs {
					quiet = quiet && s.Fault() == ""
				}
				quiet = quiet && len(r.wrong) == 0
				for j := 0; quiet && j < o.D && j < 20000 && r.fail == ""; j++ {
					r.doRead(fmt.Sprintf("%s read %d", what, j), j%c06NIDs)
					r.opStart = cache.C06RealNow()
				}
				if quiet {
					r.classes["churn"] = true
				}
			case "readidx":
				r.doReadIndex(what, o.Idx%c06NIdx)
			case "write":
				o.ID, o.Idx = o.ID%c06NIDs, o.Idx%c06NIdx
				r.doWrite(what, o, false)
			case "delrow":
				o.ID = o.ID % c06NIDs
				r.doWrite(what, o, true)
			case "garbage":
				r.doGarbage(o)
			case "delcache":
				r.doDelCache(what, o)
			case "setcache":
				r.doSetCache(what, o)
			case "getcache":
				r.doGetCache(what, o)
			case "cwrite":
				r.doCWrite(what, o)
			case "adv":
				r.doAdv(what, o.D)
			case "conc":
				o.ID, o.Idx = o.ID%c06NIDs, o.Idx%c06NIdx
				r.doConc(what, o)
			case "fault":
				if o.Node >= 0 && o.Node < n {
					mode := o.Mode
					if c.clusterType() {
						// the cluster client reacts to a lost connection by re-reading the
						// slot table and marking nodes as failing (its own clock and
						// goroutines): error replies only
						mode = strings.TrimPrefix(strings.TrimPrefix(mode, "rst1"), "rst")
					}
					switch mode {
					case "", "down", "get", "set", "del", "rstdown", "rstget", "rstset", "rstdel", "rst1down", "rst1get", "rst1set", "rst1del":
						r.srvs[o.Node].SetFaultText(mode, o.Filt, cache.C06Text(o.Txt, c.clusterType()))
						if mode != "" {
							r.classes["fault-"+mode] = true
						}
					}
				}
			}
			after()
			r.stall()
			r.ctx, r.opLimit, r.ctxPre, r.ctxMid = nil, 2e9, false, false
			if r.fail != "" {
				return
			}
			r.realign(what)
			r.stall()
			if r.fail != "" {
				return
			}
		}
		// epilogue: every node is back; once the next retry instant of every
		// pending delete has passed, all reads must be coherent again.
		for _, s := range r.srvs {
			s.SetFault("", "")
		}
		for guard := 0; guard < 20; guard++ {
			next := -1
			for _, t := range r.tasksF {
				if t.alive && (next < 0 || t.nextAt < next) {
					next = t.nextAt
				}
			}
			if next < 0 {
				break
			}
			r.opStart = cache.C06RealNow()
			r.doAdv("epilogue (all nodes up)", next-r.nowTick())
			r.stall()
			if r.fail != "" {
				return
			}
		}
		// every node is up and every retry instant has passed: nothing may be stale any more
		r.dirty = map[string]bool{}
		r.budget(func(si int) int { // keys of another type fail two epilogue reads each
			n := 0
			for _, x := range r.wrong {
				if x == si {
					n += 2
				}
			}
			return n
		})
		for id := 0; id < c06NIDs && r.fail == ""; id++ {
			r.opStart = cache.C06RealNow()
			r.cur = id % len(r.ccs)
			r.doRead(fmt.Sprintf("epilogue read %d", id), id)
			r.stall()
		}
		for idx := 0; idx < c06NIdx && r.fail == ""; idx++ {
			r.opStart = cache.C06RealNow()
			r.cur = idx % len(r.ccs)
			r.doReadIndex(fmt.Sprintf("epilogue readidx %d", idx), idx)
			r.stall()
		}
		// "and not again afterwards": one whole delay table later no further DEL was sent
		if len(r.tasksF) > 0 && r.fail == "" {
			quiet := 0
			for _, d := range cache.C06Delays {
				quiet += d
			}
			r.opStart = cache.C06RealNow()
			r.doAdv("epilogue (quiet period after the last successful retry)", quiet+2)
			r.stall()
		}
	})
	if r.stalled {
		cache.C06Poison(c.Salt)
		// a real-time socket time-out of the redis client may have fired: the
		// environment, not the code, decided this case
		return kit.Verdict{Excluded: true, Classes: []string{"excluded-real-time-stall"}}
	}
	v.NonTrivial = r.nontrivial
	for k := range r.classes {
		v.Classes = append(v.Classes, k)
	}
	sort.Strings(v.Classes)
	if r.fail != "" {
		v.Fail, v.Known = r.fail, r.known
	} else if !res.OK() {
		v.Fail = "bubble: " + res.String()
	}
	return v
}

func opString(o hOp) string {
	b, _ := json.Marshal(o)
	return string(b)
}

func c06HistGen(rt *rapid.T) hCase {
	c := hCase{
		Salt:   rapid.IntRange(0, 999).Draw(rt, "salt"),
		OffMs:  rapid.IntRange(1, 998).Draw(rt, "off"),
		Ctor:   rapid.SampledFrom([]string{"node", "conf", "ctype", "node", "conf", "ctype", "cconf"}).Draw(rt, "ctor"),
	}
	// primary key VALUES are part of the case: small, around 2^21 (where %v of a
	// float64 switches to exponent form), around 2^53, near the int64 limits,
	// negative, arbitrary; or strings that need escaping / look like numbers
	if kind := rapid.IntRange(0, 5).Draw(rt, "strkeys"); kind == 5 {
		// unsigned primary keys (hash / snowflake style ids): beyond the int64 range, with
		// neighbours that share one float64, and the small / 2^53 region for contrast
		c.PKKind = "u64"
		pool := []uint64{0, 1, 7, 1<<53 - 1, 1 << 53, 1<<53 + 1, 1<<63 - 1, 1 << 63, 1<<63 + 1, 1<<63 + 5, 1<<63 + 1024, 1<<63 + 1025, 1<<63 + 2048,
			9223372036854775813, 12345678901234567890, 12345678901234567891, math.MaxUint64, math.MaxUint64 - 1, math.MaxUint64 - 2047}
		c.UPKs = rapid.SliceOfNDistinct(rapid.OneOf(rapid.SampledFrom(pool), rapid.SampledFrom(pool), rapid.Uint64Min(1<<63)), c06NIDs, c06NIDs, rapid.ID[uint64]).Draw(rt, "upk")
	} else if kind == 0 {
		c.PKKind = "str"
		pool := []string{"a", "B b", `q"x`, `back\slash`, "日本", "12", "1e3", "9007199254740993", "true", "null", "x:y", "ü", "*", "tab\there", "<k>&", "🎉"}
		for _, i := range rapid.SliceOfNDistinct(rapid.IntRange(0, len(pool)-1), c06NIDs, c06NIDs, rapid.ID[int]).Draw(rt, "spk") {
			c.SPKs = append(c.SPKs, pool[i])
		}
	} else {
		pool := []int64{0, 1, 2, 7, -1, -7, 1234567, 2097153, 21000000, 4294967297, 1<<53 - 1, 1 << 53, 1<<53 + 1, 1<<53 + 2, -(1 << 53) - 1,
			1234567890123456789, 1234567890123456768, math.MaxInt64, math.MaxInt64 - 1, math.MinInt64, 1<<62 + 1}
		c.PKs = rapid.SliceOfNDistinct(rapid.OneOf(rapid.SampledFrom(pool), rapid.SampledFrom(pool), rapid.Int64()), c06NIDs, c06NIDs, rapid.ID[int64]).Draw(rt, "pk")
	}
	// 1..3 connections created one after the other, each option passed or omitted
	ni := rapid.SampledFrom([]int{1, 1, 2, 2, 3}).Draw(rt, "instances")
	for i := 0; i < ni; i++ {
		in := hInst{HasE: rapid.IntRange(0, 3).Draw(rt, "hasexpire") != 0, HasNF: rapid.IntRange(0, 3).Draw(rt, "hasnfexpire") != 0}
		if in.HasE {
			in.E = rapid.IntRange(5, 120).Draw(rt, "expire")
			if rapid.IntRange(0, 3).Draw(rt, "oddexpire") == 0 {
				// magnitudes: sub-second, not whole seconds, the defaults +-1 ns, hours .. 100 years, out of range
				in.ENs = rapid.SampledFrom([]int64{1, 1e6, 999e6, 1e9, 1e9 + 1, 1001e6, 1500e6, 1 << 31, 2500e6, 60e9 - 1, 60e9 + 1, 3600e9,
					7*24*3600e9 - 1, 7*24*3600e9 + 1, 30 * 24 * 3600e9, c06HundredYears, math.MaxInt64, -1, -1e9, math.MinInt64, 0}).Draw(rt, "expirens")
				in.E0 = in.ENs == 0
			}
		}
		if in.HasNF {
			in.NF = rapid.IntRange(2, 40).Draw(rt, "nfexpire")
			if rapid.IntRange(0, 3).Draw(rt, "oddnfexpire") == 0 {
				in.NFNs = rapid.SampledFrom([]int64{1, 1e6, 999e6, 1e9, 1e9 + 1, 1500e6, 1 << 31, 60e9 - 1, 60e9 + 1, 3600e9, 30 * 24 * 3600e9,
					c06HundredYears, math.MaxInt64, -1, -1e9, math.MinInt64, 0}).Draw(rt, "nfexpirens")
				in.NF0 = in.NFNs == 0
			}
		}
		if i > 0 {
			in.Share = rapid.IntRange(0, 2).Draw(rt, "sharerds") == 0
		}
		in.Direct = rapid.IntRange(0, 4).Draw(rt, "direct") == 0
		c.Insts = append(c.Insts, in)
	}
	// names of the index values inside their cache keys: format verbs, glob / regexp
	// metacharacters, NUL, bytes that are not UTF-8, cluster hash tags, empty, long
	if rapid.IntRange(0, 2).Draw(rt, "idxnames") == 0 {
		pool := []string{"0", "1", "", "%s", "%d%!v", "*", "a*b?[c]", "sp ace", "tab\tx", "nul\x00x", "~X", "{tag}x", "{}", "日本", "UPPER", "upper", ":lead", "trail:", "a,b|c", "~L300", "~L70000"}
		for _, i := range rapid.SliceOfNDistinct(rapid.IntRange(0, len(pool)-1), c06NIdx, c06NIdx, rapid.ID[int]).Draw(rt, "ixn") {
			c.IdxNames = append(c.IdxNames, pool[i])
		}
	}
	nn := rapid.SampledFrom([]int{1, 1, 2, 3}).Draw(rt, "nodes")
	for i := 0; i < nn; i++ {
		c.Weights = append(c.Weights, rapid.SampledFrom([]int{10, 50, 100, 10, 50, 100, 1, 2, 99, 101, 1000}).Draw(rt, "weight"))
	}
	if nn > 1 && rapid.IntRange(0, 7).Draw(rt, "weightless") == 0 {
		// a configured node without weight (it gets no keys)
		c.Weights[rapid.IntRange(0, nn-1).Draw(rt, "weightlessnode")] = rapid.SampledFrom([]int{0, -5}).Draw(rt, "noweight")
	}
	advs := []int{1, 1, 1, 2, 4, 5, 6, 60, 66, 300, 3600}
	for _, in := range c.Insts {
		if ns, ok := in.nfExpireNs(); ok && ns < 4000e9 {
			lon, hin := ttlBounds(ns)
			advs = append(advs, lon-1, lon, hin, hin+1)
		}
		if ns, ok := in.expireNs(); ok && in.HasE && ns < 4000e9 {
			loe, hie := ttlBounds(ns)
			advs = append(advs, loe-1, loe, hie, hie+1, hie+5, hie+6)
		}
	}
	rows := map[int]int{} // id -> idx, to construct writes that respect the unique index
	freeIdx := func(except int) []int {
		var f []int
		for x := 0; x < c06NIdx; x++ {
			used := false
			for id, ix := range rows {
				if ix == x && id != except {
					used = true
				}
			}
			if !used {
				f = append(f, x)
			}
		}
		return f
	}
	kinds := []string{"read", "read", "read", "read", "readidx", "readidx", "readidx", "write", "write", "write", "write",
		"delrow", "delcache", "setcache", "adv", "adv", "adv", "conc", "fault", "fault", "idxstale", "garbage", "gmiss", "getcache", "cwrite"}
	nops := rapid.IntRange(5, 40).Draw(rt, "nops")
	faulty := false
	churnAt := -1
	if rapid.IntRange(0, 79).Draw(rt, "churncase") == 41 {
		churnAt = rapid.IntRange(0, nops-1).Draw(rt, "churnat")
	}
	existing := func() []int {
		var ids []int
		for id := range rows {
			ids = append(ids, id)
		}
		sort.Ints(ids)
		return ids
	}
	// mostly rows that exist
	pickID := func() int {
		if ids := existing(); len(ids) > 0 && rapid.IntRange(0, 3).Draw(rt, "existing") != 0 {
			return rapid.SampledFrom(ids).Draw(rt, "id")
		}
		return rapid.IntRange(0, c06NIDs-1).Draw(rt, "id")
	}
	pickIdx := func() int {
		if ids := existing(); len(ids) > 0 && rapid.IntRange(0, 3).Draw(rt, "existing") != 0 {
			return rows[rapid.SampledFrom(ids).Draw(rt, "id")]
		}
		return rapid.IntRange(0, c06NIdx-1).Draw(rt, "idx")
	}
	for i := 0; i < nops; i++ {
		k := rapid.SampledFrom(kinds).Draw(rt, "kind")
		if i < 2 && rapid.Bool().Draw(rt, "populate") {
			k = "write"
		}
		o := hOp{K: k}
		if ni > 1 {
			o.In = rapid.IntRange(0, ni-1).Draw(rt, "instance")
		}
		switch k {
		case "read", "readidx", "write", "delrow", "delcache", "setcache", "idxstale", "getcache":
			o.Cx = rapid.SampledFrom([]string{"", "", "", "bg", "live", "cancel", "cancel", "dl", "pre", "mid"}).Draw(rt, "ctx")
		}
		if k == "read" && rapid.IntRange(0, 5).Draw(rt, "callback") == 0 {
			o.CB = rapid.SampledFrom([]string{"dberr", "panic", "nest"}).Draw(rt, "cb")
			o.Idx = rapid.IntRange(0, c06NIDs-2).Draw(rt, "nestoffset")
		}
		if churnAt == i {
			c.Ops = append(c.Ops, hOp{K: "churn", D: rapid.SampledFrom([]int{300, 1100, 1100, 2500}).Draw(rt, "churn")})
		}
		switch k {
		case "read":
			o.ID = pickID()
		case "readidx":
			o.Idx = pickIdx()
		case "write":
			o.ID = rapid.IntRange(0, c06NIDs-1).Draw(rt, "id")
			cur, existed := rows[o.ID]
			free := freeIdx(o.ID)
			if len(free) == 0 {
				continue
			}
			if existed && rapid.Bool().Draw(rt, "keepidx") {
				o.Idx = cur
				o.NoIdx = rapid.Bool().Draw(rt, "noidx")
			} else {
				o.Idx = rapid.SampledFrom(free).Draw(rt, "idx")
			}
			if rapid.IntRange(0, 11).Draw(rt, "stmtfails") == 0 {
				o.XF = true // the statement fails: the database (and the generator's picture of it) stays as it is
				break
			}
			o.During = rapid.IntRange(0, 3).Draw(rt, "during") == 0
			if rapid.Bool().Draw(rt, "hasresult") {
				o.Res = rapid.IntRange(1, len(c06Results)-1).Draw(rt, "result")
			}
			o.Pay = rapid.IntRange(0, 349).Draw(rt, "payload")
			if rapid.IntRange(0, 11).Draw(rt, "longstring") == 0 {
				// index into c06Lens (8 wraps to 255 B); 7 = 1 MiB is kept rare, it costs milliseconds per read
				o.SL = rapid.SampledFrom([]int{8, 8, 1, 1, 2, 2, 3, 3, 4, 4, 5, 5, 6, 6, 8, 1, 2, 3, 5, 7}).Draw(rt, "sl")
			}
			rows[o.ID] = o.Idx
		case "idxstale":
			// index entry cached, row rewritten without naming the (unchanged) index key, index read
			ids := existing()
			if len(ids) == 0 {
				continue
			}
			id := rapid.SampledFrom(ids).Draw(rt, "id")
			c.Ops = append(c.Ops, hOp{K: "readidx", Idx: rows[id]})
			if rapid.Bool().Draw(rt, "viawrite") {
				c.Ops = append(c.Ops, hOp{K: "write", ID: id, Idx: rows[id], NoIdx: true, Pay: rapid.IntRange(0, 349).Draw(rt, "payload")})
			} else {
				c.Ops = append(c.Ops, hOp{K: "delcache", Keys: []string{fmt.Sprintf("p%d", id)}})
			}
			o = hOp{K: "readidx", Idx: rows[id]}
		case "garbage":
			o.G = rapid.IntRange(0, 7).Draw(rt, "garbage")
			o.WT = rapid.IntRange(0, 2).Draw(rt, "wrongtype") == 0
			if rapid.Bool().Draw(rt, "primary") {
				o.Keys = []string{fmt.Sprintf("p%d", pickID())}
			} else {
				o.Keys = []string{fmt.Sprintf("i%d", pickIdx())}
			}
		case "gmiss":
			// an undecodable entry under the key of a row that does not exist,
			// the read's own DEL of it fails, then the same read again: the
			// not-found result must have been remembered all the same
			id := rapid.IntRange(0, c06NIDs-1).Draw(rt, "id")
			if _, ok := rows[id]; ok {
				c.Ops = append(c.Ops, hOp{K: "delrow", ID: id})
				delete(rows, id)
			}
			node := rapid.IntRange(0, nn-1).Draw(rt, "node")
			c.Ops = append(c.Ops, hOp{K: "read", ID: id}, // makes the key's node known in a cluster
				hOp{K: "garbage", Keys: []string{fmt.Sprintf("p%d", id)}, G: rapid.IntRange(0, 7).Draw(rt, "garbage")},
				hOp{K: "fault", Node: node, Mode: "del", Filt: rapid.SampledFrom([]string{"", "p"}).Draw(rt, "filt")},
				hOp{K: "read", ID: id}, hOp{K: "read", ID: id})
			o = hOp{K: "fault", Node: node}
			faulty = false
		case "delrow":
			ids := existing()
			if len(ids) == 0 {
				continue
			}
			o.ID = rapid.SampledFrom(ids).Draw(rt, "id")
			o.During = rapid.IntRange(0, 3).Draw(rt, "during") == 0
			if rapid.Bool().Draw(rt, "hasresult") {
				o.Res = rapid.IntRange(1, len(c06Results)-1).Draw(rt, "result")
			}
			delete(rows, o.ID)
		case "cwrite":
			ids := existing()
			if len(ids) == 0 {
				continue
			}
			nw := rapid.IntRange(2, 5).Draw(rt, "writers")
			for j := 0; j < nw; j++ {
				w := hW{ID: rapid.SampledFrom(ids).Draw(rt, "id"), Off: rapid.SampledFrom([]int{0, 0, 0, 1, 50, 200, 449}).Draw(rt, "woff"),
					Lat: rapid.SampledFrom([]int{0, 1, 1, 50, 200, 399}).Draw(rt, "wlat"), Pay: rapid.IntRange(0, 349).Draw(rt, "payload"),
					NoIdx: rapid.IntRange(0, 3).Draw(rt, "noidx") == 0, DelOnly: rapid.IntRange(0, 4).Draw(rt, "delonly") == 0}
				if ni > 1 {
					w.In = rapid.IntRange(0, ni-1).Draw(rt, "instance")
				}
				o.Ws = append(o.Ws, w)
			}
		case "delcache", "setcache", "getcache":
			nk := rapid.IntRange(1, 3).Draw(rt, "nkeys")
			if k == "setcache" && rapid.IntRange(0, 9).Draw(rt, "badvalue") == 0 {
				o.Bad = true
			}
			if k == "delcache" {
				switch rapid.IntRange(0, 23).Draw(rt, "shape") {
				case 0, 1:
					nk = 0 // DelCache() with no key at all
				case 2:
					o.Fill = rapid.SampledFrom([]int{10, 10, 100, 100, 513, 1000}).Draw(rt, "fill")
				}
			}
			for j := 0; j < nk; j++ {
				if rapid.Bool().Draw(rt, "primary") {
					o.Keys = append(o.Keys, fmt.Sprintf("p%d", pickID()))
				} else {
					o.Keys = append(o.Keys, fmt.Sprintf("i%d", pickIdx()))
				}
			}
		case "adv":
			o.D = rapid.SampledFrom(advs).Draw(rt, "d")
			if o.D < 1 {
				o.D = 1
			}
		case "conc":
			o.ID = pickID()
			o.Idx = pickIdx()
			o.ViaIdx = rapid.IntRange(0, 2).Draw(rt, "viaidx") == 0
			o.Lat = rapid.IntRange(1, 400).Draw(rt, "lat")
			o.GF = rapid.IntRange(0, 3).Draw(rt, "getfault") == 0
			if o.GF && rapid.Bool().Draw(rt, "gftext") {
				o.Txt = rapid.IntRange(0, len(cache.C06Texts)-1).Draw(rt, "text")
			}
			nr := rapid.IntRange(2, 6).Draw(rt, "readers")
			for j := 0; j < nr; j++ {
				o.Offs = append(o.Offs, rapid.IntRange(0, 450).Draw(rt, "offs"))
			}
			// concurrent readers are interesting on an uncached key: drop it first
			if rapid.IntRange(0, 3).Draw(rt, "uncache") != 0 {
				pre := hOp{K: "delcache", Keys: []string{fmt.Sprintf("p%d", o.ID)}}
				if o.ViaIdx {
					pre.Keys = []string{fmt.Sprintf("i%d", o.Idx)}
				}
				if !faulty {
					c.Ops = append(c.Ops, pre)
				}
			}
		case "fault":
			o.Node = rapid.IntRange(0, nn-1).Draw(rt, "node")
			if faulty && rapid.Bool().Draw(rt, "recover") {
				o.Mode = ""
			} else {
				o.Mode = rapid.SampledFrom([]string{"down", "get", "set", "set", "del", "del", "del",
					"rstdown", "rstget", "rstset", "rstdel", "rstdel", "rst1down", "rst1get", "rst1del"}).Draw(rt, "mode")
				o.Filt = rapid.SampledFrom([]string{"", "", "p", "i"}).Draw(rt, "filt")
				if rapid.IntRange(0, 2).Draw(rt, "othertext") != 0 {
					o.Txt = rapid.IntRange(0, len(cache.C06Texts)-1).Draw(rt, "text")
				}
			}
			faulty = o.Mode != ""
		}
		c.Ops = append(c.Ops, o)
	}
	return c
}

func TestVerif_C06_history(t *testing.T) {
	kit.Run(t, "C06", "history", kit.Opts{Quick: 1800, Thorough: 160000}, c06HistGen,
		func(c hCase) kit.Verdict { return c06HistInterp(t, c) })
}
