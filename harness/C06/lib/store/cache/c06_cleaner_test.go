package cache

// C06 — cache-aside: failed cache deletes are retried in the background with
// increasing delays until the first success, and not again afterwards.
// In-package part of the harness (injected by /verif through the overlay; see
// /verif/DESIGN.md "C06"): it owns
//   * the miniredis instances with a command hook (fault injection + command
//     log), started OUTSIDE every bubble in init(),
//   * the bubble-local replacement of the package variable `timingWheel`,
//   * the rule "cleaner-schedule" (AddCleanTask with scripted outcomes on
//     virtual time).
// The rules that go through sqlc.CachedConn live in c06_sqlc_test.go
// (package cache_test) and use the exported C06* helpers below.

import (
	"errors"
	"fmt"
	"log"
	"os"
	"runtime"
	"sort"
	"strconv"
	"strings"
	"sync"
	"syscall"
	"testing"
	"time"

	"github.com/alicebob/miniredis/v2"
	"github.com/alicebob/miniredis/v2/server"
	"github.com/gotid/god/lib/collection"
	"github.com/gotid/god/lib/logx"
	"github.com/gotid/god/lib/store/redis"
	"pgregory.net/rapid"
	"verif.local/kit"
)

// C06KnownInverted is the known-finding predicate id: the observed background
// attempts are exactly those of a cleaner whose reschedule condition is
// inverted (a failed attempt is never retried, a successful one is repeated
// along the delay table).
const C06KnownInverted = "clean-retry-inverted"

// C06Delays is the retry schedule (seconds): first attempt 1 s after the
// failed delete, then 5 s, 1 min, 5 min, 1 h after the previous attempt.
var C06Delays = []int{1, 5, 60, 300, 3600}

// C06Cmd is one GET/SETEX/DEL seen by a miniredis instance.
type C06Cmd struct {
	Cmd    string
	Keys   []string
	Secs   int
	Val    string
	Failed bool // answered with an injected error instead of being executed
	Reset  bool // (with Failed) ONE attempt of a call the client re-sends (up to 3 times): the connection was closed without a reply, or the error reply is one of those go-redis re-sends after (LOADING, READONLY, CLUSTERDOWN, TRYAGAIN, max number of clients)
	Err    string // the error reply ("" for a closed connection)
	Real   bool   // (with Failed) not injected: the server itself refused the GET because the key holds a value of another type (WRONGTYPE)
}

// C06Texts: the error replies a fault can be answered with (index 0 = the
// default). Real Redis texts; the client treats some of them specially.
var C06Texts = []string{
	"ERR c06 injected fault",
	"WRONGTYPE Operation against a key holding the wrong kind of value",
	"LOADING Redis is loading the dataset in memory",
	"BUSY Redis is busy running a script. You can only call SCRIPT KILL or SHUTDOWN NOSAVE.",
	"NOAUTH Authentication required.",
	"MOVED 3999 127.0.0.1:6381",
	"ASK 3999 127.0.0.1:6381",
	"CLUSTERDOWN The cluster is down",
	"READONLY You can't write against a read only replica.",
	"OOM command not allowed when used memory > 'maxmemory'.",
	"TRYAGAIN Multiple keys request during rehashing of slot",
	"MISCONF Redis is configured to save RDB snapshots, but it is currently not able to persist on disk.",
	"NOPERM this user has no permissions to run the 'get' command",
	"ERR max number of clients reached",
	"MASTERDOWN Link with MASTER is down and replica-serve-stale-data is set to 'no'.",
}

// C06Retryable: go-redis re-sends a command answered with this error reply
// (error.go shouldRetry), backing off on the (virtual) clock in between.
func C06Retryable(txt string) bool {
	if txt == "ERR max number of clients reached" {
		return true
	}
	for _, p := range []string{"LOADING ", "READONLY ", "CLUSTERDOWN ", "TRYAGAIN "} {
		if strings.HasPrefix(txt, p) {
			return true
		}
	}
	return false
}

// C06Text maps a generated index to the reply text. For cluster-type clients
// only texts the ClusterClient hands back as they are: it follows MOVED / ASK to
// the named address, re-reads its slot table on READONLY and marks nodes as
// failing on LOADING, on its own clock and goroutines.
func C06Text(i int, clusterClient bool) string {
	if i < 0 {
		i = -i
	}
	txt := C06Texts[i%len(C06Texts)]
	if clusterClient && (C06Retryable(txt) || strings.HasPrefix(txt, "MOVED ") || strings.HasPrefix(txt, "ASK ")) {
		return C06Texts[0]
	}
	return txt
}

// C06Srv is a miniredis instance with fault injection and a command log.
type C06Srv struct {
	M *miniredis.Miniredis

	mu       sync.Mutex
	prefixes []string // only commands on keys with one of these prefixes belong to the running case
	mode     string   // "" | down | get | slowget | set | del, or one of these prefixed with "rst" (connection closed without a reply) or "rst1" (the same, for one command only)
	filt     string   // "" or first byte of the keys the fault applies to
	txt      string   // error reply of the fault ("" = C06Texts[0])
	log      []C06Cmd
	injected int
	resets   int // attempts answered by closing the connection
}

// C06Srvs are started once per process, outside any bubble.
var C06Srvs []*C06Srv

// C06RandomPorts: a fixed port was busy, placement on the ring is not reproducible.
var C06RandomPorts bool

// C06Stat is a process-wide Stat (its statLoop must live outside bubbles).
var C06Stat *Stat

// c06FatalTrap is installed as the output of the standard logger: log.Fatal
// (cache.New on a configuration it rejects) would end the test process with
// exit status 1 and no trace of the case; a panic raised while the message is
// written surfaces in the running case instead (bubble panic => violation).
type c06FatalTrap struct{}

func (c06FatalTrap) Write(p []byte) (int, error) {
	pcs := make([]uintptr, 16)
	frames := runtime.CallersFrames(pcs[:runtime.Callers(2, pcs)])
	for {
		f, more := frames.Next()
		if strings.HasPrefix(f.Function, "log.Fatal") {
			panic("log.Fatal would end the process: " + strings.TrimSpace(string(p)))
		}
		if !more {
			break
		}
	}
	return os.Stderr.Write(p)
}

func init() {
	log.SetOutput(c06FatalTrap{})
	logx.Disable()
	C06Stat = NewStat("c06")
	// The position of a node on the cluster's hash ring is a function of its
	// address, so the ports are a function of the shard: a replay (shard 0)
	// of a case found by thorough shard i places keys as the original run did
	// when started with VERIF_C06_SHARD=i. Busy port: fall back to a free one.
	shard := 0
	sh := os.Getenv("VERIF_C06_SHARD")
	if sh == "" {
		sh = os.Getenv("VERIF_SHARD")
	}
	fmt.Sscanf(sh, "%d", &shard)
	for i := 0; i < 3; i++ {
		m := miniredis.NewMiniRedis()
		base := 0 // a variant unit (same sources, other process environment) runs next to the plain one
		fmt.Sscanf(os.Getenv("VERIF_C06_PORTBASE"), "%d", &base)
		if err := m.StartAddr(fmt.Sprintf("127.0.0.1:%d", 23600+base+4*(shard%64)+i)); err != nil {
			m = miniredis.NewMiniRedis()
			if err := m.Start(); err != nil {
				panic(err)
			}
			C06RandomPorts = true
		}
		s := &C06Srv{M: m}
		m.Server().SetPreHook(s.hook)
		C06Srvs = append(C06Srvs, s)
		// warm up the process-wide go-redis client (pool, reaper goroutine)
		if !redis.New(m.Addr()).Ping() {
			panic("c06: miniredis not reachable")
		}
		{
			// cluster-type client (slot table loaded, node client and its
			// reaper created) for every server, also outside any bubble
			cr := redis.New(m.Addr(), redis.WithCluster())
			if !cr.Ping() {
				panic("c06: miniredis not reachable through the cluster client")
			}
			_, _ = cr.Get("c06-warmup")
			_, _ = cr.Del("c06-warmup")
			_ = cr.SetEx("c06-warmup", "x", 1)
			_, _ = cr.Del("c06-warmup")
		}
	}
}

func (s *C06Srv) hook(c *server.Peer, cmd string, args ...string) bool {
	e := C06Cmd{Cmd: cmd}
	switch cmd {
	case "GET":
		if len(args) != 1 {
			return false
		}
		e.Keys = []string{args[0]}
	case "SETEX":
		if len(args) != 3 {
			return false
		}
		e.Keys = []string{args[0]}
		e.Secs, _ = strconv.Atoi(args[1])
		e.Val = args[2]
	case "SET":
		// go-redis sends SET key value EX secs (PX ms for sub-second expiries);
		// logged as SETEX with the TTL rounded up to seconds, Secs = 0: no expiry
		if len(args) < 2 {
			return false
		}
		e.Cmd = "SETEX"
		cmd = "SETEX"
		e.Keys = []string{args[0]}
		e.Val = args[1]
		for i := 2; i+1 < len(args); i += 2 {
			n, _ := strconv.Atoi(args[i+1])
			switch strings.ToUpper(args[i]) {
			case "EX":
				e.Secs = n
			case "PX":
				e.Secs = (n + 999) / 1000
			}
		}
	case "DEL":
		e.Keys = append([]string(nil), args...)
	default:
		return false
	}
	wrongType := false
	if cmd == "GET" {
		// the real thing: the key holds a hash / list / set - the server itself answers WRONGTYPE
		if t := s.M.Type(e.Keys[0]); t != "" && t != "string" {
			wrongType = true
		}
	}
	s.mu.Lock()
	if !s.ours(e.Keys) {
		// a straggler of an earlier case (a command whose client gave up after
		// a real-time socket time-out on an overloaded machine): not ours
		s.mu.Unlock()
		return false
	}
	e.Failed = s.matches(cmd, e.Keys)
	cut := false
	if e.Failed && strings.HasPrefix(s.mode, "rst") {
		// connection-level fault: no reply, the peer's connection is closed
		e.Reset, cut = true, true
		s.resets++
		if strings.HasPrefix(s.mode, "rst1") {
			s.mode, s.filt = "", "" // one command only: the client's own re-send goes through
		}
	} else if e.Failed {
		e.Err = s.txt
		if e.Err == "" {
			e.Err = C06Texts[0]
		}
		if C06Retryable(e.Err) {
			e.Reset = true // the client re-sends after this reply
			s.resets++
		} else {
			s.injected++
		}
	} else if wrongType {
		e.Failed, e.Real, e.Err = true, true, C06Texts[1]
		s.injected++ // the circuit breaker counts it like any failure
	}
	slow := e.Failed && s.mode == "slowget"
	s.log = append(s.log, e)
	s.mu.Unlock()
	if cut {
		c.Close()
		return true
	}
	if e.Real {
		return false // the server answers by itself
	}
	if slow {
		// the failing GET takes a while (real time: this goroutine is outside
		// the bubble and the client waits in network I/O), so that readers
		// starting at the same virtual instant join the leader's flight
		time.Sleep(3 * time.Millisecond)
	}
	if e.Failed {
		c.WriteError(e.Err)
		return true
	}
	return false
}

func (s *C06Srv) ours(keys []string) bool {
	if len(s.prefixes) == 0 {
		return true
	}
	for _, k := range keys {
		ok := false
		for _, p := range s.prefixes {
			if strings.HasPrefix(k, p) {
				ok = true
			}
		}
		if !ok {
			return false
		}
	}
	return true
}

func (s *C06Srv) matches(cmd string, keys []string) bool {
	mode := strings.TrimPrefix(strings.TrimPrefix(s.mode, "rst1"), "rst")
	if mode == "" && s.mode != "" {
		mode = "down"
	}
	switch mode {
	case "down":
	case "get", "slowget":
		if cmd != "GET" {
			return false
		}
	case "set":
		if cmd != "SETEX" {
			return false
		}
	case "del":
		if cmd != "DEL" {
			return false
		}
	default:
		return false
	}
	if s.filt == "" {
		return true
	}
	for _, k := range keys {
		if strings.HasPrefix(k, s.filt) {
			return true
		}
	}
	return false
}

// WouldFail tells whether a command (the client's call as a whole) would fail
// now. A single reset (rst1...) does not fail the call: the client re-sends.
func (s *C06Srv) WouldFail(cmd string, keys []string) bool {
	s.mu.Lock()
	defer s.mu.Unlock()
	if strings.HasPrefix(s.mode, "rst1") {
		return false
	}
	return s.matches(cmd, keys)
}

// SetFault sets the fault mode ("" clears it) with the default error reply.
func (s *C06Srv) SetFault(mode, filt string) { s.SetFaultText(mode, filt, "") }

// SetFaultText: as SetFault, the matching commands are answered with txt.
func (s *C06Srv) SetFaultText(mode, filt, txt string) {
	s.mu.Lock()
	s.mode, s.filt, s.txt = mode, filt, txt
	s.mu.Unlock()
}

// Fault returns the current fault mode.
func (s *C06Srv) Fault() string {
	s.mu.Lock()
	defer s.mu.Unlock()
	return s.mode
}

// Take returns and clears the command log.
func (s *C06Srv) Take() []C06Cmd {
	s.mu.Lock()
	defer s.mu.Unlock()
	l := s.log
	s.log = nil
	return l
}

// Injected is (an upper bound of) the number of client calls that failed
// because of an injected fault since Reset: error replies, plus one per
// started group of four reset attempts (a call is given up after 4 attempts).
func (s *C06Srv) Injected() int {
	s.mu.Lock()
	defer s.mu.Unlock()
	return s.injected + (s.resets+3)/4
}

// Reset empties the server and clears faults, log and counters; from now on
// only commands on keys starting with one of the prefixes are logged or failed.
func (s *C06Srv) Reset(prefixes ...string) {
	s.M.FlushAll()
	s.mu.Lock()
	s.mode, s.filt, s.txt, s.log, s.injected, s.resets, s.prefixes = "", "", "", nil, 0, 0, prefixes
	s.mu.Unlock()
}

var (
	c06PoisonMu sync.Mutex
	c06Poison   = map[int]int64{} // salt -> real time of a stalled case that used it
)

// C06Poison records that a case with this salt stalled in real time: one of
// its commands may still arrive late at a server.
func C06Poison(salt int) {
	c06PoisonMu.Lock()
	c06Poison[salt] = C06RealNow()
	c06PoisonMu.Unlock()
}

// C06Poisoned: a case with the same key names stalled less than 10 s ago.
func C06Poisoned(salt int) bool {
	c06PoisonMu.Lock()
	defer c06PoisonMu.Unlock()
	t, ok := c06Poison[salt]
	return ok && C06RealNow()-t < 10e9
}

// C06RealNow is the wall clock in nanoseconds even inside a bubble (where
// time.Now is virtual). The redis client's socket time-outs (3 s) run on the
// real clock: a case during which one operation took longer than 2 s of real
// time may have seen a spurious time-out and is excluded, not judged.
func C06RealNow() int64 {
	var tv syscall.Timeval
	_ = syscall.Gettimeofday(&tv)
	return tv.Sec*1e9 + tv.Usec*1e3
}

var (
	c06RunnerOnce  sync.Once
	c06RunnerAlive bool
)

// C06RunnerAlive: once per process, outside any bubble and on the real clock,
// the package's background task runner is asked to run one task. A runner
// that cannot start a task (e.g. sized 0 from the process environment at
// package init) would block the retry of every failed delete for ever - and,
// blocking on a channel created outside the bubble, freeze virtual time.
func C06RunnerAlive() bool {
	c06RunnerOnce.Do(func() {
		done := make(chan struct{})
		go taskRunner.Schedule(func() { close(done) })
		select {
		case <-done:
			c06RunnerAlive = true
		case <-time.After(30 * time.Second): // generous: the machine may be heavily loaded
		}
	})
	return c06RunnerAlive
}

// C06RunnerDead is the verdict text used by both rules.
const C06RunnerDead = "the cache package's background task runner did not start a task within 30 s of real time (GOMAXPROCS=%d): a failed delete can never be retried in this process"

// C06LocalWheel replaces the package's clean wheel by one created in the
// calling bubble (same interval, slots and execute function as init() uses), so
// that retries run on virtual time. The returned function stops it and restores
// the process-wide wheel.
func C06LocalWheel() (restore func()) {
	orig := timingWheel
	tw, err := collection.NewTimingWheel(time.Second, timingWheelSlots, clean)
	if err != nil {
		panic(err)
	}
	timingWheel = tw
	return func() {
		tw.Stop()
		timingWheel = orig
	}
}

// ---------------------------------------------------------------------------
// rule cleaner-schedule

type c06Task struct {
	At     int    `json:"at"` // AddCleanTask is called At seconds (+ offset) after the wheel was created
	Script []bool `json:"s"`  // outcome of the k-th background attempt: true = the delete succeeds
}

type c06CleanCase struct {
	OffMs int       `json:"off"` // 1..999: keeps calls away from tick instants
	Tasks []c06Task `json:"t"`
}

// c06Expect lists the seconds (since wheel creation) at which attempts are
// due. fixed: attempts continue exactly while the previous one failed.
// inverted: the defect hypothesis (continue exactly while it succeeded).
func c06Expect(t c06Task, inverted bool) []int {
	var out []int
	at := t.At + C06Delays[0] // called in (At, At+1): the first tick after the call
	for k := 0; k < len(C06Delays); k++ {
		out = append(out, at)
		ok := k < len(t.Script) && t.Script[k]
		if ok != inverted {
			break
		}
		if k+1 < len(C06Delays) {
			at += C06Delays[k+1]
		}
	}
	return out
}

var errC06Scripted = errors.New("c06 scripted delete failure")

func c06CleanInterp(t *testing.T, c c06CleanCase) (v kit.Verdict) {
	if !C06RunnerAlive() {
		return kit.Verdict{Fail: fmt.Sprintf(C06RunnerDead, runtime.GOMAXPROCS(0))}
	}
	var fail, known string
	classes := map[string]bool{}
	res := kit.Bubble(t, func() {
		restore := C06LocalWheel()
		start := time.Now()
		defer func() {
			restore()
			kit.Wait()
		}()
		var mu sync.Mutex
		got := make([][]time.Duration, len(c.Tasks))
		order := make([]int, len(c.Tasks))
		for i := range order {
			order[i] = i
		}
		sort.SliceStable(order, func(a, b int) bool { return c.Tasks[order[a]].At < c.Tasks[order[b]].At })
		horizon := 0
		for _, i := range order {
			i := i
			task := c.Tasks[i]
			time.Sleep(time.Until(start.Add(time.Duration(task.At)*time.Second + time.Duration(c.OffMs)*time.Millisecond)))
			n := 0
			AddCleanTask(func() error {
				mu.Lock()
				defer mu.Unlock()
				k := n
				n++
				got[i] = append(got[i], time.Since(start))
				if k < len(task.Script) && task.Script[k] {
					return nil
				}
				return errC06Scripted
			}, fmt.Sprintf("k%d", i))
			kit.Wait()
			// observe one full delay table past the last attempt either model predicts
			for _, inv := range []bool{false, true} {
				e := c06Expect(task, inv)
				if h := e[len(e)-1] + C06Delays[len(C06Delays)-1] + 2; h > horizon {
					horizon = h
				}
			}
		}
		time.Sleep(time.Until(start.Add(time.Duration(horizon) * time.Second)))
		kit.Wait()
		mu.Lock()
		defer mu.Unlock()
		matchInv := true
		for i, task := range c.Tasks {
			var gs []string
			for _, d := range got[i] {
				gs = append(gs, d.String())
			}
			str := func(secs []int) string {
				var s []string
				for _, x := range secs {
					s = append(s, (time.Duration(x) * time.Second).String())
				}
				return strings.Join(s, " ")
			}
			g := strings.Join(gs, " ")
			want, inv := c06Expect(task, false), c06Expect(task, true)
			allFail := len(want) == len(C06Delays) && !(len(task.Script) >= len(C06Delays) && task.Script[len(C06Delays)-1])
			if allFail {
				classes["all-fail"] = true
				// the statement does not say what happens when every attempt of
				// the table failed: only the table itself is compared.
				if len(got[i]) > len(want) {
					g = strings.Join(gs[:len(want)], " ")
				}
			} else {
				classes[fmt.Sprintf("succeeds-at-attempt-%d", len(want))] = true
			}
			if strings.Join(gs, " ") != str(inv) {
				matchInv = false
			}
			if g != str(want) {
				if fail == "" {
					fail = fmt.Sprintf("task %d %+v: delete attempts at [%s] after the wheel start, want [%s] (1 s after the failed delete, then 5 s, 1 min, 5 min, 1 h while the previous attempt failed; none after the first success)", i, task, strings.Join(gs, " "), str(want))
				}
			}
		}
		// known finding only when EVERY task behaved exactly as the defect hypothesis predicts
		if fail != "" && matchInv {
			known = C06KnownInverted
		}
	})
	if len(c.Tasks) > 1 {
		classes["multi-task"] = true
	}
	for _, task := range c.Tasks {
		e := c06Expect(task, false)
		if len(e) > 1 && len(task.Script) >= len(e) && task.Script[len(e)-1] {
			v.NonTrivial = true // a delete fault followed by recovery
		}
	}
	for k := range classes {
		v.Classes = append(v.Classes, k)
	}
	sort.Strings(v.Classes)
	if fail != "" {
		v.Fail, v.Known = fail, known
	} else if !res.OK() {
		v.Fail = "bubble: " + res.String()
	}
	return v
}

func c06CleanGen(rt *rapid.T) c06CleanCase {
	c := c06CleanCase{OffMs: rapid.IntRange(1, 999).Draw(rt, "off")}
	n := rapid.SampledFrom([]int{1, 1, 1, 2, 3}).Draw(rt, "ntasks")
	for i := 0; i < n; i++ {
		task := c06Task{At: rapid.IntRange(0, 400).Draw(rt, "at")}
		// number of failing attempts before the first success (5 = all fail),
		// then arbitrary outcomes (only the defect hypothesis looks at them)
		f := rapid.SampledFrom([]int{0, 0, 1, 1, 2, 2, 3, 4, 5}).Draw(rt, "fails")
		for k := 0; k < len(C06Delays); k++ {
			switch {
			case k < f:
				task.Script = append(task.Script, false)
			case k == f:
				task.Script = append(task.Script, true)
			default:
				task.Script = append(task.Script, rapid.Bool().Draw(rt, "later"))
			}
		}
		c.Tasks = append(c.Tasks, task)
	}
	return c
}

func TestVerif_C06_cleaner(t *testing.T) {
	kit.Run(t, "C06", "cleaner-schedule", kit.Opts{Quick: 600, Thorough: 16000}, c06CleanGen,
		func(c c06CleanCase) kit.Verdict { return c06CleanInterp(t, c) })
}
