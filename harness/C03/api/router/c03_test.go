package router_test

// C03 — HTTP routing is sound and complete w.r.t. the registered patterns.
// Harness injected by /verif (overlay); see /verif/DESIGN.md "C03".

import (
	"fmt"
	"net/http"
	"net/http/httptest"
	"net/url"
	"sort"
	"strings"
	"testing"

	"github.com/gotid/god/api/pathvar"
	"github.com/gotid/god/api/router"
	"pgregory.net/rapid"
	"verif.local/kit"
)

type c03Route struct {
	M string `json:"m"`
	P string `json:"p"`
	N bool   `json:"n,omitempty"` // registration: a nil handler is passed (the statement does not say what happens)
	Q string `json:"q,omitempty"` // request: raw query string (not part of the path)
}

// c03Phase: further registrations made AFTER requests were already served by the same router.
type c03Phase struct {
	Routes []c03Route `json:"routes"`
	Reqs   []c03Route `json:"reqs"`
}

type c03Case struct {
	More       []c03Phase `json:"more,omitempty"`
	Routes     []c03Route `json:"routes"`
	NotFound   bool       `json:"nf,omitempty"` // custom not-found handler installed
	NotAllowed bool       `json:"na,omitempty"` // custom not-allowed handler installed
	Reqs       []c03Route `json:"reqs"`
	W          bool       `json:"w,omitempty"` // generated with the wide segment alphabet
	D          bool       `json:"d,omitempty"` // generated with deep patterns (up to 64 segments)
}

var c03ValidMethods = map[string]bool{
	http.MethodDelete: true, http.MethodGet: true, http.MethodHead: true, http.MethodOptions: true,
	http.MethodPatch: true, http.MethodPost: true, http.MethodPut: true,
}

// c03Clean: the cleaned form of a rooted path, written from the statement ('//', '/./', a
// trailing '/' and '..' steps removed). Deliberately NOT path.Clean, which the router calls.
func c03Clean(p string) string {
	var st []string
	for _, s := range strings.Split(p, "/") {
		switch s {
		case "", ".":
		case "..":
			if len(st) > 0 {
				st = st[:len(st)-1]
			}
		default:
			st = append(st, s)
		}
	}
	return "/" + strings.Join(st, "/")
}

// reference: cleaned path -> segments; the root path is ONE empty segment.
func c03Segs(p string) []string {
	c := c03Clean(p)
	return strings.Split(c[1:], "/")
}

// reference matcher written from the statement.
func c03Match(pat, req []string) (map[string][]string, bool) {
	if len(pat) != len(req) {
		return nil, false
	}
	vars := map[string][]string{}
	for i := range pat {
		if len(pat[i]) > 0 && pat[i][0] == ':' {
			vars[pat[i][1:]] = append(vars[pat[i][1:]], req[i])
		} else if pat[i] != req[i] {
			return nil, false
		}
	}
	return vars, true
}

func c03AllLiteral(pat []string) bool {
	for _, s := range pat {
		if len(s) > 0 && s[0] == ':' {
			return false
		}
	}
	return true
}

type c03Reg struct {
	id   int
	segs []string
}

func c03Interp(c c03Case) (v kit.Verdict) {
	defer func() {
		if r := recover(); r != nil {
			v.Fail = fmt.Sprintf("panic: %v", r)
		}
	}()
	classes := map[string]bool{}
	rt := router.NewRouter()
	ran := []int{}
	var ranVars map[string]string
	const idNotFound, idNotAllowed = -1, -2
	mk := func(id int) http.Handler {
		return http.HandlerFunc(func(w http.ResponseWriter, r *http.Request) {
			ran = append(ran, id)
			ranVars = pathvar.Vars(r)
			w.WriteHeader(299)
		})
	}
	if c.NotFound {
		rt.SetNotFoundHandler(mk(idNotFound))
	}
	if c.NotAllowed {
		rt.SetNotAllowedHandler(mk(idNotAllowed))
	}
	table := map[string][]c03Reg{} // method -> registered patterns
	seen := map[string]bool{}      // method + cleaned pattern
	var allRoutes []c03Route
	phases := append([]c03Phase{{Routes: c.Routes, Reqs: c.Reqs}}, c.More...)
	if len(c.More) > 0 {
		classes["register-after-serving"] = true
	}
	if c.W {
		classes["wide-alphabet"] = true
	}
	if c.D {
		classes["deep-patterns"] = true
	}
	if len(c.Routes) > 100 {
		classes["many-routes"] = true
	}
	for _, ph := range phases {
		base := len(allRoutes)
		allRoutes = append(allRoutes, ph.Routes...)
		// registration
		for j, r := range ph.Routes {
			i := base + j
			var err error
			if r.N {
				err = rt.Handle(r.M, r.P, nil)
			} else {
				err = rt.Handle(r.M, r.P, mk(i))
			}
			wantErr := false
			switch {
			case !c03ValidMethods[r.M]:
				wantErr = true
				classes["reg-invalid-method"] = true
			case len(r.P) == 0 || r.P[0] != '/':
				wantErr = true
				classes["reg-invalid-path"] = true
			case seen[r.M+" "+c03Clean(r.P)]:
				wantErr = true
				classes["reg-duplicate"] = true
			case r.N:
				// UNSPECIFIED by the statement. A refused registration leaves the pattern
				// unregistered (it may be registered later, and must not match meanwhile);
				// an accepted one has no handler to invoke: nothing to judge any more.
				classes["reg-nil-handler-unspecified"] = true
				if err == nil {
					v.Excluded = true
					v.Classes = []string{"reg-nil-handler-accepted"}
					return v
				}
				continue
			}
			if wantErr != (err != nil) {
				return v.Failf("Handle(%q,%q): error=%v, reference says rejected=%v", r.M, r.P, err, wantErr)
			}
			if err == nil {
				seen[r.M+" "+c03Clean(r.P)] = true
				table[r.M] = append(table[r.M], c03Reg{id: i, segs: c03Segs(r.P)})
			}
		}
		// requests
		for _, q := range ph.Reqs {
			ran, ranVars = nil, nil
			rec := httptest.NewRecorder()
			req := &http.Request{Method: q.M, URL: &url.URL{Path: q.P, RawQuery: q.Q}, Header: http.Header{}}
			rt.ServeHTTP(rec, req)
			if len(ran) > 1 {
				return v.Failf("request %s %q: %d handlers ran: %v", q.M, q.P, len(ran), ran)
			}
			if len(q.P) == 0 || q.P[0] != '/' {
				// a path that is not rooted ("", "*", "a/b": OPTIONS *, CONNECT, a handler behind
				// http.StripPrefix): the statement speaks about segments of a rooted path only.
				// UNSPECIFIED: run for panics and double dispatch.
				classes["req-unrooted-unspecified"] = true
				continue
			}
			if q.Q != "" {
				classes["req-with-query"] = true
			}
			rsegs := c03Segs(q.P)
			what := fmt.Sprintf("request %s %q (cleaned %q)", q.M, q.P, c03Clean(q.P))
			// reference match set
			matches := map[int]map[string][]string{}
			literal := -1
			for _, reg := range table[q.M] {
				if vars, ok := c03Match(reg.segs, rsegs); ok {
					matches[reg.id] = vars
					if c03AllLiteral(reg.segs) {
						literal = reg.id
					}
				}
			}
			if len(matches) > 0 {
				if len(ran) != 1 || ran[0] < 0 {
					return v.Failf("%s: patterns %v match but handler ran=%v status=%d", what, c03Keys(matches), ran, rec.Code)
				}
				vars, ok := matches[ran[0]]
				if !ok {
					return v.Failf("%s: handler of route #%d (%v) ran, which does not match; matching: %v", what, ran[0], allRoutes[ran[0]], c03Keys(matches))
				}
				if literal >= 0 && ran[0] != literal {
					return v.Failf("%s: all-literal route #%d matches but route #%d (%v) ran", what, literal, ran[0], allRoutes[ran[0]])
				}
				if len(vars) != len(ranVars) {
					return v.Failf("%s: route #%d %v bound vars %v, reference %v", what, ran[0], allRoutes[ran[0]], ranVars, vars)
				}
				for name, vals := range vars {
					got, ok := ranVars[name]
					found := false
					for _, x := range vals {
						if x == got {
							found = true
						}
					}
					if !ok || !found {
						return v.Failf("%s: route #%d %v bound %q=%q (present=%v), reference allows %v", what, ran[0], allRoutes[ran[0]], name, got, ok, vals)
					}
				}
				if len(matches) > 1 {
					classes["ambiguous-match"] = true
				}
				if literal >= 0 && len(matches) > 1 {
					classes["literal-wins"] = true
				}
				// backtracking needed: the route that ran has a param at position i while another
				// registered route of the method has a literal equal to the request segment there
				// and matches the request on all earlier positions.
				win := c03Segs(allRoutes[ran[0]].P)
				for i := range win {
					if len(win[i]) > 0 && win[i][0] == ':' {
						for _, reg := range table[q.M] {
							if reg.id == ran[0] || len(reg.segs) <= i || reg.segs[i] != rsegs[i] {
								continue
							}
							if _, ok := c03Match(reg.segs[:i], rsegs[:i]); ok {
								classes["backtrack"] = true
								v.NonTrivial = true
							}
						}
					}
				}
				continue
			}
			// no pattern of the method matches: 405 with Allow, or 404
			allowed := map[string]bool{}
			for m, regs := range table {
				if m == q.M {
					continue
				}
				for _, reg := range regs {
					if _, ok := c03Match(reg.segs, rsegs); ok {
						allowed[m] = true
					}
				}
			}
			if len(allowed) > 0 {
				classes["405"] = true
				if len(allowed) >= 2 {
					v.NonTrivial = true
					classes["405-multi"] = true
				}
				if c.NotAllowed {
					if len(ran) != 1 || ran[0] != idNotAllowed {
						return v.Failf("%s: expected the not-allowed handler, ran=%v status=%d", what, ran, rec.Code)
					}
					continue
				}
				if len(ran) != 0 || rec.Code != http.StatusMethodNotAllowed {
					return v.Failf("%s: expected 405, got status=%d ran=%v (allowed by reference: %v)", what, rec.Code, ran, c03Keys2(allowed))
				}
				got := map[string]bool{}
				hdr := rec.Result().Header.Get("Allow") // what a client receives: headers set after WriteHeader are not sent
				for _, m := range strings.Split(hdr, ",") {
					m = strings.TrimSpace(m)
					if m != "" {
						if got[m] {
							return v.Failf("%s: Allow header %q lists %s twice", what, hdr, m)
						}
						got[m] = true
					}
				}
				if fmt.Sprint(c03Keys2(got)) != fmt.Sprint(c03Keys2(allowed)) {
					return v.Failf("%s: Allow header %q, reference %v", what, hdr, c03Keys2(allowed))
				}
				continue
			}
			classes["404"] = true
			if c.NotFound {
				if len(ran) != 1 || ran[0] != idNotFound {
					return v.Failf("%s: expected the not-found handler, ran=%v status=%d", what, ran, rec.Code)
				}
				continue
			}
			if len(ran) != 0 || rec.Code != http.StatusNotFound {
				return v.Failf("%s: expected 404, got status=%d ran=%v", what, rec.Code, ran)
			}
		}
	}
	for k := range classes {
		v.Classes = append(v.Classes, k)
	}
	sort.Strings(v.Classes)
	return v
}

func c03Keys(m map[int]map[string][]string) []int {
	var k []int
	for x := range m {
		k = append(k, x)
	}
	sort.Ints(k)
	return k
}

func c03Keys2(m map[string]bool) []string {
	var k []string
	for x := range m {
		k = append(k, x)
	}
	sort.Strings(k)
	return k
}

// ---- generators ----

var (
	c03Lits   = []string{"a", "b", "c", "a:b", "ab"}
	c03Params = []string{":x", ":y", ":z", ":", ":a"}
	// wide alphabet (a quarter of the random cases): case, punctuation, glob/format/template
	// metacharacters, escapes that must NOT be decoded again, non-ASCII, dot runs, a long segment
	c03LitsWide   = []string{"a", "A", "b", "B", "a.b", "a-b", "a b", "ä", "*", "{id}", "%41", "%2F", "a+b", "..a", "a..", "...", "a:b", "%s", "a?b", "a#b", strings.Repeat("longseg", 43)}
	c03ParamsWide = []string{":x", ":X", ":id", ":x-y", ":名", ":x.y"}
)

// c03Wide / c03Deep are set by c03Gen for the case being generated (generation is sequential).
var c03Wide, c03Deep bool

func c03FlipCase(s string) string {
	b := []byte(s)
	for i, ch := range b {
		switch {
		case ch >= 'a' && ch <= 'z':
			b[i] = ch - 32
		case ch >= 'A' && ch <= 'Z':
			b[i] = ch + 32
		}
	}
	return string(b)
}

func c03GenPattern(rt *rapid.T) string {
	depth := rapid.IntRange(0, 4).Draw(rt, "depth")
	if c03Deep && rapid.Bool().Draw(rt, "deeper") {
		depth = rapid.SampledFrom([]int{8, 16, 31, 32, 33, 64}).Draw(rt, "deepdepth")
	}
	if depth == 0 {
		return rapid.SampledFrom([]string{"/", "/", "//", "/.", "/a/.."}).Draw(rt, "root")
	}
	var sb strings.Builder
	for i := 0; i < depth; i++ {
		sb.WriteString(rapid.SampledFrom([]string{"/", "/", "/", "/", "//", "/./"}).Draw(rt, "sep"))
		if rapid.IntRange(0, 9).Draw(rt, "isparam") < 4 {
			if c03Wide && rapid.Bool().Draw(rt, "wp") {
				sb.WriteString(rapid.SampledFrom(c03ParamsWide).Draw(rt, "wparam"))
			} else {
				sb.WriteString(rapid.SampledFrom(c03Params[:3+rapid.IntRange(0, 2).Draw(rt, "pw")]).Draw(rt, "param"))
			}
		} else {
			if c03Wide && rapid.Bool().Draw(rt, "wl") {
				sb.WriteString(rapid.SampledFrom(c03LitsWide).Draw(rt, "wlit"))
			} else {
				sb.WriteString(rapid.SampledFrom(c03Lits[:3+rapid.IntRange(0, 2).Draw(rt, "lw")]).Draw(rt, "lit"))
			}
		}
	}
	if rapid.IntRange(0, 7).Draw(rt, "trail") == 0 {
		sb.WriteString("/")
	}
	return sb.String()
}

func c03GenReqPath(rt *rapid.T, routes []c03Route) string {
	var segs []string
	if len(routes) > 0 && rapid.IntRange(0, 9).Draw(rt, "derive") < 7 {
		// derive from a registered pattern: params replaced by request literals
		r := routes[rapid.IntRange(0, len(routes)-1).Draw(rt, "from")]
		if len(r.P) > 0 && r.P[0] == '/' {
			for _, s := range c03Segs(r.P) {
				if len(s) > 0 && s[0] == ':' {
					if c03Wide && rapid.Bool().Draw(rt, "wsubst") {
						s = rapid.SampledFrom(c03LitsWide).Draw(rt, "wsub")
					} else {
						s = rapid.SampledFrom([]string{"a", "b", "c", "d", ":x", "ab"}).Draw(rt, "subst")
					}
				} else if c03Wide && rapid.IntRange(0, 5).Draw(rt, "flip") == 0 {
					s = c03FlipCase(s) // the router is case-sensitive: "/A" is not "/a"
				} else if rapid.IntRange(0, 9).Draw(rt, "mut") == 0 {
					s = rapid.SampledFrom([]string{"a", "b", "c", "d"}).Draw(rt, "mutseg")
				}
				segs = append(segs, s)
			}
			switch rapid.IntRange(0, 11).Draw(rt, "len") {
			case 0:
				if len(segs) > 0 {
					segs = segs[:len(segs)-1]
				}
			case 1:
				segs = append(segs, rapid.SampledFrom([]string{"a", "b"}).Draw(rt, "extra"))
			}
		}
	} else {
		n := rapid.IntRange(0, 4).Draw(rt, "n")
		for i := 0; i < n; i++ {
			segs = append(segs, rapid.SampledFrom([]string{"a", "b", "c", "d", ":x", "a:b"}).Draw(rt, "seg"))
		}
	}
	var sb strings.Builder
	for _, s := range segs {
		if s == "" {
			continue
		}
		sb.WriteString(rapid.SampledFrom([]string{"/", "/", "/", "/", "/", "//", "/./", "/q/../"}).Draw(rt, "rsep"))
		sb.WriteString(s)
	}
	if sb.Len() == 0 {
		return rapid.SampledFrom([]string{"/", "//", "/.", "/a/.."}).Draw(rt, "rroot")
	}
	if rapid.IntRange(0, 5).Draw(rt, "rtrail") == 0 {
		sb.WriteString("/")
	}
	return sb.String()
}

func c03Gen(rt *rapid.T) c03Case {
	var c c03Case
	methods := []string{"GET", "GET", "GET", "POST", "POST", "PUT", "DELETE", "HEAD", "OPTIONS", "PATCH"}
	bad := []string{"TRACE", "get", "", "CONNECT", "Post"}
	c.W = rapid.IntRange(0, 3).Draw(rt, "wide") == 0
	c.D = rapid.IntRange(0, 9).Draw(rt, "deep") == 0
	c03Wide, c03Deep = c.W, c.D
	n := rapid.IntRange(0, 12).Draw(rt, "nroutes")
	if rapid.IntRange(0, 59).Draw(rt, "many") == 0 { // a service-sized table
		n = rapid.SampledFrom([]int{100, 255, 256, 300}).Draw(rt, "manyroutes")
	}
	for i := 0; i < n; i++ {
		var r c03Route
		if rapid.IntRange(0, 14).Draw(rt, "badm") == 0 {
			r.M = rapid.SampledFrom(bad).Draw(rt, "m")
		} else {
			r.M = rapid.SampledFrom(methods).Draw(rt, "m")
		}
		switch rapid.IntRange(0, 19).Draw(rt, "pk") {
		case 0:
			r.P = rapid.SampledFrom([]string{"", "a", "a/b", ":x", "./a"}).Draw(rt, "badp")
		case 1, 2:
			if len(c.Routes) > 0 { // likely duplicate, possibly respelled / other method
				r.P = c.Routes[rapid.IntRange(0, len(c.Routes)-1).Draw(rt, "dup")].P
				if rapid.Bool().Draw(rt, "respell") {
					r.P += "/"
				}
				break
			}
			fallthrough
		case 3, 4, 5, 6, 7:
			if len(c.Routes) > 0 { // sibling: shares a prefix with an earlier pattern, then diverges
				base := c.Routes[rapid.IntRange(0, len(c.Routes)-1).Draw(rt, "sib")]
				if len(base.P) > 0 && base.P[0] == '/' {
					segs := c03Segs(base.P)
					if segs[0] != "" {
						at := rapid.IntRange(0, len(segs)-1).Draw(rt, "at")
						out := append([]string(nil), segs[:at]...)
						for j := at; j < len(segs); j++ {
							switch rapid.IntRange(0, 3).Draw(rt, "how") {
							case 0:
								out = append(out, segs[j])
							case 1:
								out = append(out, rapid.SampledFrom(c03Params[:3]).Draw(rt, "sp"))
							default:
								out = append(out, rapid.SampledFrom(c03Lits[:3]).Draw(rt, "sl"))
							}
						}
						r.P = "/" + strings.Join(out, "/")
						if rapid.IntRange(0, 2).Draw(rt, "samem") > 0 {
							r.M = base.M
						}
						break
					}
				}
			}
			fallthrough
		default:
			r.P = c03GenPattern(rt)
		}
		r.N = rapid.IntRange(0, 39).Draw(rt, "nilh") == 0
		c.Routes = append(c.Routes, r)
	}
	c.NotFound = rapid.IntRange(0, 3).Draw(rt, "nf") == 0
	c.NotAllowed = rapid.IntRange(0, 3).Draw(rt, "na") == 0
	m := rapid.IntRange(1, 20).Draw(rt, "nreqs")
	for i := 0; i < m; i++ {
		var q c03Route
		if rapid.IntRange(0, 11).Draw(rt, "badqm") == 0 {
			q.M = rapid.SampledFrom(bad).Draw(rt, "qm")
		} else {
			q.M = rapid.SampledFrom(methods).Draw(rt, "qm")
		}
		q.P = c03GenReqPath(rt, c.Routes)
		switch rapid.IntRange(0, 29).Draw(rt, "qform") {
		case 0:
			q.P = rapid.SampledFrom([]string{"", "*", "a", "a/b", ".", "..", "a//b/", ":x"}).Draw(rt, "unrooted")
		case 1, 2:
			q.Q = rapid.SampledFrom([]string{"x=1", "x=/a/b", "/a", "a=1&b=2"}).Draw(rt, "query")
		}
		c.Reqs = append(c.Reqs, q)
	}
	// later phases: more routes (often for a method not used so far) registered after serving
	np := rapid.SampledFrom([]int{0, 0, 1, 1, 2}).Draw(rt, "phases")
	known := append([]c03Route(nil), c.Routes...)
	for p := 0; p < np; p++ {
		var ph c03Phase
		nr := rapid.IntRange(1, 4).Draw(rt, "pn")
		for i := 0; i < nr; i++ {
			var r c03Route
			r.M = rapid.SampledFrom(methods).Draw(rt, "pm")
			if len(known) > 0 && rapid.Bool().Draw(rt, "samepath") {
				r.P = known[rapid.IntRange(0, len(known)-1).Draw(rt, "pfrom")].P
			} else {
				r.P = c03GenPattern(rt)
			}
			ph.Routes = append(ph.Routes, r)
			known = append(known, r)
		}
		nq := rapid.IntRange(1, 10).Draw(rt, "pq")
		for i := 0; i < nq; i++ {
			ph.Reqs = append(ph.Reqs, c03Route{M: rapid.SampledFrom(methods).Draw(rt, "pqm"), P: c03GenReqPath(rt, known)})
		}
		c.More = append(c.More, ph)
	}
	return c
}

func TestVerif_C03_random(t *testing.T) {
	kit.Run(t, "C03", "router-random", kit.Opts{Quick: 20000, Thorough: 1600000}, c03Gen, c03Interp)
}

// ---- small-scope exhaustive ----

func c03AllPaths(alpha []string, maxDepth int) []string {
	out := []string{"/"}
	level := []string{""}
	for d := 1; d <= maxDepth; d++ {
		var next []string
		for _, p := range level {
			for _, a := range alpha {
				next = append(next, p+"/"+a)
			}
		}
		out = append(out, next...)
		level = next
	}
	return out
}

// every table of <= 3 distinct (method, pattern) pairs x every request.
func c03Enumerate(patAlpha, reqAlpha []string, depth int, methods []string) func(yield func(c03Case) bool) {
	return func(yield func(c03Case) bool) {
		pats := c03AllPaths(patAlpha, depth)
		var pairs []c03Route
		for _, m := range methods {
			for _, p := range pats {
				pairs = append(pairs, c03Route{M: m, P: p})
			}
		}
		var reqs []c03Route
		for _, m := range methods {
			for _, p := range c03AllPaths(reqAlpha, depth) {
				reqs = append(reqs, c03Route{M: m, P: p})
			}
		}
		n := len(pairs)
		for i := 0; i < n; i++ {
			if !yield(c03Case{Routes: []c03Route{pairs[i]}, Reqs: reqs}) {
				return
			}
			for j := i + 1; j < n; j++ {
				if !yield(c03Case{Routes: []c03Route{pairs[i], pairs[j]}, Reqs: reqs}) {
					return
				}
				for k := j + 1; k < n; k++ {
					if !yield(c03Case{Routes: []c03Route{pairs[i], pairs[j], pairs[k]}, Reqs: reqs}) {
						return
					}
				}
			}
		}
	}
}

func TestVerif_C03_exhaustive(t *testing.T) {
	if kit.Thorough() {
		kit.Enumerate(t, "C03", "router-exhaustive", c03Enumerate([]string{"a", "b", ":x", ":y"}, []string{"a", "b"}, 3, []string{"GET"}), c03Interp)
		return
	}
	kit.Enumerate(t, "C03", "router-exhaustive", c03Enumerate([]string{"a", ":x"}, []string{"a", "b"}, 3, []string{"GET", "POST"}), c03Interp)
}

// Native coverage-guided fuzzing (thorough tier): same generator, same oracle.
func FuzzVerif_C03_router(f *testing.F) {
	kit.Fuzz(f, "C03", "router-fuzz", nil, c03Gen, c03Interp)
}
