package api

// C03 (server level) — the routing statement observed as a client sees it: route groups are
// added to an api.Server, the server is STARTED (Server.Start -> engine.start -> bindRoutes
// -> http.Server on a loopback port) and raw HTTP/1.1 requests are written on a TCP
// connection. What reaches the router is whatever net/http makes of the request line
// (origin-form and absolute-form targets, query strings, percent escapes, uncleaned paths),
// not a hand-built URL. A table that contains a registration the statement rejects must make
// Start fail before anything listens.

import (
	"bufio"
	"encoding/json"
	"errors"
	"fmt"
	"io"
	"net"
	"net/http"
	"os"
	"sort"
	"strconv"
	"strings"
	"sync/atomic"
	"syscall"
	"testing"
	"time"

	"github.com/gotid/god/api/pathvar"
	"github.com/gotid/god/api/router"
	"pgregory.net/rapid"
	"verif.local/kit"
)

type c03sReq struct {
	M string `json:"m"`
	T string `json:"t"` // the request target exactly as written on the wire
}

type c03sCase struct {
	Nonce   string        `json:"nonce"` // GET /c03s-<nonce> is route #0: identifies OUR server on the port
	Groups  [][]c03eRoute `json:"groups"`
	Prefix  []string      `json:"prefix,omitempty"` // "" or one WithPrefix per group
	Timeout int64         `json:"timeout,omitempty"`
	Reqs    []c03sReq     `json:"reqs"`
}

var c03sPortCounter int64

// c03sFreePort: a port below the kernel's ephemeral range (other checks on this machine take
// their ports from the kernel), spread by pid, verified free a moment before use.
func c03sFreePort() int {
	for try := 0; try < 200; try++ {
		n := atomic.AddInt64(&c03sPortCounter, 1)
		p := 10000 + int((int64(os.Getpid())*977+n*13)%22000)
		l, err := net.Listen("tcp", "127.0.0.1:"+strconv.Itoa(p))
		if err != nil {
			continue
		}
		l.Close()
		return p
	}
	return 0
}

// c03sPath: the request path a target denotes: absolute-form loses scheme and authority, the
// query is cut off, percent escapes are decoded. ok=false: not a path (e.g. "*").
func c03sPath(target string) (string, bool) {
	t := target
	if strings.HasPrefix(t, "http://") {
		t = t[len("http://"):]
		i := strings.IndexByte(t, '/')
		if i < 0 {
			return "", false
		}
		t = t[i:]
	}
	if i := strings.IndexByte(t, '?'); i >= 0 {
		t = t[:i]
	}
	if len(t) == 0 || t[0] != '/' {
		return "", false
	}
	var sb strings.Builder
	for i := 0; i < len(t); i++ {
		if t[i] == '%' {
			if i+2 >= len(t) {
				return "", false
			}
			b, err := strconv.ParseUint(t[i+1:i+3], 16, 8)
			if err != nil {
				return "", false
			}
			sb.WriteByte(byte(b))
			i += 2
			continue
		}
		sb.WriteByte(t[i])
	}
	return sb.String(), true
}

type c03sReg struct {
	id   int
	segs []string
	lit  bool
}

type c03sResp struct {
	code  int
	allow string
	ran   string
	vars  map[string]string
	nonce string
}

func c03sRoundTrip(conn net.Conn, br *bufio.Reader, m, target string) (c03sResp, error) {
	var out c03sResp
	_ = conn.SetDeadline(time.Now().Add(30 * time.Second))
	if _, err := fmt.Fprintf(conn, "%s %s HTTP/1.1\r\nHost: c03s\r\n\r\n", m, target); err != nil {
		return out, err
	}
	resp, err := http.ReadResponse(br, &http.Request{Method: m})
	if err != nil {
		return out, err
	}
	_, _ = io.Copy(io.Discard, resp.Body)
	resp.Body.Close()
	out.code = resp.StatusCode
	out.allow = resp.Header.Get("Allow")
	out.ran = resp.Header.Get("X-C03s-Ran")
	out.nonce = resp.Header.Get("X-C03s-Nonce")
	if s := resp.Header.Get("X-C03s-Vars"); s != "" {
		_ = json.Unmarshal([]byte(s), &out.vars)
	}
	return out, nil
}

func c03sInterp(c c03sCase) (v kit.Verdict) {
	defer func() {
		if r := recover(); r != nil {
			v.Fail = fmt.Sprintf("panic: %v", r)
		}
	}()
	classes := map[string]bool{}
	done := func() kit.Verdict {
		for k := range classes {
			v.Classes = append(v.Classes, k)
		}
		sort.Strings(v.Classes)
		return v
	}
	excluded := func(why string) kit.Verdict {
		v.Excluded = true
		classes[why] = true
		return done()
	}
	// ---- reference table
	table := map[string][]c03sReg{}
	seen := map[string]bool{}
	wantErr := false
	type flatRoute struct {
		g int
		r c03eRoute // as given to AddRoutes (before the prefix)
		e c03eRoute // effective
	}
	var flat []flatRoute
	groups := append([][]c03eRoute{{{M: "GET", P: "/c03s-" + c.Nonce}}}, c.Groups...)
	for gi, g := range groups {
		for _, r := range g {
			e := r
			if gi > 0 && gi-1 < len(c.Prefix) && c.Prefix[gi-1] != "" {
				e.P = c03eJoin(c.Prefix[gi-1], r.P)
			}
			id := len(flat)
			flat = append(flat, flatRoute{g: gi, r: r, e: e})
			bad := !c03eValid[e.M] || len(e.P) == 0 || e.P[0] != '/'
			if !bad {
				k := e.M + " " + c03eClean(e.P)
				if seen[k] {
					bad = true
				}
				seen[k] = true
			}
			if bad {
				wantErr = true
			} else if !wantErr {
				lit := true
				for _, s := range c03eSegs(e.P) {
					if len(s) > 0 && s[0] == ':' {
						lit = false
					}
				}
				table[e.M] = append(table[e.M], c03sReg{id: id, segs: c03eSegs(e.P), lit: lit})
			}
		}
	}
	if wantErr {
		classes["start-must-fail"] = true
	}
	// ---- build and start (a fresh server per attempt: a port can be lost to another process)
	var port int
	var errCh chan error
	var conn net.Conn
	identified := false
	for attempt := 0; attempt < 5 && !identified; attempt++ {
		port = c03sFreePort()
		if port == 0 {
			return excluded("no-free-port")
		}
		srv := &Server{ng: newEngine(Config{Host: "127.0.0.1", Port: port, Timeout: c.Timeout}), router: router.NewRouter()}
		WithNotFoundHandler(nil)(srv)
		id := 0
		for gi, g := range groups {
			var rs []Route
			for _, r := range g {
				my := id
				id++
				rs = append(rs, Route{Method: r.M, Path: r.P, Handler: func(w http.ResponseWriter, q *http.Request) {
					b, _ := json.Marshal(pathvar.Vars(q))
					w.Header().Set("X-C03s-Ran", strconv.Itoa(my))
					w.Header().Set("X-C03s-Vars", string(b))
					w.Header().Set("X-C03s-Nonce", c.Nonce)
					w.WriteHeader(299)
				}})
			}
			if gi > 0 && gi-1 < len(c.Prefix) && c.Prefix[gi-1] != "" {
				srv.AddRoutes(rs, WithPrefix(c.Prefix[gi-1]))
			} else {
				srv.AddRoutes(rs)
			}
		}
		errCh = make(chan error, 1)
		go func(ch chan error) {
			defer func() {
				if r := recover(); r != nil {
					if e, ok := r.(error); ok {
						ch <- e
					} else {
						ch <- fmt.Errorf("%v", r)
					}
				}
			}()
			srv.Start()
			ch <- errors.New("Server.Start returned")
		}(errCh)
		// wait for the start to fail or for something to listen on the port
		var startErr error
		addr := "127.0.0.1:" + strconv.Itoa(port)
		for i := 0; startErr == nil && conn == nil; i++ {
			select {
			case startErr = <-errCh:
				continue
			default:
			}
			if cn, err := net.DialTimeout("tcp", addr, 2*time.Second); err == nil {
				conn = cn
				break
			}
			if i > 10000 {
				return excluded("stalled-before-listen")
			}
			time.Sleep(time.Millisecond)
		}
		if conn != nil {
			// who is listening? our server answers the nonce route with the nonce
			br := bufio.NewReader(conn)
			rsp, err := c03sRoundTrip(conn, br, "GET", "/c03s-"+c.Nonce)
			if err == nil && rsp.nonce == c.Nonce && rsp.code == 299 {
				identified = true
				if wantErr {
					conn.Close()
					return v.Failf("Server.Start over groups %v prefix %v: the server is listening and serving although a registration must be rejected", c.Groups, c.Prefix)
				}
				// keep conn for the requests
				v2 := c03sServe(c, conn, br, table, func(id int) string { return fmt.Sprintf("%s %s", flat[id].e.M, flat[id].e.P) }, classes)
				conn.Close()
				if v2.Excluded {
					return excluded("io-stalled")
				}
				if v2.Fail != "" {
					v.Fail = v2.Fail
					return done()
				}
				v.NonTrivial = v2.NonTrivial
				return done()
			}
			conn.Close()
			conn = nil
			// not identified: a foreign listener makes our own start fail with EADDRINUSE
			select {
			case startErr = <-errCh:
			case <-time.After(10 * time.Second):
				return excluded("unidentified-listener")
			}
		}
		if errors.Is(startErr, syscall.EADDRINUSE) {
			classes["port-lost-retry"] = true
			continue
		}
		// the start failed for a reason of its own
		if !wantErr {
			return v.Failf("Server.Start over groups %v prefix %v failed: %v; the reference rejects no registration", c.Groups, c.Prefix, startErr)
		}
		v.NonTrivial = true
		return done()
	}
	return excluded("no-port-after-retries")
}

// c03sServe: the requests of the case on one keep-alive connection.
func c03sServe(c c03sCase, conn net.Conn, br *bufio.Reader, table map[string][]c03sReg, name func(int) string, classes map[string]bool) (v kit.Verdict) {
	for _, q := range c.Reqs {
		rsp, err := c03sRoundTrip(conn, br, q.M, q.T)
		if err != nil {
			var ne net.Error
			if errors.As(err, &ne) && ne.Timeout() {
				v.Excluded = true
				return v
			}
			return v.Failf("request %s %q: %v", q.M, q.T, err)
		}
		p, ok := c03sPath(q.T)
		if !ok {
			classes["target-not-a-path-unspecified"] = true // OPTIONS * is answered by net/http itself
			continue
		}
		if p != q.T {
			classes["target-needs-decoding"] = true
			v.NonTrivial = true
		}
		rsegs := c03eSegs(p)
		what := fmt.Sprintf("wire request %s %q (path %q, cleaned %q) to a started server with groups %v prefix %v", q.M, q.T, p, c03eClean(p), c.Groups, c.Prefix)
		matches := map[int]map[string][]string{}
		literal := -1
		for _, g := range table[q.M] {
			if vars, ok := c03eMatch(g.segs, rsegs); ok {
				matches[g.id] = vars
				if g.lit {
					literal = g.id
				}
			}
		}
		if len(matches) > 0 {
			id, err := strconv.Atoi(rsp.ran)
			if err != nil || rsp.code != 299 {
				return v.Failf("%s: a registered pattern matches but status=%d ran=%q", what, rsp.code, rsp.ran)
			}
			vars, ok := matches[id]
			if !ok {
				return v.Failf("%s: handler of route #%d (%s) ran, which does not match", what, id, name(id))
			}
			if literal >= 0 && id != literal {
				return v.Failf("%s: all-literal route #%d matches but #%d (%s) ran", what, literal, id, name(id))
			}
			if len(vars) != len(rsp.vars) {
				return v.Failf("%s: route #%d (%s) bound %v, reference %v", what, id, name(id), rsp.vars, vars)
			}
			for n, vals := range vars {
				got, present := rsp.vars[n]
				hit := false
				for _, x := range vals {
					hit = hit || x == got
				}
				if !present || !hit {
					return v.Failf("%s: route #%d (%s) bound %q=%q (present=%v), reference allows %v", what, id, name(id), n, got, present, vals)
				}
			}
			classes["wire-dispatched"] = true
			continue
		}
		if rsp.ran != "" {
			return v.Failf("%s: no pattern of the method matches but handler #%s ran", what, rsp.ran)
		}
		allowed := map[string]bool{}
		for m, gs := range table {
			if m == q.M {
				continue
			}
			for _, g := range gs {
				if _, ok := c03eMatch(g.segs, rsegs); ok {
					allowed[m] = true
				}
			}
		}
		if len(allowed) > 0 {
			classes["wire-405"] = true
			got := map[string]bool{}
			for _, m := range strings.Split(rsp.allow, ",") {
				if m = strings.TrimSpace(m); m != "" {
					got[m] = true
				}
			}
			if rsp.code != http.StatusMethodNotAllowed || fmt.Sprint(c03eKeys(got)) != fmt.Sprint(c03eKeys(allowed)) {
				return v.Failf("%s: expected 405 with Allow %v, got status %d Allow %q", what, c03eKeys(allowed), rsp.code, rsp.allow)
			}
			continue
		}
		classes["wire-404"] = true
		if rsp.code != http.StatusNotFound {
			return v.Failf("%s: expected 404, got %d", what, rsp.code)
		}
	}
	return v
}

func c03sGen(rt *rapid.T) c03sCase {
	var c c03sCase
	const hexd = "0123456789abcdef"
	nb := make([]byte, 12)
	for i := range nb {
		nb[i] = hexd[rapid.IntRange(0, 15).Draw(rt, "nonce")]
	}
	c.Nonce = string(nb)
	methods := []string{"GET", "GET", "POST", "PUT", "DELETE", "HEAD", "OPTIONS", "PATCH"}
	segs := []string{"a", "b", "c", "A", ":x", ":y", "a:b", "a b"}
	var flat []c03eRoute
	ng := rapid.IntRange(1, 3).Draw(rt, "groups")
	inject := rapid.IntRange(0, 3).Draw(rt, "inject") == 0 // a quarter of the tables hold a registration that must be rejected
	for g := 0; g < ng; g++ {
		pf := rapid.SampledFrom([]string{"", "", "/v1", "/v2/", "/:v"}).Draw(rt, "prefix")
		c.Prefix = append(c.Prefix, pf)
		var rs []c03eRoute
		nr := rapid.IntRange(1, 5).Draw(rt, "routes")
		for i := 0; i < nr; i++ {
			var r c03eRoute
			r.M = rapid.SampledFrom(methods).Draw(rt, "m")
			depth := rapid.SampledFrom([]int{0, 1, 2, 2, 3, 3}).Draw(rt, "depth")
			r.P = "/"
			for j := 0; j < depth; j++ {
				if j > 0 {
					r.P += "/"
				}
				r.P += rapid.SampledFrom(segs).Draw(rt, "seg")
			}
			if rapid.IntRange(0, 7).Draw(rt, "trail") == 0 && depth > 0 {
				r.P += "/"
			}
			rs = append(rs, r)
			if pf == "" {
				flat = append(flat, r)
			} else {
				flat = append(flat, c03eRoute{M: r.M, P: c03eJoin(pf, r.P)})
			}
		}
		c.Groups = append(c.Groups, rs)
	}
	if inject {
		g := rapid.IntRange(0, ng-1).Draw(rt, "badg")
		at := rapid.IntRange(0, len(c.Groups[g])).Draw(rt, "badat")
		var bad c03eRoute
		switch rapid.IntRange(0, 2).Draw(rt, "badkind") {
		case 0:
			bad = c03eRoute{M: rapid.SampledFrom([]string{"TRACE", "get", "CONNECT"}).Draw(rt, "badm"), P: "/a"}
		case 1:
			bad = c03eRoute{M: "GET", P: rapid.SampledFrom([]string{"a", "a/b", ":x"}).Draw(rt, "badp")}
			if c.Prefix[g] != "" { // under a rooted prefix these become valid: make the method invalid instead
				bad.M = "Get"
			}
		default:
			bad = c.Groups[g][rapid.IntRange(0, len(c.Groups[g])-1).Draw(rt, "dupof")] // duplicate inside its own group (same prefix)
			if rapid.Bool().Draw(rt, "respell") {
				bad.P = strings.Replace(bad.P+"/", "/", "//", 1)
			}
		}
		rs := append([]c03eRoute(nil), c.Groups[g][:at]...)
		rs = append(rs, bad)
		c.Groups[g] = append(rs, c.Groups[g][at:]...)
	}
	c.Timeout = rapid.SampledFrom([]int64{0, 600000, 3600000}).Draw(rt, "timeout")
	esc := func(s string) string { // how a client must spell the segment on the wire
		s = strings.ReplaceAll(s, " ", "%20")
		return s
	}
	n := rapid.IntRange(1, 12).Draw(rt, "nreqs")
	reqMethods := []string{"GET", "GET", "POST", "PUT", "DELETE", "HEAD", "OPTIONS", "PATCH", "TRACE", "FOO"}
	for i := 0; i < n; i++ {
		var q c03sReq
		var ps []string
		if rapid.IntRange(0, 9).Draw(rt, "derive") < 7 {
			r := flat[rapid.IntRange(0, len(flat)-1).Draw(rt, "from")]
			q.M = r.M
			if rapid.IntRange(0, 3).Draw(rt, "otherm") == 0 {
				q.M = rapid.SampledFrom(reqMethods).Draw(rt, "qm2")
			}
			if len(r.P) > 0 && r.P[0] == '/' {
				for _, sg := range c03eSegs(r.P) {
					if len(sg) > 0 && sg[0] == ':' {
						sg = rapid.SampledFrom([]string{"a", "b", "z", "v1", "A", ":x", "a b", "%41"}).Draw(rt, "subst")
						if sg == "%41" {
							ps = append(ps, "%2541") // the segment "%41" itself, escaped once
							continue
						}
					}
					if sg != "" {
						ps = append(ps, esc(sg))
					}
				}
			}
		} else {
			q.M = rapid.SampledFrom(reqMethods).Draw(rt, "qm")
			depth := rapid.IntRange(0, 4).Draw(rt, "qdepth")
			for j := 0; j < depth; j++ {
				ps = append(ps, esc(rapid.SampledFrom([]string{"a", "b", "c", "A", "v1", "v2", "a:b", "a b"}).Draw(rt, "qseg")))
			}
		}
		for _, sg := range ps {
			q.T += rapid.SampledFrom([]string{"/", "/", "/", "/", "//", "/./", "/q/../"}).Draw(rt, "sep")
			// some letters written as percent escapes: the path is what they decode to
			if rapid.IntRange(0, 5).Draw(rt, "pct") == 0 {
				sg = strings.NewReplacer("a", "%61", "b", "%62", "A", "%41", ":", "%3A").Replace(sg)
			}
			q.T += sg
		}
		if q.T == "" {
			q.T = rapid.SampledFrom([]string{"/", "//", "/.", "/a/.."}).Draw(rt, "root")
		} else if rapid.IntRange(0, 5).Draw(rt, "trail") == 0 {
			q.T += "/"
		}
		switch rapid.IntRange(0, 9).Draw(rt, "form") {
		case 0:
			q.T += "?x=1&y=/a/b"
		case 1:
			q.T += "?"
		case 2:
			q.T = "http://c03s.example" + q.T // absolute-form target (a proxy-style client)
		case 3:
			if q.M == "OPTIONS" && rapid.Bool().Draw(rt, "star") {
				q.T = "*"
			}
		}
		c.Reqs = append(c.Reqs, q)
	}
	return c
}

func TestVerif_C03_server(t *testing.T) {
	kit.Run(t, "C03", "server-wire", kit.Opts{Quick: 600, Thorough: 9600}, c03sGen, c03sInterp)
}
