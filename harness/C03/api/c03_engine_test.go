package api

// C03 (engine level) — route groups registered on the REST engine reach the router with
// the same accept/reject verdicts and the same dispatch as the statement demands; the
// engine's not-found wrapper keeps 404. Harness injected by /verif; see DESIGN.md "C03".

import (
	"fmt"
	"net/http"
	"net/http/httptest"
	"net/url"
	"os"
	"path"
	"path/filepath"
	"regexp"
	"sort"
	"strings"
	"testing"
	"time"

	"github.com/golang-jwt/jwt/v4"
	"github.com/gotid/god/api/chain"
	"github.com/gotid/god/api/pathvar"
	"github.com/gotid/god/api/router"
	"github.com/gotid/god/lib/logx"
	"pgregory.net/rapid"
	"verif.local/kit"
)

func init() { logx.Disable() }

const c03eSecret = "c03e-secret-0123456789"

// c03eDict: a fuzzing dictionary taken from the tree under test — string literals and
// identifiers of the packages between the router and the handler (path variables, auth
// handler, request parsing). JWT claims are copied into the request context under their
// names by the auth middleware; a claim named like something the code itself uses must not
// disturb dispatch or the binding of path variables.
var c03eDict = func() []string {
	root := os.Getenv("VERIF_REPO")
	if root == "" {
		root = "/repo"
	}
	set := map[string]bool{"sub": true, "aud": true, "uid": true, "x": true, "y": true}
	lit := regexp.MustCompile(`"([A-Za-z][A-Za-z0-9_.:-]{1,30})"`)
	ident := regexp.MustCompile(`\b([A-Za-z][A-Za-z0-9]{3,24})\b`)
	for _, dir := range []string{"api/pathvar", "api/handler", "api/httpx", "api/internal/context", "api/router", "api/token"} {
		files, _ := filepath.Glob(filepath.Join(root, dir, "*.go"))
		for _, f := range files {
			if strings.HasSuffix(f, "_test.go") {
				continue
			}
			b, err := os.ReadFile(f)
			if err != nil {
				continue
			}
			for _, m := range lit.FindAllStringSubmatch(string(b), -1) {
				set[m[1]] = true
			}
			if dir == "api/pathvar" || dir == "api/internal/context" {
				for _, m := range ident.FindAllStringSubmatch(string(b), -1) {
					set[m[1]] = true
				}
			}
		}
	}
	for _, std := range []string{"exp", "iat", "nbf", "iss", "jti"} { // registered claims keep their meaning
		delete(set, std)
	}
	var out []string
	for k := range set {
		out = append(out, k)
	}
	sort.Strings(out)
	return out
}()

func c03eToken(claims []string) string {
	mc := jwt.MapClaims{"exp": time.Now().Add(time.Hour).Unix(), "iat": time.Now().Add(-time.Minute).Unix()}
	for i, n := range claims {
		mc[n] = fmt.Sprintf("claim-%d", i)
	}
	tok, err := jwt.NewWithClaims(jwt.SigningMethodHS256, mc).SignedString([]byte(c03eSecret))
	if err != nil {
		panic(err)
	}
	return tok
}

type c03eRoute struct {
	M string `json:"m"`
	P string `json:"p"`
}

type c03eCase struct {
	Groups [][]c03eRoute `json:"groups"`
	// Prefix[g]: WithPrefix options applied, in order, when group g is added through
	// Server.AddRoutes; Share[g] >= 0: group g re-uses the []Route slice of that earlier group.
	Prefix [][]string `json:"prefix,omitempty"`
	Share  []int      `json:"share,omitempty"`
	Custom bool       `json:"custom,omitempty"` // custom not-found handler behind the engine wrapper
	Silent bool       `json:"silent,omitempty"` // ... which writes neither a status nor a body: the wrapper must answer 404
	// Opt[g]: further route options of group g; Cfg: engine configuration and server options.
	// All of them are transparent to routing: the statement's verdicts must not change.
	Opt []c03eOpt `json:"opt,omitempty"`
	Cfg c03eCfg   `json:"cfg,omitempty"`
	// Jwt[g]: group g is added WithJwt; every request then carries a valid token whose custom
	// claims are named Claims (drawn from c03eDict, the tree's own identifiers and literals)
	Jwt    []bool      `json:"jwt,omitempty"`
	Claims []string    `json:"claims,omitempty"`
	Reqs   []c03eRoute `json:"reqs"`
}

type c03eOpt struct {
	T   int64 `json:"t,omitempty"`   // WithTimeout (ms; generated far beyond anything a loaded machine needs)
	B   int64 `json:"b,omitempty"`   // WithMaxBytes (requests carry no body)
	Pri bool  `json:"pri,omitempty"` // WithPriority
	Sig int   `json:"sig,omitempty"` // 1: WithSignature, lax, no keys (no verifier); 2: strict without keys (outcome of bindRoutes unspecified)
	JT  int   `json:"jt,omitempty"`  // on a Jwt group: 1 = WithJwtTransition(secret, older), 2 = WithJwtTransition(newer, secret)
	Mw  int   `json:"mw,omitempty"`  // 1, 2: WithMiddlewares with that many pass-through middlewares; 3: WithMiddleware
}

type c03eCfg struct {
	Name     string `json:"name,omitempty"`
	Verbose  bool   `json:"verbose,omitempty"`
	Timeout  int64  `json:"timeout,omitempty"`
	MaxConns int    `json:"maxconns,omitempty"`
	MaxBytes int64  `json:"maxbytes,omitempty"`
	Cpu      int64  `json:"cpu,omitempty"`   // CpuThreshold > 0: adaptive shedders are built (sequential requests are never shed: nothing is in flight at Allow)
	Chain    bool   `json:"chain,omitempty"` // WithChain(custom pass-through chain) replaces the default chain
	Use      int    `json:"use,omitempty"`   // Server.Use with that many pass-through middlewares
	Cors     int    `json:"cors,omitempty"`  // 1: WithCors(), 2: WithCors(origin): the router is wrapped; OPTIONS and the not-allowed answer belong to cors
}

const (
	c03eOlder = "c03e-older-secret-987654"
	c03eNewer = "c03e-newer-secret-456789"
)

var c03eValid = map[string]bool{"DELETE": true, "GET": true, "HEAD": true, "OPTIONS": true, "PATCH": true, "POST": true, "PUT": true}

// c03eClean: the cleaned form of a rooted path, written from the statement ('//', '/./',
// trailing '/', '..' removed); deliberately not path.Clean, which the code under test calls.
func c03eClean(p string) string {
	var st []string
	for _, s := range strings.Split(p, "/") {
		switch s {
		case "", ".":
		case "..":
			if len(st) > 0 {
				st = st[:len(st)-1]
			}
		default:
			st = append(st, s)
		}
	}
	return "/" + strings.Join(st, "/")
}

// c03eJoin: a group prefix put in front of a route path (WithPrefix); a prefix without a
// leading '/' yields an unrooted path (which registration must reject).
func c03eJoin(prefix, p string) string {
	if len(prefix) > 0 && prefix[0] == '/' {
		return c03eClean(prefix + "/" + p)
	}
	return prefix + "/" + p
}

func c03eSegs(p string) []string { return strings.Split(c03eClean(p)[1:], "/") }

func c03eMatch(pat, req []string) (map[string][]string, bool) {
	if len(pat) != len(req) {
		return nil, false
	}
	vars := map[string][]string{}
	for i := range pat {
		if len(pat[i]) > 0 && pat[i][0] == ':' {
			vars[pat[i][1:]] = append(vars[pat[i][1:]], req[i])
		} else if pat[i] != req[i] {
			return nil, false
		}
	}
	return vars, true
}

func c03eInterp(c c03eCase) (v kit.Verdict) {
	defer func() {
		if r := recover(); r != nil {
			v.Fail = fmt.Sprintf("panic: %v", r)
		}
	}()
	classes := map[string]bool{}
	cfg := Config{Host: "c03e", Verbose: c.Cfg.Verbose, Timeout: c.Cfg.Timeout, MaxConns: c.Cfg.MaxConns, MaxBytes: c.Cfg.MaxBytes, CpuThreshold: c.Cfg.Cpu}
	cfg.Name = c.Cfg.Name
	srv := &Server{ng: newEngine(cfg), router: router.NewRouter()}
	ng := srv.ng
	var slices [][]Route
	var ran []int
	var ranVars map[string]string
	var mwRan []string // tags of the route-level middlewares (part of the registered handlers) that ran
	pass := func(tag string) Middleware {
		return func(next http.HandlerFunc) http.HandlerFunc {
			return func(w http.ResponseWriter, q *http.Request) {
				if tag != "" {
					mwRan = append(mwRan, tag)
				}
				next(w, q)
			}
		}
	}
	if c.Cfg != (c03eCfg{}) {
		classes["engine-config"] = true
	}
	// server options in the order NewServer applies them: its own WithNotFoundHandler(nil) first
	WithNotFoundHandler(nil)(srv)
	switch c.Cfg.Cors {
	case 1:
		WithCors()(srv)
		classes["cors-router"] = true
	case 2:
		WithCors("http://c03e.example")(srv)
		classes["cors-router"] = true
	}
	if c.Cfg.Chain {
		WithChain(chain.New(func(next http.Handler) http.Handler {
			return http.HandlerFunc(func(w http.ResponseWriter, q *http.Request) { next.ServeHTTP(w, q) })
		}))(srv)
		classes["custom-chain"] = true
	}
	if c.Custom {
		WithNotFoundHandler(http.HandlerFunc(func(w http.ResponseWriter, q *http.Request) {
			ran = append(ran, -1)
			if !c.Silent {
				w.WriteHeader(288) // a custom not-found handler that sets a status decides it itself
			}
		}))(srv)
	}
	for i := 0; i < c.Cfg.Use; i++ {
		srv.Use(pass("")) // global middlewares: pass-through, not judged
		classes["global-middleware"] = true
	}
	sigStrict := false
	mwOwner := map[string]int{} // route-middleware tag -> group that owns it
	ownerOf := map[int]int{}    // handler id -> group whose []Route created it
	id := 0
	type reg struct {
		id   int
		segs []string
		lit  bool
	}
	table := map[string][]reg{}
	seen := map[string]bool{}
	wantErr := false
	var all []c03eRoute
	var groupIDs [][]int
	for gi, g := range c.Groups {
		var rs []Route
		var myIDs []int
		var prefixes []string
		if gi < len(c.Prefix) {
			prefixes = c.Prefix[gi]
		}
		shared := -1
		if gi < len(c.Share) && c.Share[gi] >= 0 && c.Share[gi] < gi {
			shared = c.Share[gi]
			g = c.Groups[shared]
			classes["shared-route-slice"] = true
		}
		for ri, r := range g {
			if shared < 0 {
				_ = ri
			}
			for _, pf := range prefixes {
				r.P = c03eJoin(pf, r.P)
			}
			my := id
			if shared >= 0 {
				my = groupIDs[shared][ri]
			} else {
				id++
				ownerOf[my] = gi
				raw := c.Groups[gi][ri]
				rs = append(rs, Route{Method: raw.M, Path: raw.P, Handler: func(w http.ResponseWriter, q *http.Request) {
					ran = append(ran, my)
					ranVars = pathvar.Vars(q)
					w.WriteHeader(299)
				}})
			}
			for len(all) <= my {
				all = append(all, r)
			}
			myIDs = append(myIDs, my)
			bad := !c03eValid[r.M] || len(r.P) == 0 || r.P[0] != '/'
			if !bad {
				k := r.M + " " + c03eClean(r.P)
				if seen[k] {
					bad = true
					classes["duplicate"] = true
					if gi > 0 {
						classes["duplicate-across-groups"] = true
					}
				}
				seen[k] = true
			}
			if bad {
				if !wantErr && (gi < len(c.Groups)-1 || ri < len(g)-1) {
					classes["rejected-route-not-last"] = true
					v.NonTrivial = true
				}
				wantErr = true
			} else if !wantErr {
				lit := true
				for _, s := range c03eSegs(r.P) {
					if len(s) > 0 && s[0] == ':' {
						lit = false
					}
				}
				table[r.M] = append(table[r.M], reg{id: my, segs: c03eSegs(r.P), lit: lit})
			}
		}
		var o c03eOpt
		if gi < len(c.Opt) {
			o = c.Opt[gi]
		}
		if shared >= 0 {
			rs = slices[shared]
		} else if o.Mw > 0 {
			// route-level middlewares: the wrapped handler IS the handler registered for the pattern
			classes["route-middlewares"] = true
			switch o.Mw {
			case 1, 2:
				var ms []Middleware
				for k := 0; k < o.Mw; k++ {
					tag := fmt.Sprintf("g%dm%d", gi, k)
					mwOwner[tag] = gi
					ms = append(ms, pass(tag))
				}
				rs = WithMiddlewares(ms, rs...)
			default:
				tag := fmt.Sprintf("g%dm", gi)
				mwOwner[tag] = gi
				rs = WithMiddleware(pass(tag), rs...)
			}
		}
		slices = append(slices, rs)
		groupIDs = append(groupIDs, myIDs)
		var opts []RouteOption
		for _, pf := range prefixes {
			opts = append(opts, WithPrefix(pf))
		}
		if gi < len(c.Jwt) && c.Jwt[gi] {
			switch o.JT {
			case 1:
				opts = append(opts, WithJwtTransition(c03eSecret, c03eOlder))
				classes["jwt-transition"] = true
			case 2:
				opts = append(opts, WithJwtTransition(c03eNewer, c03eSecret))
				classes["jwt-transition"] = true
			default:
				opts = append(opts, WithJwt(c03eSecret))
			}
			classes["jwt-group"] = true
		}
		if o.T > 0 {
			opts = append(opts, WithTimeout(time.Duration(o.T)*time.Millisecond))
		}
		if o.B > 0 {
			opts = append(opts, WithMaxBytes(o.B))
		}
		if o.Pri {
			opts = append(opts, WithPriority())
		}
		switch o.Sig {
		case 1:
			opts = append(opts, WithSignature(SignatureConfig{Expire: time.Hour}))
		case 2:
			opts = append(opts, WithSignature(SignatureConfig{Strict: true, Expire: time.Hour}))
			sigStrict = true
		}
		if o.T > 0 || o.B > 0 || o.Pri || o.Sig > 0 {
			classes["route-options"] = true
		}
		srv.AddRoutes(rs, opts...)
	}
	rt := srv.router
	err := ng.bindRoutes(rt)
	if sigStrict && !wantErr {
		// strict signature checking without keys: whether binding is refused is C04's business,
		// the routing statement does not determine it. Run for panics only.
		v.Excluded = true
		v.Classes = []string{"signature-misconfigured-unspecified"}
		return v
	}
	if wantErr != (err != nil) {
		return v.Failf("bindRoutes over groups %v: error=%v, reference says a registration must be rejected=%v", c.Groups, err, wantErr)
	}
	if err != nil {
		v.Classes = []string{"rejected"}
		for k := range classes {
			v.Classes = append(v.Classes, k)
		}
		sort.Strings(v.Classes)
		return v
	}
	hdr := http.Header{}
	for _, j := range c.Jwt {
		if j {
			hdr.Set("Authorization", "Bearer "+c03eToken(c.Claims))
			if len(c.Claims) > 0 {
				classes["jwt-custom-claims"] = true
			}
			break
		}
	}
	for _, q := range c.Reqs {
		ran, ranVars, mwRan = nil, nil, nil
		rec := httptest.NewRecorder()
		rt.ServeHTTP(rec, &http.Request{Method: q.M, URL: &url.URL{Path: q.P}, Header: hdr.Clone(), RemoteAddr: "127.0.0.1:1", Body: http.NoBody,
			Proto: "HTTP/1.1", ProtoMajor: 1, ProtoMinor: 1, Host: "c03e", RequestURI: q.P})
		rsegs := c03eSegs(q.P)
		what := fmt.Sprintf("request %s %q over engine groups %v prefix %v opt %+v cfg %+v", q.M, q.P, c.Groups, c.Prefix, c.Opt, c.Cfg)
		if c.Cfg.Cors > 0 && q.M == http.MethodOptions {
			classes["cors-preflight-unspecified"] = true // answered by the cors layer in front of the router
			continue
		}
		matches := map[int][]map[string][]string{} // handler id -> variable bindings of its matching registrations
		literal := -1
		for _, g := range table[q.M] {
			if vars, ok := c03eMatch(g.segs, rsegs); ok {
				matches[g.id] = append(matches[g.id], vars)
				if g.lit {
					literal = g.id
				}
			}
		}
		if len(matches) > 0 {
			if len(ran) != 1 || ran[0] < 0 {
				return v.Failf("%s: a registered pattern matches but ran=%v status=%d", what, ran, rec.Code)
			}
			cands, ok := matches[ran[0]]
			if !ok {
				return v.Failf("%s: handler of route #%d %v ran, which does not match", what, ran[0], all[ran[0]])
			}
			if literal >= 0 && ran[0] != literal {
				return v.Failf("%s: all-literal route #%d matches but #%d ran", what, literal, ran[0])
			}
			if rec.Code != 299 {
				return v.Failf("%s: handler's status 299 became %d", what, rec.Code)
			}
			good := false
			for _, vars := range cands {
				if len(vars) != len(ranVars) {
					continue
				}
				all := true
				for n, vals := range vars {
					hit := false
					for _, x := range vals {
						if got, present := ranVars[n]; present && got == x {
							hit = true
						}
					}
					all = all && hit
				}
				good = good || all
			}
			if !good {
				return v.Failf("%s: bound vars %v, reference allows %v", what, ranVars, cands)
			}
			// the route-level middlewares are part of the handler registered for the pattern:
			// exactly those of the group that built the handler ran, each once
			seenTag := map[string]bool{}
			for _, tag := range mwRan {
				if mwOwner[tag] != ownerOf[ran[0]] || seenTag[tag] {
					return v.Failf("%s: handler #%d (built by group %d) ran with route middlewares %v", what, ran[0], ownerOf[ran[0]], mwRan)
				}
				seenTag[tag] = true
			}
			for tag, g := range mwOwner {
				if g == ownerOf[ran[0]] && !seenTag[tag] {
					return v.Failf("%s: handler #%d ran without its route middleware %s (ran: %v)", what, ran[0], tag, mwRan)
				}
			}
			classes["dispatched"] = true
			continue
		}
		if len(mwRan) > 0 {
			return v.Failf("%s: no registered pattern matches but route middlewares %v (part of registered handlers) ran", what, mwRan)
		}
		allowed := map[string]bool{}
		for m, gs := range table {
			if m == q.M {
				continue
			}
			for _, g := range gs {
				if _, ok := c03eMatch(g.segs, rsegs); ok {
					allowed[m] = true
				}
			}
		}
		if len(allowed) > 0 {
			classes["405"] = true
			if c.Cfg.Cors > 0 { // WithCors installs its own not-allowed handler, which decides the answer
				if len(ran) != 0 {
					return v.Failf("%s: no pattern of the method matches but ran=%v", what, ran)
				}
				continue
			}
			if len(ran) != 0 || rec.Code != http.StatusMethodNotAllowed {
				return v.Failf("%s: expected 405, got %d ran=%v", what, rec.Code, ran)
			}
			got := map[string]bool{}
			for _, m := range strings.Split(rec.Result().Header.Get("Allow"), ",") {
				if m = strings.TrimSpace(m); m != "" {
					got[m] = true
				}
			}
			if fmt.Sprint(c03eKeys(got)) != fmt.Sprint(c03eKeys(allowed)) {
				return v.Failf("%s: Allow %q, reference %v", what, rec.Result().Header.Get("Allow"), c03eKeys(allowed))
			}
			continue
		}
		classes["404"] = true
		if c.Custom {
			want := 288
			if c.Silent {
				want = http.StatusNotFound // the handler set nothing: the answer is 404
				classes["silent-custom-notfound"] = true
			}
			if len(ran) != 1 || ran[0] != -1 || rec.Code != want {
				return v.Failf("%s: expected the custom not-found handler (status %d), got %d ran=%v", what, want, rec.Code, ran)
			}
			continue
		}
		if rec.Code != http.StatusNotFound || len(ran) != 0 {
			return v.Failf("%s: expected 404 through the engine's not-found wrapper, got %d (ran=%v)", what, rec.Code, ran)
		}
	}
	if len(c.Groups) >= 2 && classes["dispatched"] {
		v.NonTrivial = true
	}
	for k := range classes {
		v.Classes = append(v.Classes, k)
	}
	sort.Strings(v.Classes)
	return v
}

func c03eKeys(m map[string]bool) []string {
	var k []string
	for x := range m {
		k = append(k, x)
	}
	sort.Strings(k)
	return k
}

func c03eGen(rt *rapid.T) c03eCase {
	var c c03eCase
	methods := []string{"GET", "GET", "POST", "PUT", "DELETE"}
	segs := []string{"a", "b", "c", "d", "e", ":x", ":y"}
	var flat []c03eRoute
	ng := rapid.IntRange(1, 3).Draw(rt, "groups")
	for g := 0; g < ng; g++ {
		var rs []c03eRoute
		nr := rapid.IntRange(1, 4).Draw(rt, "routes")
		for i := 0; i < nr; i++ {
			var r c03eRoute
			r.M = rapid.SampledFrom(methods).Draw(rt, "m")
			switch k := rapid.IntRange(0, 59).Draw(rt, "kind"); {
			case k == 29:
				r.M = rapid.SampledFrom([]string{"TRACE", "get", ""}).Draw(rt, "badm")
				r.P = "/a"
			case k == 31:
				r.P = rapid.SampledFrom([]string{"", "a/b", ":x"}).Draw(rt, "badp")
			case (k == 33 || k == 35 || k == 37) && len(flat) > 0:
				d := flat[rapid.IntRange(0, len(flat)-1).Draw(rt, "dup")]
				r = d
				if rapid.Bool().Draw(rt, "respell") {
					r.P += "/"
				}
			default:
				depth := rapid.SampledFrom([]int{0, 1, 2, 2, 3, 3, 3}).Draw(rt, "depth")
				r.P = "/"
				for j := 0; j < depth; j++ {
					if j > 0 {
						r.P += "/"
					}
					r.P += rapid.SampledFrom(segs).Draw(rt, "seg")
				}
			}
			rs = append(rs, r)
			flat = append(flat, r)
		}
		c.Groups = append(c.Groups, rs)
	}
	for g := 0; g < ng; g++ {
		var pf []string
		np := rapid.SampledFrom([]int{0, 0, 1, 1, 2}).Draw(rt, "nprefix")
		for i := 0; i < np; i++ {
			pf = append(pf, rapid.SampledFrom([]string{"/v1", "/v2", "/a", "/:x", "/v1/", "v3"}).Draw(rt, "prefix"))
		}
		c.Prefix = append(c.Prefix, pf)
		sh := -1
		if g > 0 && rapid.IntRange(0, 3).Draw(rt, "share") == 0 {
			sh = rapid.IntRange(0, g-1).Draw(rt, "sharewith")
			for sh >= 0 && c.Share[sh] >= 0 {
				sh = c.Share[sh]
			}
		}
		c.Share = append(c.Share, sh)
		if sh >= 0 { // the same route list mounted again: under a prefix of its own
			c.Prefix[g] = append([]string{fmt.Sprintf("/s%d", g)}, pf...)
			if len(c.Prefix[g]) > 2 {
				c.Prefix[g] = c.Prefix[g][:2]
			}
		}
	}
	c.Custom = rapid.Bool().Draw(rt, "custom")
	// effective patterns (prefixes applied), to derive requests that are likely to match
	var eff []c03eRoute
	for g := range c.Groups {
		src := c.Groups[g]
		if c.Share[g] >= 0 {
			src = c.Groups[c.Share[g]]
		}
		for _, r := range src {
			for _, pf := range c.Prefix[g] {
				r.P = path.Join(pf, r.P)
			}
			if len(r.P) > 0 && r.P[0] == '/' {
				eff = append(eff, r)
			}
		}
	}
	if rapid.IntRange(0, 2).Draw(rt, "jwt") == 0 {
		for g := 0; g < ng; g++ {
			c.Jwt = append(c.Jwt, rapid.IntRange(0, 2).Draw(rt, "jwtg") > 0)
		}
		nc := rapid.IntRange(0, 4).Draw(rt, "nclaims")
		for i := 0; i < nc; i++ {
			c.Claims = append(c.Claims, rapid.SampledFrom(c03eDict).Draw(rt, "claim"))
		}
	}
	c.Silent = c.Custom && rapid.Bool().Draw(rt, "silent")
	// options and configuration that must be transparent to routing (a third of the cases)
	if rapid.IntRange(0, 2).Draw(rt, "optioned") == 0 {
		big := []int64{0, 600000, 3600000} // ms: never reached, also on a stalled machine
		for g := 0; g < ng; g++ {
			var o c03eOpt
			o.T = rapid.SampledFrom(big).Draw(rt, "ot")
			o.B = rapid.SampledFrom([]int64{0, 0, 1, 1 << 20}).Draw(rt, "ob")
			o.Pri = rapid.Bool().Draw(rt, "opri")
			o.Sig = rapid.SampledFrom([]int{0, 0, 0, 1, 1, 2}).Draw(rt, "osig")
			o.JT = rapid.IntRange(0, 2).Draw(rt, "ojt")
			o.Mw = rapid.SampledFrom([]int{0, 0, 1, 2, 3}).Draw(rt, "omw")
			c.Opt = append(c.Opt, o)
		}
		c.Cfg.Name = rapid.SampledFrom([]string{"", "c03e-svc"}).Draw(rt, "cname")
		c.Cfg.Verbose = rapid.Bool().Draw(rt, "cverbose")
		c.Cfg.Timeout = rapid.SampledFrom(big).Draw(rt, "ctimeout")
		c.Cfg.MaxConns = rapid.SampledFrom([]int{0, 1, 10000}).Draw(rt, "cmaxconns")
		c.Cfg.MaxBytes = rapid.SampledFrom([]int64{0, 1, 1 << 20}).Draw(rt, "cmaxbytes")
		c.Cfg.Cpu = rapid.SampledFrom([]int64{0, 0, 500, 900, 1000}).Draw(rt, "ccpu")
		c.Cfg.Chain = rapid.IntRange(0, 3).Draw(rt, "cchain") == 0
		c.Cfg.Use = rapid.SampledFrom([]int{0, 0, 1, 2}).Draw(rt, "cuse")
		c.Cfg.Cors = rapid.SampledFrom([]int{0, 0, 0, 1, 2}).Draw(rt, "ccors")
	}
	n := rapid.IntRange(1, 10).Draw(rt, "nreqs")
	for i := 0; i < n; i++ {
		var q c03eRoute
		if len(eff) > 0 && rapid.IntRange(0, 9).Draw(rt, "derive") < 6 {
			r := eff[rapid.IntRange(0, len(eff)-1).Draw(rt, "from")]
			q.M = r.M
			if rapid.IntRange(0, 5).Draw(rt, "otherm") == 0 {
				q.M = rapid.SampledFrom([]string{"GET", "POST", "PUT", "DELETE", "PATCH", "OPTIONS"}).Draw(rt, "qm2")
			}
			for _, sg := range c03eSegs(r.P) {
				if len(sg) > 0 && sg[0] == ':' {
					sg = rapid.SampledFrom([]string{"a", "b", "z", "v1"}).Draw(rt, "subst")
				}
				if sg != "" {
					q.P += rapid.SampledFrom([]string{"/", "/", "/", "//", "/./"}).Draw(rt, "dsep") + sg
				}
			}
			if q.P == "" {
				q.P = "/"
			}
			c.Reqs = append(c.Reqs, q)
			continue
		}
		q.M = rapid.SampledFrom([]string{"GET", "GET", "POST", "PUT", "DELETE", "PATCH"}).Draw(rt, "qm")
		depth := rapid.IntRange(0, 4).Draw(rt, "qdepth")
		q.P = ""
		for j := 0; j < depth; j++ {
			q.P += rapid.SampledFrom([]string{"/", "/", "//", "/./"}).Draw(rt, "qsep") + rapid.SampledFrom([]string{"a", "b", "c", "d", "e", "v1", "v2", "s1", "s2"}).Draw(rt, "qseg")
		}
		if q.P == "" {
			q.P = "/"
		}
		c.Reqs = append(c.Reqs, q)
	}
	return c
}

func TestVerif_C03_engine(t *testing.T) {
	kit.Run(t, "C03", "engine-groups", kit.Opts{Quick: 4000, Thorough: 160000}, c03eGen, c03eInterp)
}
