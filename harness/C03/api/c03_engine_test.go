package api

// C03 (engine level) — route groups registered on the REST engine reach the router with
// the same accept/reject verdicts and the same dispatch as the statement demands; the
// engine's not-found wrapper keeps 404. Harness injected by /verif; see DESIGN.md "C03".

import (
	"fmt"
	"net/http"
	"net/http/httptest"
	"net/url"
	"os"
	"path"
	"path/filepath"
	"regexp"
	"sort"
	"strings"
	"testing"
	"time"

	"github.com/golang-jwt/jwt/v4"
	"github.com/gotid/god/api/pathvar"
	"github.com/gotid/god/api/router"
	"github.com/gotid/god/lib/logx"
	"pgregory.net/rapid"
	"verif.local/kit"
)

func init() { logx.Disable() }

const c03eSecret = "c03e-secret-0123456789"

// c03eDict: a fuzzing dictionary taken from the tree under test — string literals and
// identifiers of the packages between the router and the handler (path variables, auth
// handler, request parsing). JWT claims are copied into the request context under their
// names by the auth middleware; a claim named like something the code itself uses must not
// disturb dispatch or the binding of path variables.
var c03eDict = func() []string {
	root := os.Getenv("VERIF_REPO")
	if root == "" {
		root = "/repo"
	}
	set := map[string]bool{"sub": true, "aud": true, "uid": true, "x": true, "y": true}
	lit := regexp.MustCompile(`"([A-Za-z][A-Za-z0-9_.:-]{1,30})"`)
	ident := regexp.MustCompile(`\b([A-Za-z][A-Za-z0-9]{3,24})\b`)
	for _, dir := range []string{"api/pathvar", "api/handler", "api/httpx", "api/internal/context", "api/router", "api/token"} {
		files, _ := filepath.Glob(filepath.Join(root, dir, "*.go"))
		for _, f := range files {
			if strings.HasSuffix(f, "_test.go") {
				continue
			}
			b, err := os.ReadFile(f)
			if err != nil {
				continue
			}
			for _, m := range lit.FindAllStringSubmatch(string(b), -1) {
				set[m[1]] = true
			}
			if dir == "api/pathvar" || dir == "api/internal/context" {
				for _, m := range ident.FindAllStringSubmatch(string(b), -1) {
					set[m[1]] = true
				}
			}
		}
	}
	for _, std := range []string{"exp", "iat", "nbf", "iss", "jti"} { // registered claims keep their meaning
		delete(set, std)
	}
	var out []string
	for k := range set {
		out = append(out, k)
	}
	sort.Strings(out)
	return out
}()

func c03eToken(claims []string) string {
	mc := jwt.MapClaims{"exp": time.Now().Add(time.Hour).Unix(), "iat": time.Now().Add(-time.Minute).Unix()}
	for i, n := range claims {
		mc[n] = fmt.Sprintf("claim-%d", i)
	}
	tok, err := jwt.NewWithClaims(jwt.SigningMethodHS256, mc).SignedString([]byte(c03eSecret))
	if err != nil {
		panic(err)
	}
	return tok
}

type c03eRoute struct {
	M string `json:"m"`
	P string `json:"p"`
}

type c03eCase struct {
	Groups [][]c03eRoute `json:"groups"`
	// Prefix[g]: WithPrefix options applied, in order, when group g is added through
	// Server.AddRoutes; Share[g] >= 0: group g re-uses the []Route slice of that earlier group.
	Prefix [][]string `json:"prefix,omitempty"`
	Share  []int      `json:"share,omitempty"`
	Custom bool          `json:"custom,omitempty"` // custom not-found handler behind the engine wrapper
	// Jwt[g]: group g is added WithJwt; every request then carries a valid token whose custom
	// claims are named Claims (drawn from c03eDict, the tree's own identifiers and literals)
	Jwt    []bool   `json:"jwt,omitempty"`
	Claims []string `json:"claims,omitempty"`
	Reqs   []c03eRoute   `json:"reqs"`
}

var c03eValid = map[string]bool{"DELETE": true, "GET": true, "HEAD": true, "OPTIONS": true, "PATCH": true, "POST": true, "PUT": true}

func c03eSegs(p string) []string { return strings.Split(path.Clean(p)[1:], "/") }

func c03eMatch(pat, req []string) (map[string][]string, bool) {
	if len(pat) != len(req) {
		return nil, false
	}
	vars := map[string][]string{}
	for i := range pat {
		if len(pat[i]) > 0 && pat[i][0] == ':' {
			vars[pat[i][1:]] = append(vars[pat[i][1:]], req[i])
		} else if pat[i] != req[i] {
			return nil, false
		}
	}
	return vars, true
}

func c03eInterp(c c03eCase) (v kit.Verdict) {
	defer func() {
		if r := recover(); r != nil {
			v.Fail = fmt.Sprintf("panic: %v", r)
		}
	}()
	classes := map[string]bool{}
	srv := &Server{ng: newEngine(Config{Host: "c03e"}), router: router.NewRouter()}
	ng := srv.ng
	var slices [][]Route
	var ran []int
	var ranVars map[string]string
	id := 0
	type reg struct {
		id   int
		segs []string
		lit  bool
	}
	table := map[string][]reg{}
	seen := map[string]bool{}
	wantErr := false
	var all []c03eRoute
	var groupIDs [][]int
	for gi, g := range c.Groups {
		var rs []Route
		var myIDs []int
		var prefixes []string
		if gi < len(c.Prefix) {
			prefixes = c.Prefix[gi]
		}
		shared := -1
		if gi < len(c.Share) && c.Share[gi] >= 0 && c.Share[gi] < gi {
			shared = c.Share[gi]
			g = c.Groups[shared]
			classes["shared-route-slice"] = true
		}
		for ri, r := range g {
			if shared < 0 {
				_ = ri
			}
			for _, pf := range prefixes {
				r.P = path.Join(pf, r.P)
			}
			my := id
			if shared >= 0 {
				my = groupIDs[shared][ri]
			} else {
				id++
				raw := c.Groups[gi][ri]
				rs = append(rs, Route{Method: raw.M, Path: raw.P, Handler: func(w http.ResponseWriter, q *http.Request) {
					ran = append(ran, my)
					ranVars = pathvar.Vars(q)
					w.WriteHeader(299)
				}})
			}
			for len(all) <= my {
				all = append(all, r)
			}
			myIDs = append(myIDs, my)
			bad := !c03eValid[r.M] || len(r.P) == 0 || r.P[0] != '/'
			if !bad {
				k := r.M + " " + path.Clean(r.P)
				if seen[k] {
					bad = true
					classes["duplicate"] = true
					if gi > 0 {
						classes["duplicate-across-groups"] = true
					}
				}
				seen[k] = true
			}
			if bad {
				if !wantErr && (gi < len(c.Groups)-1 || ri < len(g)-1) {
					classes["rejected-route-not-last"] = true
					v.NonTrivial = true
				}
				wantErr = true
			} else if !wantErr {
				lit := true
				for _, s := range c03eSegs(r.P) {
					if len(s) > 0 && s[0] == ':' {
						lit = false
					}
				}
				table[r.M] = append(table[r.M], reg{id: my, segs: c03eSegs(r.P), lit: lit})
			}
		}
		if shared >= 0 {
			rs = slices[shared]
		}
		slices = append(slices, rs)
		groupIDs = append(groupIDs, myIDs)
		var opts []RouteOption
		for _, pf := range prefixes {
			opts = append(opts, WithPrefix(pf))
		}
		if gi < len(c.Jwt) && c.Jwt[gi] {
			opts = append(opts, WithJwt(c03eSecret))
			classes["jwt-group"] = true
		}
		srv.AddRoutes(rs, opts...)
	}
	rt := srv.router
	if c.Custom {
		rt.SetNotFoundHandler(ng.notFoundHandler(http.HandlerFunc(func(w http.ResponseWriter, q *http.Request) {
			ran = append(ran, -1)
			w.WriteHeader(288) // a custom not-found handler decides the status itself
		})))
	} else {
		rt.SetNotFoundHandler(ng.notFoundHandler(nil))
	}
	err := ng.bindRoutes(rt)
	if wantErr != (err != nil) {
		return v.Failf("bindRoutes over groups %v: error=%v, reference says a registration must be rejected=%v", c.Groups, err, wantErr)
	}
	if err != nil {
		v.Classes = []string{"rejected"}
		for k := range classes {
			v.Classes = append(v.Classes, k)
		}
		sort.Strings(v.Classes)
		return v
	}
	hdr := http.Header{}
	for _, j := range c.Jwt {
		if j {
			hdr.Set("Authorization", "Bearer "+c03eToken(c.Claims))
			if len(c.Claims) > 0 {
				classes["jwt-custom-claims"] = true
			}
			break
		}
	}
	for _, q := range c.Reqs {
		ran, ranVars = nil, nil
		rec := httptest.NewRecorder()
		rt.ServeHTTP(rec, &http.Request{Method: q.M, URL: &url.URL{Path: q.P}, Header: hdr.Clone(), RemoteAddr: "127.0.0.1:1"})
		rsegs := c03eSegs(q.P)
		what := fmt.Sprintf("request %s %q over engine groups %v", q.M, q.P, c.Groups)
		matches := map[int][]map[string][]string{} // handler id -> variable bindings of its matching registrations
		literal := -1
		for _, g := range table[q.M] {
			if vars, ok := c03eMatch(g.segs, rsegs); ok {
				matches[g.id] = append(matches[g.id], vars)
				if g.lit {
					literal = g.id
				}
			}
		}
		if len(matches) > 0 {
			if len(ran) != 1 || ran[0] < 0 {
				return v.Failf("%s: a registered pattern matches but ran=%v status=%d", what, ran, rec.Code)
			}
			cands, ok := matches[ran[0]]
			if !ok {
				return v.Failf("%s: handler of route #%d %v ran, which does not match", what, ran[0], all[ran[0]])
			}
			if literal >= 0 && ran[0] != literal {
				return v.Failf("%s: all-literal route #%d matches but #%d ran", what, literal, ran[0])
			}
			if rec.Code != 299 {
				return v.Failf("%s: handler's status 299 became %d", what, rec.Code)
			}
			good := false
			for _, vars := range cands {
				if len(vars) != len(ranVars) {
					continue
				}
				all := true
				for n, vals := range vars {
					hit := false
					for _, x := range vals {
						if got, present := ranVars[n]; present && got == x {
							hit = true
						}
					}
					all = all && hit
				}
				good = good || all
			}
			if !good {
				return v.Failf("%s: bound vars %v, reference allows %v", what, ranVars, cands)
			}
			classes["dispatched"] = true
			continue
		}
		allowed := map[string]bool{}
		for m, gs := range table {
			if m == q.M {
				continue
			}
			for _, g := range gs {
				if _, ok := c03eMatch(g.segs, rsegs); ok {
					allowed[m] = true
				}
			}
		}
		if len(allowed) > 0 {
			classes["405"] = true
			if len(ran) != 0 || rec.Code != http.StatusMethodNotAllowed {
				return v.Failf("%s: expected 405, got %d ran=%v", what, rec.Code, ran)
			}
			got := map[string]bool{}
			for _, m := range strings.Split(rec.Result().Header.Get("Allow"), ",") {
				if m = strings.TrimSpace(m); m != "" {
					got[m] = true
				}
			}
			if fmt.Sprint(c03eKeys(got)) != fmt.Sprint(c03eKeys(allowed)) {
				return v.Failf("%s: Allow %q, reference %v", what, rec.Result().Header.Get("Allow"), c03eKeys(allowed))
			}
			continue
		}
		classes["404"] = true
		if c.Custom {
			if len(ran) != 1 || ran[0] != -1 || rec.Code != 288 {
				return v.Failf("%s: expected the custom not-found handler (status 288), got %d ran=%v", what, rec.Code, ran)
			}
			continue
		}
		if rec.Code != http.StatusNotFound || len(ran) != 0 {
			return v.Failf("%s: expected 404 through the engine's not-found wrapper, got %d (ran=%v)", what, rec.Code, ran)
		}
	}
	if len(c.Groups) >= 2 && classes["dispatched"] {
		v.NonTrivial = true
	}
	for k := range classes {
		v.Classes = append(v.Classes, k)
	}
	sort.Strings(v.Classes)
	return v
}

func c03eKeys(m map[string]bool) []string {
	var k []string
	for x := range m {
		k = append(k, x)
	}
	sort.Strings(k)
	return k
}

func c03eGen(rt *rapid.T) c03eCase {
	var c c03eCase
	methods := []string{"GET", "GET", "POST", "PUT", "DELETE"}
	segs := []string{"a", "b", "c", "d", "e", ":x", ":y"}
	var flat []c03eRoute
	ng := rapid.IntRange(1, 3).Draw(rt, "groups")
	for g := 0; g < ng; g++ {
		var rs []c03eRoute
		nr := rapid.IntRange(1, 4).Draw(rt, "routes")
		for i := 0; i < nr; i++ {
			var r c03eRoute
			r.M = rapid.SampledFrom(methods).Draw(rt, "m")
			switch k := rapid.IntRange(0, 59).Draw(rt, "kind"); {
			case k == 29:
				r.M = rapid.SampledFrom([]string{"TRACE", "get", ""}).Draw(rt, "badm")
				r.P = "/a"
			case k == 31:
				r.P = rapid.SampledFrom([]string{"", "a/b", ":x"}).Draw(rt, "badp")
			case (k == 33 || k == 35 || k == 37) && len(flat) > 0:
				d := flat[rapid.IntRange(0, len(flat)-1).Draw(rt, "dup")]
				r = d
				if rapid.Bool().Draw(rt, "respell") {
					r.P += "/"
				}
			default:
				depth := rapid.SampledFrom([]int{0, 1, 2, 2, 3, 3, 3}).Draw(rt, "depth")
				r.P = "/"
				for j := 0; j < depth; j++ {
					if j > 0 {
						r.P += "/"
					}
					r.P += rapid.SampledFrom(segs).Draw(rt, "seg")
				}
			}
			rs = append(rs, r)
			flat = append(flat, r)
		}
		c.Groups = append(c.Groups, rs)
	}
	for g := 0; g < ng; g++ {
		var pf []string
		np := rapid.SampledFrom([]int{0, 0, 1, 1, 2}).Draw(rt, "nprefix")
		for i := 0; i < np; i++ {
			pf = append(pf, rapid.SampledFrom([]string{"/v1", "/v2", "/a", "/:x", "/v1/", "v3"}).Draw(rt, "prefix"))
		}
		c.Prefix = append(c.Prefix, pf)
		sh := -1
		if g > 0 && rapid.IntRange(0, 3).Draw(rt, "share") == 0 {
			sh = rapid.IntRange(0, g-1).Draw(rt, "sharewith")
			for sh >= 0 && c.Share[sh] >= 0 {
				sh = c.Share[sh]
			}
		}
		c.Share = append(c.Share, sh)
		if sh >= 0 { // the same route list mounted again: under a prefix of its own
			c.Prefix[g] = append([]string{fmt.Sprintf("/s%d", g)}, pf...)
			if len(c.Prefix[g]) > 2 {
				c.Prefix[g] = c.Prefix[g][:2]
			}
		}
	}
	c.Custom = rapid.Bool().Draw(rt, "custom")
	// effective patterns (prefixes applied), to derive requests that are likely to match
	var eff []c03eRoute
	for g := range c.Groups {
		src := c.Groups[g]
		if c.Share[g] >= 0 {
			src = c.Groups[c.Share[g]]
		}
		for _, r := range src {
			for _, pf := range c.Prefix[g] {
				r.P = path.Join(pf, r.P)
			}
			if len(r.P) > 0 && r.P[0] == '/' {
				eff = append(eff, r)
			}
		}
	}
	if rapid.IntRange(0, 2).Draw(rt, "jwt") == 0 {
		for g := 0; g < ng; g++ {
			c.Jwt = append(c.Jwt, rapid.IntRange(0, 2).Draw(rt, "jwtg") > 0)
		}
		nc := rapid.IntRange(0, 4).Draw(rt, "nclaims")
		for i := 0; i < nc; i++ {
			c.Claims = append(c.Claims, rapid.SampledFrom(c03eDict).Draw(rt, "claim"))
		}
	}
	n := rapid.IntRange(1, 10).Draw(rt, "nreqs")
	for i := 0; i < n; i++ {
		var q c03eRoute
		if len(eff) > 0 && rapid.IntRange(0, 9).Draw(rt, "derive") < 6 {
			r := eff[rapid.IntRange(0, len(eff)-1).Draw(rt, "from")]
			q.M = r.M
			if rapid.IntRange(0, 5).Draw(rt, "otherm") == 0 {
				q.M = rapid.SampledFrom([]string{"GET", "POST", "PUT", "DELETE", "PATCH"}).Draw(rt, "qm2")
			}
			for _, sg := range c03eSegs(r.P) {
				if len(sg) > 0 && sg[0] == ':' {
					sg = rapid.SampledFrom([]string{"a", "b", "z", "v1"}).Draw(rt, "subst")
				}
				if sg != "" {
					q.P += rapid.SampledFrom([]string{"/", "/", "/", "//", "/./"}).Draw(rt, "dsep") + sg
				}
			}
			if q.P == "" {
				q.P = "/"
			}
			c.Reqs = append(c.Reqs, q)
			continue
		}
		q.M = rapid.SampledFrom([]string{"GET", "GET", "POST", "PUT", "DELETE", "PATCH"}).Draw(rt, "qm")
		depth := rapid.IntRange(0, 4).Draw(rt, "qdepth")
		q.P = ""
		for j := 0; j < depth; j++ {
			q.P += rapid.SampledFrom([]string{"/", "/", "//", "/./"}).Draw(rt, "qsep") + rapid.SampledFrom([]string{"a", "b", "c", "d", "e", "v1", "v2", "s1", "s2"}).Draw(rt, "qseg")
		}
		if q.P == "" {
			q.P = "/"
		}
		c.Reqs = append(c.Reqs, q)
	}
	return c
}

func TestVerif_C03_engine(t *testing.T) {
	kit.Run(t, "C03", "engine-groups", kit.Opts{Quick: 4000, Thorough: 160000}, c03eGen, c03eInterp)
}
