package api

// C03 (engine level) — route groups registered on the REST engine reach the router with
// the same accept/reject verdicts and the same dispatch as the statement demands; the
// engine's not-found wrapper keeps 404. Harness injected by /verif; see DESIGN.md "C03".

import (
	"fmt"
	"net/http"
	"net/http/httptest"
	"net/url"
	"path"
	"sort"
	"strings"
	"testing"

	"github.com/gotid/god/api/pathvar"
	"github.com/gotid/god/api/router"
	"github.com/gotid/god/lib/logx"
	"pgregory.net/rapid"
	"verif.local/kit"
)

func init() { logx.Disable() }

type c03eRoute struct {
	M string `json:"m"`
	P string `json:"p"`
}

type c03eCase struct {
	Groups [][]c03eRoute `json:"groups"`
	// Prefix[g]: WithPrefix options applied, in order, when group g is added through
	// Server.AddRoutes; Share[g] >= 0: group g re-uses the []Route slice of that earlier group.
	Prefix [][]string `json:"prefix,omitempty"`
	Share  []int      `json:"share,omitempty"`
	Custom bool          `json:"custom,omitempty"` // custom not-found handler behind the engine wrapper
	Reqs   []c03eRoute   `json:"reqs"`
}

var c03eValid = map[string]bool{"DELETE": true, "GET": true, "HEAD": true, "OPTIONS": true, "PATCH": true, "POST": true, "PUT": true}

func c03eSegs(p string) []string { return strings.Split(path.Clean(p)[1:], "/") }

func c03eMatch(pat, req []string) (map[string][]string, bool) {
	if len(pat) != len(req) {
		return nil, false
	}
	vars := map[string][]string{}
	for i := range pat {
		if len(pat[i]) > 0 && pat[i][0] == ':' {
			vars[pat[i][1:]] = append(vars[pat[i][1:]], req[i])
		} else if pat[i] != req[i] {
			return nil, false
		}
	}
	return vars, true
}

func c03eInterp(c c03eCase) (v kit.Verdict) {
	defer func() {
		if r := recover(); r != nil {
			v.Fail = fmt.Sprintf("panic: %v", r)
		}
	}()
	classes := map[string]bool{}
	srv := &Server{ng: newEngine(Config{Host: "c03e"}), router: router.NewRouter()}
	ng := srv.ng
	var slices [][]Route
	var ran []int
	var ranVars map[string]string
	id := 0
	type reg struct {
		id   int
		segs []string
		lit  bool
	}
	table := map[string][]reg{}
	seen := map[string]bool{}
	wantErr := false
	var all []c03eRoute
	var groupIDs [][]int
	for gi, g := range c.Groups {
		var rs []Route
		var myIDs []int
		var prefixes []string
		if gi < len(c.Prefix) {
			prefixes = c.Prefix[gi]
		}
		shared := -1
		if gi < len(c.Share) && c.Share[gi] >= 0 && c.Share[gi] < gi {
			shared = c.Share[gi]
			g = c.Groups[shared]
			classes["shared-route-slice"] = true
		}
		for ri, r := range g {
			if shared < 0 {
				_ = ri
			}
			for _, pf := range prefixes {
				r.P = path.Join(pf, r.P)
			}
			my := id
			if shared >= 0 {
				my = groupIDs[shared][ri]
			} else {
				id++
				raw := c.Groups[gi][ri]
				rs = append(rs, Route{Method: raw.M, Path: raw.P, Handler: func(w http.ResponseWriter, q *http.Request) {
					ran = append(ran, my)
					ranVars = pathvar.Vars(q)
					w.WriteHeader(299)
				}})
			}
			for len(all) <= my {
				all = append(all, r)
			}
			myIDs = append(myIDs, my)
			bad := !c03eValid[r.M] || len(r.P) == 0 || r.P[0] != '/'
			if !bad {
				k := r.M + " " + path.Clean(r.P)
				if seen[k] {
					bad = true
					classes["duplicate"] = true
					if gi > 0 {
						classes["duplicate-across-groups"] = true
					}
				}
				seen[k] = true
			}
			if bad {
				if !wantErr && (gi < len(c.Groups)-1 || ri < len(g)-1) {
					classes["rejected-route-not-last"] = true
					v.NonTrivial = true
				}
				wantErr = true
			} else if !wantErr {
				lit := true
				for _, s := range c03eSegs(r.P) {
					if len(s) > 0 && s[0] == ':' {
						lit = false
					}
				}
				table[r.M] = append(table[r.M], reg{id: my, segs: c03eSegs(r.P), lit: lit})
			}
		}
		if shared >= 0 {
			rs = slices[shared]
		}
		slices = append(slices, rs)
		groupIDs = append(groupIDs, myIDs)
		var opts []RouteOption
		for _, pf := range prefixes {
			opts = append(opts, WithPrefix(pf))
		}
		srv.AddRoutes(rs, opts...)
	}
	rt := srv.router
	if c.Custom {
		rt.SetNotFoundHandler(ng.notFoundHandler(http.HandlerFunc(func(w http.ResponseWriter, q *http.Request) {
			ran = append(ran, -1)
			w.WriteHeader(288) // a custom not-found handler decides the status itself
		})))
	} else {
		rt.SetNotFoundHandler(ng.notFoundHandler(nil))
	}
	err := ng.bindRoutes(rt)
	if wantErr != (err != nil) {
		return v.Failf("bindRoutes over groups %v: error=%v, reference says a registration must be rejected=%v", c.Groups, err, wantErr)
	}
	if err != nil {
		v.Classes = []string{"rejected"}
		for k := range classes {
			v.Classes = append(v.Classes, k)
		}
		sort.Strings(v.Classes)
		return v
	}
	for _, q := range c.Reqs {
		ran, ranVars = nil, nil
		rec := httptest.NewRecorder()
		rt.ServeHTTP(rec, &http.Request{Method: q.M, URL: &url.URL{Path: q.P}, Header: http.Header{}, RemoteAddr: "127.0.0.1:1"})
		rsegs := c03eSegs(q.P)
		what := fmt.Sprintf("request %s %q over engine groups %v", q.M, q.P, c.Groups)
		matches := map[int][]map[string][]string{} // handler id -> variable bindings of its matching registrations
		literal := -1
		for _, g := range table[q.M] {
			if vars, ok := c03eMatch(g.segs, rsegs); ok {
				matches[g.id] = append(matches[g.id], vars)
				if g.lit {
					literal = g.id
				}
			}
		}
		if len(matches) > 0 {
			if len(ran) != 1 || ran[0] < 0 {
				return v.Failf("%s: a registered pattern matches but ran=%v status=%d", what, ran, rec.Code)
			}
			cands, ok := matches[ran[0]]
			if !ok {
				return v.Failf("%s: handler of route #%d %v ran, which does not match", what, ran[0], all[ran[0]])
			}
			if literal >= 0 && ran[0] != literal {
				return v.Failf("%s: all-literal route #%d matches but #%d ran", what, literal, ran[0])
			}
			if rec.Code != 299 {
				return v.Failf("%s: handler's status 299 became %d", what, rec.Code)
			}
			good := false
			for _, vars := range cands {
				if len(vars) != len(ranVars) {
					continue
				}
				all := true
				for n, vals := range vars {
					hit := false
					for _, x := range vals {
						if got, present := ranVars[n]; present && got == x {
							hit = true
						}
					}
					all = all && hit
				}
				good = good || all
			}
			if !good {
				return v.Failf("%s: bound vars %v, reference allows %v", what, ranVars, cands)
			}
			classes["dispatched"] = true
			continue
		}
		allowed := map[string]bool{}
		for m, gs := range table {
			if m == q.M {
				continue
			}
			for _, g := range gs {
				if _, ok := c03eMatch(g.segs, rsegs); ok {
					allowed[m] = true
				}
			}
		}
		if len(allowed) > 0 {
			classes["405"] = true
			if len(ran) != 0 || rec.Code != http.StatusMethodNotAllowed {
				return v.Failf("%s: expected 405, got %d ran=%v", what, rec.Code, ran)
			}
			got := map[string]bool{}
			for _, m := range strings.Split(rec.Result().Header.Get("Allow"), ",") {
				if m = strings.TrimSpace(m); m != "" {
					got[m] = true
				}
			}
			if fmt.Sprint(c03eKeys(got)) != fmt.Sprint(c03eKeys(allowed)) {
				return v.Failf("%s: Allow %q, reference %v", what, rec.Result().Header.Get("Allow"), c03eKeys(allowed))
			}
			continue
		}
		classes["404"] = true
		if c.Custom {
			if len(ran) != 1 || ran[0] != -1 || rec.Code != 288 {
				return v.Failf("%s: expected the custom not-found handler (status 288), got %d ran=%v", what, rec.Code, ran)
			}
			continue
		}
		if rec.Code != http.StatusNotFound || len(ran) != 0 {
			return v.Failf("%s: expected 404 through the engine's not-found wrapper, got %d (ran=%v)", what, rec.Code, ran)
		}
	}
	if len(c.Groups) >= 2 && classes["dispatched"] {
		v.NonTrivial = true
	}
	for k := range classes {
		v.Classes = append(v.Classes, k)
	}
	sort.Strings(v.Classes)
	return v
}

func c03eKeys(m map[string]bool) []string {
	var k []string
	for x := range m {
		k = append(k, x)
	}
	sort.Strings(k)
	return k
}

func c03eGen(rt *rapid.T) c03eCase {
	var c c03eCase
	methods := []string{"GET", "GET", "POST", "PUT", "DELETE"}
	segs := []string{"a", "b", "c", "d", "e", ":x", ":y"}
	var flat []c03eRoute
	ng := rapid.IntRange(1, 3).Draw(rt, "groups")
	for g := 0; g < ng; g++ {
		var rs []c03eRoute
		nr := rapid.IntRange(1, 4).Draw(rt, "routes")
		for i := 0; i < nr; i++ {
			var r c03eRoute
			r.M = rapid.SampledFrom(methods).Draw(rt, "m")
			switch k := rapid.IntRange(0, 59).Draw(rt, "kind"); {
			case k == 29:
				r.M = rapid.SampledFrom([]string{"TRACE", "get", ""}).Draw(rt, "badm")
				r.P = "/a"
			case k == 31:
				r.P = rapid.SampledFrom([]string{"", "a/b", ":x"}).Draw(rt, "badp")
			case (k == 33 || k == 35 || k == 37) && len(flat) > 0:
				d := flat[rapid.IntRange(0, len(flat)-1).Draw(rt, "dup")]
				r = d
				if rapid.Bool().Draw(rt, "respell") {
					r.P += "/"
				}
			default:
				depth := rapid.SampledFrom([]int{0, 1, 2, 2, 3, 3, 3}).Draw(rt, "depth")
				r.P = "/"
				for j := 0; j < depth; j++ {
					if j > 0 {
						r.P += "/"
					}
					r.P += rapid.SampledFrom(segs).Draw(rt, "seg")
				}
			}
			rs = append(rs, r)
			flat = append(flat, r)
		}
		c.Groups = append(c.Groups, rs)
	}
	for g := 0; g < ng; g++ {
		var pf []string
		np := rapid.SampledFrom([]int{0, 0, 1, 1, 2}).Draw(rt, "nprefix")
		for i := 0; i < np; i++ {
			pf = append(pf, rapid.SampledFrom([]string{"/v1", "/v2", "/a", "/:x", "/v1/", "v3"}).Draw(rt, "prefix"))
		}
		c.Prefix = append(c.Prefix, pf)
		sh := -1
		if g > 0 && rapid.IntRange(0, 3).Draw(rt, "share") == 0 {
			sh = rapid.IntRange(0, g-1).Draw(rt, "sharewith")
			for sh >= 0 && c.Share[sh] >= 0 {
				sh = c.Share[sh]
			}
		}
		c.Share = append(c.Share, sh)
		if sh >= 0 { // the same route list mounted again: under a prefix of its own
			c.Prefix[g] = append([]string{fmt.Sprintf("/s%d", g)}, pf...)
			if len(c.Prefix[g]) > 2 {
				c.Prefix[g] = c.Prefix[g][:2]
			}
		}
	}
	c.Custom = rapid.Bool().Draw(rt, "custom")
	// effective patterns (prefixes applied), to derive requests that are likely to match
	var eff []c03eRoute
	for g := range c.Groups {
		src := c.Groups[g]
		if c.Share[g] >= 0 {
			src = c.Groups[c.Share[g]]
		}
		for _, r := range src {
			for _, pf := range c.Prefix[g] {
				r.P = path.Join(pf, r.P)
			}
			if len(r.P) > 0 && r.P[0] == '/' {
				eff = append(eff, r)
			}
		}
	}
	n := rapid.IntRange(1, 10).Draw(rt, "nreqs")
	for i := 0; i < n; i++ {
		var q c03eRoute
		if len(eff) > 0 && rapid.IntRange(0, 9).Draw(rt, "derive") < 6 {
			r := eff[rapid.IntRange(0, len(eff)-1).Draw(rt, "from")]
			q.M = r.M
			if rapid.IntRange(0, 5).Draw(rt, "otherm") == 0 {
				q.M = rapid.SampledFrom([]string{"GET", "POST", "PUT", "DELETE", "PATCH"}).Draw(rt, "qm2")
			}
			for _, sg := range c03eSegs(r.P) {
				if len(sg) > 0 && sg[0] == ':' {
					sg = rapid.SampledFrom([]string{"a", "b", "z", "v1"}).Draw(rt, "subst")
				}
				if sg != "" {
					q.P += rapid.SampledFrom([]string{"/", "/", "/", "//", "/./"}).Draw(rt, "dsep") + sg
				}
			}
			if q.P == "" {
				q.P = "/"
			}
			c.Reqs = append(c.Reqs, q)
			continue
		}
		q.M = rapid.SampledFrom([]string{"GET", "GET", "POST", "PUT", "DELETE", "PATCH"}).Draw(rt, "qm")
		depth := rapid.IntRange(0, 4).Draw(rt, "qdepth")
		q.P = ""
		for j := 0; j < depth; j++ {
			q.P += rapid.SampledFrom([]string{"/", "/", "//", "/./"}).Draw(rt, "qsep") + rapid.SampledFrom([]string{"a", "b", "c", "d", "e", "v1", "v2", "s1", "s2"}).Draw(rt, "qseg")
		}
		if q.P == "" {
			q.P = "/"
		}
		c.Reqs = append(c.Reqs, q)
	}
	return c
}

func TestVerif_C03_engine(t *testing.T) {
	kit.Run(t, "C03", "engine-groups", kit.Opts{Quick: 4000, Thorough: 160000}, c03eGen, c03eInterp)
}
