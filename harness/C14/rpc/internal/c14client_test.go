package internal

// C14 (integration) — a client built by the real NewClient balances over every
// backend of a multi-endpoint target whatever ClientOptions it is given.
// Harness injected by /verif (overlay); real clock, real loopback sockets, no bubble.
//
// rpc/internal/client.go is an anchored file of C14: NewClient prepends the dial
// option that selects the p2c_ewma balancer. If any ClientOption loses it, gRPC falls
// back to pick_first and one backend receives every call, i.e. the statement's
// "under sustained traffic every connection is still picked at least about once per
// second" is broken for the ready backends.
//
// Oracle (counts and the statement's one-second clause only):
//   settle   within 10 s of sequential calls every backend has served a call
//            (each backend was proven reachable by a direct dial beforehand);
//   sustain  then calls continue for > 1 s plus K+2 further calls; every backend
//            must have served a call of this phase. K is the bound of the p2c
//            starvation rule: a connection unpicked for > 1 s is a candidate of a pick
//            with probability >= (2/n)^3 (1 for n = 2) and is then chosen unless the
//            other candidate is stale too; false-alarm probability <= 1e-12 per case.
// Dial failures, failed calls and a machine too slow to finish are Excluded.

import (
	"context"
	"errors"
	"fmt"
	"math"
	"net"
	"sort"
	"strings"
	"sync/atomic"
	"testing"
	"time"

	"github.com/gotid/god/lib/breaker"
	"github.com/gotid/god/lib/logx"
	"github.com/gotid/god/rpc/internal/auth"
	"github.com/gotid/god/rpc/internal/mock"
	"github.com/gotid/god/rpc/resolver"
	"google.golang.org/grpc"
	"google.golang.org/grpc/codes"
	"google.golang.org/grpc/credentials/insecure"
	"google.golang.org/grpc/status"
	"pgregory.net/rapid"
	"verif.local/kit"
)

func init() { logx.Disable() }

type c14CliOpt struct {
	K string `json:"k"`           // dial creds timeout nonblock unary stream auth
	V int    `json:"v,omitempty"` // timeout: seconds
}

type c14CliCase struct {
	B    int         `json:"b"` // backends
	Opts []c14CliOpt `json:"opts"`
	Twin bool        `json:"twin,omitempty"` // a second client, built from the SAME option values, alive at the same time on two other backends
}

func c14BinomTail(k int, q float64, b int) float64 {
	if b >= k {
		return 1
	}
	lg := func(x int) float64 { v, _ := math.Lgamma(float64(x) + 1); return v }
	sum := 0.0
	for j := 0; j <= b; j++ {
		sum += math.Exp(lg(k) - lg(j) - lg(k-j) + float64(j)*math.Log(q) + float64(k-j)*math.Log1p(-q))
	}
	return sum
}

// c14MinPicks: smallest K with P(Bin(K,q) <= b) <= alpha (K = b+1 when q == 1).
func c14MinPicks(n, b int, alpha float64) int {
	if n <= 2 {
		return b + 1
	}
	q := math.Pow(2/float64(n), 3)
	lo, hi := b+1, b+2
	for c14BinomTail(hi, q, b) > alpha {
		hi *= 2
	}
	for lo < hi {
		mid := (lo + hi) / 2
		if c14BinomTail(mid, q, b) <= alpha {
			hi = mid
		} else {
			lo = mid + 1
		}
	}
	return lo
}

func c14Client(c c14CliCase) (v kit.Verdict) {
	counts := make([]int64, c.B)
	var endpoints []string
	for i := 0; i < c.B; i++ {
		i := i
		lis, err := net.Listen("tcp", "127.0.0.1:0")
		if err != nil {
			return kit.Verdict{Excluded: true, Classes: []string{"listen-failed"}}
		}
		srv := grpc.NewServer(grpc.UnaryInterceptor(func(ctx context.Context, req interface{},
			_ *grpc.UnaryServerInfo, handler grpc.UnaryHandler) (interface{}, error) {
			atomic.AddInt64(&counts[i], 1)
			return handler(ctx, req)
		}))
		mock.RegisterDepositServiceServer(srv, &mock.DepositServer{})
		go func() { _ = srv.Serve(lis) }()
		defer srv.Stop()
		endpoints = append(endpoints, lis.Addr().String())
	}
	call := func(cc *grpc.ClientConn) error {
		ctx, cancel := context.WithTimeout(context.Background(), 10*time.Second)
		defer cancel()
		_, err := mock.NewDepositServiceClient(cc).Deposit(ctx, &mock.DepositRequest{Amount: 0})
		return err
	}
	// every backend is reachable: one direct call each with a plain gRPC client
	for _, ep := range endpoints {
		ctx, cancel := context.WithTimeout(context.Background(), 10*time.Second)
		cc, err := grpc.DialContext(ctx, ep, grpc.WithTransportCredentials(insecure.NewCredentials()), grpc.WithBlock())
		cancel()
		if err != nil {
			return kit.Verdict{Excluded: true, Classes: []string{"backend-unreachable"}}
		}
		err = call(cc)
		_ = cc.Close()
		if err != nil {
			return kit.Verdict{Excluded: true, Classes: []string{"backend-unreachable"}}
		}
	}
	for i := range counts {
		atomic.StoreInt64(&counts[i], 0)
	}

	var intercepted int64
	classes := map[string]bool{fmt.Sprintf("backends=%d", c.B): true}
	var opts []ClientOption
	for _, o := range c.Opts {
		classes["opt-"+o.K] = true
		switch o.K {
		case "dial":
			opts = append(opts, WithDialOption(grpc.WithUserAgent("c14")))
		case "creds":
			opts = append(opts, WithTransportCredentials(insecure.NewCredentials()))
		case "timeout":
			opts = append(opts, WithTimeout(time.Duration(o.V)*time.Second))
		case "nonblock":
			opts = append(opts, WithNonBlock())
		case "auth": // what rpc.NewClient prepends for a ClientConfig with App and Token
			opts = append(opts, WithDialOption(grpc.WithPerRPCCredentials(&auth.Credential{App: "c14", Token: "t"})))
		case "unary":
			opts = append(opts, WithUnaryClientInterceptor(func(ctx context.Context, method string, req, reply interface{},
				cc *grpc.ClientConn, invoker grpc.UnaryInvoker, co ...grpc.CallOption) error {
				atomic.AddInt64(&intercepted, 1)
				return invoker(ctx, method, req, reply, cc, co...)
			}))
		case "stream":
			opts = append(opts, WithStreamClientInterceptor(func(ctx context.Context, desc *grpc.StreamDesc, cc *grpc.ClientConn,
				method string, streamer grpc.Streamer, co ...grpc.CallOption) (grpc.ClientStream, error) {
				return streamer(ctx, desc, cc, method, co...)
			}))
		}
	}
	done := func() kit.Verdict {
		for k := range classes {
			v.Classes = append(v.Classes, k)
		}
		sort.Strings(v.Classes)
		return v
	}
	cli, err := NewClient(resolver.BuildDirectTarget(endpoints), opts...)
	if err != nil {
		classes["dial-failed"] = true
		v.Excluded = true
		return done()
	}
	defer cli.Conn().Close()

	// twin: two rpc clients in one process share the registered balancer builder, the
	// resolver registry and (here) the very same ClientOption values.
	var cli2 Client
	counts2 := make([]int64, 2)
	var callsA, callsB int64
	if c.Twin {
		classes["twin-clients"] = true
		var eps2 []string
		for i := 0; i < 2; i++ {
			i := i
			lis, err := net.Listen("tcp", "127.0.0.1:0")
			if err != nil {
				v.Excluded = true
				return done()
			}
			srv := grpc.NewServer(grpc.UnaryInterceptor(func(ctx context.Context, req interface{},
				_ *grpc.UnaryServerInfo, handler grpc.UnaryHandler) (interface{}, error) {
				atomic.AddInt64(&counts2[i], 1)
				return handler(ctx, req)
			}))
			mock.RegisterDepositServiceServer(srv, &mock.DepositServer{})
			go func() { _ = srv.Serve(lis) }()
			defer srv.Stop()
			eps2 = append(eps2, lis.Addr().String())
		}
		cli2, err = NewClient(resolver.BuildDirectTarget(eps2), opts...)
		if err != nil {
			classes["dial-failed"] = true
			v.Excluded = true
			return done()
		}
		defer cli2.Conn().Close()
	}
	callBoth := func() error {
		if err := call(cli.Conn()); err != nil {
			return err
		}
		callsA++
		if cli2 != nil {
			if err := call(cli2.Conn()); err != nil {
				return err
			}
			callsB++
		}
		return nil
	}
	twinHit := func() bool {
		return cli2 == nil || (atomic.LoadInt64(&counts2[0]) > 0 && atomic.LoadInt64(&counts2[1]) > 0)
	}

	hit := func(base []int64) (all bool, missing []int) {
		all = true
		for i := range counts {
			if atomic.LoadInt64(&counts[i])-base[i] <= 0 {
				all = false
				missing = append(missing, i)
			}
		}
		return
	}
	snapshot := func() []int64 {
		b := make([]int64, len(counts))
		for i := range counts {
			b[i] = atomic.LoadInt64(&counts[i])
		}
		return b
	}

	// settle
	zero := make([]int64, c.B)
	start := time.Now()
	calls := 0
	for {
		if err := callBoth(); err != nil {
			classes["call-failed"] = true
			v.Excluded = true
			return done()
		}
		calls++
		if all, _ := hit(zero); all && twinHit() {
			break
		}
		if time.Since(start) > 10*time.Second {
			_, missing := hit(zero)
			v.Fail = fmt.Sprintf("options %+v twin=%v: %d sequential calls per client over 10 s to %d reachable backends, backends %v never served one (per backend: %v; second client's backends: %v): the client does not balance",
				c.Opts, c.Twin, calls, c.B, missing, snapshot(), []int64{atomic.LoadInt64(&counts2[0]), atomic.LoadInt64(&counts2[1])})
			return done()
		}
		if calls%64 == 0 {
			time.Sleep(time.Millisecond)
		}
	}
	// sustain
	base := snapshot()
	t0 := time.Now()
	after, needK := 0, math.MaxInt
	n := 0
	for {
		if err := callBoth(); err != nil {
			classes["call-failed"] = true
			v.Excluded = true
			return done()
		}
		n++
		el := time.Since(t0)
		if el > 60*time.Second {
			classes["machine-too-slow"] = true
			v.Excluded = true
			return done()
		}
		if el <= 1100*time.Millisecond {
			continue
		}
		after++
		w := el - 1100*time.Millisecond
		b := (c.B - 1) * (int(w/time.Second) + 2)
		needK = c14MinPicks(c.B, b, 1e-12/float64(c.B)) + 2
		if after >= needK {
			break
		}
	}
	if all, missing := hit(base); !all {
		cur := snapshot()
		for i := range cur {
			cur[i] -= base[i]
		}
		v.Fail = fmt.Sprintf("options %+v: %d sequential calls sustained for %v (1.1 s + %d calls) and backends %v served none of them (per backend: %v)",
			c.Opts, n, time.Since(t0), after, missing, cur)
		return done()
	}
	// every call succeeded, so every call was served by exactly one backend: each client's
	// calls must all have landed on its own backends
	var sumA, sumB int64
	for i := range counts {
		sumA += atomic.LoadInt64(&counts[i])
	}
	sumB = atomic.LoadInt64(&counts2[0]) + atomic.LoadInt64(&counts2[1])
	if sumA != callsA || sumB != callsB {
		v.Fail = fmt.Sprintf("options %+v twin=%v: client 1 made %d calls and its %d backends served %d; client 2 made %d calls and its 2 backends served %d: calls reached backends of the other client's target",
			c.Opts, c.Twin, callsA, c.B, sumA, callsB, sumB)
		return done()
	}
	for _, o := range c.Opts {
		if o.K == "creds" && len(c.Opts) > 1 {
			v.NonTrivial = true
		}
	}
	if c.Twin {
		v.NonTrivial = true
	}
	return done()
}

func c14CliGen(rt *rapid.T) c14CliCase {
	c := c14CliCase{B: rapid.IntRange(2, 4).Draw(rt, "b"), Twin: rapid.Bool().Draw(rt, "twin")}
	n := rapid.IntRange(0, 5).Draw(rt, "nopts")
	for i := 0; i < n; i++ {
		o := c14CliOpt{K: rapid.SampledFrom([]string{"dial", "creds", "creds", "timeout", "nonblock", "unary", "stream", "auth"}).Draw(rt, "k")}
		if o.K == "timeout" {
			o.V = rapid.IntRange(5, 20).Draw(rt, "v")
		}
		c.Opts = append(c.Opts, o)
	}
	return c
}

func TestVerif_C14_client(t *testing.T) {
	kit.Run(t, "C14", "client", kit.Opts{Quick: 8, Thorough: 48, NoShard: true}, c14CliGen, c14Client)
}

// ---------------------------------------------------------------------------
// client-unhealthy: over real gRPC a backend whose handler fails every call with an
// unacceptable code is avoided. (Real gRPC reports such a completion to the balancer
// with BytesSent = BytesReceived = true and a trailer, which hand-built DoneInfo values
// do not.)
//
// Five backends, one of them answers every call with Internal / Unavailable / DataLoss /
// Unimplemented / DeadlineExceeded; sequential calls through a NewClient client.
//   warm-up  calls until the failing backend's completions span >= 8 s: its calls fail
//            from the first one on, so with the 10 s decay its score is
//            <= 1000*exp(-0.8) < 500 whatever the spacing (the statement's "unhealthy
//            after a bounded number of completions", in the summed form of the bound);
//   measure  N further calls. While the failing backend is unhealthy and the four others
//            are healthy (all their calls succeed) it can only be chosen when all three
//            candidate pairs of a pick contain it: probability (2/5)^3 = 0.064 per pick
//            whatever the loads and force-picks. The check fails when its share exceeds
//            0.064 + eps(N, 1e-12) (Hoeffding/Azuma).
// Any call error other than the failing backend's own code, a dial failure, or a machine
// too slow to finish in 90 s => Excluded.

type c14SickCase struct {
	U    int         `json:"u"`    // failing backend 0..4
	Code int         `json:"code"` // index into c14SickCodes
	Opts []c14CliOpt `json:"opts"`
}

var c14SickCodes = []codes.Code{codes.Internal, codes.Unavailable, codes.DataLoss, codes.Unimplemented, codes.DeadlineExceeded}

func c14Sick(c c14SickCase) (v kit.Verdict) {
	const backends, measured = 5, 6000
	code := c14SickCodes[c.Code%len(c14SickCodes)]
	counts := make([]int64, backends)
	var endpoints []string
	for i := 0; i < backends; i++ {
		i := i
		lis, err := net.Listen("tcp", "127.0.0.1:0")
		if err != nil {
			return kit.Verdict{Excluded: true, Classes: []string{"listen-failed"}}
		}
		srv := grpc.NewServer(grpc.UnaryInterceptor(func(ctx context.Context, req interface{},
			_ *grpc.UnaryServerInfo, handler grpc.UnaryHandler) (interface{}, error) {
			atomic.AddInt64(&counts[i], 1)
			if i == c.U {
				return nil, status.Error(code, "backend is sick")
			}
			return handler(ctx, req)
		}))
		mock.RegisterDepositServiceServer(srv, &mock.DepositServer{})
		go func() { _ = srv.Serve(lis) }()
		defer srv.Stop()
		endpoints = append(endpoints, lis.Addr().String())
	}
	classes := map[string]bool{"code-" + code.String(): true}
	done := func() kit.Verdict {
		for k := range classes {
			v.Classes = append(v.Classes, k)
		}
		sort.Strings(v.Classes)
		return v
	}
	var opts []ClientOption
	for _, o := range c.Opts {
		classes["opt-"+o.K] = true
		switch o.K {
		case "dial":
			opts = append(opts, WithDialOption(grpc.WithUserAgent("c14")))
		case "creds":
			opts = append(opts, WithTransportCredentials(insecure.NewCredentials()))
		case "timeout":
			opts = append(opts, WithTimeout(time.Duration(o.V)*time.Second))
		case "nonblock":
			opts = append(opts, WithNonBlock())
		case "auth":
			opts = append(opts, WithDialOption(grpc.WithPerRPCCredentials(&auth.Credential{App: "c14", Token: "t"})))
		}
	}
	cli, err := NewClient(resolver.BuildDirectTarget(endpoints), opts...)
	if err != nil {
		classes["dial-failed"] = true
		v.Excluded = true
		return done()
	}
	defer cli.Conn().Close()
	dep := mock.NewDepositServiceClient(cli.Conn())
	// call reports whether the call was answered by the failing backend
	// While the failing backend is the only ready one (the others are still connecting)
	// every call fails and the client-side breaker of rpc/internal opens: it rejects calls
	// with breaker.ErrServiceUnavailable (a plain error, status code Unknown) before any
	// pick is made. Such a rejection is not a call: wait a little and go on.
	rejected := 0
	var call func() (sick bool, ok bool)
	call = func() (sick bool, ok bool) {
		ctx, cancel := context.WithTimeout(context.Background(), 10*time.Second)
		_, err := dep.Deposit(ctx, &mock.DepositRequest{Amount: 0})
		cancel()
		if err == nil {
			return false, true
		}
		if errors.Is(err, breaker.ErrServiceUnavailable) && rejected < 100000 {
			rejected++
			classes["breaker-rejections"] = true
			time.Sleep(time.Millisecond)
			return call()
		}
		if status.Code(err) == code {
			return true, true
		}
		msg := err.Error()
		if len(msg) > 80 {
			msg = msg[:80]
		}
		classes["call-failed-"+status.Code(err).String()+": "+msg] = true
		return false, false
	}
	start := time.Now()
	var first, last time.Time
	warm := 0
	for first.IsZero() || last.Sub(first) < 8*time.Second {
		sick, ok := call()
		if !ok || time.Since(start) > 90*time.Second {
			v.Excluded = true
			return done()
		}
		warm++
		if sick {
			last = time.Now()
			if first.IsZero() {
				first = last
			}
		}
		if warm%32 == 0 {
			time.Sleep(time.Millisecond) // keeps the warm-up at a few thousand calls per second
		}
	}
	base := atomic.LoadInt64(&counts[c.U])
	for k := 0; k < measured; k++ {
		if _, ok := call(); !ok || time.Since(start) > 90*time.Second {
			v.Excluded = true
			return done()
		}
	}
	got := atomic.LoadInt64(&counts[c.U]) - base
	eps := kit.HoeffdingEps(measured, 1e-12)
	limit := math.Pow(2.0/backends, 3) + eps
	share := float64(got) / measured
	classes[fmt.Sprintf("sick-share-%.2f..%.2f", math.Floor(share*50)/50, math.Floor(share*50)/50+0.02)] = true
	if share > limit {
		v.Fail = fmt.Sprintf("options %+v: backend %d failed every one of its calls with %v for more than 8 s (%d warm-up calls), then still served %d of %d calls (share %.3f > %.3f = (2/5)^3 + eps): it is not avoided",
			c.Opts, c.U, code, warm, got, measured, share, limit)
		return done()
	}
	v.NonTrivial = true
	return done()
}

func c14SickGen(rt *rapid.T) c14SickCase {
	c := c14SickCase{U: rapid.IntRange(0, 4).Draw(rt, "u"), Code: rapid.IntRange(0, len(c14SickCodes)-1).Draw(rt, "code")}
	n := rapid.IntRange(0, 3).Draw(rt, "nopts")
	for i := 0; i < n; i++ {
		o := c14CliOpt{K: rapid.SampledFrom([]string{"dial", "creds", "timeout", "nonblock", "auth"}).Draw(rt, "k")}
		if o.K == "timeout" {
			o.V = rapid.IntRange(5, 20).Draw(rt, "v")
		}
		c.Opts = append(c.Opts, o)
	}
	return c
}

func TestVerif_C14_clientsick(t *testing.T) {
	kit.Run(t, "C14", "client-unhealthy", kit.Opts{Quick: 1, Thorough: 6, NoShard: true}, c14SickGen, c14Sick)
}

// ---------------------------------------------------------------------------
// client-dial-error (UNSPECIFIED: panics and hangs only). The statement says nothing
// about a client that cannot be built; NewClient's error path (dial time-out after 3 s
// against backends that do not answer, a dial option gRPC rejects at once) and a
// non-blocking client whose backends are all down are run so that a panic or a hang in
// them is seen. No result is compared: the outcome only feeds the class histogram.

type c14DialCase struct {
	Kind   string      `json:"kind"`   // badconfig dead dead-nonblock
	Target int         `json:"target"` // dead*: 0 direct:///a,b  1 direct:///a,b/  2 plain host:port  3 direct:///
	Opts   []c14CliOpt `json:"opts"`
}

func c14DialErr(c c14DialCase) (v kit.Verdict) {
	classes := map[string]bool{"dial-" + c.Kind: true}
	done := func() kit.Verdict {
		for k := range classes {
			v.Classes = append(v.Classes, k)
		}
		sort.Strings(v.Classes)
		return v
	}
	// two ports nobody listens on (bound, then released)
	var dead []string
	for i := 0; i < 2; i++ {
		lis, err := net.Listen("tcp", "127.0.0.1:0")
		if err != nil {
			v.Excluded = true
			return done()
		}
		dead = append(dead, lis.Addr().String())
		_ = lis.Close()
	}
	var opts []ClientOption
	for _, o := range c.Opts {
		switch o.K {
		case "dial":
			opts = append(opts, WithDialOption(grpc.WithUserAgent("c14")))
		case "creds":
			opts = append(opts, WithTransportCredentials(insecure.NewCredentials()))
		case "timeout":
			opts = append(opts, WithTimeout(time.Duration(o.V)*time.Second))
		}
	}
	target := resolver.BuildDirectTarget(dead)
	switch c.Kind {
	case "badconfig":
		lis, err := net.Listen("tcp", "127.0.0.1:0")
		if err != nil {
			v.Excluded = true
			return done()
		}
		srv := grpc.NewServer()
		mock.RegisterDepositServiceServer(srv, &mock.DepositServer{})
		go func() { _ = srv.Serve(lis) }()
		defer srv.Stop()
		target = resolver.BuildDirectTarget([]string{lis.Addr().String()})
		opts = append(opts, WithDialOption(grpc.WithDefaultServiceConfig(`{"loadBalancingPolicy":`)))
	case "dead-nonblock":
		opts = append(opts, WithNonBlock())
		fallthrough
	default:
		classes[fmt.Sprintf("dial-target-form-%d", c.Target%4)] = true
		switch c.Target % 4 {
		case 1:
			target += "/"
		case 2:
			target = dead[0]
		case 3:
			target = resolver.BuildDirectTarget(nil)
		}
	}
	var cli Client
	var err error
	func() {
		defer func() {
			if r := recover(); r != nil {
				v.Fail = fmt.Sprintf("NewClient(%q) with options %+v panicked: %v", target, c.Opts, r)
			}
		}()
		cli, err = NewClient(target, opts...)
	}()
	if v.Fail != "" {
		return done()
	}
	switch {
	case err != nil && strings.Contains(err.Error(), context.DeadlineExceeded.Error()):
		classes["dial-error-deadline"] = true
	case err != nil:
		classes["dial-error-other"] = true
	default:
		classes["dial-returned-a-client"] = true
	}
	if err == nil && cli != nil && cli.Conn() != nil {
		ctx, cancel := context.WithTimeout(context.Background(), 2*time.Second)
		_, cerr := mock.NewDepositServiceClient(cli.Conn()).Deposit(ctx, &mock.DepositRequest{Amount: 0})
		cancel()
		classes["call-on-dead-backends-"+status.Code(cerr).String()] = true
		_ = cli.Conn().Close()
	}
	v.NonTrivial = err != nil
	return done()
}

func c14DialGen(rt *rapid.T) c14DialCase {
	c := c14DialCase{
		Kind:   rapid.SampledFrom([]string{"badconfig", "dead", "dead", "dead-nonblock"}).Draw(rt, "kind"),
		Target: rapid.IntRange(0, 3).Draw(rt, "target"),
	}
	n := rapid.IntRange(0, 2).Draw(rt, "nopts")
	for i := 0; i < n; i++ {
		o := c14CliOpt{K: rapid.SampledFrom([]string{"dial", "creds", "timeout"}).Draw(rt, "k")}
		if o.K == "timeout" {
			o.V = rapid.IntRange(1, 5).Draw(rt, "v")
		}
		c.Opts = append(c.Opts, o)
	}
	return c
}

func TestVerif_C14_clientdialerror(t *testing.T) {
	kit.Run(t, "C14", "client-dial-error", kit.Opts{Quick: 4, Thorough: 16, NoShard: true}, c14DialGen, c14DialErr)
}
