package p2c

// C14, rule "registered" — the picker as gRPC really obtains it.
//
// The other bubble rules call p2cPickerBuilder.Build themselves. Here nothing of the
// package is called directly: the case asks gRPC's registry for the balancer registered
// under the name rpc/internal/client.go puts into the service config (balancer.Get(Name)),
// builds one or two balancers from it over a fake balancer.ClientConn (two rpc clients of
// one process share the ONE registered builder and its ONE picker builder) and drives
// them the way a grpc.ClientConn does, always from one goroutine:
//
//	resolve   UpdateClientConnState with a generated address list (new addresses get a new
//	          SubConn from the ClientConn, dropped ones are removed; an address that comes
//	          back gets a NEW SubConn; an empty list is a resolver failure)
//	state     UpdateSubConnState: IDLE / CONNECTING / READY / TRANSIENT_FAILURE of one SubConn
//	shut      the SHUTDOWN notification that follows a removal (at once or later)
//	reserr    ResolverError
//	pick      through the picker the balancer published last, or one of the two before it
//	          (a pick racing with the update), completion after the generated latency
//
// Oracle. "Ready connections" are, as for gRPC, the SubConns of the currently resolved
// addresses whose last reported state is READY (model kept by the harness from the calls
// it made itself). After every operation the picker published last must be one for
// exactly that set; every picker ever published stays under the judgement of the rebuild
// rule (membership in ITS ready set, inflight, score, lag; all inflight counts 0 after the
// last completion); while nothing is ready a pick must not hand out a connection.
//
// The model of the base balancer (google.golang.org/grpc v1.50.1, balancer/base) was
// validated by reading it: it publishes a picker at the end of every UpdateClientConnState /
// UpdateSubConnState of a known SubConn, built from the SubConns it still holds for a
// resolved address and whose recorded state is READY.

import (
	"errors"
	"fmt"
	"sort"
	"sync/atomic"
	"testing"
	"time"

	"google.golang.org/grpc/attributes"
	"google.golang.org/grpc/balancer"
	"google.golang.org/grpc/connectivity"
	"google.golang.org/grpc/resolver"
	"pgregory.net/rapid"
	"verif.local/kit"
)

type c14RegOp struct {
	K   string `json:"k"`             // resolve state shut reserr pick burst adv
	W   int    `json:"w,omitempty"`   // which balancer (twin cases)
	Set []int  `json:"set,omitempty"` // resolve: address ids
	A   int    `json:"a,omitempty"`   // state: which open SubConn (modulo their number)
	S   int    `json:"s,omitempty"`   // state: 0 idle 1 connecting 2 ready 3 transient failure
	P   int    `json:"p,omitempty"`   // pick/burst: which of the three newest pickers
	J   int    `json:"j,omitempty"`
	C   int    `json:"c,omitempty"`
	B   bool   `json:"b,omitempty"` // resolve: SHUTDOWN of the removed SubConns delivered at once
	D   int64  `json:"d,omitempty"`
	M   int    `json:"n,omitempty"`
}

type c14RegCase struct {
	Pool  int        `json:"pool"` // addresses 0..Pool-1
	Pre   int64      `json:"pre"`
	Form  int        `json:"form"` // how addresses differ: 0 Addr, 1 ServerName, 2 Attributes, 3 mixed
	Twin  bool       `json:"twin,omitempty"`
	Conns []c14Conn  `json:"conns"`
	Ops   []c14RegOp `json:"ops"`
}

// c14RegAddr: the resolver address of id under the case's form. Two ids never differ in
// BalancerAttributes only (gRPC treats such addresses as one).
func c14RegAddr(form, id int) resolver.Address {
	a := resolver.Address{Addr: fmt.Sprintf("10.0.0.%d:80", id)}
	f := form
	if f == 3 {
		f = id % 3
	}
	switch f {
	case 1:
		a = resolver.Address{Addr: "10.0.0.1:80", ServerName: fmt.Sprintf("backend-%d", id)}
	case 2:
		a = resolver.Address{Addr: "10.0.0.1:80", Attributes: attributes.New("shard", id)}
	}
	if id%2 == 1 {
		a.BalancerAttributes = attributes.New("weight", id)
	}
	return a
}

type c14RegSC struct {
	sc      *c14SubConn
	addr    int
	live    bool // the balancer holds it for a currently resolved address
	open    bool // SHUTDOWN not delivered yet
	removed bool // RemoveSubConn was called
	state   connectivity.State
}

// c14CC: the balancer.ClientConn handed to the balancer under test.
type c14CC struct {
	r        *c14RegBal
	last     balancer.State
	updates  int
	misuse   string
	health   bool
	resolves int
}

func (cc *c14CC) NewSubConn(addrs []resolver.Address, o balancer.NewSubConnOptions) (balancer.SubConn, error) {
	r := cc.r
	id := -1
	for a := 0; a < r.pool && len(addrs) == 1; a++ {
		want := c14RegAddr(r.form, a)
		if want.Addr == addrs[0].Addr && want.ServerName == addrs[0].ServerName && want.Attributes.Equal(addrs[0].Attributes) {
			id = a
		}
	}
	if id < 0 {
		cc.misuse = fmt.Sprintf("NewSubConn(%v): not one of the resolved addresses", addrs)
		return nil, errors.New("unknown address")
	}
	if o.HealthCheckEnabled {
		cc.health = true
	}
	e := &c14RegSC{sc: &c14SubConn{id: *r.nextID}, addr: id, live: true, open: true, state: connectivity.Idle}
	*r.nextID++
	r.scs = append(r.scs, e)
	r.byConn[e.sc] = e
	return e.sc, nil
}

func (cc *c14CC) RemoveSubConn(sc balancer.SubConn) {
	e := cc.r.byConn[sc]
	if e == nil || e.removed {
		cc.misuse = "RemoveSubConn of a SubConn that does not exist (any more)"
		return
	}
	e.removed, e.live = true, false
	cc.r.toShut = append(cc.r.toShut, e)
}

func (cc *c14CC) UpdateAddresses(balancer.SubConn, []resolver.Address) {}
func (cc *c14CC) UpdateState(s balancer.State)                         { cc.last = s; cc.updates++ }
func (cc *c14CC) ResolveNow(resolver.ResolveNowOptions)                { cc.resolves++ }
func (cc *c14CC) Target() string                                       { return "direct:///c14" }

// c14RegBal: one balancer built from the registered builder, with the harness's model of
// what gRPC told it.
type c14RegBal struct {
	idx     int
	pool    int
	form    int
	nextID  *int
	cc      *c14CC
	bal     balancer.Balancer
	scs     []*c14RegSC
	byConn  map[balancer.SubConn]*c14RegSC
	toShut  []*c14RegSC
	cur     balancer.Picker // the picker published last
	curSet  []int           // SubConn ids it was published for
	curSim  *c14Sim         // nil while nothing is ready
	sims    []*c14Sim       // every p2c picker this balancer published
	curFail string
}

func (r *c14RegBal) readySet() (ids []int, scs []*c14SubConn) {
	for _, e := range r.scs {
		if e.live && e.state == connectivity.Ready {
			ids = append(ids, e.sc.id)
			scs = append(scs, e.sc)
		}
	}
	return
}

func c14SameSet(a, b []int) bool {
	if len(a) != len(b) {
		return false
	}
	for i := range a {
		if a[i] != b[i] {
			return false
		}
	}
	return true
}

type c14RegWorld struct {
	*c14World
	bals    []*c14RegBal
	conns   []c14Conn
	classes map[string]bool
	fail    string
	changed bool // some ready set changed while calls were outstanding
}

func (w *c14RegWorld) failedAny() bool { return w.fail != "" || w.failed() }

func (w *c14RegWorld) outstanding() int {
	n := 0
	for _, s := range w.sims {
		n += len(s.pend)
	}
	return n
}

// sync compares what the balancer published with the model after an operation.
func (w *c14RegWorld) sync(r *c14RegBal, what string) {
	if w.failedAny() {
		return
	}
	if r.cc.misuse != "" {
		w.fail = fmt.Sprintf("balancer #%d, %s: %s", r.idx, what, r.cc.misuse)
		return
	}
	ids, scs := r.readySet()
	if r.cc.last.Picker == nil {
		if len(ids) > 0 {
			w.fail = fmt.Sprintf("balancer #%d, %s: connections %v are ready and the balancer has never published a picker", r.idx, what, ids)
		}
		return
	}
	if r.cc.last.Picker == r.cur {
		if !c14SameSet(ids, r.curSet) {
			w.fail = fmt.Sprintf("balancer #%d, %s: the ready connections are now %v and the balancer still publishes the picker it built for %v", r.idx, what, ids, r.curSet)
		}
		return
	}
	if !c14SameSet(ids, r.curSet) && w.outstanding() > 0 {
		w.classes["reg-ready-set-changed-with-calls-outstanding"] = true
		w.changed = true
	}
	r.cur, r.curSet, r.curSim = r.cc.last.Picker, ids, nil
	if len(ids) == 0 {
		// nothing is ready: whatever was published must not hand out a connection
		res, err := r.cur.Pick(balancer.PickInfo{FullMethodName: "/c14/none"})
		w.classes["reg-pick-while-nothing-ready"] = true
		if err == nil {
			w.fail = fmt.Sprintf("balancer #%d, %s: no connection is ready and Pick returned %v without an error", r.idx, what, res.SubConn)
		}
		return
	}
	s := c14Adopt(r.cur, scs, w.conns)
	s.base, s.w, s.idx = w.base, w.c14World, len(w.sims)
	w.sims = append(w.sims, s)
	r.sims = append(r.sims, s)
	r.curSim = s
	if s.fail != "" {
		s.fail = fmt.Sprintf("balancer #%d, %s: ready connections %v: %s", r.idx, what, ids, s.fail)
	}
}

var c14RegStates = []connectivity.State{connectivity.Idle, connectivity.Connecting, connectivity.Ready, connectivity.TransientFailure}

func c14Registered(t *testing.T, c c14RegCase) (v kit.Verdict) {
	var w *c14RegWorld
	res := kit.Bubble(t, func() {
		if c.Pre > 0 {
			time.Sleep(time.Duration(c.Pre))
		}
		resolves := 1
		for _, o := range c.Ops {
			if o.K == "resolve" {
				resolves++
			}
		}
		size := c.Pool*resolves + 1
		mk := func() []int64 { return make([]int64, size) }
		w = &c14RegWorld{
			c14World: &c14World{picks: mk(), dones: mk(), minLat: mk(), maxLat: mk(), nDone: mk(), base: time.Now()},
			conns:    c.Conns, classes: map[string]bool{},
		}
		bb := balancer.Get(Name)
		if bb == nil {
			w.fail = fmt.Sprintf("no balancer is registered under %q, the name rpc/internal/client.go selects in the service config", Name)
			return
		}
		nextID := 0
		nb := 1
		if c.Twin {
			nb = 2
			w.classes["reg-twin-balancers"] = true
		}
		for i := 0; i < nb; i++ {
			r := &c14RegBal{idx: i, pool: c.Pool, form: c.Form, nextID: &nextID, byConn: map[balancer.SubConn]*c14RegSC{}}
			r.cc = &c14CC{r: r}
			r.bal = bb.Build(r.cc, balancer.BuildOptions{})
			if r.bal == nil {
				w.fail = "the registered builder built no balancer"
				return
			}
			w.bals = append(w.bals, r)
		}
		w.classes[fmt.Sprintf("addr-form-%d", c.Form)] = true
		seenAddr := make([]map[int]bool, nb)
		for i := range seenAddr {
			seenAddr[i] = map[int]bool{}
		}
		shut := func(r *c14RegBal, e *c14RegSC) {
			e.open = false
			e.state = connectivity.Shutdown
			r.bal.UpdateSubConnState(e.sc, balancer.SubConnState{ConnectivityState: connectivity.Shutdown})
		}
		check := func(what string) {
			for _, s := range w.sims {
				s.invariants(fmt.Sprintf("picker #%d, %s", s.idx, what))
			}
		}
		for k, o := range c.Ops {
			if w.failedAny() {
				return
			}
			r := w.bals[o.W%nb]
			what := fmt.Sprintf("after op %d %+v", k, o)
			switch o.K {
			case "resolve":
				var addrs []resolver.Address
				for _, id := range o.Set {
					addrs = append(addrs, c14RegAddr(c.Form, id))
					live := false
					for _, e := range r.scs {
						live = live || (e.live && e.addr == id)
					}
					if !live && seenAddr[r.idx][id] {
						w.classes["reg-address-comes-back"] = true
					}
					seenAddr[r.idx][id] = true
				}
				before, _ := r.readySet()
				err := r.bal.UpdateClientConnState(balancer.ClientConnState{ResolverState: resolver.State{Addresses: addrs}})
				if len(o.Set) == 0 {
					w.classes["reg-zero-addresses"] = true
					if err == nil {
						// gRPC re-resolves only when the balancer reports the bad state; the statement is silent
						w.classes["reg-zero-addresses-accepted"] = true
					}
				}
				if after, _ := r.readySet(); len(after) < len(before) {
					w.classes["reg-ready-address-removed"] = true
				}
				w.sync(r, what)
				if o.B {
					for len(r.toShut) > 0 && !w.failedAny() {
						e := r.toShut[0]
						r.toShut = r.toShut[1:]
						shut(r, e)
						w.sync(r, what+" (SHUTDOWN delivered)")
					}
				}
			case "shut":
				if len(r.toShut) == 0 {
					break
				}
				e := r.toShut[0]
				r.toShut = r.toShut[1:]
				shut(r, e)
				w.classes["reg-shutdown-delivered-later"] = true
				w.sync(r, what)
			case "state":
				var open []*c14RegSC
				for _, e := range r.scs {
					if e.open {
						open = append(open, e)
					}
				}
				if len(open) == 0 {
					break
				}
				e := open[o.A%len(open)]
				st := c14RegStates[o.S%len(c14RegStates)]
				switch {
				case e.state == connectivity.Ready && st != connectivity.Ready && e.live:
					w.classes["reg-ready-connection-lost"] = true
				case e.state == connectivity.TransientFailure && st == connectivity.Ready:
					w.classes["reg-recovered-after-transient-failure"] = true
				}
				if e.removed {
					w.classes["reg-state-of-a-removed-subconn"] = true
				}
				if st == connectivity.TransientFailure {
					w.classes["reg-transient-failure"] = true
				}
				e.state = st
				ss := balancer.SubConnState{ConnectivityState: st}
				if st == connectivity.TransientFailure {
					ss.ConnectionError = errors.New("connection refused")
				}
				r.bal.UpdateSubConnState(e.sc, ss)
				w.sync(r, what)
			case "reserr":
				r.bal.ResolverError(errors.New("resolver: no such host"))
				w.classes["reg-resolver-error"] = true
				w.sync(r, what)
			case "pick", "burst":
				m := 1
				if o.K == "burst" {
					m = o.M
				}
				if o.P%3 == 0 && r.curSim == nil {
					if r.cur != nil {
						if res, err := r.cur.Pick(balancer.PickInfo{FullMethodName: "/c14/none"}); err == nil {
							w.fail = fmt.Sprintf("balancer #%d, %s: no connection is ready and Pick returned %v without an error", r.idx, what, res.SubConn)
						}
					}
					w.advance(o.D)
					break
				}
				if len(r.sims) == 0 {
					break
				}
				alive := len(r.sims)
				if alive > 3 {
					alive = 3
				}
				s := r.sims[len(r.sims)-1-o.P%alive]
				if s != r.curSim {
					w.classes["pick-through-older-picker"] = true
				}
				for i := 0; i < m && !w.failedAny(); i++ {
					s.pick(o.J, (i+o.C)%3 != 0 == o.B, o.C+i)
					w.advance(o.D)
				}
			case "adv":
				w.advance(o.D)
			}
			if w.failedAny() {
				return
			}
			check(what)
		}
		// gRPC shuts the SubConns down when the ClientConn closes; calls still complete
		for _, r := range w.bals {
			for len(r.toShut) > 0 && !w.failedAny() {
				e := r.toShut[0]
				r.toShut = r.toShut[1:]
				shut(r, e)
				w.sync(r, "at the end (SHUTDOWN delivered)")
			}
			r.bal.Close()
			if r.cc.health {
				w.classes["reg-health-check-enabled"] = true
			}
		}
		for !w.failedAny() {
			far := int64(-1)
			for _, s := range w.sims {
				for _, ev := range s.pend {
					if ev.due > far {
						far = ev.due
					}
				}
			}
			if far < 0 {
				break
			}
			w.advance(far - int64(time.Since(w.base)) + 1)
		}
		if w.failedAny() {
			return
		}
		check("after the last completion")
		for _, s := range w.sims {
			for i, cn := range s.recs {
				if inf := atomic.LoadInt64(&cn.inflight); inf != 0 && s.fail == "" {
					s.violation("inflight", i, "picker #%d: every call of every picker completed but inflight=%d (picks through this picker %d, completions %d; over all pickers %d / %d)",
						s.idx, inf, s.picks[i], s.dones[i], w.picks[s.gid[i]], w.dones[s.gid[i]])
				}
			}
		}
		if len(w.sims) >= 2 {
			w.classes["pickers>=2"] = true
		}
	})
	if w == nil {
		return kit.Verdict{Fail: "bubble: " + res.String()}
	}
	v.Fail = w.fail
	for _, s := range w.sims {
		for k := range s.classes {
			w.classes[k] = true
		}
		if s.fail != "" && v.Fail == "" {
			v.Fail = fmt.Sprintf("picker #%d (ready set %v): %s", s.idx, s.gid, s.fail)
		}
	}
	for k := range w.classes {
		v.Classes = append(v.Classes, k)
	}
	sort.Strings(v.Classes)
	v.NonTrivial = w.changed
	if v.Fail == "" && !res.OK() {
		v.Fail = "bubble: " + res.String()
	}
	return v
}

func c14RegGen(rt *rapid.T) c14RegCase {
	c := c14RegCase{
		Pool: rapid.IntRange(1, 6).Draw(rt, "pool"),
		Pre:  rapid.Int64Range(0, c14Sec).Draw(rt, "pre"),
		Form: rapid.IntRange(0, 3).Draw(rt, "form"),
		Twin: rapid.IntRange(0, 3).Draw(rt, "twin") == 0,
	}
	c.Conns = c14GenConns(rt, c.Pool)
	ids := make([]int, c.Pool)
	for i := range ids {
		ids[i] = i
	}
	nb := 1
	if c.Twin {
		nb = 2
	}
	resolve := func(w int, first bool) c14RegOp {
		perm := rapid.Permutation(ids).Draw(rt, "perm")
		lo := 0
		if first {
			lo = 1
		}
		k := rapid.IntRange(lo, c.Pool).Draw(rt, "k")
		if !first && k > 0 && rapid.IntRange(0, 2).Draw(rt, "full") == 0 {
			k = c.Pool
		}
		return c14RegOp{K: "resolve", W: w, Set: append([]int(nil), perm[:k]...), B: rapid.Bool().Draw(rt, "shutnow")}
	}
	// start-up as a client does it: resolve, then the connections come up
	for b := 0; b < nb; b++ {
		o := resolve(b, true)
		c.Ops = append(c.Ops, o)
		for i := range o.Set {
			c.Ops = append(c.Ops, c14RegOp{K: "state", W: b, A: i, S: 1})
			if rapid.IntRange(0, 4).Draw(rt, "up") != 0 {
				c.Ops = append(c.Ops, c14RegOp{K: "state", W: b, A: i, S: 2})
			}
		}
	}
	n := rapid.IntRange(2, 80).Draw(rt, "nops")
	century := false
	for i := 0; i < n; i++ {
		k := rapid.SampledFrom([]string{"pick", "pick", "pick", "pick", "burst", "adv", "adv", "state", "state", "state", "state", "resolve", "shut", "reserr"}).Draw(rt, "k")
		o := c14RegOp{K: k}
		if nb == 2 {
			o.W = rapid.IntRange(0, 1).Draw(rt, "w")
		}
		switch k {
		case "resolve":
			o = resolve(o.W, false)
		case "state":
			o.A = rapid.IntRange(0, 15).Draw(rt, "a")
			o.S = rapid.SampledFrom([]int{0, 1, 2, 2, 2, 2, 3}).Draw(rt, "s")
		case "pick", "burst":
			o.P = rapid.SampledFrom([]int{0, 0, 0, 1, 2}).Draw(rt, "p")
			o.J = rapid.IntRange(0, 32).Draw(rt, "j")
			o.C = rapid.IntRange(0, 79).Draw(rt, "c")
			o.B = rapid.Bool().Draw(rt, "b")
			if k == "burst" {
				o.D = rapid.SampledFrom(c14Gaps).Draw(rt, "gap")
				o.M = rapid.IntRange(2, 12).Draw(rt, "m")
			}
		case "adv":
			o.D, _ = c14GenAdv(rt, &century)
		}
		c.Ops = append(c.Ops, o)
	}
	return c
}

func TestVerif_C14_registered(t *testing.T) {
	kit.Run(t, "C14", "registered", kit.Opts{Quick: 2000, Thorough: 64000}, c14RegGen,
		func(c c14RegCase) kit.Verdict { return c14Registered(t, c) })
}
