package p2c

// C14 — P2C balancer picks ready backends, tracks health correctly, starves none.
// Harness injected by /verif (overlay); see /verif/DESIGN.md "C14".
//
// Every oracle below is written from the property statement:
//   membership       every pick returns one of the ready connections
//   inflight         inflight(conn) == picks(conn) - completions(conn) after every op
//   score-range      0 <= success <= 1000
//   score-direction  acceptable completion: score does not decrease; unacceptable: does not increase
//   lag-bounds       min observed latency <= lag <= max observed latency (after the 1st completion)
//   unhealthy-bound  all-failing completions spaced >= d apart: score <= 500 after ceil(ln2/(d/10s)) of them
//   regain           acceptable completions spaced >= d >= 1s apart: score > 500 after ceil(ln2.05/(d/10s)) of them
//   preference       n >= 3, one unhealthy backend, healthy alternatives: its share < 0.75 x the smallest healthy share
//   starvation       picks every D for >= 5s: no connection goes unpicked for more than 1s + (K+2)*D
//
// The interpreter is single threaded (an event loop over virtual time) except for
// the "par" episodes, so a case is a pure function of its data: the picker's PRNG
// is seeded from the virtual clock and the logical connection index is the
// position in p2cPicker.conns (map iteration order in Build does not matter
// because the fake SubConns are indistinguishable until they are picked).

import (
	"container/heap"
	"context"
	"errors"
	"fmt"
	"io"
	"math"
	"os"
	"sort"
	"strings"
	"sync"
	"sync/atomic"
	"testing"
	"time"

	"github.com/gotid/god/lib/logx"
	"google.golang.org/grpc/balancer"
	"google.golang.org/grpc/balancer/base"
	grpccodes "google.golang.org/grpc/codes"
	"google.golang.org/grpc/metadata"
	"google.golang.org/grpc/resolver"
	"google.golang.org/grpc/status"
	"pgregory.net/rapid"
	"verif.local/kit"
)

const (
	// c14Known (fixed in /repo 64b0744): the success EWMA was computed as o*w + s*(1-2) instead of
	// o*w + s*(1-w). The two expressions differ exactly when s != 0, i.e. on an
	// acceptable completion; hence the predicate "the connection whose score
	// breaks a score rule has had at least one acceptable completion".
	c14Known = "success-ewma-weight"

	c14Sec       = int64(time.Second)
	c14Decay     = 10 * c14Sec // statement: weight w = exp(-td/decay), decay 10 s (DESIGN oracle)
	c14ScoreMax  = 1000
	c14Healthy   = 500
	c14AlphaCase = 1e-13 // false-alarm budget of one statistical case
)

func init() {
	logx.Disable()
	// bin/check always overwrites VERIF_KNOWN; a private known-findings file for
	// development runs is therefore passed as VERIF_KNOWN_C14 (kit reads
	// VERIF_KNOWN lazily, after package initialisation).
	if p := os.Getenv("VERIF_KNOWN_C14"); p != "" {
		_ = os.Setenv("VERIF_KNOWN", p)
	}
}

// ---------------------------------------------------------------------------
// environment: fake SubConns, error codes

type c14SubConn struct{ id int }

func (*c14SubConn) UpdateAddresses([]resolver.Address) {}
func (*c14SubConn) Connect()                           {}

// Written from rpc/internal/codes/accept.go's contract as quoted by the property
// anchors (DeadlineExceeded, Internal, Unavailable, DataLoss, Unimplemented are
// the unacceptable ones); the harness never calls codes.Acceptable.
var (
	c14Acceptable = []error{
		nil, nil, nil,
		status.Error(grpccodes.Canceled, "x"), status.Error(grpccodes.Unknown, "x"),
		status.Error(grpccodes.InvalidArgument, "x"), status.Error(grpccodes.NotFound, "x"),
		status.Error(grpccodes.AlreadyExists, "x"), status.Error(grpccodes.PermissionDenied, "x"),
		status.Error(grpccodes.ResourceExhausted, "x"), status.Error(grpccodes.FailedPrecondition, "x"),
		status.Error(grpccodes.Aborted, "x"), status.Error(grpccodes.OutOfRange, "x"),
		status.Error(grpccodes.Unauthenticated, "x"), errors.New("plain error"),
		c14StatusErr{grpccodes.NotFound}, &c14StatusErr{grpccodes.ResourceExhausted},
	}
	c14Unacceptable = []error{
		status.Error(grpccodes.Unavailable, "x"), status.Error(grpccodes.DeadlineExceeded, "x"),
		status.Error(grpccodes.Internal, "x"), status.Error(grpccodes.DataLoss, "x"),
		status.Error(grpccodes.Unimplemented, "x"),
		c14StatusErr{grpccodes.Unavailable}, &c14StatusErr{grpccodes.Internal},
	}
)

// c14DoneInfo builds the completion report. The statement's score and health clauses
// depend only on whether the completion is acceptable; every other field of
// balancer.DoneInfo is a generated dimension (real gRPC reports a status returned by
// the server with BytesSent = BytesReceived = true and usually a trailer):
// sel modulo the list length selects the error, bits 0..3 of sel select BytesSent, BytesReceived,
// a non-empty Trailer and a ServerLoad value; sel ranges over 0..79 (lcm(5,16)).
func c14DoneInfo(ok bool, sel int) balancer.DoneInfo {
	if sel < 0 {
		sel = -sel
	}
	di := balancer.DoneInfo{Err: c14Err(ok, sel), BytesSent: sel&1 != 0, BytesReceived: sel&2 != 0}
	if sel&4 != 0 {
		di.Trailer = metadata.Pairs("grpc-status-details-bin", "x", "k", "v")
	}
	if sel&8 != 0 {
		di.ServerLoad = &struct{ CPU float64 }{0.5}
	}
	return di
}

// c14PickInfo: the forms of balancer.PickInfo a caller can legally hand to Pick. The
// statement ("every pick returns one of the ready connections") does not depend on
// the call's context or method name.
var (
	c14Methods = []string{"/", "", "/mock.DepositService/Deposit", "/%s/%d%!", "/\xff\x00/é", "/" + strings.Repeat("m", 4096)}
	c14Expired = func() context.Context {
		ctx, cancel := context.WithDeadline(context.Background(), time.Unix(0, 0))
		cancel()
		return ctx
	}()
	c14Cancelled = func() context.Context {
		ctx, cancel := context.WithCancel(context.Background())
		cancel()
		return ctx
	}()
)

// plain: only the forms that cost nothing (hot loops of the statistical rules and the
// concurrent episodes): background, already cancelled, nil.
func c14PickInfo(sel int, plain bool) (balancer.PickInfo, string) {
	if sel < 0 {
		sel = -sel
	}
	pi := balancer.PickInfo{FullMethodName: c14Methods[(sel/7)%len(c14Methods)]}
	form := "ctx-background"
	kind := sel % 7
	if plain && kind != 1 && kind != 4 {
		kind = 0
	}
	switch kind {
	case 1:
		pi.Ctx, form = c14Cancelled, "ctx-cancelled"
	case 2:
		pi.Ctx, form = c14Expired, "ctx-expired"
	case 3:
		if (sel/7)%4 != 0 { // a live timer per pick is expensive: one expiring context in four
			pi.Ctx = context.Background()
			break
		}
		ctx, cancel := context.WithTimeout(context.Background(), time.Millisecond) // expires while the call is in flight
		_ = cancel
		pi.Ctx, form = ctx, "ctx-expiring"
	case 4:
		form = "ctx-nil"
	case 5:
		pi.Ctx, form = metadata.AppendToOutgoingContext(context.Background(), "k", "v"), "ctx-with-metadata"
	default:
		pi.Ctx = context.Background()
	}
	return pi, form
}

// c14StatusErr: an error type of the caller's own that carries a gRPC status.
type c14StatusErr struct{ c grpccodes.Code }

func (e c14StatusErr) Error() string              { return "custom: " + e.c.String() }
func (e c14StatusErr) GRPCStatus() *status.Status { return status.New(e.c, "custom") }

// c14Unspecified: error values whose acceptability the statement leaves open (a wrapped
// status error, std sentinels): completions reporting them are judged for range,
// inflight and lag only.
var c14Unspecified = []error{
	fmt.Errorf("wrapped: %w", status.Error(grpccodes.Unavailable, "x")),
	fmt.Errorf("wrapped: %w", status.Error(grpccodes.NotFound, "x")),
	context.DeadlineExceeded, context.Canceled, io.EOF, io.ErrUnexpectedEOF,
}

func c14Err(ok bool, sel int) error {
	if sel < 0 {
		sel = -sel
	}
	if ok {
		return c14Acceptable[sel%len(c14Acceptable)]
	}
	return c14Unacceptable[sel%len(c14Unacceptable)]
}

// ---------------------------------------------------------------------------
// case data

type c14Conn struct {
	Lat  int64  `json:"lat"`         // base latency, ns
	Mode string `json:"m"`           // ok fail mixed recover degrade
	T    int64  `json:"t,omitempty"` // recover/degrade: switch instant (ns after Build)
}

type c14Op struct {
	K string `json:"k"`           // pick adv burst par gate rel
	J int    `json:"j,omitempty"` // latency = Lat*J/8 (0: completed at the instant of the pick)
	C int    `json:"c,omitempty"` // error code selector
	B bool   `json:"b,omitempty"` // mixed mode: acceptable?
	D int64  `json:"d,omitempty"` // adv: duration; burst: interval
	M int    `json:"n,omitempty"` // burst: picks; par: picks per goroutine
	G int    `json:"g,omitempty"` // par: goroutines
}

type c14Case struct {
	N     int       `json:"n"`
	Pre   int64     `json:"pre"` // virtual ns slept before Build: seeds the picker's PRNG
	Conns []c14Conn `json:"conns"`
	Ops   []c14Op   `json:"ops"`
}

// ---------------------------------------------------------------------------
// simulator shared by all rules

type c14Pend struct {
	due   int64
	seq   int
	conn  int
	start int64
	okSel bool // mixed mode decision
	sel   int
	gate  bool // reported with an error value whose classification blocks until released
	done  func(balancer.DoneInfo)
}

// c14GateErr: a completion error whose gRPC status is produced lazily — GRPCStatus()
// blocks until the harness releases it (a lock, a log call, lazy status construction in
// the caller's error type). While one completion of a connection is classifying such a
// value, other completions of the same connection start and finish.
type c14GateErr struct {
	code    grpccodes.Code
	release chan struct{}
}

func (e *c14GateErr) Error() string { return "c14: status not built yet" }
func (e *c14GateErr) GRPCStatus() *status.Status {
	<-e.release
	return status.New(e.code, "gated")
}

type c14Gated struct {
	conn   int
	ok     bool
	err    *c14GateErr
	fin    chan struct{}
	start  int64 // instant of the pick
	t0     int64 // instant Done was called
	others int   // completions of the same connection reported at a later instant while this one was classifying
}

type c14Heap []c14Pend

func (h c14Heap) Len() int { return len(h) }
func (h c14Heap) Less(i, j int) bool {
	if h[i].due != h[j].due {
		return h[i].due < h[j].due
	}
	return h[i].seq < h[j].seq
}
func (h c14Heap) Swap(i, j int) { h[i], h[j] = h[j], h[i] }
func (h *c14Heap) Push(x any)   { *h = append(*h, x.(c14Pend)) }
func (h *c14Heap) Pop() any {
	o := *h
	x := o[len(o)-1]
	*h = o[:len(o)-1]
	return x
}

type c14Sim struct {
	base   time.Time
	picker balancer.Picker
	p      *p2cPicker
	recs   []*subConn // the picker's records as of Build
	gid    []int      // id of the SubConn at each position
	w      *c14World  // nil: the picker is alone in its case
	n      int
	pos    map[balancer.SubConn]int
	conns  []c14Conn
	pend   c14Heap
	seq    int

	picks, dones []int64 // atomics (par episodes)

	mu             sync.Mutex // guards the per-connection observations below during par episodes
	minLat, maxLat []int64
	nDone          []int
	hadOK          []bool
	okMin, okMax   []int64 // instants of acceptable completions (min, max); -1: none
	badMin, badMax []int64
	lastDone       []int64 // instant of the latest completion; -1: none
	lastPick       []int64 // instant of the latest pick (starvation rule)
	maxGap         []int64
	badK, okK      []int   // current streak lengths (sequential completions only)
	badD, okD      []int64 // smallest spacing inside the current streak

	gated    []*c14Gated // completions whose Done is still classifying its error, oldest first
	gatedN   []int       // ... per connection
	nextGate bool

	fail      string // first violation
	failKnown bool   // it matches the predicate of the (fixed) finding success-ewma-weight
	classes   map[string]bool
	idx       int // number of the picker inside its world
	trackGaps bool
	plain     bool // hot loops: cheap PickInfo forms only, no unspecified error values
	noScore   bool // preference / starvation rules: the score rules are judged by the history rule only
}

func (s *c14Sim) now() int64 { return int64(time.Since(s.base)) }

func c14NewSim(n int, pre int64, conns []c14Conn) *c14Sim {
	if pre > 0 {
		time.Sleep(time.Duration(pre))
	}
	scs := make([]*c14SubConn, n)
	for i := range scs {
		scs[i] = &c14SubConn{id: i}
	}
	s := c14NewSimOn(new(p2cPickerBuilder), scs, conns)
	s.base = time.Now()
	return s
}

// c14NewSimOn builds a picker for the ready set scs with the given builder (which may
// have built pickers before). The records the picker holds right after Build are
// snapshotted: they are what "this picker's connection" means from then on.
func c14NewSimOn(b *p2cPickerBuilder, scs []*c14SubConn, conns []c14Conn) *c14Sim {
	ready := make(map[balancer.SubConn]base.SubConnInfo, len(scs))
	for _, sc := range scs {
		ready[sc] = base.SubConnInfo{Address: resolver.Address{Addr: fmt.Sprint(sc.id)}}
	}
	return c14Adopt(b.Build(base.PickerBuildInfo{ReadySCs: ready}), scs, conns)
}

// c14Adopt puts a picker under judgement that somebody (the harness through Build, or
// gRPC's base balancer through the registered builder) built for the ready set scs.
func c14Adopt(picker balancer.Picker, scs []*c14SubConn, conns []c14Conn) *c14Sim {
	n := len(scs)
	ready := make(map[balancer.SubConn]bool, n)
	for _, sc := range scs {
		ready[sc] = true
	}
	s := &c14Sim{n: n, conns: conns, classes: map[string]bool{}, pos: map[balancer.SubConn]int{}}
	s.picker = picker
	s.base = time.Now()
	p, ok := s.picker.(*p2cPicker)
	if !ok {
		s.fail = fmt.Sprintf("Build returned %T for %d ready connections", s.picker, n)
		return s
	}
	s.p = p
	if len(p.conns) != n {
		s.fail = fmt.Sprintf("picker holds %d connections, %d are ready", len(p.conns), n)
		return s
	}
	s.recs = append([]*subConn(nil), p.conns...)
	s.gid = make([]int, n)
	for i, c := range s.recs {
		if _, in := ready[c.conn]; !in {
			s.fail = "picker holds a connection that is not ready"
			return s
		}
		s.pos[c.conn] = i
		s.gid[i] = c.conn.(*c14SubConn).id
	}
	if len(s.pos) != n {
		s.fail = "picker holds a ready connection twice"
		return s
	}
	mk := func(v int64) []int64 {
		a := make([]int64, n)
		for i := range a {
			a[i] = v
		}
		return a
	}
	s.picks, s.dones = mk(0), mk(0)
	s.minLat, s.maxLat = mk(0), mk(0)
	s.okMin, s.okMax, s.badMin, s.badMax = mk(-1), mk(-1), mk(-1), mk(-1)
	s.lastDone, s.lastPick, s.maxGap = mk(-1), mk(0), mk(0)
	s.badD, s.okD = mk(0), mk(0)
	s.nDone, s.badK, s.okK = make([]int, n), make([]int, n), make([]int, n)
	s.hadOK = make([]bool, n)
	s.gatedN = make([]int, n)
	return s
}

func (s *c14Sim) score(i int) uint64 { return atomic.LoadUint64(&s.recs[i].success) }

// violation files a broken rule. While the finding success-ewma-weight was open (before
// /repo 64b0744) score rules broken on a connection that had had an acceptable completion
// were reported under that known predicate; the predicate is still attached to such
// failures (fixed entries of known_findings.txt suppress nothing) but no longer lets
// the case continue.
func (s *c14Sim) violation(rule string, conn int, format string, args ...any) {
	msg := fmt.Sprintf("%s: conn %d at t=%dns: ", rule, conn, s.now()) + fmt.Sprintf(format, args...)
	scoreRule := rule == "score-range" || rule == "score-direction" || rule == "unhealthy-bound" || rule == "regain" || rule == "progress-window"
	if s.noScore && scoreRule {
		return
	}
	if s.fail == "" {
		s.fail = msg
		s.failKnown = scoreRule && rule != "progress-window" && conn >= 0 && s.hadOK[conn]
	}
}

// invariants holds after every operation at a quiescent point.
func (s *c14Sim) invariants(what string) {
	// inflight: per picker (picks made through this picker minus their completions) or,
	// for an implementation that shares one record per connection between pickers of
	// the same builder, per connection over all pickers — one of the two for ALL records.
	local, global := true, s.w != nil
	for i, c := range s.recs {
		inf := atomic.LoadInt64(&c.inflight)
		// a completion whose Done has been called and has not returned yet may or may not be counted
		if want := atomic.LoadInt64(&s.picks[i]) - atomic.LoadInt64(&s.dones[i]); inf > want || inf < want-int64(s.gatedN[i]) {
			local = false
		}
		if s.w != nil && inf != s.w.picks[s.gid[i]]-s.w.dones[s.gid[i]] {
			global = false
		}
	}
	for i, c := range s.recs {
		if !local && !global {
			inf := atomic.LoadInt64(&c.inflight)
			pk, dn := atomic.LoadInt64(&s.picks[i]), atomic.LoadInt64(&s.dones[i])
			if inf > pk-dn || inf < pk-dn-int64(s.gatedN[i]) {
				extra := ""
				if s.w != nil {
					extra = fmt.Sprintf(" (picker #%d; over all pickers of the builder: picks=%d completions=%d)", s.idx, s.w.picks[s.gid[i]], s.w.dones[s.gid[i]])
				}
				s.violation("inflight", i, "%s: inflight=%d, picks=%d completions=%d%s", what, inf, pk, dn, extra)
			}
		}
		if sc := s.score(i); sc > c14ScoreMax {
			s.violation("score-range", i, "%s: success=%d outside [0,1000]", what, sc)
		}
		s.checkLag(i, what)
	}
}

func (s *c14Sim) checkLag(i int, what string) {
	if s.nDone[i] == 0 {
		return
	}
	lag := int64(atomic.LoadUint64(&s.recs[i].lag))
	// integer truncation of the estimate loses < 1 ns per completion
	tol := int64(s.nDone[i])
	lo, hi := s.minLat[i], s.maxLat[i]
	if s.w != nil { // an estimate carried over a rebuild may remember what earlier pickers observed
		g := s.gid[i]
		lo, hi, tol = s.w.minLat[g], s.w.maxLat[g], s.w.nDone[g]
	}
	ftol := hi >> 48 // float64 rounding of estimates beyond 2^48 ns (3 days)
	if lag < lo-tol-ftol || lag > hi+ftol || lag < 0 {
		s.violation("lag-bounds", i, "%s: lag=%d outside observed latencies [%d,%d] (tolerance %d ns)", what, lag, lo, hi, tol)
	}
}

// observe records a completion that is about to be reported (harness side).
func (s *c14Sim) observe(i int, lat, now int64, ok bool) {
	kind := 0
	if ok {
		kind = 1
	}
	s.observeKind(i, lat, now, kind)
}

// observeKind: kind 0 unacceptable, 1 acceptable, 2 unspecified (latency only).
func (s *c14Sim) observeKind(i int, lat, now int64, kind int) {
	ok := kind == 1
	if w := s.w; w != nil {
		g := s.gid[i]
		if w.nDone[g] == 0 || lat < w.minLat[g] {
			w.minLat[g] = lat
		}
		if w.nDone[g] == 0 || lat > w.maxLat[g] {
			w.maxLat[g] = lat
		}
		w.nDone[g]++
	}
	if s.nDone[i] == 0 || lat < s.minLat[i] {
		s.minLat[i] = lat
	}
	if s.nDone[i] == 0 || lat > s.maxLat[i] {
		s.maxLat[i] = lat
	}
	s.nDone[i]++
	if kind == 2 {
		return
	}
	if ok {
		s.hadOK[i] = true
		if s.okMin[i] < 0 || now < s.okMin[i] {
			s.okMin[i] = now
		}
		if now > s.okMax[i] {
			s.okMax[i] = now
		}
	} else {
		if s.badMin[i] < 0 || now < s.badMin[i] {
			s.badMin[i] = now
		}
		if now > s.badMax[i] {
			s.badMax[i] = now
		}
	}
}

func (s *c14Sim) decide(i int, now int64, okSel bool) bool {
	c := s.conns[i%len(s.conns)]
	switch c.Mode {
	case "ok":
		return true
	case "fail":
		return false
	case "recover":
		return now >= c.T
	case "degrade":
		return now < c.T
	}
	return okSel
}

// pick performs one Pick and schedules its completion lat(conn) later.
func (s *c14Sim) pick(j int, okSel bool, sel int) int {
	pi, form := c14PickInfo(sel, s.plain)
	s.classes[form] = true
	res, err := s.picker.Pick(pi)
	now := s.now()
	if err != nil {
		s.violation("membership", -1, "Pick failed with %v although %d connections are ready", err, s.n)
		return -1
	}
	i, ok := s.pos[res.SubConn]
	if !ok {
		s.violation("membership", -1, "Pick returned %v which is not one of the ready connections", res.SubConn)
		return -1
	}
	if res.Done == nil {
		s.violation("inflight", i, "Pick returned no Done callback: the call can never be completed")
		return -1
	}
	atomic.AddInt64(&s.picks[i], 1)
	if s.w != nil {
		s.w.picks[s.gid[i]]++
	}
	if s.trackGaps {
		if g := now - s.lastPick[i]; g > s.maxGap[i] {
			s.maxGap[i] = g
		}
		s.lastPick[i] = now
	}
	lat := s.conns[i%len(s.conns)].Lat * int64(j) / 8
	s.seq++
	heap.Push(&s.pend, c14Pend{due: now + lat, seq: s.seq, conn: i, start: now, okSel: okSel, sel: sel, gate: s.nextGate, done: res.Done})
	return i
}

// complete reports one pending call and checks the per-completion rules.
func (s *c14Sim) complete(ev c14Pend) {
	if ev.gate {
		s.gateStart(ev)
		return
	}
	i, now := ev.conn, s.now()
	for _, g := range s.gated {
		if g.conn == i && now > g.t0 {
			g.others++
		}
	}
	ok := s.decide(i, now, ev.okSel)
	before := s.score(i)
	td := int64(math.MaxInt64)
	if s.lastDone[i] >= 0 {
		td = now - s.lastDone[i]
	}
	unspec := !s.plain && s.conns[i%len(s.conns)].Mode == "mixed" && ev.sel%20 == 19
	di := c14DoneInfo(ok, ev.sel)
	if unspec {
		di.Err = c14Unspecified[(ev.sel/20)%len(c14Unspecified)]
		s.classes["unspecified-error-value"] = true
		s.observeKind(i, now-ev.start, now, 2)
		ev.done(di)
		atomic.AddInt64(&s.dones[i], 1)
		if s.w != nil {
			s.w.dones[s.gid[i]]++
		}
		s.lastDone[i] = now
		if sc := s.score(i); sc > c14ScoreMax {
			s.violation("score-range", i, "completion with error %v: success %d -> %d outside [0,1000]", di.Err, before, sc)
		}
		s.badK[i], s.okK[i] = 0, 0
		s.checkLag(i, "completion with an unspecified error value")
		return
	}
	s.observe(i, now-ev.start, now, ok)
	if !ok && di.BytesReceived {
		s.classes["failure-with-bytes-received"] = true
	}
	if ok && di.Err != nil && !di.BytesReceived {
		s.classes["acceptable-error-without-bytes-received"] = true
	}
	ev.done(di)
	atomic.AddInt64(&s.dones[i], 1)
	if s.w != nil {
		s.w.dones[s.gid[i]]++
	}
	s.lastDone[i] = now
	after := s.score(i)
	what := fmt.Sprintf("completion #%d (acceptable=%v, latency %dns, %dns after the previous one)", s.nDone[i], ok, now-ev.start, td)
	if td == math.MaxInt64 {
		what = fmt.Sprintf("completion #1 (acceptable=%v, latency %dns)", ok, now-ev.start)
	}

	if after > c14ScoreMax {
		s.violation("score-range", i, "%s: success %d -> %d outside [0,1000]", what, before, after)
	}
	if before <= c14ScoreMax && after <= c14ScoreMax {
		// one unit of slack upwards: o*w + 1000*(1-w) is truncated after floating point rounding
		if ok && after+1 < before {
			s.violation("score-direction", i, "%s: success fell %d -> %d on an acceptable completion", what, before, after)
		}
		if !ok && after > before {
			s.violation("score-direction", i, "%s: success rose %d -> %d on an unacceptable completion", what, before, after)
		}
	} else if ok {
		// out of range scores are filed above; direction is still judged so that the
		// known-finding predicate sees the same connection
		if after < before {
			s.violation("score-direction", i, "%s: success fell %d -> %d on an acceptable completion", what, before, after)
		}
	}
	if td == 0 {
		s.classes["same-instant-completions"] = true
	}
	if ok {
		s.badK[i] = 0
		if s.okK[i] == 0 || td < s.okD[i] {
			s.okD[i] = td
		}
		s.okK[i]++
		if d := s.okD[i]; d >= c14Sec {
			need := int(math.Ceil(math.Log(2.05) * float64(c14Decay) / float64(d)))
			if s.okK[i] >= need {
				s.classes["regain-checked"] = true
				if s.okK[i] > 1 {
					s.classes["regain-checked-multi"] = true
				}
				if after <= c14Healthy {
					s.violation("regain", i, "%s: %d acceptable completions >= %dns apart and success is still %d (<= 500)", what, s.okK[i], d, after)
				}
			}
		}
	} else {
		s.okK[i] = 0
		if s.badK[i] == 0 || td < s.badD[i] {
			s.badD[i] = td
		}
		s.badK[i]++
		if d := s.badD[i]; d > 0 {
			need := math.Ceil(math.Ln2 * float64(c14Decay) / float64(d))
			if float64(s.badK[i]) >= need {
				s.classes["unhealthy-checked"] = true
				if s.badK[i] > 1 {
					s.classes["unhealthy-checked-multi"] = true
				}
				if after > c14Healthy {
					if d == math.MaxInt64 {
						s.violation("unhealthy-bound", i, "%s: the connection's first completion failed (the estimate has no history to weigh against) and success is still %d (> 500)", what, after)
					} else {
						s.violation("unhealthy-bound", i, "%s: %d failing completions >= %dns apart and success is still %d (> 500)", what, s.badK[i], d, after)
					}
				}
			}
		}
	}
	s.checkLag(i, what)
}

// advance moves virtual time forward by d, reporting the completions that fall due.
func (s *c14Sim) advance(d int64) {
	target := s.now() + d
	for len(s.pend) > 0 && s.pend[0].due <= target && s.fail == "" {
		if w := s.pend[0].due - s.now(); w > 0 {
			time.Sleep(time.Duration(w))
		}
		s.complete(heap.Pop(&s.pend).(c14Pend))
	}
	if w := target - s.now(); w > 0 {
		time.Sleep(time.Duration(w))
	}
}

func (s *c14Sim) drain() {
	for len(s.pend) > 0 && s.fail == "" {
		if w := s.pend[0].due - s.now(); w > 0 {
			time.Sleep(time.Duration(w))
		}
		s.complete(heap.Pop(&s.pend).(c14Pend))
	}
}

// gateStart reports a completion whose error value blocks in GRPCStatus(): Done runs in
// its own goroutine and the event loop goes on once it is durably blocked there.
//
// What the statement determines for such a completion (whatever the order in which an
// implementation reads its estimates): it cannot move the score before its error has
// been classified, and when it does the score must move towards 0 (unacceptable) or
// towards 1000 (acceptable) RELATIVE TO THE SCORE AS IT IS THEN — completions of the
// same connection that finished in the meantime must not be undone. The harness
// releases one blocked classification at a time and reports nothing else until that
// Done has returned, so "the score as it is then" is the value read just before the
// release. The in-flight count may or may not include the call while its Done is
// running; its latency is T(Done called) - T(pick) (or up to T(released) - T(pick) for an
// implementation that reads the clock after classifying).
func (s *c14Sim) gateStart(ev c14Pend) {
	i, now := ev.conn, s.now()
	ok := s.decide(i, now, ev.okSel)
	code := []grpccodes.Code{grpccodes.Unavailable, grpccodes.DeadlineExceeded, grpccodes.Internal, grpccodes.DataLoss, grpccodes.Unimplemented}[ev.sel%5]
	if ok {
		code = []grpccodes.Code{grpccodes.NotFound, grpccodes.Canceled, grpccodes.ResourceExhausted, grpccodes.Unknown}[ev.sel%4]
	}
	g := &c14Gated{conn: i, ok: ok, err: &c14GateErr{code: code, release: make(chan struct{})}, fin: make(chan struct{}), start: ev.start, t0: now}
	before := s.score(i)
	s.observeKind(i, now-ev.start, now, 2)
	di := c14DoneInfo(ok, ev.sel)
	di.Err = g.err
	go func() {
		ev.done(di)
		close(g.fin)
	}()
	kit.Wait()
	s.lastDone[i] = now
	s.badK[i], s.okK[i] = 0, 0
	select {
	case <-g.fin: // the implementation did not ask for the status: an ordinary completion
		atomic.AddInt64(&s.dones[i], 1)
		s.classes["slow-error-not-classified"] = true
		s.judgeGated(g, before, "completion with a lazily built status (never asked for)")
		return
	default:
	}
	s.gated = append(s.gated, g)
	s.gatedN[i]++
	s.classes["slow-error-classification"] = true
	if sc := s.score(i); sc != before {
		s.violation("score-direction", i, "a completion whose error has not been classified yet moved the score %d -> %d", before, sc)
	}
}

func (s *c14Sim) judgeGated(g *c14Gated, before uint64, what string) {
	i, after := g.conn, s.score(g.conn)
	switch {
	case after > c14ScoreMax:
		s.violation("score-range", i, "%s: success %d -> %d outside [0,1000]", what, before, after)
	case before > c14ScoreMax:
	case !g.ok && after > before:
		s.violation("score-direction", i, "%s: success rose %d -> %d on an unacceptable completion (%d other completions of the connection finished while it was classifying its error)", what, before, after, g.others)
	case g.ok && after+1 < before:
		s.violation("score-direction", i, "%s: success fell %d -> %d on an acceptable completion (%d other completions of the connection finished while it was classifying its error)", what, before, after, g.others)
	}
	s.checkLag(i, what)
}

// gateRelease lets the oldest blocked classification finish and waits for its Done.
func (s *c14Sim) gateRelease() {
	if len(s.gated) == 0 {
		return
	}
	g := s.gated[0]
	s.gated = s.gated[1:]
	i, now := g.conn, s.now()
	if lat := now - g.start; lat > s.maxLat[i] {
		s.maxLat[i] = lat
	}
	before := s.score(i)
	close(g.err.release)
	<-g.fin
	s.gatedN[i]--
	atomic.AddInt64(&s.dones[i], 1)
	s.badK[i], s.okK[i] = 0, 0
	if g.others > 0 {
		s.classes["slow-classification-overlapped-by-later-completions"] = true
	}
	s.judgeGated(g, before, fmt.Sprintf("completion (acceptable=%v) whose error took %dns to classify", g.ok, now-g.t0))
}

// par: G concurrent callers starting at the same instant, M calls each.
func (s *c14Sim) par(o c14Op) {
	var wg sync.WaitGroup
	var bad atomic.Value
	for g := 0; g < o.G; g++ {
		wg.Add(1)
		go func(g int) {
			defer wg.Done()
			for m := 0; m < o.M; m++ {
				pi, _ := c14PickInfo(o.C+g+4*m, true)
				res, err := s.picker.Pick(pi)
				if err != nil {
					bad.Store(fmt.Sprintf("Pick failed with %v", err))
					return
				}
				i, in := s.pos[res.SubConn]
				if !in || res.Done == nil {
					bad.Store("Pick returned a connection that is not ready (or no Done callback)")
					return
				}
				atomic.AddInt64(&s.picks[i], 1)
				start := s.now()
				if lat := s.conns[i%len(s.conns)].Lat * int64(o.J) / 8; lat > 0 {
					time.Sleep(time.Duration(lat))
				}
				now := s.now()
				ok := s.decide(i, now, (g+m+o.C)%2 == 0 == o.B)
				s.mu.Lock()
				s.observe(i, now-start, now, ok)
				if now > s.lastDone[i] {
					s.lastDone[i] = now
				}
				s.mu.Unlock()
				res.Done(c14DoneInfo(ok, o.C+g+4*m))
				atomic.AddInt64(&s.dones[i], 1)
			}
		}(g)
	}
	wg.Wait()
	if m, _ := bad.Load().(string); m != "" {
		s.violation("membership", -1, "concurrent callers: %s", m)
	}
	for i := 0; i < s.n; i++ { // completion order inside the episode is unknown: streaks restart
		s.badK[i], s.okK[i] = 0, 0
	}
}

func (s *c14Sim) verdict(v kit.Verdict) kit.Verdict {
	for k := range s.classes {
		v.Classes = append(v.Classes, k)
	}
	sort.Strings(v.Classes)
	if s.fail != "" {
		v.Fail = s.fail
		if s.failKnown {
			v.Known = c14Known
		}
	}
	return v
}

// ---------------------------------------------------------------------------
// rule 1: generated histories

func c14History(t *testing.T, c c14Case) (v kit.Verdict) {
	var s *c14Sim
	res := kit.Bubble(t, func() {
		s = c14NewSim(c.N, c.Pre, c.Conns)
		if s.fail != "" {
			return
		}
		defer func() { // a failed case must not leave Done goroutines blocked in the bubble
			for _, g := range s.gated {
				close(g.err.release)
				<-g.fin
			}
			s.gated = nil
		}()
		s.invariants("after Build")
		for k, o := range c.Ops {
			if s.fail != "" {
				return
			}
			what := fmt.Sprintf("after op %d %+v", k, o)
			switch o.K {
			case "pick":
				s.pick(o.J, o.B, o.C)
				s.advance(0)
			case "gate":
				s.nextGate = true
				s.pick(o.J, o.B, o.C)
				s.nextGate = false
				s.advance(0)
			case "rel":
				s.gateRelease()
			case "adv":
				s.advance(o.D)
				switch {
				case o.D >= c14Hour:
					s.classes["adv-huge"] = true
				case o.D >= c14Sec-1 && o.D <= 60*c14Sec+1 && (o.D+1)%c14Sec <= 2:
					s.classes["adv-constant+-1ns"] = true
				}
			case "burst":
				for m := 0; m < o.M && s.fail == ""; m++ {
					s.pick(o.J, (m+o.C)%3 != 0 == o.B, o.C+m)
					s.advance(o.D)
					s.invariants(what)
				}
				s.classes["burst"] = true
			case "par":
				s.par(o)
				s.classes["par"] = true
			}
			if len(s.pend) > 1 {
				s.classes["several-inflight"] = true
			}
			s.invariants(what)
		}
		s.drain()
		for len(s.gated) > 0 && s.fail == "" {
			s.gateRelease()
		}
		s.invariants("after the last completion")
		for i, cn := range s.recs {
			if inf := atomic.LoadInt64(&cn.inflight); inf != 0 && s.fail == "" {
				s.violation("inflight", i, "every call completed but inflight=%d", inf)
			}
		}
	})
	if s == nil {
		return kit.Verdict{Fail: "bubble: " + res.String()}
	}
	both := 0
	for i := 0; i < s.n; i++ {
		if s.okMin[i] >= 0 && s.badMin[i] >= 0 &&
			!(s.okMin[i] == s.okMax[i] && s.badMin[i] == s.badMax[i] && s.okMin[i] == s.badMin[i]) {
			both++
		}
		if s.nDone[i] > 0 && s.maxLat[i] == 0 {
			s.classes["zero-latency-only"] = true
		}
	}
	v.NonTrivial = both >= 2
	switch {
	case c.N == 1:
		s.classes["n=1"] = true
	case c.N == 2:
		s.classes["n=2"] = true
	case c.N > 6:
		s.classes["n>=7"] = true
		if c.N >= 100 {
			s.classes["n>=100"] = true
		}
	default:
		s.classes["n>=3"] = true
	}
	if both >= 1 {
		s.classes["mixed-outcomes-on-a-conn"] = true
	}
	v = s.verdict(v)
	if v.Fail == "" && !res.OK() {
		v.Fail = "bubble: " + res.String()
	}
	return v
}

var (
	c14Lats  = []int64{1000, 100_000, 1_000_000, 10_000_000, 100_000_000, c14Sec, 30 * c14Sec, 3600 * c14Sec, 30 * 86400 * c14Sec}
	c14Modes = []string{"ok", "fail", "mixed", "mixed", "recover", "degrade"}
	c14Units = []int64{1, 1000, 1_000_000, 10_000_000, 100_000_000, c14Sec, c14Sec, 7 * c14Sec, 60 * c14Sec}
	c14Gaps  = []int64{100_000, 1_000_000, 10_000_000, 100_000_000, 500_000_000, c14Sec, 2 * c14Sec, 3 * c14Sec}
)

// c14Exact: the code's own constants (force-pick 1 s, decay 10 s, log interval 1 min) +-1 ns.
var c14Exact = []int64{c14Sec - 1, c14Sec, c14Sec + 1, 10*c14Sec - 1, 10 * c14Sec, 10*c14Sec + 1, 60*c14Sec - 1, 60 * c14Sec, 60*c14Sec + 1}

const (
	c14Hour    = 3600 * c14Sec
	c14Month   = 30 * 86400 * c14Sec
	c14Century = 36525 * 86400 * c14Sec
)

// c14GenAdv draws an advance: unit x 1..9, one of the code's constants +-1 ns, or a
// huge gap (1 h, 30 days; 100 years at most once per case so that the virtual clock
// stays inside time.Duration).
func c14GenAdv(rt *rapid.T, century *bool) (int64, string) {
	switch rapid.IntRange(0, 19).Draw(rt, "advkind") {
	case 0, 1:
		return rapid.SampledFrom(c14Exact).Draw(rt, "exact"), "adv-constant+-1ns"
	case 2:
		d := rapid.SampledFrom([]int64{c14Hour, c14Month, c14Century}).Draw(rt, "huge")
		if d == c14Century {
			if *century {
				d = c14Month
			}
			*century = true
		}
		return d, "adv-huge"
	}
	return rapid.SampledFrom(c14Units).Draw(rt, "unit") * int64(rapid.IntRange(1, 9).Draw(rt, "mul")), ""
}

func c14GenConns(rt *rapid.T, n int) []c14Conn {
	if n > 8 { // larger pickers reuse 8 behaviours by position modulo 8
		n = 8
	}
	conns := make([]c14Conn, n)
	for i := range conns {
		conns[i] = c14Conn{
			Lat:  rapid.SampledFrom(c14Lats).Draw(rt, "lat"),
			Mode: rapid.SampledFrom(c14Modes).Draw(rt, "mode"),
		}
		if conns[i].Mode == "recover" || conns[i].Mode == "degrade" {
			conns[i].T = rapid.SampledFrom([]int64{c14Sec, 5 * c14Sec, 20 * c14Sec, 60 * c14Sec}).Draw(rt, "t")
		}
	}
	return conns
}

func c14Gen(rt *rapid.T) c14Case {
	c := c14Case{
		N:   rapid.SampledFrom([]int{1, 2, 2, 3, 3, 4, 5, 6, 1, 2, 2, 3, 3, 4, 5, 6, 1, 2, 2, 3, 3, 4, 5, 6, 1, 2, 2, 3, 3, 4, 5, 6, 7, 16, 100, 127, 128, 129, 255, 256, 257, 1000}).Draw(rt, "n"),
		Pre: rapid.Int64Range(0, c14Sec).Draw(rt, "pre"),
	}
	c.Conns = c14GenConns(rt, c.N)
	maxOps := 120
	if c.N > 16 {
		maxOps = 40
	}
	nops := rapid.IntRange(1, maxOps).Draw(rt, "nops")
	century := false
	for i := 0; i < nops; i++ {
		k := rapid.SampledFrom([]string{"pick", "pick", "pick", "pick", "adv", "adv", "adv", "burst", "burst", "par", "gate", "rel"}).Draw(rt, "k")
		o := c14Op{K: k}
		switch k {
		case "pick", "gate":
			o.J = rapid.IntRange(0, 32).Draw(rt, "j")
			o.C = rapid.IntRange(0, 79).Draw(rt, "c")
			o.B = rapid.Bool().Draw(rt, "b")
		case "adv":
			o.D, _ = c14GenAdv(rt, &century)
		case "burst":
			o.J = rapid.IntRange(0, 16).Draw(rt, "j")
			o.C = rapid.IntRange(0, 79).Draw(rt, "c")
			o.B = rapid.Bool().Draw(rt, "b")
			o.D = rapid.SampledFrom(c14Gaps).Draw(rt, "gap")
			o.M = rapid.IntRange(2, 24).Draw(rt, "m")
		case "par":
			o.J = rapid.IntRange(0, 8).Draw(rt, "j")
			o.C = rapid.IntRange(0, 79).Draw(rt, "c")
			o.B = rapid.Bool().Draw(rt, "b")
			o.G = rapid.IntRange(2, 8).Draw(rt, "g")
			o.M = rapid.IntRange(1, 6).Draw(rt, "m")
		}
		c.Ops = append(c.Ops, o)
	}
	return c
}

// c14ConcGen: histories dominated by concurrent callers that start at the same
// instant (real parallelism on the picker's atomics), judged at the quiescent
// points between episodes by the same interpreter.
func c14ConcGen(rt *rapid.T) c14Case {
	c := c14Case{
		N:   rapid.SampledFrom([]int{1, 1, 2, 3, 4}).Draw(rt, "n"),
		Pre: rapid.Int64Range(0, c14Sec).Draw(rt, "pre"),
	}
	c.Conns = c14GenConns(rt, c.N)
	for i := range c.Conns {
		c.Conns[i].Lat = rapid.SampledFrom([]int64{8, 1000, 100_000}).Draw(rt, "lat")
	}
	n := rapid.IntRange(1, 4).Draw(rt, "episodes")
	for i := 0; i < n; i++ {
		c.Ops = append(c.Ops, c14Op{K: "par",
			J: rapid.SampledFrom([]int{0, 0, 1, 8}).Draw(rt, "j"),
			C: rapid.IntRange(0, 79).Draw(rt, "c"),
			B: rapid.Bool().Draw(rt, "b"),
			G: rapid.IntRange(4, 16).Draw(rt, "g"),
			M: rapid.IntRange(50, 400).Draw(rt, "m"),
		})
		if rapid.Bool().Draw(rt, "sep") {
			c.Ops = append(c.Ops, c14Op{K: "adv", D: rapid.SampledFrom(c14Units).Draw(rt, "unit")})
		}
	}
	return c
}

func TestVerif_C14_concurrent(t *testing.T) {
	kit.Run(t, "C14", "concurrent", kit.Opts{Quick: 300, Thorough: 8000}, c14ConcGen,
		func(c c14Case) kit.Verdict { return c14History(t, c) })
}

func TestVerif_C14_history(t *testing.T) {
	kit.Run(t, "C14", "history", kit.Opts{Quick: 3000, Thorough: 96000}, c14Gen,
		func(c c14Case) kit.Verdict { return c14History(t, c) })
}

// ---------------------------------------------------------------------------
// rule 2: preference — an unhealthy backend is chosen markedly less often

type c14PrefCase struct {
	N     int   `json:"n"`     // 3..6
	U     int   `json:"u"`     // the failing connection
	Pre   int64 `json:"pre"`   // PRNG seed
	Lat   int64 `json:"lat"`   // equal latency of every backend
	Gap   int64 `json:"gap"`   // pause between a completion and the next pick
	Picks int   `json:"picks"` // measured picks
	UC    int   `json:"uc"`    // error code selectors
	HC    int   `json:"hc"`
}

const c14PrefWarmMax = 60000

func c14Preference(t *testing.T, c c14PrefCase) (v kit.Verdict) {
	var s *c14Sim
	res := kit.Bubble(t, func() {
		conns := make([]c14Conn, c.N)
		for i := range conns {
			conns[i] = c14Conn{Lat: c.Lat, Mode: "ok"}
		}
		conns[c.U].Mode = "fail"
		s = c14NewSim(c.N, c.Pre, conns)
		if s.fail != "" {
			return
		}
		s.noScore, s.plain = true, true
		step := func() int {
			i := s.pick(8, true, c.HC)
			if i == c.U && len(s.pend) == 1 {
				s.pend[0].sel = c.UC
			}
			s.advance(c.Lat) // the completion falls due exactly now
			s.advance(c.Gap)
			return i
		}
		// warm-up: every backend has completed a call and U has become unhealthy
		warm := 0
		for ; warm < c14PrefWarmMax && s.fail == ""; warm++ {
			all := s.score(c.U) <= c14Healthy
			for i := 0; i < c.N && all; i++ {
				all = s.nDone[i] > 0
			}
			if all {
				break
			}
			step()
		}
		if s.fail != "" {
			return
		}
		if warm == c14PrefWarmMax {
			s.classes["pref-warmup-unfinished"] = true
			v.Excluded = true
			return
		}
		cnt := make([]int, c.N)
		for k := 0; k < c.Picks && s.fail == ""; k++ {
			if i := step(); i >= 0 {
				cnt[i]++
			}
		}
		s.invariants("after the measured picks")
		if s.fail != "" {
			return
		}
		if sc := s.score(c.U); sc > c14Healthy {
			s.violation("unhealthy-bound", c.U, "every call failed but success=%d after %d completions", sc, s.nDone[c.U])
			return
		}
		// Hoeffding (Azuma for the per-pick conditional probabilities): with probability
		// >= 1-alpha every empirical share is within eps of its expected share.
		N := float64(c.Picks)
		eps := kit.HoeffdingEps(c.Picks, c14AlphaCase/float64(c.N))
		minH := math.MaxInt
		for i, k := range cnt {
			if i != c.U && k < minH {
				minH = k
			}
		}
		shareU, shareH := float64(cnt[c.U])/N, float64(minH)/N
		switch {
		case shareU-eps >= 0.75*(shareH+eps):
			s.violation("preference", c.U, "unhealthy backend took %d of %d picks, the least used healthy one %d (%v): share %.4f-%.4f is not below 0.75 x (%.4f+%.4f)",
				cnt[c.U], c.Picks, minH, cnt, shareU, eps, shareH, eps)
		case shareU+eps < 0.75*(shareH-eps):
			s.classes["pref-clearly-lower"] = true
			v.NonTrivial = true
		default:
			s.classes["pref-indeterminate"] = true
		}
		s.classes[fmt.Sprintf("n=%d", c.N)] = true
	})
	if s == nil {
		return kit.Verdict{Fail: "bubble: " + res.String()}
	}
	v = s.verdict(v)
	if v.Fail == "" && !res.OK() {
		v.Fail = "bubble: " + res.String()
	}
	return v
}

// latencies whose load value int(sqrt(lag+1)) is far from a rounding boundary
var c14PrefLats = []int64{100_300, 250_500, 1_000_500, 4_001_000}

func c14PrefGen(rt *rapid.T) c14PrefCase {
	c := c14PrefCase{
		N:   rapid.IntRange(3, 6).Draw(rt, "n"),
		Pre: rapid.Int64Range(0, c14Sec).Draw(rt, "pre"),
		Lat: rapid.SampledFrom(c14PrefLats).Draw(rt, "lat"),
		Gap: rapid.SampledFrom([]int64{0, 50_000, 300_000, 1_000_000}).Draw(rt, "gap"),
		UC:  rapid.IntRange(0, 79).Draw(rt, "uc"),
		HC:  rapid.IntRange(0, 79).Draw(rt, "hc"),
	}
	// sample sizes: eps(N) <= 0.8 * 0.25/(1.75 n), i.e. a backend that is NOT avoided at
	// all (share 1/n like the others) is reported with margin; see c14Preference
	c.Picks = map[int]int{3: 16000, 4: 24000, 5: 36000, 6: 48000}[c.N]
	c.U = rapid.IntRange(0, c.N-1).Draw(rt, "u")
	return c
}

func TestVerif_C14_preference(t *testing.T) {
	kit.Run(t, "C14", "preference", kit.Opts{Quick: 24, Thorough: 800}, c14PrefGen,
		func(c c14PrefCase) kit.Verdict { return c14Preference(t, c) })
}

// ---------------------------------------------------------------------------
// rule 3: starvation freedom under sustained traffic

type c14StarveCase struct {
	N     int       `json:"n"`
	Pre   int64     `json:"pre"`
	Delta int64     `json:"delta"` // pick interval
	Dur   int64     `json:"dur"`   // >= 5 s
	Conns []c14Conn `json:"conns"`
	C     int       `json:"c"`
}

// c14BinomTail = P(Bin(k, q) <= b).
func c14BinomTail(k int, q float64, b int) float64 {
	if b >= k {
		return 1
	}
	lg := func(x int) float64 { v, _ := math.Lgamma(float64(x) + 1); return v }
	sum := 0.0
	for j := 0; j <= b; j++ {
		sum += math.Exp(lg(k) - lg(j) - lg(k-j) + float64(j)*math.Log(q) + float64(k-j)*math.Log1p(-q))
	}
	return sum
}

// c14StarveK returns K such that a connection that has not been picked for more
// than a second is picked within the next K picks except with probability alpha.
//
// Argument (from the statement's mechanism, not from running the code): a stale
// connection X is chosen whenever it is one of the two candidates of a pick,
// unless the other candidate Y is stale as well and is chosen in its place, which
// refreshes Y for a second; so in a window of W seconds at most
// B = (n-1)*(floor(W)+1) candidate appearances of X are lost. X is a candidate of a
// pick with probability >= q = (2/n)^3 whatever the health of the backends (all of
// the up to three draws contain X), and with certainty for n <= 2.
func c14StarveK(n int, delta int64, alpha float64) int {
	q := 1.0
	if n >= 3 {
		q = math.Pow(2/float64(n), 3)
	}
	b := (n - 1) * 2
	for {
		k := b + 1
		if q < 1 {
			lo, hi := b+1, b+2
			for c14BinomTail(hi, q, b) > alpha {
				hi *= 2
			}
			for lo < hi {
				mid := (lo + hi) / 2
				if c14BinomTail(mid, q, b) <= alpha {
					hi = mid
				} else {
					lo = mid + 1
				}
			}
			k = lo
		}
		b2 := (n - 1) * (int(int64(k+2)*delta/c14Sec) + 1)
		if b2 <= b {
			return k
		}
		b = b2
	}
}

func c14Starvation(t *testing.T, c c14StarveCase) (v kit.Verdict) {
	var s *c14Sim
	res := kit.Bubble(t, func() {
		s = c14NewSim(c.N, c.Pre, c.Conns)
		if s.fail != "" {
			return
		}
		s.trackGaps, s.noScore, s.plain = true, true, true
		steps := int(c.Dur / c.Delta)
		for k := 0; k < steps && s.fail == ""; k++ {
			s.pick(8, (k+c.C)%3 != 0, c.C+k)
			s.advance(c.Delta)
		}
		end := s.now()
		s.invariants("at the end of the traffic")
		if s.fail != "" {
			return
		}
		windows := float64(c.N) * float64(c.Dur/c14Sec+1)
		K := c14StarveK(c.N, c.Delta, c14AlphaCase/windows)
		bound := c14Sec + int64(K+2)*c.Delta
		slowest, fastest := int64(0), int64(math.MaxInt64)
		for i := 0; i < c.N; i++ {
			if g := end - s.lastPick[i]; g > s.maxGap[i] {
				s.maxGap[i] = g
			}
			if s.maxGap[i] > bound {
				s.violation("starvation", i, "not picked for %dns during %dns of picks every %dns (n=%d; bound 1s + %d picks = %dns); picks per connection %v",
					s.maxGap[i], c.Dur, c.Delta, c.N, K+2, bound, s.picks)
			}
			if s.maxGap[i] > c14Sec {
				s.classes["force-pick-needed"] = true
				v.NonTrivial = true
			}
			if c.Conns[i].Lat > slowest {
				slowest = c.Conns[i].Lat
			}
			if c.Conns[i].Lat < fastest {
				fastest = c.Conns[i].Lat
			}
		}
		if slowest >= 10*fastest {
			s.classes["slow-backend"] = true
		}
		if c.Dur > 2*bound {
			s.classes["dur>2*bound"] = true
		}
		s.classes[fmt.Sprintf("n=%d", c.N)] = true
		s.drain()
		s.invariants("after the last completion")
	})
	if s == nil {
		return kit.Verdict{Fail: "bubble: " + res.String()}
	}
	v = s.verdict(v)
	if v.Fail == "" && !res.OK() {
		v.Fail = "bubble: " + res.String()
	}
	return v
}

// largest pick interval per n: keeps K*delta <= about a second
var c14DeltaMax = map[int]int64{1: 10_000_000, 2: 10_000_000, 3: 4_000_000, 4: 1_500_000, 5: 800_000, 6: 400_000}

func c14StarveGen(rt *rapid.T) c14StarveCase {
	c := c14StarveCase{
		N:   rapid.SampledFrom([]int{1, 2, 2, 3, 3, 4, 5, 6}).Draw(rt, "n"),
		Pre: rapid.Int64Range(0, c14Sec).Draw(rt, "pre"),
		Dur: int64(rapid.IntRange(10, 24).Draw(rt, "dur")) * c14Sec / 2,
		C:   rapid.IntRange(0, 79).Draw(rt, "c"),
	}
	dm := c14DeltaMax[c.N]
	c.Delta = dm * int64(rapid.IntRange(5, 20).Draw(rt, "f")) / 20
	lats := []int64{50_000, 200_000, 1_000_000, 5_000_000, 20_000_000, 100_000_000}
	for i := 0; i < c.N; i++ {
		cn := c14Conn{
			Lat:  rapid.SampledFrom(lats).Draw(rt, "lat"),
			Mode: rapid.SampledFrom([]string{"ok", "ok", "fail", "mixed", "recover", "degrade"}).Draw(rt, "mode"),
		}
		if cn.Mode == "recover" || cn.Mode == "degrade" {
			cn.T = int64(rapid.IntRange(1, 4).Draw(rt, "t")) * c14Sec
		}
		c.Conns = append(c.Conns, cn)
	}
	return c
}

func TestVerif_C14_starvation(t *testing.T) {
	kit.Run(t, "C14", "starvation", kit.Opts{Quick: 50, Thorough: 1600}, c14StarveGen,
		func(c c14StarveCase) kit.Verdict { return c14Starvation(t, c) })
}

// ---------------------------------------------------------------------------
// rule 5: fastfail — long runs of closely spaced completions after an acceptable one
//
// One or more acceptable completions, then 2N+extra unacceptable completions spaced
// exactly delta (N = ceil(ln2*10s/delta), delta 100 us .. 50 ms), optionally followed by
// 2N acceptable ones. The calls are picked up front and their Done callbacks held, so
// the spacing of the completions on the target connection is exact and the observed
// latencies are positive (a zero lag estimate would reset the weight to 0).
//
// Judged: every per-completion rule of the simulator (in particular unhealthy-bound,
// which fires from the N-th failing completion on), plus progress over windows:
//   failing : score(k) <= score(k-N)/2 + 1        (w^N <= 1/2; truncation only lowers)
//   recovery: gap(k)   <= gap(k-N)/2 + N + 1      (gap = 1000-score; each update may
//                                                   lose < 1 unit to truncation/rounding)

type c14FastCase struct {
	N     int   `json:"n"`     // 1..3 connections
	Pre   int64 `json:"pre"`   // PRNG seed
	T     int   `json:"t"`     // target connection
	Delta int64 `json:"delta"` // spacing of the completions on the target
	A     int   `json:"a"`     // leading acceptable completions
	Extra int   `json:"x"`     // failing completions beyond 2N
	Rec   bool  `json:"rec"`   // recovery phase
	C     int   `json:"c"`     // error code selector
}

// hold performs one Pick whose completion is reported later by the caller.
func (s *c14Sim) hold() (c14Pend, bool) {
	before := len(s.pend)
	if i := s.pick(0, true, 0); i < 0 {
		return c14Pend{}, false
	}
	ev := s.pend[len(s.pend)-1]
	// the event just pushed has the largest (due, seq) only if nothing else is pending
	if before != 0 {
		panic("c14: hold with pending events")
	}
	s.pend = s.pend[:0]
	return ev, true
}

func c14FastNeed(delta int64) int {
	return int(math.Ceil(math.Ln2 * float64(c14Decay) / float64(delta)))
}

func c14FastFail(t *testing.T, c c14FastCase) (v kit.Verdict) {
	var s *c14Sim
	res := kit.Bubble(t, func() {
		conns := make([]c14Conn, c.N)
		for i := range conns {
			conns[i] = c14Conn{Lat: 8, Mode: "mixed"}
		}
		s = c14NewSim(c.N, c.Pre, conns)
		if s.fail != "" {
			return
		}
		s.plain = true
		need := c14FastNeed(c.Delta)
		fails := 2*need + c.Extra
		recs := 0
		if c.Rec {
			recs = 2 * need
		}
		want := c.A + fails + recs
		held := make([][]c14Pend, c.N)
		for k := 0; len(held[c.T]) < want && k < 3*c.N*want+100 && s.fail == ""; k++ {
			ev, ok := s.hold()
			if !ok {
				return
			}
			held[ev.conn] = append(held[ev.conn], ev)
		}
		if s.fail != "" {
			return
		}
		if len(held[c.T]) < want {
			s.classes["fast-target-not-picked-enough"] = true
			v.Excluded = true
			return
		}
		s.invariants("after the picks")
		report := func(k int, ok bool) uint64 {
			time.Sleep(time.Duration(c.Delta))
			ev := held[c.T][k]
			ev.okSel, ev.sel = ok, c.C+k
			s.complete(ev)
			return s.score(c.T)
		}
		k := 0
		for a := 0; a < c.A && s.fail == ""; a++ {
			report(k, true)
			k++
		}
		hist := []uint64{s.score(c.T)}
		for f := 1; f <= fails && s.fail == ""; f++ {
			sc := report(k, false)
			k++
			hist = append(hist, sc)
			if f >= need && sc <= c14ScoreMax && hist[f-need] <= c14ScoreMax && sc > hist[f-need]/2+1 {
				s.violation("progress-window", c.T, "%d failing completions exactly %dns apart took the score from %d to %d, not to at most half (+1)",
					need, c.Delta, hist[f-need], sc)
			}
		}
		if s.fail == "" && hist[len(hist)-1] > c14Healthy {
			s.violation("unhealthy-bound", c.T, "%d failing completions %dns apart after %d acceptable ones and success is still %d", fails, c.Delta, c.A, hist[len(hist)-1])
		}
		if c.Rec && s.fail == "" {
			gaps := []int64{c14ScoreMax - int64(s.score(c.T))}
			for r := 1; r <= recs && s.fail == ""; r++ {
				sc := report(k, true)
				k++
				g := c14ScoreMax - int64(sc)
				gaps = append(gaps, g)
				if r >= need && g >= 0 && gaps[r-need] >= 0 && g > gaps[r-need]/2+int64(need)+1 {
					s.violation("progress-window", c.T, "%d acceptable completions exactly %dns apart took the score from %d to %d: distance to 1000 not halved (slack %d)",
						need, c.Delta, c14ScoreMax-gaps[r-need], sc, need+1)
				}
			}
			s.classes["fast-recovery"] = true
		}
		// release every other held call at one instant
		for i := range held {
			from := 0
			if i == c.T {
				from = k
			}
			for _, ev := range held[i][from:] {
				if s.fail != "" {
					break
				}
				ev.okSel = true
				s.complete(ev)
			}
		}
		s.invariants("after the last completion")
		for i, cn := range s.recs {
			if inf := atomic.LoadInt64(&cn.inflight); inf != 0 && s.fail == "" {
				s.violation("inflight", i, "every call completed but inflight=%d", inf)
			}
		}
		s.classes[fmt.Sprintf("delta=%dus", c.Delta/1000)] = true
		s.classes[fmt.Sprintf("n=%d", c.N)] = true
		v.NonTrivial = true
	})
	if s == nil {
		return kit.Verdict{Fail: "bubble: " + res.String()}
	}
	v = s.verdict(v)
	if v.Fail == "" && !res.OK() {
		v.Fail = "bubble: " + res.String()
	}
	return v
}

func c14FastGen(rt *rapid.T) c14FastCase {
	c := c14FastCase{
		Pre:   rapid.Int64Range(0, c14Sec).Draw(rt, "pre"),
		Delta: rapid.SampledFrom([]int64{100_000, 300_000, 1_000_000, 1_000_000, 3_000_000, 5_000_000, 10_000_000, 20_000_000, 50_000_000}).Draw(rt, "delta"),
		A:     rapid.IntRange(1, 3).Draw(rt, "a"),
		Extra: rapid.IntRange(1, 50).Draw(rt, "x"),
		C:     rapid.IntRange(0, 79).Draw(rt, "c"),
	}
	c.N = 1
	if c.Delta >= 3_000_000 { // several connections multiply the number of held calls
		c.N = rapid.IntRange(1, 3).Draw(rt, "n")
	}
	c.T = rapid.IntRange(0, c.N-1).Draw(rt, "t")
	c.Rec = c.Delta >= 1_000_000 && rapid.Bool().Draw(rt, "rec")
	return c
}

func TestVerif_C14_fastfail(t *testing.T) {
	kit.Run(t, "C14", "fastfail", kit.Opts{Quick: 40, Thorough: 800}, c14FastGen,
		func(c c14FastCase) kit.Verdict { return c14FastFail(t, c) })
}

// ---------------------------------------------------------------------------
// rule 6: rebuild — several pickers built by ONE builder, alive at the same time
//
// gRPC's base balancer keeps one picker builder per balancer and calls Build again
// whenever the set of ready connections changes; calls picked through the previous
// picker complete later, picks racing with the update may still go through it, and two
// rpc clients of one process own two balancers. Every picker ever built stays under
// judgement: a pick returns a member of THAT picker's ready set; its records obey the
// inflight / score / lag rules (see invariants for the two admissible readings of
// "the connection's in-flight count" when records could be shared); when every call has
// completed every record of every picker has inflight 0.

type c14World struct {
	picks, dones   []int64 // per SubConn id, over all pickers
	minLat, maxLat []int64
	nDone          []int64
	sims           []*c14Sim
	base           time.Time
}

type c14RbOp struct {
	K   string `json:"k"`             // build pick adv burst churn
	Set []int  `json:"set,omitempty"` // build: ids of the ready SubConns (empty: nothing ready)
	P   int    `json:"p,omitempty"`   // pick/burst: which of the three newest pickers (0 = newest)
	J   int    `json:"j,omitempty"`
	C   int    `json:"c,omitempty"`
	B   bool   `json:"b,omitempty"`
	D   int64  `json:"d,omitempty"`
	M   int    `json:"n,omitempty"`
}

type c14RbCase struct {
	Pool  int       `json:"pool"` // SubConns 0..Pool-1 exist
	Pre   int64     `json:"pre"`
	Conns []c14Conn `json:"conns"` // behaviour by position inside a picker
	Ops   []c14RbOp `json:"ops"`   // Ops[0] is a build
}

func (w *c14World) failed() bool {
	for _, s := range w.sims {
		if s.fail != "" {
			return true
		}
	}
	return false
}

// advance moves virtual time forward by d, reporting due completions of every picker.
func (w *c14World) advance(d int64) {
	now := func() int64 { return int64(time.Since(w.base)) }
	target := now() + d
	for !w.failed() {
		var next *c14Sim
		for _, s := range w.sims {
			if len(s.pend) > 0 && s.pend[0].due <= target && (next == nil || s.pend[0].due < next.pend[0].due) {
				next = s
			}
		}
		if next == nil {
			break
		}
		if wt := next.pend[0].due - now(); wt > 0 {
			time.Sleep(time.Duration(wt))
		}
		next.complete(heap.Pop(&next.pend).(c14Pend))
	}
	if wt := target - now(); wt > 0 {
		time.Sleep(time.Duration(wt))
	}
}

func c14Rebuild(t *testing.T, c c14RbCase) (v kit.Verdict) {
	classes := map[string]bool{}
	var w *c14World
	res := kit.Bubble(t, func() {
		if c.Pre > 0 {
			time.Sleep(time.Duration(c.Pre))
		}
		mk := func() []int64 { return make([]int64, c.Pool) }
		w = &c14World{picks: mk(), dones: mk(), minLat: mk(), maxLat: mk(), nDone: mk(), base: time.Now()}
		pool := make([]*c14SubConn, c.Pool)
		for i := range pool {
			pool[i] = &c14SubConn{id: i}
		}
		builder := new(p2cPickerBuilder)
		var prevSet []int
		check := func(what string) {
			for _, s := range w.sims {
				s.invariants(fmt.Sprintf("picker #%d, %s", s.idx, what))
			}
		}
		for k, o := range c.Ops {
			if w.failed() {
				return
			}
			what := fmt.Sprintf("after op %d %+v", k, o)
			switch o.K {
			case "build":
				if len(o.Set) == 0 {
					if o.B {
						builder.Build(base.PickerBuildInfo{}) // nil map
					} else {
						builder.Build(base.PickerBuildInfo{ReadySCs: map[balancer.SubConn]base.SubConnInfo{}})
					}
					classes["build-empty"] = true
					prevSet = nil
					break
				}
				scs := make([]*c14SubConn, len(o.Set))
				for i, id := range o.Set {
					scs[i] = pool[id]
				}
				outstanding := 0
				for _, s := range w.sims {
					outstanding += len(s.pend)
				}
				s := c14NewSimOn(builder, scs, c.Conns)
				s.base, s.w, s.idx = w.base, w, len(w.sims)
				w.sims = append(w.sims, s)
				if len(w.sims) > 1 {
					common := 0
					for _, a := range o.Set {
						for _, b := range prevSet {
							if a == b {
								common++
							}
						}
					}
					switch {
					case prevSet == nil:
						classes["rebuild-after-empty"] = true
					case common == 0:
						classes["rebuild-disjoint"] = true
					case common == len(o.Set) && common == len(prevSet):
						classes["rebuild-same"] = true
					case common == len(o.Set):
						classes["rebuild-subset"] = true
					case common == len(prevSet):
						classes["rebuild-superset"] = true
					default:
						classes["rebuild-overlap"] = true
					}
					if outstanding > 0 {
						classes["rebuild-with-calls-outstanding"] = true
						if common > 0 {
							v.NonTrivial = true
						}
					}
				}
				prevSet = o.Set
			case "pick", "burst":
				if len(w.sims) == 0 {
					break
				}
				alive := len(w.sims)
				if alive > 3 {
					alive = 3
				}
				s := w.sims[len(w.sims)-1-o.P%alive]
				if o.P%alive != 0 {
					classes["pick-through-older-picker"] = true
				}
				m := 1
				if o.K == "burst" {
					m = o.M
				}
				for i := 0; i < m && !w.failed(); i++ {
					s.pick(o.J, (i+o.C)%3 != 0 == o.B, o.C+i)
					w.advance(o.D)
				}
			case "adv":
				w.advance(o.D)
				if o.D >= c14Hour {
					classes["adv-huge"] = true
				}
			case "churn":
				// a long-lived builder: o.M rebuilds alternating between the generated set
				// and the previous one; every 256th picker is kept, picked through once
				// (the call stays outstanding across the following rebuilds) and judged
				// like any other picker, the others are dropped unused as gRPC would.
				sets := [][]int{o.Set, prevSet}
				if len(prevSet) == 0 {
					sets[1] = o.Set
				}
				for b := 0; b < o.M && !w.failed(); b++ {
					set := sets[b%2]
					scs := make([]*c14SubConn, len(set))
					for i, id := range set {
						scs[i] = pool[id]
					}
					if b%256 != 255 && b != o.M-1 {
						ready := make(map[balancer.SubConn]base.SubConnInfo, len(scs))
						for _, sc := range scs {
							ready[sc] = base.SubConnInfo{}
						}
						builder.Build(base.PickerBuildInfo{ReadySCs: ready})
						continue
					}
					s := c14NewSimOn(builder, scs, c.Conns)
					s.base, s.w, s.idx = w.base, w, len(w.sims)
					w.sims = append(w.sims, s)
					s.pick(o.J, o.B, o.C+b)
					w.advance(o.D)
					prevSet = set
				}
				classes["builder-churn"] = true
				if o.M >= 1000 {
					classes["builder-churn>=1000"] = true
				}
			}
			if w.failed() { // report the violation that happened, not its knock-on effects
				return
			}
			check(what)
		}
		for !w.failed() {
			more := false
			for _, s := range w.sims {
				more = more || len(s.pend) > 0
			}
			if !more {
				break
			}
			far := int64(0)
			for _, s := range w.sims {
				for _, ev := range s.pend {
					if ev.due > far {
						far = ev.due
					}
				}
			}
			w.advance(far - int64(time.Since(w.base)) + 1)
		}
		if w.failed() {
			return
		}
		check("after the last completion")
		for _, s := range w.sims {
			for i, cn := range s.recs {
				if inf := atomic.LoadInt64(&cn.inflight); inf != 0 && s.fail == "" {
					s.violation("inflight", i, "picker #%d: every call of every picker completed but inflight=%d (picks through this picker %d, completions %d; over all pickers %d / %d)",
						s.idx, inf, s.picks[i], s.dones[i], w.picks[s.gid[i]], w.dones[s.gid[i]])
				}
			}
		}
		if len(w.sims) >= 2 {
			classes["pickers>=2"] = true
		}
	})
	if w == nil {
		return kit.Verdict{Fail: "bubble: " + res.String()}
	}
	for _, s := range w.sims {
		for k := range s.classes {
			classes[k] = true
		}
		if s.fail != "" && v.Fail == "" {
			v.Fail = fmt.Sprintf("picker #%d (ready set %v): %s", s.idx, s.gid, s.fail)
		}
	}
	for k := range classes {
		v.Classes = append(v.Classes, k)
	}
	sort.Strings(v.Classes)
	if v.Fail == "" && !res.OK() {
		v.Fail = "bubble: " + res.String()
	}
	return v
}

func c14RbGen(rt *rapid.T) c14RbCase {
	c := c14RbCase{
		Pool: rapid.IntRange(2, 8).Draw(rt, "pool"),
		Pre:  rapid.Int64Range(0, c14Sec).Draw(rt, "pre"),
	}
	c.Conns = c14GenConns(rt, c.Pool)
	ids := make([]int, c.Pool)
	for i := range ids {
		ids[i] = i
	}
	var prev []int
	build := func() c14RbOp {
		rel := rapid.SampledFrom([]string{"same", "subset", "superset", "disjoint", "any", "any", "empty"}).Draw(rt, "rel")
		if len(prev) == 0 && rel != "empty" {
			rel = "any"
		}
		perm := rapid.Permutation(ids).Draw(rt, "perm")
		var set []int
		in := func(x int, a []int) bool {
			for _, y := range a {
				if x == y {
					return true
				}
			}
			return false
		}
		switch rel {
		case "same":
			set = append(set, prev...)
		case "subset":
			set = append(set, prev[:rapid.IntRange(1, len(prev)).Draw(rt, "k")]...)
		case "superset":
			set = append(set, prev...)
			for _, x := range perm {
				if !in(x, prev) && rapid.Bool().Draw(rt, "add") {
					set = append(set, x)
				}
			}
		case "disjoint":
			for _, x := range perm {
				if !in(x, prev) {
					set = append(set, x)
				}
			}
			if len(set) == 0 {
				set = perm[:1]
			}
		case "any":
			set = perm[:rapid.IntRange(1, c.Pool).Draw(rt, "k")]
		}
		prev = set
		return c14RbOp{K: "build", Set: append([]int(nil), set...)}
	}
	c.Ops = append(c.Ops, build())
	n := rapid.IntRange(2, 80).Draw(rt, "nops")
	churns := 0
	withChurn := rapid.IntRange(0, 7).Draw(rt, "withchurn") == 0
	century := false
	for i := 0; i < n; i++ {
		k := rapid.SampledFrom([]string{"pick", "pick", "pick", "pick", "adv", "adv", "burst", "build", "build"}).Draw(rt, "k")
		if withChurn && churns < 1 && rapid.IntRange(0, 9).Draw(rt, "churn") == 0 {
			k = "churn"
			churns++
		}
		o := c14RbOp{K: k}
		switch k {
		case "build":
			o = build()
			o.B = rapid.Bool().Draw(rt, "nilmap")
		case "churn":
			o = build()
			if len(o.Set) == 0 {
				o.Set = []int{0}
				prev = o.Set
			}
			o.K = "churn"
			o.M = rapid.SampledFrom([]int{100, 1000, 1025, 4097}).Draw(rt, "builds")
			o.J = rapid.IntRange(1, 32).Draw(rt, "j")
			o.C = rapid.IntRange(0, 79).Draw(rt, "c")
			o.B = rapid.Bool().Draw(rt, "b")
			o.D = rapid.SampledFrom([]int64{0, 1000, 1_000_000}).Draw(rt, "gap")
		case "pick", "burst":
			o.P = rapid.SampledFrom([]int{0, 0, 0, 1, 2}).Draw(rt, "p")
			o.J = rapid.IntRange(0, 32).Draw(rt, "j")
			o.C = rapid.IntRange(0, 79).Draw(rt, "c")
			o.B = rapid.Bool().Draw(rt, "b")
			if k == "burst" {
				o.D = rapid.SampledFrom(c14Gaps).Draw(rt, "gap")
				o.M = rapid.IntRange(2, 12).Draw(rt, "m")
			}
		case "adv":
			o.D, _ = c14GenAdv(rt, &century)
		}
		c.Ops = append(c.Ops, o)
	}
	return c
}

func TestVerif_C14_rebuild(t *testing.T) {
	kit.Run(t, "C14", "rebuild", kit.Opts{Quick: 1000, Thorough: 24000}, c14RbGen,
		func(c c14RbCase) kit.Verdict { return c14Rebuild(t, c) })
}
