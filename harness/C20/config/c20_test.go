package config

// C20 — the naming template as the generator commands use it: the -style value
// goes through config.NewConfig and the resulting NamingFormat is given to
// format.FileNamingFormat ("pipeline"). The caller sees a file name or an error
// (from either stage). Two oracles on that observation:
//
//   * from the statement alone: a non-empty template with no go-then-designer
//     reading (a word missing, words in the wrong order) must be REJECTED by the
//     pipeline, whichever stage reports it. This covers templates made of white
//     space only (ASCII and Unicode), of invisible characters, of punctuation;
//   * differential: for every non-empty template the pipeline outcome equals the
//     outcome of FileNamingFormat on the template itself (which is judged
//     against the reference in util/format/c20_test.go); an error of NewConfig
//     counts as "rejected", so NewConfig may neither alter a template nor refuse
//     a valid one nor wave an invalid one through.
//
// The EMPTY template is the documented "unset" value (config/readme.md: default
// godesigner): the only thing asserted is that what NewConfig substitutes is a
// valid template; an error for it is admissible too (the statement's rejection
// clause, read literally).

import (
	"fmt"
	"strconv"
	"strings"
	"testing"
	"unicode"
	"unicode/utf8"

	"github.com/gotid/god/tools/god/util/format"
	"pgregory.net/rapid"
	"verif.local/kit"
)

type c20Cfg struct {
	T   string `json:"t"` // strconv.Quote'd without the outer quotes
	I   string `json:"i"`
	T2  string `json:"t2,omitempty"` // template of a second Config alive at the same time
	Two bool   `json:"two,omitempty"`
}

func c20Q(s string) string { q := strconv.Quote(s); return q[1 : len(q)-1] }

func c20U(s string) string {
	u, err := strconv.Unquote(`"` + s + `"`)
	if err != nil {
		panic("c20: case string does not unquote: " + s)
	}
	return u
}

func c20Render(t, id string) (out string) {
	defer func() {
		if p := recover(); p != nil {
			out = "panic: " + fmt.Sprint(p)
		}
	}()
	s, err := format.FileNamingFormat(t, id)
	if err != nil {
		return "error"
	}
	return "ok: " + s
}

// c20New: NewConfig with panics turned into a verdict text.
func c20New(tp string) (cfg *Config, err error, panicked string) {
	defer func() {
		if p := recover(); p != nil {
			panicked = fmt.Sprintf("NewConfig(%q) panicked: %v", tp, p)
		}
	}()
	cfg, err = NewConfig(tp)
	return cfg, err, ""
}

// c20Pipeline: what a generator command does with the result of NewConfig
// (`if err != nil { return err }`, then FileNamingFormat(cfg.NamingFormat, id)).
func c20Pipeline(cfg *Config, err error, id string) (out, stage string) {
	if err != nil {
		return "error", "config"
	}
	if cfg == nil {
		return "panic: NewConfig returned neither a Config nor an error", "config"
	}
	return c20Render(cfg.NamingFormat, id), "format"
}

// c20HasReading: can t be read as prefix + go + through + designer + suffix
// (ASCII case-insensitive)? Written from the statement; bytes >= 0x80 never match.
func c20HasReading(t string) bool {
	fold := func(b byte) byte {
		if 'A' <= b && b <= 'Z' {
			return b + 'a' - 'A'
		}
		return b
	}
	occ := func(word string) (out []int) {
		for i := 0; i+len(word) <= len(t); i++ {
			ok := true
			for k := 0; k < len(word) && ok; k++ {
				ok = fold(t[i+k]) == word[k]
			}
			if ok {
				out = append(out, i)
			}
		}
		return out
	}
	gos, des := occ("go"), occ("designer")
	for _, i := range gos {
		for _, j := range des {
			if j >= i+2 {
				return true
			}
		}
	}
	return false
}

// c20TplClass: evidence class of a template.
func c20TplClass(tp string) string {
	switch {
	case tp == "":
		return "tpl:empty"
	case strings.TrimSpace(tp) == "":
		for i := 0; i < len(tp); i++ {
			if tp[i] >= utf8.RuneSelf {
				return "tpl:blank-unicode"
			}
		}
		return "tpl:blank-ascii"
	case c20HasReading(tp):
		if tp != strings.TrimSpace(tp) {
			return "tpl:reading+edge-space"
		}
		return "tpl:reading"
	}
	visible := false
	for _, r := range tp {
		if unicode.IsGraphic(r) && !unicode.IsSpace(r) {
			visible = true
		}
	}
	if !visible {
		return "tpl:invisible-nonblank"
	}
	return "tpl:no-reading"
}

// white space per unicode.IsSpace (what strings.TrimSpace removes) ...
var c20Space = []string{" ", "  ", "\t", "\n", "\r", "\v", "\f", "\r\n", " \t\r\n ", "\u0085", "\u00a0", "\u1680", "\u2000", "\u2002",
	"\u2003", "\u2007", "\u2009", "\u200a", "\u2028", "\u2029", "\u202f", "\u205f", "\u3000", "\u3000\u2003", "\u00a0 "}

// ... and characters that show nothing but are NOT white space for Go.
var c20Invisible = []string{"\u200b", "\ufeff", "\u180e", "\u2060", "\x00", "\u200d", "\u00ad", "\x7f", "\x1f", "\u200b ", "\u2800", "\u3164"}

func TestVerif_C20_config_passthrough(t *testing.T) {
	blank := rapid.Custom(func(rt *rapid.T) string {
		return strings.Join(rapid.SliceOfN(rapid.SampledFrom(c20Space), 1, 4).Draw(rt, "blank"), "")
	})
	frag := rapid.OneOf(
		rapid.SampledFrom([]string{"", "", "_", "-", "#", " ", "  ", "\t", "\n", "x", "前缀", ".tmpl"}),
		rapid.SampledFrom(c20Space),
		rapid.SampledFrom(c20Invisible),
		rapid.StringN(0, 3, 8),
	)
	goW := rapid.SampledFrom([]string{"go", "GO", "Go", "gO"})
	deW := rapid.SampledFrom([]string{"designer", "DESIGNER", "Designer", "desIgner"})
	tpl := rapid.Custom(func(rt *rapid.T) string {
		switch k := rapid.IntRange(0, 19).Draw(rt, "k"); {
		case k < 9:
			return frag.Draw(rt, "pre") + goW.Draw(rt, "go") + frag.Draw(rt, "thr") + deW.Draw(rt, "de") + frag.Draw(rt, "suf")
		case k < 10:
			return ""
		case k < 13:
			return blank.Draw(rt, "blank")
		case k < 14:
			return strings.Join(rapid.SliceOfN(rapid.OneOf(rapid.SampledFrom(c20Invisible), rapid.SampledFrom(c20Space)), 1, 3).Draw(rt, "invisible"), "")
		case k < 15: // a word missing, around white space or other fragments
			w := rapid.OneOf(goW, deW, rapid.Just("")).Draw(rt, "only")
			return frag.Draw(rt, "pre") + w + frag.Draw(rt, "suf")
		case k < 16: // wrong order
			return frag.Draw(rt, "pre") + deW.Draw(rt, "de") + frag.Draw(rt, "thr") + goW.Draw(rt, "go") + frag.Draw(rt, "suf")
		case k < 17: // no letters at all
			return rapid.StringMatching(`[_#\-. 0-9/]{1,4}`).Draw(rt, "punct")
		default:
			return rapid.String().Draw(rt, "any")
		}
	})
	ident := rapid.OneOf(
		rapid.StringMatching(`_{0,2}[a-z]{1,5}(_{1,2}[a-zA-Z0-9]{1,5}){1,3}_{0,1}`),
		rapid.SampledFrom([]string{"", "HTTPServer", "userID", "welcome_to_go_designer", "user_center", "service_context", "vars"}),
	)
	kit.Run(t, "C20", "config-passthrough", kit.Opts{Quick: 6000, Thorough: 160000},
		func(rt *rapid.T) c20Cfg {
			c := c20Cfg{T: c20Q(tpl.Draw(rt, "t")), I: c20Q(ident.Draw(rt, "i"))}
			if rapid.Bool().Draw(rt, "two") {
				c.Two, c.T2 = true, c20Q(tpl.Draw(rt, "t2"))
			}
			return c
		},
		func(c c20Cfg) (v kit.Verdict) {
			tp, id := c20U(c.T), c20U(c.I)
			cfg, err, pan := c20New(tp)
			if pan != "" {
				v.Fail = pan
				return v
			}
			// a second Config created while the first is alive must not change the
			// first; it is judged like the first
			if c.Two {
				tp2 := c20U(c.T2)
				cfg2, err2, pan2 := c20New(tp2)
				if pan2 != "" {
					v.Fail = pan2
					return v
				}
				v.Classes = append(v.Classes, "two-configs-alive")
				if f, _, _ := c20JudgePipeline(tp2, id, cfg2, err2, nil); f != "" {
					v.Fail = "second config: " + f
					return v
				}
			}
			v.Fail, v.NonTrivial, _ = c20JudgePipeline(tp, id, cfg, err, &v.Classes)
			return v
		})
}

// c20JudgePipeline judges what the generator pipeline makes of template tp
// (already through NewConfig: cfg, err) for identifier id.
func c20JudgePipeline(tp, id string, cfg *Config, err error, classes *[]string) (fail string, nonTrivial bool, via string) {
	add := func(c string) {
		if classes != nil {
			*classes = append(*classes, c)
		}
	}
	add(c20TplClass(tp))
	via, stage := c20Pipeline(cfg, err, id)
	if strings.HasPrefix(via, "panic: ") {
		return fmt.Sprintf("template %q, identifier %q: pipeline %s", tp, id, via), false, via
	}
	if tp == "" {
		add("empty->default")
		switch {
		case via == "error" && stage == "config":
			add("unspecified:empty-rejected")
		case !strings.HasPrefix(via, "ok: "):
			return fmt.Sprintf("default template %q of NewConfig(\"\") is not a valid template: FileNamingFormat(%q, %q) -> %s", cfg.NamingFormat, cfg.NamingFormat, id, via), false, via
		}
		return "", false, via
	}
	if via == "error" {
		add("pipeline:rejected-by-" + stage)
	} else {
		add("pipeline:ok")
	}
	// (1) the statement: no go-then-designer reading => rejected
	if !c20HasReading(tp) && via != "error" {
		nf := ""
		if cfg != nil {
			nf = cfg.NamingFormat
		}
		return fmt.Sprintf("template %q lacks 'go' or 'designer' (or has them in the wrong order) but the pipeline NewConfig -> FileNamingFormat accepted it: NamingFormat=%q, FileNamingFormat(_, %q) -> %s", tp, nf, id, via), false, via
	}
	// (2) NewConfig neither alters nor filters templates
	direct := c20Render(tp, id)
	add("direct:" + strings.SplitN(direct, ":", 2)[0])
	nonTrivial = strings.HasPrefix(direct, "ok: ") && strings.Contains(strings.Trim(id, "_"), "_")
	if direct != via {
		what := fmt.Sprintf("NamingFormat=%q", "")
		if err != nil {
			what = fmt.Sprintf("NewConfig error %q", err.Error())
		} else if cfg != nil {
			what = fmt.Sprintf("NamingFormat=%q", cfg.NamingFormat)
		}
		return fmt.Sprintf("template %q: through NewConfig (%s) FileNamingFormat(_, %q) -> %s, directly -> %s", tp, what, id, via, direct), nonTrivial, via
	}
	return "", nonTrivial, via
}
