package config

// C20 — the naming template travels through config.NewConfig unchanged.
// Differential: rendering with cfg.NamingFormat equals rendering with the
// template itself (FileNamingFormat is judged against the reference in
// util/format/c20_test.go). What NewConfig does with blank templates is not
// part of the statement: those cases are run for panics only.

import (
	"fmt"
	"strconv"
	"strings"
	"testing"

	"github.com/gotid/god/tools/god/util/format"
	"pgregory.net/rapid"
	"verif.local/kit"
)

type c20Cfg struct {
	T   string `json:"t"` // strconv.Quote'd without the outer quotes
	I   string `json:"i"`
	T2  string `json:"t2,omitempty"` // template of a second Config alive at the same time
	Two bool   `json:"two,omitempty"`
}

func c20Q(s string) string { q := strconv.Quote(s); return q[1 : len(q)-1] }

func c20U(s string) string {
	u, err := strconv.Unquote(`"` + s + `"`)
	if err != nil {
		panic("c20: case string does not unquote: " + s)
	}
	return u
}

func c20Render(t, id string) (out string) {
	defer func() {
		if p := recover(); p != nil {
			out = "panic: " + fmt.Sprint(p)
		}
	}()
	s, err := format.FileNamingFormat(t, id)
	if err != nil {
		return "error"
	}
	return "ok: " + s
}

func TestVerif_C20_config_passthrough(t *testing.T) {
	frag := rapid.OneOf(
		rapid.SampledFrom([]string{"", "", "_", "-", "#", " ", "  ", "\t", "\n", "x", "前缀", ".tmpl"}),
		rapid.StringN(0, 3, 8),
	)
	tpl := rapid.Custom(func(rt *rapid.T) string {
		switch k := rapid.IntRange(0, 9).Draw(rt, "k"); {
		case k < 6:
			return frag.Draw(rt, "pre") + rapid.SampledFrom([]string{"go", "GO", "Go", "gO"}).Draw(rt, "go") + frag.Draw(rt, "thr") +
				rapid.SampledFrom([]string{"designer", "DESIGNER", "Designer", "desIgner"}).Draw(rt, "de") + frag.Draw(rt, "suf")
		case k < 7:
			return ""
		case k < 8:
			return rapid.SampledFrom([]string{" ", "\t", " \n "}).Draw(rt, "blank")
		default:
			return rapid.String().Draw(rt, "any")
		}
	})
	ident := rapid.OneOf(
		rapid.StringMatching(`_{0,2}[a-z]{1,5}(_{1,2}[a-zA-Z0-9]{1,5}){1,3}_{0,1}`),
		rapid.SampledFrom([]string{"", "HTTPServer", "userID", "welcome_to_go_designer"}),
	)
	kit.Run(t, "C20", "config-passthrough", kit.Opts{Quick: 5000, Thorough: 160000},
		func(rt *rapid.T) c20Cfg {
			c := c20Cfg{T: c20Q(tpl.Draw(rt, "t")), I: c20Q(ident.Draw(rt, "i"))}
			if rapid.Bool().Draw(rt, "two") {
				c.Two, c.T2 = true, c20Q(tpl.Draw(rt, "t2"))
			}
			return c
		},
		func(c c20Cfg) (v kit.Verdict) {
			tp, id := c20U(c.T), c20U(c.I)
			var cfg *Config
			var err error
			func() {
				defer func() {
					if p := recover(); p != nil {
						v.Fail = fmt.Sprintf("NewConfig(%q) panicked: %v", tp, p)
					}
				}()
				cfg, err = NewConfig(tp)
			}()
			if v.Fail != "" {
				return v
			}
			switch {
			case tp == "":
				v.Classes = append(v.Classes, "empty->default")
				if err != nil || cfg == nil {
					v.Classes = append(v.Classes, "unspecified:config-error")
					return v
				}
				if got := c20Render(cfg.NamingFormat, id); !strings.HasPrefix(got, "ok: ") {
					return v.Failf("default template %q of NewConfig(\"\") is not a valid template: FileNamingFormat(%q, %q) -> %s", cfg.NamingFormat, cfg.NamingFormat, id, got)
				}
				return v
			case strings.TrimSpace(tp) == "":
				v.Classes = append(v.Classes, "unspecified:blank")
				return v
			}
			if err != nil || cfg == nil {
				v.Classes = append(v.Classes, "unspecified:config-error")
				return v
			}
			// a second Config created while the first is alive must not change the first
			if c.Two {
				tp2 := c20U(c.T2)
				var cfg2 *Config
				var err2 error
				func() {
					defer func() {
						if p := recover(); p != nil {
							v.Fail = fmt.Sprintf("NewConfig(%q) panicked: %v", tp2, p)
						}
					}()
					cfg2, err2 = NewConfig(tp2)
				}()
				if v.Fail != "" {
					return v
				}
				v.Classes = append(v.Classes, "two-configs-alive")
				if err2 == nil && cfg2 != nil && tp2 != "" && strings.TrimSpace(tp2) != "" {
					if d2, v2 := c20Render(tp2, id), c20Render(cfg2.NamingFormat, id); d2 != v2 {
						return v.Failf("second config, template %q: through NewConfig (NamingFormat=%q) -> %s, directly -> %s", tp2, cfg2.NamingFormat, v2, d2)
					}
				}
			}
			direct, via := c20Render(tp, id), c20Render(cfg.NamingFormat, id)
			v.Classes = append(v.Classes, "direct:"+strings.SplitN(direct, ":", 2)[0])
			v.NonTrivial = strings.HasPrefix(direct, "ok: ") && strings.Contains(strings.Trim(id, "_"), "_")
			if direct != via {
				return v.Failf("template %q: through NewConfig (NamingFormat=%q) FileNamingFormat(_, %q) -> %s, directly -> %s", tp, cfg.NamingFormat, id, via, direct)
			}
			return v
		})
}
