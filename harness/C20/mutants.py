# Re-runs the sensitivity table of SENSITIVITY.md: cp -r /repo /tmp/verif-mut-C20 first; python3 mutants.py [name-prefix ...]
import subprocess, shutil, re, os, sys, json, glob
SRC='/repo/tools/god/util/'; DST='/tmp/verif-mut-C20/tools/god/util/'
F='format/format.go'; S='stringx/string.go'; C='../config/config.go'
def MEMO(key):
    return [("func FileNamingFormat(format, content string) (string, error) {\n",
             "var verifMemo = map[string]string{}\n\nfunc FileNamingFormat(format, content string) (res string, rerr error) {\n\tkey := " + key +
             "\n\tif m, ok := verifMemo[key]; ok {\n\t\treturn m, nil\n\t}\n\tdefer func() {\n\t\tif rerr == nil {\n\t\t\tverifMemo[key] = res\n\t\t}\n\t}()\n")]
M=[
 ("M1 indexGo > indexDesigner -> >= (DESIGN)", F, [("indexGo > indexDesigner","indexGo >= indexDesigner")]),
 ("M1b order check dropped", F, [("|| indexGo > indexDesigner","")]),
 ("M1c order check inverted (<)", F, [("indexGo > indexDesigner","indexGo < indexDesigner")]),
 ("M2 getStyle case order upper/title swapped (DESIGN)", F, [("\tcase strings.ToUpper(compare):\n\t\treturn upper, nil\n\tcase strings.Title(compare):\n\t\treturn title, nil","\tcase strings.Title(compare):\n\t\treturn title, nil\n\tcase strings.ToUpper(compare):\n\t\treturn upper, nil")]),
 ("M2b getStyle returns swapped (upper<->title)", F, [("\t\treturn upper, nil\n\tcase strings.Title(compare):\n\t\treturn title, nil","\t\treturn title, nil\n\tcase strings.Title(compare):\n\t\treturn upper, nil")]),
 ("M2c getStyle default accepts mixed casing as lower", F, [('return unknown, fmt.Errorf("意外的格式：%s", flag)','_ = fmt.Sprint; return lower, nil')]),
 ("M3 split does not flush before upper-case (DESIGN)", F, [("\t\tif r >= 'A' && r <= 'Z' {\n\t\t\tif buffer.Len() > 0 {\n\t\t\t\tlist = append(list, buffer.String())\n\t\t\t}\n\t\t\tbuffer.Reset()\n\t\t}\n","")]),
 ("M3b split upper bound off by one (r < 'Z')", F, [("r <= 'Z'","r < 'Z'")]),
 ("M3c split lower bound off by one (r > 'A')", F, [("r >= 'A'","r > 'A'")]),
 ("M3d split keeps empty words at '_'", F, [("\t\tif r == '_' {\n\t\t\tif buffer.Len() > 0 {\n\t\t\t\tlist = append(list, buffer.String())\n\t\t\t}","\t\tif r == '_' {\n\t\t\t{\n\t\t\t\tlist = append(list, buffer.String())\n\t\t\t}")]),
 ("M3e split drops last word at EOF", F, [("\t\t\t\tif buffer.Len() > 0 {\n\t\t\t\t\tlist = append(list, buffer.String())\n\t\t\t\t}\n\t\t\t\treturn list, nil","\t\t\t\treturn list, nil")]),
 ("M3f split: no Reset after '_'", F, [("\t\t\t\tlist = append(list, buffer.String())\n\t\t\t}\n\t\t\tbuffer.Reset()\n\t\t\tcontinue","\t\t\t\tlist = append(list, buffer.String())\n\t\t\t}\n\t\t\tcontinue")]),
 ("M4 first word uses designer style (i==0 -> i==1)", F, [("if i == 0 {","if i == 1 {")]),
 ("M4b all words use go style", F, [("join = append(join, transferTo(v, format.designerStyle))","join = append(join, transferTo(v, format.goStyle))")]),
 ("M5 through off by one (indexGo+3)", F, [("through = format[indexGo+2 : indexDesigner]","through = format[indexGo+3 : indexDesigner]")]),
 ("M5b after off by one (indexDesigner+7)", F, [("after = format[indexDesigner+8:]","after = format[indexDesigner+7:]")]),
 ("M5c before taken from upper-cased template", F, [("before = format[:indexGo]","before = upperFormat[:indexGo]")]),
 ("M5d suffix dropped", F, [("return format.before + joined + format.after, nil","return format.before + joined, nil")]),
 ("M9 designer casing judged on 7 bytes", F, [("flagDesigner = format[indexDesigner : indexDesigner+8]","flagDesigner = format[indexDesigner : indexDesigner+7]")]),
 ("M10 go casing judged on upper-cased template", F, [("flagGo = format[indexGo : indexGo+2]","flagGo = upperFormat[indexGo : indexGo+2]")]),
 ("M11 designer style error swallowed", F, [("\tdesignerStyle, err = getStyle(flagDesigner)\n\tif err != nil {\n\t\treturn \"\", err\n\t}","\tdesignerStyle, err = getStyle(flagDesigner)\n\tif err != nil {\n\t\terr = nil\n\t}")]),
 ("M12 GO located with LastIndex", F, [("indexGo := strings.Index(upperFormat, flagGo)","indexGo := strings.LastIndex(upperFormat, flagGo)")]),
 ("M13 missing-designer check dropped", F, [("indexGo < 0 || indexDesigner < 0 ||","indexGo < 0 ||")]),
 ("M6 transferTo upper<->lower swapped", F, [("\tcase upper:\n\t\treturn strings.ToUpper(v)\n\tcase lower:\n\t\treturn strings.ToLower(v)","\tcase upper:\n\t\treturn strings.ToLower(v)\n\tcase lower:\n\t\treturn strings.ToUpper(v)")]),
 ("M6b title leaves word unchanged", F, [("\tcase title:\n\t\treturn strings.Title(v)","\tcase title:\n\t\treturn v")]),
 ("M6c title lower-cases then titles only ASCII first byte", F, [("\t\treturn strings.Title(v)","\t\tif v == \"\" {\n\t\t\treturn v\n\t\t}\n\t\treturn strings.ToUpper(v[:1]) + v[1:]")]),
 ("M7 hidden state: split buffer is package-level, not reset at EOF (two-site)", F, [("\t\tbuffer = bytes.NewBuffer(nil)\n\t)","\t\tbuffer = verifBuf\n\t)"),("func getStyle(","var verifBuf = bytes.NewBuffer(nil)\n\nfunc getStyle(")]),
 ("M7b hidden state: result memoised by identifier only", F, [("func doFormat(format styleFormat, content string) (string, error) {","var verifMemo = map[string]string{}\n\nfunc doFormat(format styleFormat, content string) (s string, err error) {\n\tif m, ok := verifMemo[content]; ok {\n\t\treturn m, nil\n\t}\n\tdefer func() { verifMemo[content] = s }()")]),
 ("M8 join with fixed '_' instead of through", F, [("joined := strings.Join(join, format.through)","joined := strings.Join(join, \"_\")")]),
 ("C1 NewConfig trims the template", C, [("\tcfg := &Config{NamingFormat: format}","\tcfg := &Config{NamingFormat: strings.TrimSpace(format)}")]),
 ("C2 DefaultFormat lacks a word", C, [('const DefaultFormat = "godesigner"','const DefaultFormat = "godesign"')]),
 ("P1 stringx.Title uses a package-level x/text Caser (seeded/C20/shared-title-caser)", S, [("\treturn cases.Title(language.English, cases.NoLower).String(s.source)","\treturn verifCaser.String(s.source)"),("type String struct {","var verifCaser = cases.Title(language.English, cases.NoLower)\n\ntype String struct {")]),
 ("P2 format.split reuses a package-level buffer, Reset on entry (sequentially invisible)", F, [("\t\tbuffer = bytes.NewBuffer(nil)\n\t)\n","\t\tbuffer = verifBuf\n\t)\n\tbuffer.Reset()\n"),("func getStyle(","var verifBuf = bytes.NewBuffer(nil)\n\nfunc getStyle(")]),
 ("L1 format.split on bufio.Scanner with the default 64 KiB token limit (seeded/C20/split-scanner-long-word-limit)", F, "/verif/seeded/C20/split-scanner-long-word-limit/patch.diff"),
 ("L2 stringx.splitBy flushes a piece when it reaches 4096 bytes", S, [("\t\tbuffer.WriteRune(r)\n\t}\n\tif buffer.Len() != 0 {","\t\tbuffer.WriteRune(r)\n\t\tif buffer.Len() >= 4096 {\n\t\t\tlist = append(list, buffer.String())\n\t\t\tbuffer.Reset()\n\t\t}\n\t}\n\tif buffer.Len() != 0 {")]),
 ("L3 stringx.ToSnake marks the receiver in a fixed 64 KiB scratch array", S, [("func (s String) ToSnake() string {","func (s String) ToSnake() string {\n\tif len(s.source) > 0 {\n\t\tvar scratch [1 << 16]byte\n\t\tscratch[len(s.source)-1] = 1\n\t}")]),
 ("A1 doFormat assembles the result with fmt.Sprintf(before+\"%s\"+after, joined)", F, [("return format.before + joined + format.after, nil",'return fmt.Sprintf(format.before+"%s"+format.after, joined), nil')]),
 ("A2 words joined through regexp ReplaceAllString (expands $ in through)", F, [("joined := strings.Join(join, format.through)",'joined := regexp.MustCompile("\\x00").ReplaceAllString(strings.Join(join, "\\x00"), format.through)'),('import (\n\t"bytes"','import (\n\t"regexp"\n\t"bytes"')]),
 ("A2b words joined through regexp ReplaceAllString on a private marker (only $ in through matters)", F, [("joined := strings.Join(join, format.through)",'joined := regexp.MustCompile("\\x1f\\x1e").ReplaceAllString(strings.Join(join, "\\x1f\\x1e"), format.through)'),('import (\n\t"bytes"','import (\n\t"regexp"\n\t"bytes"')]),
 ("K1 results memoised under template+\":\"+identifier (seeded/C20/result-memo-ambiguous-key)", F, "/verif/seeded/C20/result-memo-ambiguous-key/patch.diff"),
 ("K2 results memoised under template+identifier (no separator)", F, MEMO('format + content')),
 ("K3 results memoised under strings.ToLower(template)+NUL+identifier", F, MEMO('strings.ToLower(format) + "\\x00" + content')),
 ("K4 results memoised under template+NUL+strings.TrimSpace(identifier)", F, MEMO('format + "\\x00" + strings.TrimSpace(content)')),
 ("H1 every 50000th call of split returns the previous call's words (long-lived process state)", F, [("func split(content string) ([]string, error) {","var verifCalls int\nvar verifLast []string\n\nfunc split(content string) (res []string, err error) {\n\tverifCalls++\n\tif verifCalls%50000 == 0 {\n\t\treturn verifLast, nil\n\t}\n\tdefer func() { verifLast = res }()")]),
 ("T1 asciiUpper copies the template into a fixed 4096-byte array", F, [("\tb := []byte(s)\n\tfor i, c := range b {","\tvar arr [4096]byte\n\tb := arr[:copy(arr[:], s)]\n\tfor i, c := range b {")]),
 ("G1 NewConfig returns one shared package-level Config", C, [("\tcfg := &Config{NamingFormat: format}","\tcfg := &verifShared\n\tcfg.NamingFormat = format"),("func validate(","var verifShared Config\n\nfunc validate(")]),
 ("S1 ToSnake joins with empty string", S, [('return strings.Join(target, "_")','return strings.Join(target, "")')]),
 ("S2 ToCamel keeps underscores (remove=false)", S, [("\t\treturn r == '_'\n\t}, true)","\t\treturn r == '_'\n\t}, false)")]),
 ("S3 splitBy drops last piece", S, [("\tif buffer.Len() != 0 {\n\t\tlist = append(list, buffer.String())\n\t}\n\n\treturn list","\treturn list")]),
 ("S4 splitBy: no Reset after flush", S, [("\t\t\t\tlist = append(list, buffer.String())\n\t\t\t\tbuffer.Reset()","\t\t\t\tlist = append(list, buffer.String())")]),
 ("S5 ToSnake does not lower-case", S, [("target = append(target, From(item).ToLower())","target = append(target, item)")]),
 ("S6 Title indexes first byte (panics on empty piece guard removed)", S, [("\treturn cases.Title(language.English, cases.NoLower).String(s.source)","\t_ = cases.NoLower\n\t_ = language.English\n\treturn strings.ToUpper(s.source[:1]) + s.source[2:]")]),
 ("S7 ToSnake splits with ASCII-only test off by one (r > 'A')", S, [("list := s.splitBy(unicode.IsUpper, false)","list := s.splitBy(func(r rune) bool { return r > 'A' && r <= 'Z' }, false)")]),
 ("S8 IsEmptyOrSpace guard dropped in splitBy + index panic on blank", S, [("func (s String) ToSnake() string {","func (s String) ToSnake() string {\n\tif s.source[len(s.source)-1] == ' ' {\n\t\treturn s.source\n\t}")]),
 ("S9 UnTitle indexing bytes (DESIGN; already the code) -> slice [2:] variant", S, [("return string(unicode.ToLower(r)) + s.source[1:]","return string(unicode.ToLower(r)) + s.source[2:]")]),
 ("N1 NewConfig strips pasted full-width / no-break spaces before the unset test", C, [("\tif len(format) == 0 {","\tformat = strings.Trim(format, \"\\u3000\\u00a0\")\n\tif len(format) == 0 {")]),
 ("N1b NewConfig treats a template of Unicode (non-ASCII) white space only as unset", C, [("\tif len(format) == 0 {","\tif len(format) == 0 || (format[0] >= 0x80 && strings.TrimSpace(format) == \"\") {")]),
 ("N2 validate refuses templates containing white space", C, [("\tif len(strings.TrimSpace(cfg.NamingFormat)) == 0 {","\tif len(strings.TrimSpace(cfg.NamingFormat)) == 0 || strings.ContainsAny(cfg.NamingFormat, \" \\t\\r\\n\") {")]),
 ("N3 NewConfig treats a template without printable characters as unset", C, [("\tif len(format) == 0 {","\tif strings.IndexFunc(format, func(r rune) bool { return r > ' ' && r != 0x7f && r != 0x200b && r != 0xfeff && r != 0xa0 && r != 0x3000 }) < 0 {")]),
 ("N4 blank template = seeded/C20/config-blank-template-defaulted", C, "/verif/seeded/C20/config-blank-template-defaulted/patch.diff"),
 ("S10 ContainsAny looks runes up in a fixed [128]bool table", S, [("\t\tif _, ok := tmp[r]; ok {","\t\tvar ascii [128]bool\n\t\tif _, ok := tmp[r]; ok || ascii[r] {")]),
]
only = sys.argv[1:] 
out=[]
for name,f,reps in M:
    if only and not any(name.startswith(o) for o in only): continue
    for ff in (F,S,C): shutil.copy(SRC+ff, DST+ff)
    src=open(DST+f).read()
    ok=True
    if isinstance(reps,str):
        r=subprocess.run(['patch','-p1','-d','/tmp/verif-mut-C20','-i',reps],capture_output=True,text=True)
        if r.returncode!=0: print("PATCH PROBLEM", name, r.stdout, r.stderr); continue
        src=open(DST+f).read(); reps=[]
    for a,b in reps:
        if src.count(a)!=1: print("ANCHOR PROBLEM", name, repr(a), src.count(a)); ok=False; break
        src=src.replace(a,b)
    if not ok: continue
    open(DST+f,'w').write(src)
    env=dict(os.environ, VERIF_REPO='/tmp/verif-mut-C20', VERIF_TIMEOUT='120', VERIF_SHRINKTIME='5s')
    for d in glob.glob('/verif/.work/C20.p*'): shutil.rmtree(d, ignore_errors=True)
    r=subprocess.run(['/verif/bin/check','C20','--keep'],env=env,capture_output=True,text=True)
    viol=[l for l in r.stdout.splitlines() if l.startswith('VIOLATION') or l.startswith('  rule=')]
    # cases until first failure, from rapid's log lines
    after={}
    for lp in glob.glob('/verif/.work/C20.p*/log_*.txt'):
        txt=open(lp,errors='replace').read()
        for m in re.finditer(r'--- FAIL: TestVerif_C20_(\w+).*?\n(?:.*\n)*?.*?failed after (\d+) tests', txt):
            after[m.group(1)]=int(m.group(2))
    summ=[l for l in r.stdout.splitlines() if l.startswith(('OK','C20 ','INCONCLUSIVE','BUILD'))]
    print("== %s\n   rc=%d %s after=%s" % (name, r.returncode, summ[-1:] , after))
    for l in viol: print("   "+l[:260])
    sys.stdout.flush()
for ff in (F,S,C): shutil.copy(SRC+ff, DST+ff)
for d in glob.glob('/verif/.work/C20.p*'): shutil.rmtree(d, ignore_errors=True)
