package format

// C20 — code generator naming: FileNamingFormat renders identifiers
// deterministically from a style template. Harness injected by /verif
// (overlay); see /verif/DESIGN.md "C20" and harness/C20/verif.json.
//
// The oracle is a reference written from the property statement only:
//
//   template = prefix + GO-word + through + DESIGNER-word + suffix
//   result   = prefix + join(words(identifier) cased, through) + suffix
//
// with every place where the statement is silent made explicit as a SET of
// admissible readings (the result must equal one of them in full) or as
// UNSPECIFIED (run for panics and determinism only):
//
//   * a template in which the two words can be located in more than one way
//     (case-insensitively, ASCII) admits the outcome of every such parse, and
//     "rejected" as well when some 'go' stands after some 'designer';
//   * "upper-case letters" is read both as ASCII A-Z and as Unicode upper/title
//     case; the casing of 'Go' is read as ToTitle or ToUpper of the first rune
//     with the rest of the word unchanged or lower-cased; all these readings
//     coincide for identifiers over [A-Za-z0-9_];
//   * title-casing a word that contains anything but letters and digits, and
//     identifiers that are not valid UTF-8, are UNSPECIFIED.

import (
	"fmt"
	"os"
	"strconv"
	"strings"
	"testing"
	"unicode"
	"unicode/utf8"

	"pgregory.net/rapid"
	"verif.local/kit"
)

func init() {
	// bin/check always sets VERIF_KNOWN to /verif/known_findings.txt, which a
	// harness builder must not edit. A private list can be supplied with
	// VERIF_KNOWN_PRIVATE (kit reads VERIF_KNOWN lazily, after init).
	if p := os.Getenv("VERIF_KNOWN_PRIVATE"); p != "" {
		os.Setenv("VERIF_KNOWN", p)
	}
}

// ---------------------------------------------------------------- case data

// Strings are stored strconv.Quote'd (without the outer quotes) so that
// invalid UTF-8 and unprintable runes survive the JSON replay file exactly.
type c20Case struct {
	T  string `json:"t"`            // template
	I  string `json:"i"`            // identifier
	T2 string `json:"t2,omitempty"` // unrelated call made between the two evaluations
	I2 string `json:"i2,omitempty"`
	N  bool   `json:"n,omitempty"` // make the unrelated call
}

func c20Q(s string) string { q := strconv.Quote(s); return q[1 : len(q)-1] }

func c20U(s string) string {
	u, err := strconv.Unquote(`"` + s + `"`)
	if err != nil {
		panic("c20: case string does not unquote: " + s)
	}
	return u
}

// ---------------------------------------------------------------- reference

const (
	c20Lower = iota
	c20Upper
	c20Title
	c20Mixed
)

var c20StyleName = [...]string{"lower", "upper", "title", "mixed"}

func c20Fold(b byte) byte {
	if 'A' <= b && b <= 'Z' {
		return b + 'a' - 'A'
	}
	return b
}

// c20Occ: byte offsets at which word (lower-case ASCII) occurs in t, ASCII
// case-insensitively. Bytes >= 0x80 never match, so offsets are rune aligned.
func c20Occ(t, word string) []int {
	var out []int
	for i := 0; i+len(word) <= len(t); i++ {
		ok := true
		for k := 0; k < len(word); k++ {
			if c20Fold(t[i+k]) != word[k] {
				ok = false
				break
			}
		}
		if ok {
			out = append(out, i)
		}
	}
	return out
}

// c20WordStyle: the casing in which word (given in lower case) is written in s.
func c20WordStyle(s, word string) int {
	up := []byte(word)
	for i := range up {
		up[i] -= 'a' - 'A'
	}
	switch s {
	case word:
		return c20Lower
	case string(up):
		return c20Upper
	case string(up[:1]) + word[1:]:
		return c20Title
	}
	return c20Mixed
}

type c20Parse struct {
	pre, thr, suf string
	gs, ds        int
}

func (p c20Parse) reject() bool { return p.gs == c20Mixed || p.ds == c20Mixed }

// c20Template: every way of reading t as prefix+go+through+designer+suffix,
// whether "rejected" is an admissible outcome, and a class label.
func c20Template(t string) (parses []c20Parse, rejectOK bool, class string) {
	gos, des := c20Occ(t, "go"), c20Occ(t, "designer")
	for _, i := range gos {
		for _, j := range des {
			if j >= i+2 {
				parses = append(parses, c20Parse{
					pre: t[:i], thr: t[i+2 : j], suf: t[j+8:],
					gs: c20WordStyle(t[i:i+2], "go"), ds: c20WordStyle(t[j:j+8], "designer"),
				})
			}
		}
	}
	if len(parses) == 0 {
		switch {
		case len(gos) == 0 && len(des) == 0:
			class = "reject-neither-word"
		case len(gos) == 0:
			class = "reject-no-go"
		case len(des) == 0:
			class = "reject-no-designer"
		default:
			class = "reject-reversed"
		}
		return nil, true, class
	}
	reversed := false
	for _, i := range gos {
		for _, j := range des {
			if i > j {
				reversed = true
			}
		}
	}
	anyRender := false
	for _, p := range parses {
		if p.reject() {
			rejectOK = true
		} else {
			anyRender = true
		}
	}
	switch {
	case len(parses) == 1 && !reversed && anyRender:
		class = "valid"
	case len(parses) == 1 && !reversed:
		class = "reject-mixed-casing"
	case !anyRender:
		class = "reject-mixed-casing-multi"
	default:
		class = "ambiguous"
	}
	if reversed {
		rejectOK = true
	}
	return parses, rejectOK, class
}

func c20Words(id string, unicodeReading bool) []string {
	var words []string
	var cur []rune
	flush := func() {
		if len(cur) > 0 {
			words = append(words, string(cur))
			cur = cur[:0]
		}
	}
	for _, r := range id {
		if r == '_' {
			flush()
			continue
		}
		up := 'A' <= r && r <= 'Z'
		if unicodeReading && r >= utf8.RuneSelf && (unicode.IsUpper(r) || unicode.IsTitle(r)) {
			up = true
		}
		if up {
			flush()
		}
		cur = append(cur, r)
	}
	flush()
	return words
}

func c20Plain(w string) bool {
	for _, r := range w {
		if !unicode.IsLetter(r) && !unicode.IsDigit(r) {
			return false
		}
	}
	return true
}

// c20Cased: word in the given style; variant selects the reading of title
// casing (bit 0: ToUpper instead of ToTitle; bit 1: lower-case the rest).
func c20Cased(w string, style, variant int) string {
	rs := []rune(w)
	for i, r := range rs {
		switch style {
		case c20Lower:
			rs[i] = unicode.ToLower(r)
		case c20Upper:
			rs[i] = unicode.ToUpper(r)
		case c20Title:
			if i == 0 {
				if variant&1 != 0 {
					rs[i] = unicode.ToUpper(r)
				} else {
					rs[i] = unicode.ToTitle(r)
				}
			} else if variant&2 != 0 {
				rs[i] = unicode.ToLower(r)
			}
		}
	}
	return string(rs)
}

// c20Render: the admissible file names for parse p and identifier id; unspec
// is non-empty when the statement does not determine the result.
func c20Render(p c20Parse, id string) (cands []string, unspec string) {
	if !utf8.ValidString(id) {
		return nil, "ident-invalid-utf8"
	}
	seen := map[string]bool{}
	for reading := 0; reading < 2; reading++ {
		words := c20Words(id, reading == 1)
		for i, w := range words {
			st := p.ds
			if i == 0 {
				st = p.gs
			}
			if st == c20Title && !c20Plain(w) {
				return nil, "title-of-word-with-punctuation"
			}
		}
		for variant := 0; variant < 4; variant++ {
			parts := make([]string, len(words))
			for i, w := range words {
				st := p.ds
				if i == 0 {
					st = p.gs
				}
				parts[i] = c20Cased(w, st, variant)
			}
			s := p.pre + strings.Join(parts, p.thr) + p.suf
			if !seen[s] {
				seen[s] = true
				cands = append(cands, s)
			}
		}
	}
	return cands, ""
}

// c20KnownShift characterises the finding "upper-index-shift" (FINDINGS.md):
// FileNamingFormat searches the words in strings.ToUpper(template) and slices
// the ORIGINAL template with the offsets found there. The predicate is true
// exactly when those offsets differ from the offsets of the first ASCII
// case-insensitive occurrences in the template itself (a rune before the
// words whose upper-case image has another encoded length, an invalid byte
// that ToUpper widens to U+FFFD, or a non-ASCII rune folding to an ASCII
// letter of the words such as U+017F or U+0131).
func c20KnownShift(t string) bool {
	a := []byte(t)
	for i, b := range a {
		if 'a' <= b && b <= 'z' {
			a[i] = b - ('a' - 'A')
		}
	}
	u := strings.ToUpper(t)
	return strings.Index(u, "GO") != strings.Index(string(a), "GO") ||
		strings.Index(u, "DESIGNER") != strings.Index(string(a), "DESIGNER")
}

// c20Short quotes s, abbreviating the middle of long strings.
func c20Short(s string) string {
	if len(s) <= 160 {
		return strconv.Quote(s)
	}
	return fmt.Sprintf("%s...(%d bytes)...%s", strconv.Quote(s[:60]), len(s), strconv.Quote(s[len(s)-40:]))
}

type c20Result struct {
	s     string
	err   string
	isErr bool
	panic string
}

func c20Call(t, id string) (r c20Result) {
	defer func() {
		if p := recover(); p != nil {
			r = c20Result{panic: fmt.Sprint(p)}
		}
	}()
	s, err := FileNamingFormat(t, id)
	r.s = s
	if err != nil {
		r.isErr = true
		r.err = err.Error()
	}
	return r
}

func c20IdentClasses(id string, add func(string)) {
	if id == "" {
		add("id:empty")
		return
	}
	if !utf8.ValidString(id) {
		add("id:invalid-utf8")
		return
	}
	w := c20Words(id, false)
	switch {
	case len(w) == 0:
		add("id:words=0")
	case len(w) == 1:
		add("id:words=1")
	case len(w) == 2:
		add("id:words=2")
	default:
		add("id:words>=3")
	}
	if strings.Contains(id, "__") {
		add("id:repeated-underscore")
	}
	if strings.HasPrefix(id, "_") || strings.HasSuffix(id, "_") {
		add("id:edge-underscore")
	}
	ascii, digit, acronym, punct, uniUpper := true, false, false, false, false
	prevUp := false
	for _, r := range id {
		if r >= utf8.RuneSelf {
			ascii = false
			if unicode.IsUpper(r) || unicode.IsTitle(r) {
				uniUpper = true
			}
		}
		if '0' <= r && r <= '9' {
			digit = true
		}
		up := 'A' <= r && r <= 'Z'
		if up && prevUp {
			acronym = true
		}
		prevUp = up
		if r != '_' && !unicode.IsLetter(r) && !unicode.IsDigit(r) {
			punct = true
		}
	}
	if !ascii {
		add("id:non-ascii")
	}
	if uniUpper {
		add("id:unicode-upper")
	}
	if digit {
		add("id:digits")
	}
	if acronym {
		add("id:acronym")
	}
	if punct {
		add("id:punctuation")
	}
}

// c20Judge runs one (template, identifier) pair against the code and the
// reference. noise, when non-nil, is called between the two evaluations.
func c20Judge(t, id string, noise func()) (v kit.Verdict) {
	cls := map[string]bool{}
	add := func(c string) { cls[c] = true }
	defer func() {
		for c := range cls {
			v.Classes = append(v.Classes, c)
		}
	}()

	parses, rejectOK, tclass := c20Template(t)
	add("tpl:" + tclass)
	for i := 0; i < len(t); i++ {
		if t[i] >= utf8.RuneSelf {
			add("tpl:non-ascii")
			break
		}
	}
	if c20HasMeta(t) {
		add("tpl:metachar")
	}
	if c20HasMeta(id) {
		add("id:metachar")
	}
	shift := c20KnownShift(t)
	if shift {
		add("tpl:upper-index-shift")
	}
	c20IdentClasses(id, add)

	fail := func(format string, args ...any) kit.Verdict {
		v.Fail = fmt.Sprintf("FileNamingFormat(%s, %s): ", c20Short(t), c20Short(id)) + fmt.Sprintf(format, args...)
		if shift {
			v.Known = "upper-index-shift"
		}
		return v
	}

	r1 := c20Call(t, id)
	if noise != nil {
		noise()
	}
	r2 := c20Call(t, id)
	if r1.panic != "" {
		return fail("panic: %s", r1.panic)
	}
	if r1 != r2 {
		return fail("not deterministic: first call %+v, second call %+v", r1, r2)
	}

	if len(parses) == 0 {
		if !r1.isErr {
			return fail("template lacks a word or has the words in the wrong order (%s) but was accepted: %s", tclass, c20Short(r1.s))
		}
		return v
	}
	if r1.isErr {
		if !rejectOK {
			p := parses[0]
			return fail("valid template (prefix %s, go in %s case, through %s, designer in %s case, suffix %s) rejected: %s",
				c20Short(p.pre), c20StyleName[p.gs], c20Short(p.thr), c20StyleName[p.ds], c20Short(p.suf), r1.err)
		}
		return v
	}
	// accepted: the result must be an admissible rendering of one parse in full
	var want []string
	nrender := 0
	for _, p := range parses {
		if p.reject() {
			continue
		}
		nrender++
		cands, unspec := c20Render(p, id)
		if unspec != "" {
			add("oracle:unspecified:" + unspec)
			return v
		}
		for _, c := range cands {
			if c == r1.s {
				if len(parses) == 1 && !rejectOK {
					if len(cands) == 1 {
						add("oracle:exact")
					} else {
						add("oracle:one-of-readings")
					}
					add("style:" + c20StyleName[p.gs] + "/" + c20StyleName[p.ds])
					v.NonTrivial = p.gs != p.ds && len(c20Words(id, false)) >= 2
				} else {
					add("oracle:one-of-parses")
				}
				return v
			}
		}
		want = append(want, cands...)
	}
	if nrender == 0 {
		return fail("template has the words only in mixed casing (%s) but was accepted: %s", tclass, c20Short(r1.s))
	}
	if len(want) > 6 {
		want = want[:6]
	}
	for i := range want {
		want[i] = c20Short(want[i])
	}
	return fail("got %s, want one of [%s]", c20Short(r1.s), strings.Join(want, " "))
}

// ---------------------------------------------------------------- generators

var c20Special = []string{
	"ſ", "ı", "K", "ɐ", "İ", "ß", "ǆ", "ι", "ȿ", "é", "É",
	"用户", "前缀", "后缀", "\xff", "\xc3", "\xe4\xb8", "�", " ",
}

// c20Meta: format verbs, regexp / glob / shell / text-template metacharacters,
// NUL and control characters: legal in a template (and in an identifier) and
// special to helpers a renderer might be tempted to use.
var c20Meta = []string{"%s", "%d", "%!", "%", "%%", "%v%", "$", "$1", "${x}", "$(x)", "*", "?", "[a-z]", "[", "\\", "\\E", "`",
	"{{.}}", "{{", "\x00", "|", "^", "(", ")", "(?i)", "+", "~", "'", "\"", ";", "&", "<", ">", "\n", "\t", "\r", "\x7f", "..", "/", "a/b", "%s_%d"}

func c20HasMeta(s string) bool {
	return strings.ContainsAny(s, "%$*?[]\\`{}()|^+~'\";&<>\x00\n\t\r\x7f/")
}

func c20Fragment() *rapid.Generator[string] {
	return rapid.Custom(func(rt *rapid.T) string {
		switch k := rapid.IntRange(0, 99).Draw(rt, "fk"); {
		case k < 30:
			return ""
		case k < 50:
			return rapid.SampledFrom([]string{"_", "-", "#", ".", "###", "/", " ", "__", "*", "{", "}", "[", "]", ".tmpl", "_gen"}).Draw(rt, "sep")
		case k < 68:
			// cannot contain either word: no d, g, o
			return rapid.StringMatching(`[a-cefh-np-zA-CEFH-NP-Z0-9_#. \-]{0,6}`).Draw(rt, "plain")
		case k < 78:
			return rapid.SampledFrom([]string{"g", "o", "G", "O", "og", "d", "D", "de", "des", "design", "designe", "esigner",
				"DESIGNE", "g_o", "desinger", "g0", "d_e_s_i_g_n_e_r"}).Draw(rt, "near")
		case k < 84:
			return rapid.SampledFrom([]string{"go", "GO", "Go", "gO", "designer", "Designer", "DESIGNER", "deSigner", "go_designer", "designergo"}).Draw(rt, "ambig")
		case k < 88:
			return rapid.SampledFrom(c20Meta).Draw(rt, "meta")
		case k < 94:
			return rapid.SampledFrom(c20Special).Draw(rt, "special") + rapid.SampledFrom([]string{"", "", "_", "x"}).Draw(rt, "tail")
		default:
			return rapid.StringN(0, 4, 12).Draw(rt, "any")
		}
	})
}

func c20MixedCasing(rt *rapid.T, word string) string {
	for {
		m := rapid.IntRange(1, 1<<len(word)-2).Draw(rt, "mask")
		b := []byte(word)
		for i := range b {
			if m&(1<<i) != 0 {
				b[i] -= 'a' - 'A'
			}
		}
		if c20WordStyle(string(b), word) == c20Mixed {
			return string(b)
		}
	}
}

func c20TemplateGen() *rapid.Generator[string] {
	frag := c20Fragment()
	return rapid.Custom(func(rt *rapid.T) string {
		goW := rapid.SampledFrom([]string{"go", "GO", "Go"}).Draw(rt, "go")
		deW := rapid.SampledFrom([]string{"designer", "DESIGNER", "Designer"}).Draw(rt, "designer")
		pre, thr, suf := frag.Draw(rt, "pre"), frag.Draw(rt, "thr"), frag.Draw(rt, "suf")
		switch k := rapid.IntRange(0, 99).Draw(rt, "shape"); {
		case k < 62:
			return pre + goW + thr + deW + suf
		case k < 68:
			return pre + thr + deW + suf // no go
		case k < 74:
			return pre + goW + thr + suf // no designer
		case k < 80:
			return pre + deW + thr + goW + suf // reversed
		case k < 85:
			return pre + c20MixedCasing(rt, "go") + thr + deW + suf
		case k < 91:
			return pre + goW + thr + c20MixedCasing(rt, "designer") + suf
		case k < 94:
			return pre + thr + suf
		case k < 97:
			return rapid.String().Draw(rt, "anytpl")
		default:
			return string(rapid.SliceOfN(rapid.Byte(), 0, 16).Draw(rt, "bytes"))
		}
	})
}

func c20IdentGen() *rapid.Generator[string] {
	lower := rapid.StringMatching(`[a-z]{1,8}`)
	word := rapid.Custom(func(rt *rapid.T) string {
		switch k := rapid.IntRange(0, 99).Draw(rt, "wk"); {
		case k < 45:
			return lower.Draw(rt, "w")
		case k < 60:
			return rapid.StringMatching(`[A-Z][a-z]{0,6}`).Draw(rt, "w")
		case k < 70:
			return rapid.StringMatching(`[A-Z]{2,5}`).Draw(rt, "w")
		case k < 78:
			return rapid.StringMatching(`[a-z]{1,4}[A-Z][a-z]{1,4}`).Draw(rt, "w")
		case k < 88:
			return rapid.StringMatching(`[a-z]{0,3}[0-9]{1,3}[a-zA-Z]{0,3}`).Draw(rt, "w")
		default:
			return rapid.StringMatching(`[a-zA-Z]`).Draw(rt, "w")
		}
	})
	uniWord := rapid.SampledFrom([]string{"été", "用户", "straße", "ñandú", "ǆa", "ſ", "σς",
		"État", "Ünï", "İx", "ǅa", "Σx", "aÉb", "აბ", "é"})
	sep := rapid.SampledFrom([]string{"_", "_", "_", "_", "_", "_", "_", "", "", "__", "___"})
	edge := rapid.SampledFrom([]string{"", "", "", "", "_", "__"})
	join := func(rt *rapid.T, ws []string) string {
		var b strings.Builder
		b.WriteString(edge.Draw(rt, "lead"))
		for i, w := range ws {
			if i > 0 {
				b.WriteString(sep.Draw(rt, "sep"))
			}
			b.WriteString(w)
		}
		b.WriteString(edge.Draw(rt, "trail"))
		return b.String()
	}
	return rapid.Custom(func(rt *rapid.T) string {
		switch k := rapid.IntRange(0, 99).Draw(rt, "ik"); {
		case k < 58:
			return join(rt, rapid.SliceOfN(word, 1, 6).Draw(rt, "words"))
		case k < 65:
			return rapid.SampledFrom([]string{"", "_", "__", "HTTPServer", "welcome_to_go_designer", "WelcomeToGoDesigner", "A", "a",
				"user_info", "userID", "ID", "_A_", "a_b_CD_EF", "go_designer", "GoDesigner", "GOD", "zhkGo_designer", "x1", "1x", "9"}).Draw(rt, "fixed")
		case k < 80:
			return join(rt, rapid.SliceOfN(rapid.OneOf(word, uniWord), 1, 4).Draw(rt, "uwords"))
		case k < 88:
			return rapid.String().Draw(rt, "anyid")
		case k < 95:
			return join(rt, rapid.SliceOfN(rapid.OneOf(word, rapid.SampledFrom(c20Meta), rapid.SampledFrom([]string{"user-info", "a.b", "a b", "x-", "-x", "a b", "a—b", "#"})), 1, 3).Draw(rt, "pwords"))
		default:
			return string(rapid.SliceOfN(rapid.Byte(), 0, 12).Draw(rt, "idbytes"))
		}
	})
}

// ---------------------------------------------------------------- rules

// naming-render: random (template, identifier) pairs of every kind.
func TestVerif_C20_naming_render(t *testing.T) {
	tg, ig := c20TemplateGen(), c20IdentGen()
	kit.Run(t, "C20", "naming-render", kit.Opts{Quick: 60000, Thorough: 3200000},
		func(rt *rapid.T) c20Case {
			c := c20Case{T: c20Q(tg.Draw(rt, "t")), I: c20Q(ig.Draw(rt, "i"))}
			if rapid.Bool().Draw(rt, "noise") {
				c.N = true
				c.T2, c.I2 = c20Q(tg.Draw(rt, "t2")), c20Q(ig.Draw(rt, "i2"))
			}
			return c
		},
		func(c c20Case) kit.Verdict {
			var noise func()
			if c.N {
				t2, i2 := c20U(c.T2), c20U(c.I2)
				noise = func() { c20Call(t2, i2) }
			}
			v := c20Judge(c20U(c.T), c20U(c.I), noise)
			if c.N && v.Fail == "" {
				// the unrelated call is a call like any other: judge it as well
				// (its classes are not counted, the case is classified by T/I)
				if v2 := c20Judge(c20U(c.T2), c20U(c.I2), nil); v2.Fail != "" {
					v.Fail, v.Known = "unrelated call after FileNamingFormat("+c20Short(c20U(c.T))+", "+c20Short(c20U(c.I))+"): "+v2.Fail, v2.Known
				}
			}
			return v
		})
}

// naming-casings: every one of the 4 x 256 casings of the two words, in three
// layouts, against three identifiers: exactly the 3 x 3 single-casing
// combinations are accepted and rendered, everything else is rejected.
func TestVerif_C20_naming_casings(t *testing.T) {
	layouts := [][3]string{{"", "_", ""}, {"x-", "", ".y"}, {"[", "###", "]"}}
	idents := []string{"welcome_to_go_designer", "HTTPServer2", "a"}
	casing := func(word string, m int) string {
		b := []byte(word)
		for i := range b {
			if m&(1<<i) != 0 {
				b[i] -= 'a' - 'A'
			}
		}
		return string(b)
	}
	kit.Enumerate(t, "C20", "naming-casings",
		func(yield func(c20Case) bool) {
			for _, l := range layouts {
				for g := 0; g < 4; g++ {
					for d := 0; d < 256; d++ {
						for _, id := range idents {
							tpl := l[0] + casing("go", g) + l[1] + casing("designer", d) + l[2]
							if !yield(c20Case{T: c20Q(tpl), I: c20Q(id)}) {
								return
							}
						}
					}
				}
			}
		},
		func(c c20Case) kit.Verdict { return c20Judge(c20U(c.T), c20U(c.I), nil) })
}
