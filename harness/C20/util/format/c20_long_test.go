package format

// C20 — size class: "every identifier string" includes long ones. Identifiers
// are built from a small description (word lengths, filler pattern, separator)
// so that a case stays a few bytes of JSON while the identifier reaches 1 MiB
// or 10 000 words. Single words and totals sit around powers of two and the
// usual buffer sizes (bufio's 4096 / 65536, 32 Ki, 128 Ki, 1 Mi).
// Oracle: the unchanged reference of c20_test.go (c20Judge).

import (
	"fmt"
	"strings"
	"testing"
	"unicode/utf8"

	"pgregory.net/rapid"
	"verif.local/kit"
)

type c20Long struct {
	L   []int  `json:"l"`             // byte length of every word
	N   int    `json:"n,omitempty"`   // the list L is repeated N times (0: once)
	F   string `json:"f"`             // filler cycled to fill a word (strconv.Quote'd, no outer quotes)
	Sep string `json:"sep"`           // between words
	Cap bool   `json:"cap,omitempty"` // upper-case the first byte of every word (camel form)
	Pre string `json:"pre,omitempty"` // leading text (e.g. underscores)
}

type c20LongCase struct {
	T string  `json:"t"`
	I c20Long `json:"i"`
}

const c20LongMax = 4 << 20

// c20LongBuild returns the identifier; ok is false when the description is
// outside the size bound (hand-edited replay files).
func c20LongBuild(d c20Long) (id string, words int, maxWord int, ok bool) {
	fill := []rune(c20U(d.F))
	if len(fill) == 0 {
		fill = []rune{'x'}
	}
	n := d.N
	if n < 1 {
		n = 1
	}
	total := len(d.Pre)
	for _, l := range d.L {
		if l < 0 || l > c20LongMax {
			return "", 0, 0, false
		}
		total += (l + len(d.Sep)) * n
		if total > c20LongMax {
			return "", 0, 0, false
		}
	}
	var b strings.Builder
	b.Grow(total)
	b.WriteString(d.Pre)
	for rep := 0; rep < n; rep++ {
		for _, l := range d.L {
			if words > 0 {
				b.WriteString(d.Sep)
			}
			words++
			if l > maxWord {
				maxWord = l
			}
			start := b.Len()
			for k := 0; b.Len()-start < l; k++ {
				r := fill[k%len(fill)]
				if b.Len()-start+utf8.RuneLen(r) > l {
					r = 'x'
				}
				if k == 0 && d.Cap && 'a' <= r && r <= 'z' {
					r -= 'a' - 'A'
				}
				b.WriteRune(r)
			}
		}
	}
	return b.String(), words, maxWord, true
}

var c20LongSizes = []int{65536, 65537, 65535, 4096, 4097, 4095, 32768, 32769, 32767, 256, 257, 255, 128, 129, 127, 131072, 1 << 20}

// c20LongGen draws a description. fillers must not contain '_' or upper case
// when the words are to stay whole.
func c20LongGen(fillers []string, seps []string) *rapid.Generator[c20Long] {
	return rapid.Custom(func(rt *rapid.T) c20Long {
		d := c20Long{F: c20Q(rapid.SampledFrom(fillers).Draw(rt, "f")), Sep: rapid.SampledFrom(seps).Draw(rt, "sep")}
		if d.Sep == "" {
			d.Cap = true // camel form: the capital starts the word
		} else {
			d.Cap = rapid.IntRange(0, 3).Draw(rt, "cap") == 0
		}
		d.Pre = rapid.SampledFrom([]string{"", "", "", "_", "__"}).Draw(rt, "pre")
		size := rapid.SampledFrom(c20LongSizes).Draw(rt, "size") + rapid.SampledFrom([]int{0, 0, 0, -2, 2, 3}).Draw(rt, "delta")
		small := func(label string) int { return rapid.IntRange(1, 9).Draw(rt, label) }
		switch k := rapid.IntRange(0, 9).Draw(rt, "shape"); {
		case k < 3: // one word of that size
			d.L = []int{size}
		case k < 6: // such a word between short ones
			d.L = []int{small("a"), size, small("b")}
		case k < 8: // several words whose TOTAL (with separators) is that size
			n := rapid.SampledFrom([]int{2, 3, 16}).Draw(rt, "parts")
			rest := size - len(d.Pre) - (n-1)*len(d.Sep)
			for i := 0; i < n; i++ {
				l := rest / (n - i)
				if l < 1 {
					l = 1
				}
				d.L = append(d.L, l)
				rest -= l
			}
		default: // very many short words
			d.L = rapid.SliceOfN(rapid.IntRange(1, 8), 1, 5).Draw(rt, "short")
			d.N = (rapid.SampledFrom([]int{1000, 10000, 10000, 20000}).Draw(rt, "words") + len(d.L) - 1) / len(d.L)
		}
		return d
	})
}

func c20LongClasses(words, maxWord, total int) []string {
	var cl []string
	switch {
	case maxWord >= 65536:
		cl = append(cl, "word>=64Ki")
	case maxWord >= 4096:
		cl = append(cl, "word:4Ki..64Ki-1")
	default:
		cl = append(cl, "word<4Ki")
	}
	switch {
	case total >= 1<<20:
		cl = append(cl, "total>=1Mi")
	case total >= 65536:
		cl = append(cl, "total:64Ki..1Mi-1")
	default:
		cl = append(cl, "total<64Ki")
	}
	if words >= 10000 {
		cl = append(cl, "words>=10000")
	}
	return cl
}

func c20Trunc(msg string) string {
	if len(msg) <= 1200 {
		return msg
	}
	return fmt.Sprintf("%s ...(%d bytes omitted)... %s", msg[:700], len(msg)-1000, msg[len(msg)-300:])
}

func TestVerif_C20_naming_render_long(t *testing.T) {
	tg := c20TemplateGen()
	valid := rapid.SampledFrom([]string{"go_designer", "goDesigner", "GoDesigner", "Go_DESIGNER", "GO#designer", "godesigner", "x-Go.Designer-y"})
	ig := c20LongGen([]string{"a", "abc", "a1", "z9y", "é", "用x", "0"}, []string{"_", "_", "", "__"})
	kit.Run(t, "C20", "naming-render-long", kit.Opts{Quick: 48, Thorough: 1600},
		func(rt *rapid.T) c20LongCase {
			c := c20LongCase{I: ig.Draw(rt, "i")}
			if rapid.IntRange(0, 9).Draw(rt, "tk") < 8 {
				c.T = c20Q(valid.Draw(rt, "t"))
			} else {
				c.T = c20Q(tg.Draw(rt, "t"))
			}
			return c
		},
		func(c c20LongCase) kit.Verdict {
			id, words, maxWord, ok := c20LongBuild(c.I)
			if !ok {
				return kit.Verdict{Excluded: true}
			}
			v := c20Judge(c20U(c.T), id, nil)
			// the per-identifier classes of c20Judge stay; add the size classes
			v.Classes = append(v.Classes, c20LongClasses(words, maxWord, len(id))...)
			v.Fail = c20Trunc(v.Fail)
			return v
		})
}

// ---------------------------------------------------------------- long templates

// c20LongTpl describes prefix + go + through + designer + suffix with parts of
// up to 1 MiB. Fillers contain none of the letters of the two words.
type c20LongTpl struct {
	P  int    `json:"p"`  // byte length of the prefix
	H  int    `json:"h"`  // ... of the through text
	S  int    `json:"s"`  // ... of the suffix
	F  string `json:"f"`  // filler (strconv.Quote'd, no outer quotes)
	Go string `json:"go"` // the go word as written
	De string `json:"de"` // the designer word as written
}

type c20LongTplCase struct {
	T c20LongTpl `json:"t"`
	I string     `json:"i"`
}

func c20Fill(f string, l int) string {
	fill := []rune(f)
	if len(fill) == 0 {
		fill = []rune{'x'}
	}
	var b strings.Builder
	b.Grow(l)
	for k := 0; b.Len() < l; k++ {
		r := fill[k%len(fill)]
		if b.Len()+utf8.RuneLen(r) > l {
			r = 'x'
		}
		b.WriteRune(r)
	}
	return b.String()
}

func TestVerif_C20_naming_template_long(t *testing.T) {
	fillers := []string{"-", "x", "ab", "é", "%", ".#", "前", "a_", "%s", " "}
	idents := []string{"user_info", "welcome_to_go_designer", "HTTPServer", "a", "", "用户_info", "x1_y2_z3"}
	small := rapid.IntRange(0, 5)
	kit.Run(t, "C20", "naming-template-long", kit.Opts{Quick: 32, Thorough: 800},
		func(rt *rapid.T) c20LongTplCase {
			d := c20LongTpl{F: c20Q(rapid.SampledFrom(fillers).Draw(rt, "f")),
				Go: rapid.SampledFrom([]string{"go", "GO", "Go", "gO"}).Draw(rt, "go"),
				De: rapid.SampledFrom([]string{"designer", "DESIGNER", "Designer", "designeR"}).Draw(rt, "de"),
				P:  small.Draw(rt, "p"), H: small.Draw(rt, "h"), S: small.Draw(rt, "s")}
			size := rapid.SampledFrom(c20LongSizes).Draw(rt, "size") + rapid.SampledFrom([]int{0, 0, 0, -2, -1, 1, 2}).Draw(rt, "delta")
			switch rapid.IntRange(0, 3).Draw(rt, "where") {
			case 0:
				d.P = size
			case 1:
				d.H = size
			case 2:
				d.S = size
			default: // the whole template has that size
				d.P = (size - 10 - d.H - d.S)
				if d.P < 0 {
					d.P = 0
				}
			}
			return c20LongTplCase{T: d, I: c20Q(rapid.SampledFrom(idents).Draw(rt, "i"))}
		},
		func(c c20LongTplCase) kit.Verdict {
			d := c.T
			id := c20U(c.I)
			if d.P < 0 || d.H < 0 || d.S < 0 || d.P+d.S > c20LongMax || d.H*(len(c20Words(id, true))+1) > c20LongMax {
				return kit.Verdict{Excluded: true}
			}
			f := c20U(d.F)
			if len(c20Occ(f+f, "go"))+len(c20Occ(f+f, "designer")) > 0 || len(d.Go) != 2 || len(d.De) != 8 {
				return kit.Verdict{Excluded: true}
			}
			tpl := c20Fill(f, d.P) + d.Go + c20Fill(f, d.H) + d.De + c20Fill(f, d.S)
			v := c20Judge(tpl, id, nil)
			for _, part := range []struct {
				n string
				l int
			}{{"prefix", d.P}, {"through", d.H}, {"suffix", d.S}} {
				switch {
				case part.l >= 65536:
					v.Classes = append(v.Classes, part.n+">=64Ki")
				case part.l >= 4096:
					v.Classes = append(v.Classes, part.n+":4Ki..64Ki-1")
				case part.l >= 127:
					v.Classes = append(v.Classes, part.n+":127..4Ki-1")
				}
			}
			v.Fail = c20Trunc(v.Fail)
			return v
		})
}
