package format

// C20 — coordinated pairs. "The result depends on nothing but these inputs":
// two DIFFERENT (template, identifier) pairs that a sloppy cache key, a
// normalising lookup or a joined scratch buffer would confuse must each get
// the file name of their own inputs. Independent random pairs never line up,
// so the variants are derived from one generated pair:
//
//   * every re-split of template+sep+identifier at another occurrence of sep
//     (sep "" : at neighbouring positions): (T+sep+x, c) versus (T, x+sep+c);
//   * pairs differing only by letter case, by a leading / trailing separator,
//     by Unicode normalisation form (NFC / NFD / compatibility look-alikes).
//
// All variants are evaluated in a generated order, then an unrelated call, then
// in the reverse order; every call is judged by c20Judge against the
// reference on ITS OWN inputs, so the oracle is the unchanged one.

import (
	"fmt"
	"strings"
	"testing"
	"unicode/utf8"

	"pgregory.net/rapid"
	"verif.local/kit"
)

type c20PairCase struct {
	T   string `json:"t"`   // strconv.Quote'd, no outer quotes
	I   string `json:"i"`   // contains Sep at least once when generated
	Sep string `json:"sep"` // quoted
	Ord int    `json:"ord"` // seed of the evaluation order
	T2  string `json:"t2,omitempty"`
	I2  string `json:"i2,omitempty"`
}

type c20Variant struct{ kind, t, id string }

var c20PairSeps = []string{"", ":", "|", "/", "\x00", " ", "_", "-", ".", ",", ";", "#"}

// canonical-equivalent / compatibility look-alike spellings
var c20NormPairs = [][2]string{{"é", "é"}, {"ü", "ü"}, {"Å", "Å"}, {"ñ", "ñ"}, {"ǆ", "dž"}, {"ﬁ", "fi"}, {"K", "K"}, {"Ω", "Ω"}}

func c20SwapNorm(s string) string {
	for _, p := range c20NormPairs {
		switch {
		case strings.Contains(s, p[0]):
			return strings.Replace(s, p[0], p[1], 1)
		case strings.Contains(s, p[1]):
			return strings.Replace(s, p[1], p[0], 1)
		}
	}
	return s
}

func c20SwapCase(s string) string {
	b := []byte(s)
	for i, c := range b {
		switch {
		case 'a' <= c && c <= 'z':
			b[i] = c - 32
		case 'A' <= c && c <= 'Z':
			b[i] = c + 32
		}
	}
	return string(b)
}

func c20PairVariants(t, id, sep string) []c20Variant {
	vs := []c20Variant{{"original", t, id}}
	seen := map[string]bool{t + "\x00\x01" + id: true}
	add := func(kind, t2, id2 string) {
		k := t2 + "\x00\x01" + id2
		if !seen[k] && len(vs) < 40 {
			seen[k] = true
			vs = append(vs, c20Variant{kind, t2, id2})
		}
	}
	// re-splits of t+sep+id
	whole := t + sep + id
	var pos []int
	if sep == "" {
		for p := range whole {
			pos = append(pos, p)
		}
		pos = append(pos, len(whole))
	} else {
		for p := 0; p+len(sep) <= len(whole); p++ {
			if whole[p:p+len(sep)] == sep {
				pos = append(pos, p)
			}
		}
	}
	// keep the (up to) 8 nearest on each side of the original cut
	var left, right []int
	for _, p := range pos {
		if p < len(t) {
			left = append(left, p)
		} else if p > len(t) {
			right = append(right, p)
		}
	}
	if len(left) > 8 {
		left = left[len(left)-8:]
	}
	if len(right) > 8 {
		right = right[:8]
	}
	for _, p := range append(left, right...) {
		add("resplit", whole[:p], whole[p+len(sep):])
	}
	// the classic fixed-separator keys, whatever sep was generated
	for _, s := range []string{":", "\x00", "|", "/", " "} {
		if i := strings.Index(id, s); i >= 0 {
			add("resplit", t+s+id[:i], id[i+len(s):])
		}
		if i := strings.LastIndex(t, s); i >= 0 {
			add("resplit", t[:i], t[i+len(s):]+s+id)
		}
	}
	// letter case
	add("case", t, c20SwapCase(id))
	add("case", t, strings.ToLower(id))
	add("case", t, strings.ToUpper(id))
	add("case", c20SwapCase(t), id)
	add("case", strings.ToLower(t), id)
	add("case", strings.ToUpper(t), id)
	if i := len(c20Occ(t, "go")); i > 0 {
		p := c20Occ(t, "go")[0]
		add("case", t[:p]+c20SwapCase(t[p:p+1])+t[p+1:], id) // go <-> Go, GO <-> gO
	}
	// leading / trailing separators
	for _, s := range []string{"_", sep, " "} {
		if s == "" {
			continue
		}
		add("edge", t, id+s)
		add("edge", t, s+id)
		add("edge", t+s, id)
		add("edge", s+t, id)
		add("edge", t, strings.TrimSuffix(id, s))
		add("edge", strings.TrimSuffix(t, s), id)
	}
	// normalisation forms
	add("norm", t, c20SwapNorm(id))
	add("norm", c20SwapNorm(t), id)
	return vs
}

func c20PairsInterp(c c20PairCase) (v kit.Verdict) {
	t, id, sep := c20U(c.T), c20U(c.I), c20U(c.Sep)
	vs := c20PairVariants(t, id, sep)
	// generated evaluation order (Fisher-Yates with an LCG seeded by the case)
	x := uint64(c.Ord)*6364136223846793005 + 1442695040888963407
	for i := len(vs) - 1; i > 0; i-- {
		x = x*6364136223846793005 + 1442695040888963407
		j := int((x >> 33) % uint64(i+1))
		vs[i], vs[j] = vs[j], vs[i]
	}
	cls := map[string]bool{}
	valid := 0
	kinds := map[string]int{}
	run := func(pass string, k int, w c20Variant) bool {
		r := c20Judge(w.t, w.id, nil)
		if pass == "first" {
			kinds[w.kind]++
			for _, cl := range r.Classes {
				if cl == "tpl:valid" {
					valid++
				}
				if strings.HasPrefix(cl, "tpl:") {
					cls[cl] = true
				}
			}
		}
		if r.Fail != "" {
			var hist []string
			for _, h := range vs {
				hist = append(hist, fmt.Sprintf("(%s, %s)", c20Short(h.t), c20Short(h.id)))
			}
			v.Fail = fmt.Sprintf("%s pass, call %d of %d (variant %q of (%s, %s), sep %q): %s; calls of a pass in order: %s",
				pass, k+1, len(vs), w.kind, c20Short(t), c20Short(id), sep, r.Fail, strings.Join(hist, " "))
			v.Known = r.Known
			return false
		}
		return true
	}
	for k, w := range vs {
		if !run("first", k, w) {
			return v
		}
	}
	if c.T2 != "" || c.I2 != "" {
		if r := c20Judge(c20U(c.T2), c20U(c.I2), nil); r.Fail != "" {
			v.Fail = "unrelated call between the passes: " + r.Fail
			return v
		}
	}
	for k := len(vs) - 1; k >= 0; k-- {
		if !run("reverse", len(vs)-1-k, vs[k]) {
			return v
		}
	}
	for cl := range cls {
		v.Classes = append(v.Classes, cl)
	}
	for k, n := range kinds {
		if n > 0 && k != "original" {
			v.Classes = append(v.Classes, "pair:"+k)
		}
	}
	v.Classes = append(v.Classes, fmt.Sprintf("sep:%q", sep))
	if !utf8.ValidString(t) || !utf8.ValidString(id) {
		v.Classes = append(v.Classes, "invalid-utf8")
	}
	// non-trivial: at least two variants are accepted templates and one is a re-split
	v.NonTrivial = valid >= 2 && kinds["resplit"] > 0
	return v
}

func TestVerif_C20_naming_pairs(t *testing.T) {
	tg, ig := c20TemplateGen(), c20IdentGen()
	sepG := rapid.SampledFrom(c20PairSeps)
	part := rapid.OneOf(
		rapid.StringMatching(`[a-z]{1,6}`),
		rapid.SampledFrom([]string{"gen", "model", "user_info", "userInfo", "HTTP", "a", "x1", "é", "Åb", "ǆa", "ﬁle", "用户", "vars", "types", ""}),
	)
	simpleT := rapid.SampledFrom([]string{"go_designer", "goDesigner", "GoDesigner", "godesigner", "Go_Designer", "GO-designer", "go#DESIGNER", "x:go_designer", "go|designer", "go designer"})
	kit.Run(t, "C20", "naming-pairs", kit.Opts{Quick: 3000, Thorough: 160000},
		func(rt *rapid.T) c20PairCase {
			sep := sepG.Draw(rt, "sep")
			c := c20PairCase{Sep: c20Q(sep), Ord: rapid.IntRange(0, 1<<30).Draw(rt, "ord")}
			var tpl string
			if rapid.IntRange(0, 9).Draw(rt, "tk") < 6 {
				tpl = simpleT.Draw(rt, "t")
			} else {
				tpl = tg.Draw(rt, "t")
			}
			var id string
			if rapid.IntRange(0, 9).Draw(rt, "ik") < 8 {
				ps := rapid.SliceOfN(part, 2, 4).Draw(rt, "parts")
				id = strings.Join(ps, sep)
			} else {
				id = ig.Draw(rt, "i")
			}
			c.T, c.I = c20Q(tpl), c20Q(id)
			if rapid.Bool().Draw(rt, "noise") {
				c.T2, c.I2 = c20Q(tg.Draw(rt, "t2")), c20Q(ig.Draw(rt, "i2"))
			}
			return c
		},
		c20PairsInterp)
}
