package stringx

// C20 — overlapping calls. "The result depends on nothing but these inputs"
// and "never fail or panic" must also hold when the generator's helpers run
// on several goroutines at once (hidden shared state such as a package-level
// x/text Caser is invisible to sequential tests).
//
// This file exists twice with identical bodies apart from the constant below:
// harness/C20/util/stringx/ (plain build, rule "parallel-calls") and
// harness/C20/util/stringx@race/ (built with -race, rule "parallel-calls-race").

import (
	"fmt"
	"runtime"
	"strconv"
	"strings"
	"sync"
	"sync/atomic"
	"testing"
	"unicode/utf8"

	"github.com/gotid/god/tools/god/config"
	"github.com/gotid/god/tools/god/util/format"
	"pgregory.net/rapid"
	"verif.local/kit"
)

const c20ParallelRule = "parallel-calls"

type c20PCall struct {
	K string `json:"k"`           // camel snake title untitle format config
	S string `json:"s"`           // receiver / identifier (strconv.Quote'd without the outer quotes)
	T string `json:"t,omitempty"` // template for format / config
}

type c20Par struct {
	R int          `json:"r"` // every goroutine runs its call list R times
	G [][]c20PCall `json:"g"` // one call list per goroutine
}

func c20pQ(s string) string { q := strconv.Quote(s); return q[1 : len(q)-1] }

func c20pU(s string) string {
	u, err := strconv.Unquote(`"` + s + `"`)
	if err != nil {
		panic("c20: case string does not unquote: " + s)
	}
	return u
}

// c20pDo performs one call; panics are recovered and become part of the result.
func c20pDo(k, s, t string) (out string) {
	defer func() {
		if p := recover(); p != nil {
			out = "PANIC: " + fmt.Sprint(p)
		}
	}()
	switch k {
	case "camel":
		return From(s).ToCamel()
	case "snake":
		return From(s).ToSnake()
	case "title":
		return From(s).Title()
	case "untitle":
		return From(s).UnTitle()
	case "format":
		r, err := format.FileNamingFormat(t, s)
		if err != nil {
			return "error: " + err.Error()
		}
		return "ok: " + r
	case "config":
		cfg, err := config.NewConfig(t)
		if err != nil {
			return "config error: " + err.Error()
		}
		r, err := format.FileNamingFormat(cfg.NamingFormat, s)
		if err != nil {
			return "error: " + err.Error()
		}
		return "ok: " + r
	}
	return "unknown call kind " + k
}

func c20pWorks(s string) bool { // the caser / splitter has real work to do
	if !utf8.ValidString(s) {
		return false
	}
	for i := 0; i < len(s); i++ {
		if s[i] >= utf8.RuneSelf {
			return true
		}
	}
	return strings.Contains(strings.Trim(s, "_"), "_") || strings.ToLower(s) != s && len(s) > 1
}

func c20Parallel(c c20Par) (v kit.Verdict) {
	if len(c.G) < 2 || c.R < 1 {
		v.Excluded = true
		return v
	}
	type call struct{ k, s, t, want string }
	plan := make([][]call, len(c.G))
	working := 0
	kinds := map[string]bool{}
	// 1. the same calls made one after the other: the expected results
	for g, list := range c.G {
		w := false
		for _, pc := range list {
			cl := call{k: pc.K, s: c20pU(pc.S), t: c20pU(pc.T)}
			cl.want = c20pDo(cl.k, cl.s, cl.t)
			if strings.HasPrefix(cl.want, "PANIC: ") {
				return v.Failf("sequential %s(%q, template %q) panicked: %s", cl.k, cl.s, cl.t, cl.want)
			}
			if again := c20pDo(cl.k, cl.s, cl.t); again != cl.want {
				return v.Failf("sequential %s(%q, template %q) not deterministic: %q then %q", cl.k, cl.s, cl.t, cl.want, again)
			}
			plan[g] = append(plan[g], cl)
			kinds[cl.k] = true
			if (cl.k == "camel" || cl.k == "title") && c20pWorks(cl.s) {
				w = true
			}
		}
		if w {
			working++
		}
	}
	for k := range kinds {
		v.Classes = append(v.Classes, "kind:"+k)
	}
	v.Classes = append(v.Classes, fmt.Sprintf("goroutines=%d", len(c.G)))
	if working >= 2 {
		v.Classes = append(v.Classes, "title-work-on>=2-goroutines")
	}
	v.NonTrivial = working >= 2

	// 2. the same calls from len(G) goroutines released together, R times
	var ready int32
	start := make(chan struct{})
	var wg sync.WaitGroup
	var mu sync.Mutex
	var firstFail string
	nfail := 0
	n := int32(len(plan))
	for g := range plan {
		wg.Add(1)
		go func(g int) {
			defer wg.Done()
			// start barrier: a short bounded spin for a tight start, then a channel
			// (pure spinning burns the whole quantum when the machine is oversubscribed)
			if atomic.AddInt32(&ready, 1) == n {
				close(start)
			}
			for spin := 0; spin < 200 && atomic.LoadInt32(&ready) < n; spin++ {
				runtime.Gosched()
			}
			<-start
			for r := 0; r < c.R; r++ {
				for i, cl := range plan[g] {
					got := c20pDo(cl.k, cl.s, cl.t)
					if got != cl.want {
						mu.Lock()
						nfail++
						if firstFail == "" {
							firstFail = fmt.Sprintf("goroutine %d of %d, round %d, call %d: %s(%q, template %q) = %q while other calls were running, sequentially it is %q",
								g, n, r, i, cl.k, cl.s, cl.t, got, cl.want)
						}
						mu.Unlock()
						return
					}
				}
			}
		}(g)
	}
	wg.Wait()
	if firstFail != "" {
		return v.Failf("%s (%d goroutine(s) saw a wrong result)", firstFail, nfail)
	}
	return v
}

func TestVerif_C20_parallel_calls(t *testing.T) {
	if p := runtime.GOMAXPROCS(0); p < 4 {
		defer runtime.GOMAXPROCS(runtime.GOMAXPROCS(4))
	}
	ident := rapid.OneOf(
		rapid.SampledFrom([]string{
			"student_course_registration", "welcome_to_go_designer", "user_info", "order_item_detail_snapshot",
			"StudentCourseRegistration", "HTTPServerConfig", "userID", "a_b_CD_EF",
			"用户_info_表", "straße_name_liste", "été_chaud_là", "ǆa_b_ǆc", "İx_y", "ñandú_grande_σς", "前缀_go_后缀",
			"hello world again", "it's_o'neil", "", "_", " ", "a", "\xff_a_b", "x-y_z.w",
		}),
		rapid.StringMatching(`[a-z]{1,8}(_[a-z]{1,8}){1,5}`),
		rapid.StringMatching(`([A-Z][a-z]{1,6}){2,5}`),
		rapid.StringN(0, 12, 40),
	)
	tpl := rapid.SampledFrom([]string{"go_designer", "GoDesigner", "goDesigner", "Go#DESIGNER", "GO_designer", "[Go-Designer]",
		"前缀Go_Designer后缀", "ɐgo_designer", "gO_designer", "designergo", "go", "", " "})
	kind := rapid.SampledFrom([]string{"camel", "camel", "camel", "title", "title", "snake", "untitle", "format", "format", "config"})
	call := rapid.Custom(func(rt *rapid.T) c20PCall {
		c := c20PCall{K: kind.Draw(rt, "k"), S: c20pQ(ident.Draw(rt, "s"))}
		if c.K == "format" || c.K == "config" {
			c.T = c20pQ(tpl.Draw(rt, "t"))
		}
		return c
	})
	kit.Run(t, "C20", c20ParallelRule, kit.Opts{Quick: 1000, Thorough: 8000},
		func(rt *rapid.T) c20Par {
			return c20Par{
				R: rapid.IntRange(20, 200).Draw(rt, "r"),
				G: rapid.SliceOfN(rapid.SliceOfN(call, 1, 5), 2, 8).Draw(rt, "g"),
			}
		},
		c20Parallel)
}
