package stringx

// C20 — stringx.ToCamel / ToSnake: round trip on snake-case identifiers and
// totality on arbitrary strings. Harness injected by /verif (overlay).

import (
	"fmt"
	"os"
	"strconv"
	"strings"
	"testing"
	"unicode/utf8"

	"pgregory.net/rapid"
	"verif.local/kit"
)

type c20Snake struct {
	W []string `json:"w"` // lower-case ASCII words; the identifier is their join with "_"
}

type c20Any struct {
	S string `json:"s"` // strconv.Quote'd without the outer quotes (may be invalid UTF-8)
}

func c20Q(s string) string { q := strconv.Quote(s); return q[1 : len(q)-1] }

func c20U(s string) string {
	u, err := strconv.Unquote(`"` + s + `"`)
	if err != nil {
		panic("c20: case string does not unquote: " + s)
	}
	return u
}

func c20Guard(f func() string) (out string, panicked string) {
	defer func() {
		if p := recover(); p != nil {
			panicked = fmt.Sprint(p)
		}
	}()
	return f(), ""
}

func c20Capital(w string) string { return string(w[0]-('a'-'A')) + w[1:] }

// camel-roundtrip: s = w1_w2_..._wn, wi in [a-z]+  =>  ToSnake(ToCamel(s)) == s,
// and ToCamel(s) is the words capitalised and concatenated (the first word may
// stay lower-case: both forms are "camel case").
func TestVerif_C20_camel_roundtrip(t *testing.T) {
	word := rapid.Custom(func(rt *rapid.T) string {
		switch k := rapid.IntRange(0, 11).Draw(rt, "wk"); {
		case k >= 10:
			// word starts that are digraphs / dotted letters in languages with
			// special title-casing rules (nl ij, tr/az i, hr lj nj dz, lt i)
			return rapid.SampledFrom([]string{"ij", "i", "lj", "nj", "dz", "ijs", "ijsberg", "istanbul", "ik", "ljubav", "njegos", "dzwon", "ii", "iji"}).Draw(rt, "digraph") +
				rapid.StringMatching(`[a-z]{0,4}`).Draw(rt, "rest")
		case k < 2:
			return rapid.StringMatching(`[a-z]`).Draw(rt, "w")
		case k < 9:
			return rapid.StringMatching(`[a-z]{2,8}`).Draw(rt, "w")
		default:
			return rapid.StringMatching(`[a-z]{9,24}`).Draw(rt, "w")
		}
	})
	kit.Run(t, "C20", "camel-roundtrip", kit.Opts{Quick: 10000, Thorough: 1600000},
		func(rt *rapid.T) c20Snake { return c20Snake{W: rapid.SliceOfN(word, 1, 7).Draw(rt, "words")} },
		func(c c20Snake) kit.Verdict { return c20RoundTrip(c.W) })
}

// c20RoundTrip: the round-trip oracle for an identifier given as its words.
func c20RoundTrip(ws []string) (v kit.Verdict) {
	for _, w := range ws { // replay files are data: re-check the precondition
		if w == "" || strings.Trim(w, "abcdefghijklmnopqrstuvwxyz") != "" {
			v.Excluded = true
			return v
		}
	}
	s := strings.Join(ws, "_")
	var ub, lb strings.Builder
	single := false
	for i, w := range ws {
		ub.WriteString(c20Capital(w))
		if i == 0 {
			lb.WriteString(w)
		} else {
			lb.WriteString(c20Capital(w))
		}
		if len(w) == 1 {
			single = true
		}
	}
	upperCamel, lowerCamel := ub.String(), lb.String()
	switch n := len(ws); {
	case n == 1:
		v.Classes = append(v.Classes, "words=1")
	case n == 2:
		v.Classes = append(v.Classes, "words=2")
	default:
		v.Classes = append(v.Classes, "words>=3")
	}
	if single {
		v.Classes = append(v.Classes, "single-letter-word")
	}
	for _, w := range ws {
		if strings.HasPrefix(w, "ij") || strings.HasPrefix(w, "lj") || strings.HasPrefix(w, "nj") || strings.HasPrefix(w, "dz") || strings.HasPrefix(w, "i") {
			v.Classes = append(v.Classes, "digraph-or-i-start")
			break
		}
	}
	if l := os.Getenv("LC_ALL"); l != "" {
		v.Classes = append(v.Classes, "LC_ALL="+l)
	}
	v.NonTrivial = len(ws) >= 2

	camel, p := c20Guard(func() string { return From(s).ToCamel() })
	if p != "" {
		return v.Failf("From(%s).ToCamel() panicked: %s", c20Short(s), p)
	}
	if camel != upperCamel && camel != lowerCamel {
		return v.Failf("From(%s).ToCamel() = %s, want %s (or %s)", c20Short(s), c20Short(camel), c20Short(upperCamel), c20Short(lowerCamel))
	}
	back, p := c20Guard(func() string { return From(camel).ToSnake() })
	if p != "" {
		return v.Failf("From(%s).ToSnake() panicked: %s", c20Short(camel), p)
	}
	if back != s {
		return v.Failf("ToSnake(ToCamel(%s)) = ToSnake(%s) = %s, want the identifier back", c20Short(s), c20Short(camel), c20Short(back))
	}
	camel2, _ := c20Guard(func() string { return From(s).ToCamel() })
	back2, _ := c20Guard(func() string { return From(camel).ToSnake() })
	if camel2 != camel || back2 != back {
		return v.Failf("conversion of %s not deterministic: %s/%s then %s/%s", c20Short(s), c20Short(camel), c20Short(back), c20Short(camel2), c20Short(back2))
	}
	return v
}

// c20Short quotes s, abbreviating the middle of long strings.
func c20Short(s string) string {
	if len(s) <= 160 {
		return strconv.Quote(s)
	}
	return fmt.Sprintf("%s...(%d bytes)...%s", strconv.Quote(s[:60]), len(s), strconv.Quote(s[len(s)-40:]))
}

// stringx-total: the conversions neither panic nor depend on anything but the
// receiver, for any byte string. (Title/UnTitle/ToLower/ToUpper are called by
// the conversions or sit next to them; they are run for panics only.)
func TestVerif_C20_stringx_total(t *testing.T) {
	special := []string{"ſ", "ı", "ǆ", "ǅ", "İ", "ß", "ŉ", "ﬁ", "É", "é", "用户", "\xff", "\xc3", "\xe4\xb8", "\xed\xa0\x80",
		"�", " ", " ", "\t", "\n", "\x00", "'", "’", "-", ".", "_", "__", "A", "a", "Z", "1", "́", "‍", "🙂"}
	piece := rapid.OneOf(
		rapid.SampledFrom(special),
		rapid.StringMatching(`[a-zA-Z0-9_]{0,5}`),
		rapid.StringN(0, 3, 12),
		rapid.Custom(func(rt *rapid.T) string { return string(rapid.SliceOfN(rapid.Byte(), 0, 4).Draw(rt, "b")) }),
	)
	kit.Run(t, "C20", "stringx-total", kit.Opts{Quick: 10000, Thorough: 1600000},
		func(rt *rapid.T) c20Any {
			return c20Any{S: c20Q(strings.Join(rapid.SliceOfN(piece, 1, 6).Draw(rt, "pieces"), ""))}
		},
		func(c c20Any) kit.Verdict { return c20Total(c20U(c.S)) })
}

// c20Total: totality / determinism oracle for one receiver string.
func c20Total(s string) (v kit.Verdict) {
	ascii := true
	for i := 0; i < len(s); i++ {
		if s[i] >= utf8.RuneSelf {
			ascii = false
		}
	}
	switch {
	case s == "":
		v.Classes = append(v.Classes, "empty")
	case !utf8.ValidString(s):
		v.Classes = append(v.Classes, "invalid-utf8")
	case !ascii:
		v.Classes = append(v.Classes, "unicode")
	default:
		v.Classes = append(v.Classes, "ascii")
	}
	if strings.TrimSpace(s) == "" && s != "" {
		v.Classes = append(v.Classes, "blank")
	}
	v.NonTrivial = strings.Trim(s, "abcdefghijklmnopqrstuvwxyz_") != ""
	fns := []struct {
		name string
		f    func(String) string
	}{
		{"ToCamel", String.ToCamel}, {"ToSnake", String.ToSnake},
		{"Title", String.Title}, {"UnTitle", String.UnTitle},
		{"ToLower", String.ToLower}, {"ToUpper", String.ToUpper},
	}
	var first [6]string
	for round := 0; round < 2; round++ {
		for i, fn := range fns {
			out, p := c20Guard(func() string { return fn.f(From(s)) })
			if p != "" {
				return v.Failf("From(%s).%s() panicked: %s", c20Short(s), fn.name, p)
			}
			if round == 0 {
				first[i] = out
			} else if out != first[i] {
				return v.Failf("From(%s).%s() not deterministic: %s then %s", c20Short(s), fn.name, c20Short(first[i]), c20Short(out))
			}
		}
	}
	// the other exported helpers of string.go (Source feeds table / service names
	// into FileNamingFormat; ContainsWhitespace / ContainsAny sit next to the
	// conversions). The statement says nothing about their results: they are run
	// for panics and determinism only (class aux:panics-only).
	v.Classes = append(v.Classes, "aux:panics-only")
	probe := []rune(s)
	if len(probe) > 8 {
		probe = append(probe[:4:4], probe[len(probe)-4:]...)
	}
	probe = append(probe, '_', ' ', 'é', -1, 0x110000)
	aux := func() string {
		return fmt.Sprintf("%q %v %v %v %v", From(s).Source(), ContainsWhitespace(s), ContainsAny(s), ContainsAny(s, probe...), From(s).IsEmptyOrSpace())
	}
	a1, p := c20Guard(aux)
	if p != "" {
		return v.Failf("Source/ContainsWhitespace/ContainsAny/IsEmptyOrSpace on %s panicked: %s", c20Short(s), p)
	}
	if a2, _ := c20Guard(aux); a2 != a1 {
		return v.Failf("Source/ContainsWhitespace/ContainsAny/IsEmptyOrSpace on %s not deterministic: %s then %s", c20Short(s), c20Short(a1), c20Short(a2))
	}
	// chained, as the generator uses them
	if _, p := c20Guard(func() string { return From(From(s).ToCamel()).ToSnake() }); p != "" {
		return v.Failf("ToSnake(ToCamel(%s)) panicked: %s", c20Short(s), p)
	}
	if _, p := c20Guard(func() string { return From(From(s).ToSnake()).ToCamel() }); p != "" {
		return v.Failf("ToCamel(ToSnake(%s)) panicked: %s", c20Short(s), p)
	}
	return v
}
