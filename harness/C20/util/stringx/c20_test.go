package stringx

import (
	"testing"

	"pgregory.net/rapid"
	"verif.local/kit"
)

type c20Probe struct {
	T string `json:"t"`
}

func TestVerif_C20_probe(t *testing.T) {
	kit.Run(t, "C20", "probe", kit.Opts{Quick: 10, Thorough: 10},
		func(rt *rapid.T) c20Probe { return c20Probe{T: rapid.SampledFrom([]string{"go_designer"}).Draw(rt, "t")} },
		func(c c20Probe) kit.Verdict {
			_, err := From(c.T).ToCamel(), error(nil)
			if err != nil {
				return kit.Verdict{Fail: err.Error()}
			}
			return kit.Verdict{NonTrivial: true}
		})
}
