package stringx

// C20 — size class for the stringx rules: identifiers / receivers built from a
// small description (word lengths, filler, separator) with single words and
// totals around powers of two and common buffer sizes, up to 1 MiB and
// 10 000+ words. Oracles unchanged: c20RoundTrip and c20Total of c20_test.go.

import (
	"strings"
	"testing"
	"unicode/utf8"

	"pgregory.net/rapid"
	"verif.local/kit"
)

type c20Long struct {
	L   []int  `json:"l"`             // byte length of every word
	N   int    `json:"n,omitempty"`   // the list L is repeated N times (0: once)
	F   string `json:"f"`             // filler cycled to fill a word (strconv.Quote'd, no outer quotes)
	Sep string `json:"sep"`           // between words
	Pre string `json:"pre,omitempty"` // leading text
}

const c20LongMax = 4 << 20

func c20LongWords(d c20Long) (ws []string, total, maxWord int, ok bool) {
	fill := []rune(c20U(d.F))
	if len(fill) == 0 {
		fill = []rune{'x'}
	}
	n := d.N
	if n < 1 {
		n = 1
	}
	total = len(d.Pre)
	for _, l := range d.L {
		if l < 0 || l > c20LongMax {
			return nil, 0, 0, false
		}
		total += (l + len(d.Sep)) * n
		if total > c20LongMax {
			return nil, 0, 0, false
		}
	}
	total = len(d.Pre)
	for rep := 0; rep < n; rep++ {
		for _, l := range d.L {
			var b strings.Builder
			b.Grow(l)
			for k := 0; b.Len() < l; k++ {
				r := fill[k%len(fill)]
				if b.Len()+utf8.RuneLen(r) > l {
					r = 'x'
				}
				b.WriteRune(r)
			}
			if len(ws) > 0 {
				total += len(d.Sep)
			}
			ws = append(ws, b.String())
			total += l
			if l > maxWord {
				maxWord = l
			}
		}
	}
	return ws, total, maxWord, true
}

var c20LongSizes = []int{65536, 65537, 65535, 4096, 4097, 4095, 32768, 32769, 32767, 256, 257, 255, 128, 129, 127, 131072, 1 << 20}

func c20LongGen(fillers, seps, pres []string) *rapid.Generator[c20Long] {
	return rapid.Custom(func(rt *rapid.T) c20Long {
		d := c20Long{F: c20Q(rapid.SampledFrom(fillers).Draw(rt, "f")), Sep: rapid.SampledFrom(seps).Draw(rt, "sep"),
			Pre: rapid.SampledFrom(pres).Draw(rt, "pre")}
		size := rapid.SampledFrom(c20LongSizes).Draw(rt, "size") + rapid.SampledFrom([]int{0, 0, 0, -2, 2, 3}).Draw(rt, "delta")
		small := func(label string) int { return rapid.IntRange(1, 9).Draw(rt, label) }
		switch k := rapid.IntRange(0, 9).Draw(rt, "shape"); {
		case k < 4:
			d.L = []int{size}
		case k < 6:
			d.L = []int{small("a"), size, small("b")}
		case k < 8:
			n := rapid.SampledFrom([]int{2, 3, 16}).Draw(rt, "parts")
			rest := size - len(d.Pre) - (n-1)*len(d.Sep)
			for i := 0; i < n; i++ {
				l := rest / (n - i)
				if l < 1 {
					l = 1
				}
				d.L = append(d.L, l)
				rest -= l
			}
		default:
			d.L = rapid.SliceOfN(rapid.IntRange(1, 8), 1, 5).Draw(rt, "short")
			d.N = (rapid.SampledFrom([]int{1000, 10000, 10000, 20000}).Draw(rt, "words") + len(d.L) - 1) / len(d.L)
		}
		return d
	})
}

func c20LongClasses(words, maxWord, total int) []string {
	var cl []string
	switch {
	case maxWord >= 65536:
		cl = append(cl, "word>=64Ki")
	case maxWord >= 4096:
		cl = append(cl, "word:4Ki..64Ki-1")
	default:
		cl = append(cl, "word<4Ki")
	}
	switch {
	case total >= 1<<20:
		cl = append(cl, "total>=1Mi")
	case total >= 65536:
		cl = append(cl, "total:64Ki..1Mi-1")
	default:
		cl = append(cl, "total<64Ki")
	}
	if words >= 10000 {
		cl = append(cl, "words>=10000")
	}
	return cl
}

// camel-roundtrip-long: words of [a-z] only, single underscores (the claim's domain).
func TestVerif_C20_camel_roundtrip_long(t *testing.T) {
	g := c20LongGen([]string{"a", "ab", "abcdefghijklmnopqrstuvwxyz", "zy"}, []string{"_"}, []string{""})
	kit.Run(t, "C20", "camel-roundtrip-long", kit.Opts{Quick: 32, Thorough: 800},
		func(rt *rapid.T) c20Long { return g.Draw(rt, "d") },
		func(d c20Long) kit.Verdict {
			ws, total, maxWord, ok := c20LongWords(d)
			if !ok || d.Sep != "_" || d.Pre != "" {
				return kit.Verdict{Excluded: true}
			}
			v := c20RoundTrip(ws)
			v.Classes = append(v.Classes, c20LongClasses(len(ws), maxWord, total)...)
			return v
		})
}

// stringx-total-long: any receiver; fillers with upper case, blanks, separators,
// non-ASCII and invalid bytes so that every splitter / caser path gets long input.
func TestVerif_C20_stringx_total_long(t *testing.T) {
	g := c20LongGen(
		[]string{"a", "Ab", "A", "a b", "aB_", " ", "_", "é", "ſı", "ǆ", "用户", "\xff", "a\xffB", "a1", "x.y-z", "İ"},
		[]string{"_", "", " ", "__", "\n"},
		[]string{"", "", "_", " ", "\xff"})
	kit.Run(t, "C20", "stringx-total-long", kit.Opts{Quick: 32, Thorough: 800},
		func(rt *rapid.T) c20Long { return g.Draw(rt, "d") },
		func(d c20Long) kit.Verdict {
			ws, total, maxWord, ok := c20LongWords(d)
			if !ok {
				return kit.Verdict{Excluded: true}
			}
			v := c20Total(d.Pre + strings.Join(ws, d.Sep))
			v.Classes = append(v.Classes, c20LongClasses(len(ws), maxWord, total)...)
			return v
		})
}
