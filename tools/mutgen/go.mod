module verif.local/mutgen

go 1.23
