// mutgen lists and applies simple syntactic mutations of one Go source file (go/ast based):
// comparison/boolean/arithmetic operator swaps, negated if-conditions, deleted call /
// inc-dec / defer / plain-assignment statements, integer literals +1.
//
//	mutgen -file f.go -list            one JSON line per mutation site
//	mutgen -file f.go -apply N -out g  writes the file with site N mutated
package main

import (
	"bytes"
	"encoding/json"
	"flag"
	"fmt"
	"go/ast"
	"go/format"
	"go/parser"
	"go/token"
	"os"
	"strconv"
)

type site struct {
	ID   int    `json:"id"`
	Line int    `json:"line"`
	Kind string `json:"kind"`
	Desc string `json:"desc"`
}

var swaps = map[token.Token]token.Token{
	token.LSS: token.LEQ, token.LEQ: token.LSS, token.GTR: token.GEQ, token.GEQ: token.GTR,
	token.EQL: token.NEQ, token.NEQ: token.EQL, token.LAND: token.LOR, token.LOR: token.LAND,
	token.ADD: token.SUB, token.SUB: token.ADD,
}

func main() {
	file := flag.String("file", "", "")
	list := flag.Bool("list", false, "")
	apply := flag.Int("apply", -1, "")
	out := flag.String("out", "", "")
	flag.Parse()
	fset := token.NewFileSet()
	f, err := parser.ParseFile(fset, *file, nil, parser.ParseComments)
	if err != nil {
		fmt.Fprintln(os.Stderr, err)
		os.Exit(2)
	}
	n := 0
	var sites []site
	hit := func(pos token.Pos, kind, desc string) bool {
		id := n
		n++
		sites = append(sites, site{id, fset.Position(pos).Line, kind, desc})
		return id == *apply
	}
	// statement deletion needs the enclosing block
	var visitBlock func(list []ast.Stmt)
	visitBlock = func(list []ast.Stmt) {
		for i, st := range list {
			switch s := st.(type) {
			case *ast.ExprStmt:
				if _, ok := s.X.(*ast.CallExpr); ok {
					if hit(s.Pos(), "del-call", "call statement deleted") {
						list[i] = &ast.EmptyStmt{Semicolon: s.Pos()}
					}
				}
			case *ast.IncDecStmt:
				if hit(s.Pos(), "del-incdec", "inc/dec statement deleted") {
					list[i] = &ast.EmptyStmt{Semicolon: s.Pos()}
				}
			case *ast.DeferStmt:
				if hit(s.Pos(), "del-defer", "defer statement deleted") {
					list[i] = &ast.EmptyStmt{Semicolon: s.Pos()}
				}
			case *ast.AssignStmt:
				if s.Tok == token.ASSIGN && len(s.Lhs) == 1 {
					if hit(s.Pos(), "del-assign", "assignment deleted") {
						list[i] = &ast.EmptyStmt{Semicolon: s.Pos()}
					}
				}
			}
		}
	}
	ast.Inspect(f, func(nd ast.Node) bool {
		switch x := nd.(type) {
		case *ast.FuncDecl:
			if x.Body == nil {
				return false
			}
		case *ast.BlockStmt:
			visitBlock(x.List)
		case *ast.CaseClause:
			visitBlock(x.Body)
		case *ast.CommClause:
			visitBlock(x.Body)
		case *ast.BinaryExpr:
			if to, ok := swaps[x.Op]; ok {
				if hit(x.OpPos, "op", x.Op.String()+" -> "+to.String()) {
					x.Op = to
				}
			}
		case *ast.IfStmt:
			if hit(x.Cond.Pos(), "neg-if", "if condition negated") {
				x.Cond = &ast.UnaryExpr{Op: token.NOT, X: &ast.ParenExpr{X: x.Cond}}
			}
		case *ast.BasicLit:
			if x.Kind == token.INT {
				if v, err := strconv.ParseInt(x.Value, 0, 64); err == nil && v >= 0 && v < 1<<31 {
					if hit(x.Pos(), "int+1", x.Value+" -> "+strconv.FormatInt(v+1, 10)) {
						x.Value = strconv.FormatInt(v+1, 10)
					}
				}
			}
		}
		return true
	})
	if *list {
		enc := json.NewEncoder(os.Stdout)
		for _, s := range sites {
			_ = enc.Encode(s)
		}
		return
	}
	if *apply < 0 || *apply >= n {
		fmt.Fprintln(os.Stderr, "no such site")
		os.Exit(2)
	}
	var buf bytes.Buffer
	if err := format.Node(&buf, fset, f); err != nil {
		fmt.Fprintln(os.Stderr, err)
		os.Exit(2)
	}
	if err := os.WriteFile(*out, buf.Bytes(), 0o644); err != nil {
		fmt.Fprintln(os.Stderr, err)
		os.Exit(2)
	}
}
