package kit

import (
	"bytes"
	"fmt"
	"os"
	"path/filepath"
	"runtime"
	"strconv"
	"sync"
	"sync/atomic"
	"syscall"
	"time"
)

// Wedge watchdog.
//
// Inside a synctest bubble a goroutine waiting for a sync.Mutex (or for I/O) is not
// "durably blocked": virtual time stops, nothing can wake the sleepers and the case never
// ends although synctest reports no deadlock. The same happens outside bubbles for a
// real deadlock on a mutex. Such a state is not a slow run: the process consumes no CPU.
// The watchdog (a goroutine outside every bubble, real clock) therefore reports a case as
// hung only when it has been running for wedgeAfter of wall time AND the whole process
// then used (almost) no CPU for a further observation window; a merely slow or starved
// run keeps consuming CPU and is left alone (it ends as "inconclusive" at the test
// time-out, never as a violation). "Used no CPU" alone is not enough on a badly overloaded
// machine: a runnable thread may be given less than 30 ms in 3 s. The watchdog therefore
// also requires that no thread of the process waited for a CPU during the window (sum of
// the threads' run-queue delays from /proc/self/task/*/schedstat, at most 200 ms in 3 s);
// a starved process fails that test and is left alone (sampling thread states was tried
// and rejected: the sampler's own wake-ups make idle runtime threads look runnable).

type wedgeState struct {
	mu    sync.Mutex
	start time.Time
	prop  string
	rule  string
	raw   []byte
	st    *ruleStats
	began time.Time
	gen   uint64
}

var (
	wedge     wedgeState
	wedgeOnce sync.Once
	wedgeGen  atomic.Uint64
)

func cpuTime() time.Duration {
	var ru syscall.Rusage
	if err := syscall.Getrusage(syscall.RUSAGE_SELF, &ru); err != nil {
		return -1
	}
	return time.Duration(ru.Utime.Nano() + ru.Stime.Nano())
}

// runDelay sums the time the process's threads spent runnable but waiting for a CPU.
// ok is false where the kernel does not provide schedstat.
func runDelay() (d time.Duration, ok bool) {
	files, _ := filepath.Glob("/proc/self/task/*/schedstat")
	for _, f := range files {
		b, err := os.ReadFile(f)
		if err != nil {
			continue
		}
		fs := bytes.Fields(b)
		if len(fs) < 2 {
			continue
		}
		n, err := strconv.ParseInt(string(fs[1]), 10, 64)
		if err != nil {
			continue
		}
		d += time.Duration(n)
		ok = true
	}
	return d, ok
}

// quietWindow observes the process for d and reports whether it neither used CPU nor had
// threads waiting for a CPU (a thread that is runnable but starved accumulates run-queue
// delay at the rate of real time; an idle process accumulates a few milliseconds from the
// runtime's own periodic wake-ups).
func quietWindow(d time.Duration) bool {
	c0 := cpuTime()
	r0, rok := runDelay()
	time.Sleep(d)
	c1 := cpuTime()
	r1, _ := runDelay()
	if c0 < 0 || c1 < 0 || c1-c0 > 30*time.Millisecond {
		return false
	}
	if rok && r1-r0 > 200*time.Millisecond {
		return false
	}
	return true
}

func wedgeAfter() time.Duration {
	if v := os.Getenv("VERIF_WEDGE_AFTER"); v != "" {
		if d, err := time.ParseDuration(v); err == nil {
			return d
		}
	}
	return 45 * time.Second
}

func wedgeEnter(prop, rule string, raw []byte, st *ruleStats, began time.Time) {
	wedgeOnce.Do(func() { go wedgeLoop() })
	wedge.mu.Lock()
	wedge.start = time.Now()
	wedge.prop, wedge.rule, wedge.raw, wedge.st, wedge.began = prop, rule, raw, st, began
	wedge.gen = wedgeGen.Add(1)
	wedge.mu.Unlock()
}

func wedgeLeave() {
	wedge.mu.Lock()
	wedge.start = time.Time{}
	wedge.gen = wedgeGen.Add(1)
	wedge.mu.Unlock()
}

func wedgeLoop() {
	after := wedgeAfter()
	for {
		time.Sleep(2 * time.Second)
		wedge.mu.Lock()
		start, gen := wedge.start, wedge.gen
		wedge.mu.Unlock()
		if start.IsZero() || time.Since(start) < after {
			continue
		}
		// observation window: 3 samples of 3 s, all (almost) idle, same case still running
		idle := true
		for i := 0; i < 3 && idle; i++ {
			quiet := quietWindow(3 * time.Second)
			wedge.mu.Lock()
			same := wedge.gen == gen
			wedge.mu.Unlock()
			if !same || !quiet {
				idle = false
			}
		}
		if !idle {
			continue
		}
		wedge.mu.Lock()
		prop, rule, raw, st, began := wedge.prop, wedge.rule, wedge.raw, wedge.st, wedge.began
		wedge.mu.Unlock()
		msg := fmt.Sprintf("hang: the case made no progress for %s of real time while the process used no CPU "+
			"(goroutines wait on a mutex/Cond/IO that nothing will release; inside a bubble virtual time cannot advance); see goroutine dump in the log", time.Since(start).Round(time.Second))
		v := Verdict{Fail: msg}
		p := writeReplay(prop, rule, raw, v)
		buf := make([]byte, 1<<20)
		n := runtime.Stack(buf, true)
		fmt.Fprintf(os.Stderr, "\n==== kit wedge watchdog: %s\n%s\n", msg, buf[:n])
		if st != nil {
			func() {
				defer func() { _ = recover() }()
				st.Failures = []failure{{Message: msg, Replay: p}}
				st.flush(began)
			}()
		}
		os.Exit(3)
	}
}

// QuietWindow is quietWindow for harnesses that need their own no-progress detector (a case
// that blocks on a sync.Mutex freezes its bubble; a harness running the bubble on a goroutine
// of its own may call a case wedged only after windows in which the process neither used CPU
// nor waited for one). It sleeps for d of REAL time: call it outside bubbles only.
func QuietWindow(d time.Duration) bool { return quietWindow(d) }
