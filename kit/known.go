package kit

import (
	"bufio"
	"os"
	"strings"
	"sync"
)

var (
	knownOnce sync.Once
	knownOpen map[string]bool
)

// KnownOpen reports whether known_findings.txt lists an OPEN finding
// "open: property=<prop> id=<id> ...". Fixed entries suppress nothing.
func KnownOpen(prop, id string) bool {
	knownOnce.Do(func() {
		knownOpen = map[string]bool{}
		f, err := os.Open(env("VERIF_KNOWN", "/verif/known_findings.txt"))
		if err != nil {
			return
		}
		defer f.Close()
		sc := bufio.NewScanner(f)
		for sc.Scan() {
			line := strings.TrimSpace(sc.Text())
			if !strings.HasPrefix(line, "open:") {
				continue
			}
			var p, i string
			for _, w := range strings.Fields(line) {
				if strings.HasPrefix(w, "property=") {
					p = strings.TrimPrefix(w, "property=")
				}
				if strings.HasPrefix(w, "id=") {
					i = strings.TrimPrefix(w, "id=")
				}
			}
			if p != "" && i != "" {
				knownOpen[p+"/"+i] = true
			}
		}
	})
	return knownOpen[prop+"/"+id]
}
