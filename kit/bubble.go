package kit

import (
	"fmt"
	"strings"
	"testing"
	"testing/synctest"
)

// BubbleResult describes how a synctest bubble ended.
type BubbleResult struct {
	// Leak: the root function returned while bubble goroutines were still blocked.
	Leak bool
	// Hang: every goroutine of the bubble (root included) was durably blocked.
	Hang bool
	// Panic: any other panic value raised by the root function (formatted).
	Panic string
	Raw   string
}

func (b BubbleResult) OK() bool { return !b.Leak && !b.Hang && b.Panic == "" }

func (b BubbleResult) String() string {
	switch {
	case b.Leak:
		return "leak: " + b.Raw
	case b.Hang:
		return "hang: " + b.Raw
	case b.Panic != "":
		return "panic: " + b.Panic
	}
	return "ok"
}

// Bubble runs f in a fresh synctest bubble (virtual time starting at
// 2000-01-01) and reports leaks/hangs as values instead of test failures.
func Bubble(t *testing.T, f func()) (res BubbleResult) {
	defer func() {
		if r := recover(); r != nil {
			s := fmt.Sprint(r)
			res.Raw = s
			switch {
			case strings.Contains(s, "blocked goroutines remain"):
				res.Leak = true
			case strings.Contains(s, "all goroutines in bubble are blocked"):
				res.Hang = true
			default:
				res.Panic = s
			}
		}
	}()
	synctest.Test(t, func(*testing.T) { f() })
	return
}

// Wait is synctest.Wait.
func Wait() { synctest.Wait() }
