// Package kit is the shared runtime of the /verif property-based checks:
// case recording, evidence fragments, replay files, known-finding matching.
//
// A case is plain data (JSON-serialisable) drawn by a rapid generator and then
// interpreted against the code under test by an interpreter that returns a
// Verdict. Shrinking is rapid's; the shrunk case is written as a replay file
// and can be re-interpreted without rapid (VERIF_REPLAY).
package kit

import (
	"crypto/sha256"
	"encoding/binary"
	"encoding/json"
	"flag"
	"fmt"
	"os"
	"path/filepath"
	"runtime/debug"
	"sort"
	"strconv"
	"strings"
	"sync"
	"testing"
	"time"

	"pgregory.net/rapid"
)

// Verdict is what an interpreter reports for one case.
type Verdict struct {
	// Fail is non-empty when an oracle was violated on this case.
	Fail string
	// Known names the known-finding predicate that characterises this
	// failure (empty: none). Only consulted when Fail is non-empty.
	Known string
	// NonTrivial by the property's stated rule.
	NonTrivial bool
	// Classes are labels for the distribution histogram.
	Classes []string
	// Excluded: the case is outside the claim (counted, not judged).
	Excluded bool
}

// Failf builds a failing verdict keeping the other fields.
func (v Verdict) Failf(format string, args ...any) Verdict {
	if v.Fail == "" {
		v.Fail = fmt.Sprintf(format, args...)
	}
	return v
}

// Opts configures one rule.
type Opts struct {
	Quick    int // cases in the quick tier
	Thorough int // cases in the thorough tier (all shards together)
	// NoShard: the rule is not split over shards (only shard 0 runs it).
	NoShard bool
}

type sample struct {
	hash uint64
	c    json.RawMessage
}

type ruleStats struct {
	Property     string            `json:"property"`
	Rule         string            `json:"rule"`
	Shard        int               `json:"shard"`
	Seed         uint64            `json:"seed"`
	Requested    int               `json:"requested"`
	Evaluations  int               `json:"evaluations"`
	NonTrivial   int               `json:"nontrivial_distinct"`
	Excluded     int               `json:"excluded"`
	Classes      map[string]int    `json:"classes"`
	Samples      []json.RawMessage `json:"samples"`
	KnownHits    map[string]int    `json:"known_hits"`
	KnownExample map[string]string `json:"known_example"`
	Failures     []failure         `json:"failures"`
	Exhaustive   bool              `json:"exhaustive"`
	Note         string            `json:"note,omitempty"`
	WallS        float64           `json:"wall_s"`

	first    []json.RawMessage
	firstAny []json.RawMessage
	smallest []sample
	hashes   map[uint64]struct{}
}

type failure struct {
	Message string `json:"message"`
	Replay  string `json:"replay"`
}

// ReplayFile is the on-disk form of a shrunk failing case.
type ReplayFile struct {
	Property string          `json:"property"`
	Rule     string          `json:"rule"`
	Message  string          `json:"message"`
	Known    string          `json:"known,omitempty"`
	Case     json.RawMessage `json:"case"`
}

var (
	mu sync.Mutex
)

func env(k, d string) string {
	if v := os.Getenv(k); v != "" {
		return v
	}
	return d
}

// Tier returns "quick" or "thorough".
func Tier() string { return env("VERIF_TIER", "quick") }

// Thorough reports whether the thorough tier runs.
func Thorough() bool { return Tier() == "thorough" }

func shard() (i, n int) {
	s := env("VERIF_SHARD", "0/1")
	p := strings.SplitN(s, "/", 2)
	i, _ = strconv.Atoi(p[0])
	n = 1
	if len(p) == 2 {
		n, _ = strconv.Atoi(p[1])
	}
	if n < 1 {
		n = 1
	}
	return
}

// Seed is the run seed (VERIF_SEED, 0 remapped to 1) combined with the shard.
func Seed() uint64 {
	s, _ := strconv.ParseUint(env("VERIF_SEED", "1"), 10, 64)
	if s == 0 {
		s = 1
	}
	i, n := shard()
	if n > 1 {
		s = s*1000 + uint64(i)
	}
	return s
}

// WorkDir is a scratch directory for this run (under /verif/.work).
func WorkDir() string {
	d := env("VERIF_WORK", "")
	if d == "" {
		d = filepath.Join(os.TempDir(), "verif-work")
	}
	_ = os.MkdirAll(d, 0o755)
	return d
}

func outDir() string {
	d := env("VERIF_OUT", "")
	if d == "" {
		d = filepath.Join(WorkDir(), "out")
	}
	_ = os.MkdirAll(d, 0o755)
	return d
}

func replayDir(prop string) string {
	d := env("VERIF_REPLAYS", "")
	if d == "" {
		d = filepath.Join(WorkDir(), "replays")
	}
	d = filepath.Join(d, prop)
	_ = os.MkdirAll(d, 0o755)
	return d
}

func hash64(b []byte) uint64 {
	h := sha256.Sum256(b)
	return binary.LittleEndian.Uint64(h[:8])
}

func newStats(prop, rule string) *ruleStats {
	i, _ := shard()
	return &ruleStats{Property: prop, Rule: rule, Shard: i, Seed: Seed(),
		Classes: map[string]int{}, KnownHits: map[string]int{}, KnownExample: map[string]string{},
		hashes: map[uint64]struct{}{}}
}

func (s *ruleStats) record(raw []byte, v Verdict) {
	s.Evaluations++
	if len(s.firstAny) < 2 && len(raw) < 16384 {
		s.firstAny = append(s.firstAny, append(json.RawMessage(nil), raw...))
	}
	if v.Excluded {
		s.Excluded++
	}
	for _, c := range v.Classes {
		s.Classes[c]++
	}
	if v.NonTrivial {
		s.Classes["nontrivial"]++
		h := hash64(raw)
		if _, ok := s.hashes[h]; !ok {
			s.hashes[h] = struct{}{}
			if len(s.first) < 2 {
				s.first = append(s.first, append(json.RawMessage(nil), raw...))
			}
			if len(raw) < 4096 {
				s.smallest = append(s.smallest, sample{h, append(json.RawMessage(nil), raw...)})
				if len(s.smallest) > 64 {
					sort.Slice(s.smallest, func(i, j int) bool { return s.smallest[i].hash < s.smallest[j].hash })
					s.smallest = s.smallest[:2]
				}
			}
		}
	}
}

func (s *ruleStats) flush(start time.Time) {
	s.NonTrivial = len(s.hashes)
	sort.Slice(s.smallest, func(i, j int) bool { return s.smallest[i].hash < s.smallest[j].hash })
	s.Samples = append([]json.RawMessage(nil), s.first...)
	for i := 0; i < len(s.smallest) && i < 2; i++ {
		s.Samples = append(s.Samples, s.smallest[i].c)
	}
	if len(s.Samples) == 0 {
		s.Samples = s.firstAny // no non-trivial case in this run: show what was generated
	}
	s.WallS = time.Since(start).Seconds()
	base := filepath.Join(outDir(), fmt.Sprintf("%s.%s.%d", s.Property, s.Rule, s.Shard))
	b, _ := json.Marshal(s)
	_ = os.WriteFile(base+".json", b, 0o644)
	hb := make([]byte, 0, 8*len(s.hashes))
	for h := range s.hashes {
		hb = binary.LittleEndian.AppendUint64(hb, h)
	}
	_ = os.WriteFile(base+".hashes", hb, 0o644)
}

// ruleSuffix distinguishes the evidence of a variant unit (same sources, other process
// environment, e.g. GOMAXPROCS=1) from the main unit's; replay files keep the plain rule name.
func ruleSuffix() string { return os.Getenv("VERIF_RULE_SUFFIX") }

func writeReplay(prop, rule string, raw []byte, v Verdict) string {
	rf := ReplayFile{Property: prop, Rule: rule, Message: v.Fail, Known: v.Known, Case: raw}
	b, _ := json.MarshalIndent(rf, "", " ")
	p := filepath.Join(replayDir(prop), fmt.Sprintf("%s%s-shard%d.json", rule, ruleSuffix(), func() int { i, _ := shard(); return i }()))
	_ = os.WriteFile(p, b, 0o644)
	return p
}

// Run drives one rule: gen draws a case, interp judges it.
func Run[C any](t *testing.T, prop, rule string, o Opts, gen func(*rapid.T) C, interp func(C) Verdict) {
	t.Helper()
	start := time.Now()
	st := newStats(prop, rule+ruleSuffix())
	defer st.flush(start)

	judge := func(c C, fatal func(string)) {
		raw, err := json.Marshal(c)
		if err != nil {
			panic("kit: case not serialisable: " + err.Error())
		}
		if os.Getenv("VERIF_TRACE") != "" {
			_ = os.WriteFile(filepath.Join(outDir(), fmt.Sprintf("%s.%s.current.json", prop, rule)), raw, 0o644)
			_ = os.WriteFile(filepath.Join(outDir(), prop+".last"), []byte(rule), 0o644)
		}
		wedgeEnter(prop, rule, raw, st, start)
		v := runInterp(interp, c)
		wedgeLeave()
		mu.Lock()
		st.record(raw, v)
		mu.Unlock()
		if v.Fail == "" {
			return
		}
		if v.Known != "" && KnownOpen(prop, v.Known) {
			st.KnownHits[v.Known]++
			if _, ok := st.KnownExample[v.Known]; !ok || len(raw) < len(st.KnownExample[v.Known]) {
				st.KnownExample[v.Known] = string(raw)
			}
			return
		}
		p := writeReplay(prop, rule, raw, v)
		if len(st.Failures) == 0 {
			st.Failures = append(st.Failures, failure{})
		}
		st.Failures[0] = failure{Message: v.Fail, Replay: p}
		fatal(v.Fail)
	}

	// 1. explicit replay of one file
	if rp := os.Getenv("VERIF_REPLAY"); rp != "" {
		replayOne(t, prop, rule, rp, st, judge)
		return
	}
	// 2. regression tier: committed replays of this rule
	if dir := os.Getenv("VERIF_REGRESS"); dir != "" {
		files, _ := filepath.Glob(filepath.Join(dir, prop, rule+"-*.json"))
		sort.Strings(files)
		for _, f := range files {
			replayOne(t, prop, rule, f, st, judge)
			if t.Failed() {
				return
			}
		}
	}
	// 3. generated search
	i, n := shard()
	if o.NoShard && i != 0 {
		t.Skip("rule not sharded")
	}
	checks := o.Quick
	if Thorough() {
		checks = o.Thorough
		if !o.NoShard {
			checks = (checks + n - 1) / n
		}
	}
	if m := os.Getenv("VERIF_CHECKS_MULT"); m != "" {
		f, _ := strconv.ParseFloat(m, 64)
		if f > 0 {
			checks = int(float64(checks) * f)
		}
	}
	if checks < 1 {
		checks = 1
	}
	st.Requested = checks
	_ = flag.Set("rapid.checks", strconv.Itoa(checks))
	rs := Seed()*0x9E3779B97F4A7C15 ^ hash64([]byte(rule))
	if rs == 0 {
		rs = 1
	}
	_ = flag.Set("rapid.seed", strconv.FormatUint(rs, 10))
	_ = flag.Set("rapid.nofailfile", "true")
	_ = flag.Set("rapid.shrinktime", env("VERIF_SHRINKTIME", "20s"))
	rapid.Check(t, func(rt *rapid.T) {
		c := gen(rt)
		judge(c, func(msg string) { rt.Fatalf("%s", msg) })
	})
}

// runInterp runs the interpreter and turns a panic that escapes it on the calling goroutine
// (code under test called directly by the interpreter, outside any recover of the harness)
// into a failing verdict, so that the case is written as a replay file, shrunk, and reported
// as a VIOLATION instead of ending as rapid's own "panic after N tests" (no replay file,
// which the driver could only report as inconclusive).
func runInterp[C any](interp func(C) Verdict, c C) (v Verdict) {
	defer func() {
		if p := recover(); p != nil {
			stack := string(debug.Stack())
			if len(stack) > 3000 {
				stack = stack[:3000] + "..."
			}
			v = Verdict{NonTrivial: true, Classes: []string{"panic-escaped-the-interpreter"},
				Fail: fmt.Sprintf("panic escaped the interpreter: %v\n%s", p, stack)}
		}
	}()
	return interp(c)
}

func replayOne[C any](t *testing.T, prop, rule, path string, st *ruleStats, judge func(C, func(string))) {
	b, err := os.ReadFile(path)
	if err != nil {
		t.Fatalf("replay: %v", err)
	}
	var rf ReplayFile
	if err := json.Unmarshal(b, &rf); err != nil {
		t.Fatalf("replay %s: %v", path, err)
	}
	if rf.Property != prop || rf.Rule != rule {
		return
	}
	var c C
	if err := json.Unmarshal(rf.Case, &c); err != nil {
		t.Fatalf("replay %s: case does not decode: %v", path, err)
	}
	st.Classes["replayed"]++
	judge(c, func(msg string) { t.Errorf("replay %s: %s", path, msg) })
}

// Enumerate drives one rule over an explicitly enumerated finite space.
// next is called until it returns false; the rule is marked exhaustive.
func Enumerate[C any](t *testing.T, prop, rule string, each func(yield func(C) bool), interp func(C) Verdict) {
	t.Helper()
	start := time.Now()
	st := newStats(prop, rule+ruleSuffix())
	st.Exhaustive = true
	defer st.flush(start)
	judge := func(c C, fatal func(string)) {
		raw, _ := json.Marshal(c)
		wedgeEnter(prop, rule, raw, st, start)
		v := runInterp(interp, c)
		wedgeLeave()
		st.record(raw, v)
		if v.Fail != "" && !(v.Known != "" && KnownOpen(prop, v.Known)) {
			p := writeReplay(prop, rule, raw, v)
			st.Failures = append(st.Failures, failure{Message: v.Fail, Replay: p})
			fatal(v.Fail)
		}
	}
	if rp := os.Getenv("VERIF_REPLAY"); rp != "" {
		replayOne(t, prop, rule, rp, st, judge)
		return
	}
	if dir := os.Getenv("VERIF_REGRESS"); dir != "" {
		files, _ := filepath.Glob(filepath.Join(dir, prop, rule+"-*.json"))
		sort.Strings(files)
		for _, f := range files {
			replayOne(t, prop, rule, f, st, judge)
		}
	}
	si, sn := shard()
	idx := 0
	each(func(c C) bool {
		idx++
		if sn > 1 && idx%sn != si {
			return true
		}
		raw, _ := json.Marshal(c)
		wedgeEnter(prop, rule, raw, st, start)
		v := runInterp(interp, c)
		wedgeLeave()
		st.record(raw, v)
		if v.Fail == "" {
			return true
		}
		if v.Known != "" && KnownOpen(prop, v.Known) {
			st.KnownHits[v.Known]++
			if _, ok := st.KnownExample[v.Known]; !ok {
				st.KnownExample[v.Known] = string(raw)
			}
			return true
		}
		p := writeReplay(prop, rule, raw, v)
		st.Failures = append(st.Failures, failure{Message: v.Fail, Replay: p})
		t.Errorf("%s", v.Fail)
		return false
	})
	st.Requested = st.Evaluations
}

// Fuzz registers a native Go fuzz target (coverage-guided, thorough tier only):
// the fuzzer's bytes are decoded by rapid into the same generator that the
// random search uses, the case is judged by the same interpreter, and a failing
// case is written as a replay file (the last one written is the fuzzer's
// minimised input). Statistics are flushed periodically because fuzz workers
// are separate processes that are killed at the end of the campaign.
func Fuzz[C any](f *testing.F, prop, rule string, seeds [][]byte, gen func(*rapid.T) C, interp func(C) Verdict) {
	f.Helper()
	start := time.Now()
	st := newStats(prop, rule+ruleSuffix())
	st.Shard = os.Getpid()
	st.Note = "native go fuzzing worker; evaluations counted per worker process"
	f.Add([]byte{})
	for _, s := range seeds {
		f.Add(s)
	}
	var n int
	target := rapid.MakeFuzz(func(rt *rapid.T) {
		c := gen(rt)
		raw, err := json.Marshal(c)
		if err != nil {
			panic("kit: case not serialisable: " + err.Error())
		}
		v := runInterp(interp, c)
		mu.Lock()
		st.record(raw, v)
		n++
		flush := n%2000 == 0 || v.Fail != ""
		mu.Unlock()
		if v.Fail != "" {
			if v.Known != "" && KnownOpen(prop, v.Known) {
				st.KnownHits[v.Known]++
				if _, ok := st.KnownExample[v.Known]; !ok {
					st.KnownExample[v.Known] = string(raw)
				}
				return
			}
			p := writeReplay(prop, rule, raw, v)
			st.Failures = []failure{{Message: v.Fail, Replay: p}}
			st.Requested = st.Evaluations
			st.flush(start)
			rt.Fatalf("%s", v.Fail)
		}
		if flush {
			mu.Lock()
			st.Requested = st.Evaluations
			st.flush(start)
			mu.Unlock()
		}
	})
	// Zero padding makes every input decode to a complete case (draws past the end of
	// the fuzzer's bytes take their minimal value) instead of being skipped as
	// "invalid data", so coverage guidance works on real behaviour from the first input.
	f.Fuzz(func(t *testing.T, in []byte) {
		buf := make([]byte, len(in)+8192)
		copy(buf, in)
		target(t, buf)
	})
}
