package kit

import "math"

// HoeffdingEps returns eps such that for m independent [0,1] samples
// P(|mean - E| >= eps) <= alpha (two-sided).
func HoeffdingEps(m int, alpha float64) float64 {
	return math.Sqrt(math.Log(2/alpha) / (2 * float64(m)))
}
