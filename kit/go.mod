module verif.local/kit

go 1.19

require pgregory.net/rapid v1.3.0
