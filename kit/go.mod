module verif.local/kit

go 1.23

require pgregory.net/rapid v1.3.0
